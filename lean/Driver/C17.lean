import Driver.Util
import GqlgenVerif.Model.Naming
import GqlgenVerif.Model.TypeRef
import GqlgenVerif.Model.Flavour
import GqlgenVerif.Model.PkgName
import GqlgenVerif.Model.EmbedPath
import GqlgenVerif.Model.ExecLayout
import GqlgenVerif.Gen.BuildGuards
import GqlgenVerif.Model.DirArgs
import GqlgenVerif.Gen.GenerateSteps
/-! Line-protocol driver for C17: the naming model on the harness's cases. Text travels as hex of UTF-8;
the model works on code points (the harness sends ASCII, type identifiers are returned as code points
re-encoded to UTF-8). -/
open GqlgenVerif GqlgenVerif.Naming
namespace Driver.C17

def ofHex (h : String) : Option Name := unhex h

/-- code points -> UTF-8 hex -/
def toHex (n : Name) : String := hex (bytesOf (String.ofList (n.map Char.ofNat)))

/-- hex of UTF-8 -> code points -/
def cpOfHex (h : String) : Option Name := do
  let bs ← unhex h
  let ba := ByteArray.mk (bs.map (·.toUInt8)).toArray
  let s ← String.fromUTF8? ba
  pure (s.toList.map Char.toNat)

def hexList (s : String) : Option (List Name) :=
  if s = "" then some [] else (s.splitOn ",").mapM ofHex

def showWord (w : WordInfo) : String :=
  s!"{w.wordOffset}:{toHex w.word}:{if w.matchCI then 1 else 0}:{if w.hasCI then 1 else 0}"

partial def parseType : List String → Option GoType
  | [] => none
  | "p" :: r => (parseType r).map .pointer
  | "s" :: r => (parseType r).map .slice
  | ["m"] => some .map
  | ["i"] => some .iface
  | [t] =>
    let body := (t.drop 1).toString
    match t.front with
    | 'b' => (cpOfHex body).map .basic
    | 'n' =>
      match body.splitOn "." with
      | [p, n] => do pure (.named (← cpOfHex p) (← cpOfHex n))
      | _ => none
    | _ => none
  | _ => none

def parseField (s : String) : Option FieldDecl :=
  match s.splitOn "/" with
  | [] => none
  | n :: args => do pure { name := ← ofHex n, args := ← args.mapM ofHex }

def parseDecl (s : String) : Option TypeDecl :=
  match s.splitOn ":" with
  | [k, n, impls, fields, values] => do
    let kind ← (match k with | "i" => some Kind.iface | "m" => some Kind.model | "e" => some Kind.enum | "r" => some Kind.root | _ => none)
    let fs ← if fields = "" then some [] else (fields.splitOn ",").mapM parseField
    pure { kind := kind, name := ← ofHex n, impls := ← hexList impls, fields := fs, values := ← hexList values }
  | _ => none

def showScope : Scope → String
  | .pkg => "pkg"
  | .struct g => s!"struct.{toHex g}"
  | .resolver t => s!"res.{toHex t}"
  | .args t f => s!"args.{toHex t}.{toHex f}"

def showEmitted (l : List (Scope × Name)) : String :=
  ";".intercalate (l.map fun (s, n) => s!"{showScope s}={toHex n}")

/-- first duplicate of a list -/
def firstDup : List (String × Name) → Option (String × Name)
  | [] => none
  | x :: r => if r.contains x then some x else firstDup r

/-- Spec on a list `scope=ident` reported by the implementation: every identifier valid, no scope declares
one twice -/
def chkEmit (items : List String) : String :=
  let parsed := items.filterMap fun it =>
    match it.splitOn "=" with
    | [s, h] => (cpOfHex h).map fun n => (s, n)
    | _ => none
  if parsed.length != items.length then "bad-op" else
  match parsed.find? (fun p => !validIdent p.2 || goKeywords.contains p.2) with
  | some (s, n) => s!"violates:invalid-ident:{s}:{toHex n}"
  | none =>
    match firstDup parsed with
    | some (s, n) => s!"violates:duplicate:{s}:{toHex n}"
    | none => "ok"

/-! ### type references (Model/TypeRef.lean) -/
open GqlgenVerif.TypeRef in
partial def parseGType : List String → Option GType
  | [] => none
  | t :: r =>
    let nn := (t.drop 1).take 1 == "1"
    match t.front with
    | 'L' => (parseGType r).map (GType.list · nn)
    | 'N' => if r.isEmpty then some (GType.named ((t.drop 3).toString) nn) else none
    | _ => none

open GqlgenVerif.TypeRef in
partial def parseGoT : List String → Option GoT
  | ["b"] => some .basic | ["t"] => some .struct | ["m"] => some .map | ["i"] => some .iface
  | ["a"] => some .array | ["c"] => some .chan
  | "n" :: r => (parseGoT r).map .named
  | "s" :: r => (parseGoT r).map .slice
  | "p" :: r => (parseGoT r).map .ptr
  | _ => none

open GqlgenVerif.TypeRef in
/-- prefix encoding `n | a<hex> | l<k>,v1,…,vk` -/
partial def parseVal : List String → Option (Val × List String)
  | [] => none
  | t :: r =>
    match t.front with
    | 'n' => some (.null, r)
    | 'a' => do
      let bs ← unhex (t.drop 1).toString
      pure (.atom (ascii bs), r)
    | 'l' => do
      let k ← (t.drop 1).toString.toNat?
      let rec go (k : Nat) (r : List String) (acc : List Val) : Option (List Val × List String) :=
        match k with
        | 0 => some (acc.reverse, r)
        | k + 1 => do
          let (v, r') ← parseVal r
          go k r' (v :: acc)
      let (vs, r') ← go k r []
      pure (.list vs, r')
    | _ => none

open GqlgenVerif.TypeRef in
def encGoT : GoT → String
  | .basic => "b" | .struct => "t" | .map => "m" | .iface => "i" | .array => "a" | .chan => "c"
  | .named u => "n," ++ encGoT u
  | .slice e => "s," ++ encGoT e
  | .ptr e => "p," ++ encGoT e

open GqlgenVerif.TypeRef in
def encGType : GType → String
  | .named t nn => s!"N{if nn then 1 else 0}:{t}"
  | .list e nn => s!"L{if nn then 1 else 0}," ++ encGType e

def jsonStr (s : String) : String :=
  "\"" ++ String.join (s.toList.map fun c => if c == '"' then "\\\"" else if c == '\\' then "\\\\" else c.toString) ++ "\""

open GqlgenVerif.TypeRef in
partial def showOut : Out → String
  | .null => "null"
  | .leaf tag text => jsonStr (if tag == "-" then text else tag ++ "|" ++ text)
  | .arr l => "[" ++ ",".intercalate (l.map showOut) ++ "]"
  | .fail w => "FAIL:" ++ w

open GqlgenVerif.TypeRef in
def showChain (go : GoT) (g : GType) : String :=
  let b (x : Bool) := if x then "1" else "0"
  let (steps, panicked) := processType go g
  let ss := steps.map fun (t, q) =>
    b (isSlice q t) ++ b t.isPtrToSlice ++ b t.isPtrToPtr ++ b t.isPtrToIntf ++ b t.isNilable ++ ":" ++ encGoT t ++ ":" ++ encGType q
  ";".intercalate (if panicked then ss ++ ["PANIC"] else ss)

open GqlgenVerif.TypeRef in
def typeRefStep : List String → Option String
  | ["tref", mode, om, g, t] => do
    let g ← parseGType (g.splitOn ",")
    let t ← parseGoT (t.splitOn ",")
    let go := if mode == "cm" then copyModifiers (om == "1") g t else t
    pure (showChain go g)
  -- Spec on the chain the IMPLEMENTATION reported: no named GraphQL type is a slice reference, no nil GQL
  | ["chktref", chain] =>
    let steps := chain.splitOn ";"
    if steps.any (fun st => st == "PANIC" || st == "NILREF") then some "violates:generator-panics-on-nil-gql"
    else if steps.any (fun st => match st.splitOn ":" with
        | fl :: _ :: q :: _ => fl.front == '1' && q.front == 'N'
        | _ => true) then some "violates:named-type-is-slice"
    else some "ok"
  | ["spec", g, v] => do
    let g ← parseGType (g.splitOn ",")
    let (v, _) ← parseVal (v.splitOn ",")
    pure (if fits g v then showOut (spec g v) else "UNFIT")
  | ["echo", om, g, t, v] => do
    let g ← parseGType (g.splitOn ",")
    let t ← parseGoT (t.splitOn ",")
    let (v, _) ← parseVal (v.splitOn ",")
    let go := copyModifiers (om == "1") g t
    pure (if (processType go g).2 then "FAIL:generator panics (nil GQL)" else showOut (echo go g v))
  | ["mout", om, g, t, v] => do
    let g ← parseGType (g.splitOn ",")
    let t ← parseGoT (t.splitOn ",")
    let (v, _) ← parseVal (v.splitOn ",")
    let go := copyModifiers (om == "1") g t
    pure (if (processType go g).2 then "FAIL:generator panics (nil GQL)" else showOut (marshal go g (goValOf g v)))
  | _ => none

/-- `flav`: the flavour switches of the regenerated template table whose function-syntax arm is not the translation
of the method-syntax arm (`ok` when there is none): file:line, the arm the translation yields, the arm that stands
in the template; fields separated by TAB-free ` @@ `, pairs by ` ## ` -/
def flavStep : String :=
  let bad := GqlgenVerif.Flavour.disagreeing
  if bad.isEmpty then "ok" else
  " ## ".intercalate (bad.map fun (f, l, vs, segs, _, fn) =>
    s!"{f}:{l} @@ {GqlgenVerif.Flavour.render (GqlgenVerif.Flavour.toFn vs segs)} @@ {GqlgenVerif.Flavour.render fn}")

/-- `E` / `E:<name hex>=<clause hex | ->,…` : the entries NameForDir finds (`-` = does not parse as a Go file) -/
def parseDir (s : String) : Option GqlgenVerif.PkgName.Dir :=
  if s == "A" then some .absFails
  else if s == "U" then some .unreadable
  else if s == "E" then some (.entries [])
  else match s.splitOn ":" with
    | ["E", es] => do
      let l ← (es.splitOn ",").mapM fun e => match e.splitOn "=" with
        | [n, c] => do
          let n ← ofHex n
          if c == "-" then pure (GqlgenVerif.PkgName.Entry.mk n none) else do
            let c ← ofHex c
            pure (GqlgenVerif.PkgName.Entry.mk n (some c))
        | _ => none
      pure (.entries l)
    | _ => none

/-- package names derived from the output directory (Model/PkgName.lean over Gen/PkgNameRules.lean) -/
def pkgStep : List String → Option String
  | ["spkg", h] => do
    let n ← cpOfHex h
    pure (toHex (GqlgenVerif.PkgName.sanitizePkg n))
  | ["nfd", h, d] => do
    let n ← cpOfHex h
    let d ← parseDir d
    pure (toHex (GqlgenVerif.PkgName.nameForDir n d))
  -- what Check() leaves in the section's Package: `secpkg <section> <configured hex|-> <base hex> <dir>`
  | ["secpkg", sec, cfg, h, d] => do
    let n ← cpOfHex h
    let d ← parseDir d
    let c ← (if cfg == "-" then some [] else cpOfHex cfg)
    let how ← (GqlgenVerif.Gen.PkgNameRules.derivedPackage.find? (·.1 == sec)).map (·.2)
    pure (toHex (GqlgenVerif.PkgName.sectionPackage how c n d))
  -- Spec on the name the IMPLEMENTATION derived
  | ["chkpkg", h] =>
    match cpOfHex h with
    | some n => some (if GqlgenVerif.PkgName.validPkgName n then "ok" else "violates:invalid-package-name")
    | none => some "violates:invalid-package-name"
  | _ => none

/-- which schema files the executor embeds (Model/EmbedPath.lean over Gen/EmbedRule.lean) -/
def embedStep : List String → Option String
  -- `embed <exec dir, clean absolute, hex> <schema file, clean absolute, hex> <built-in 0|1>`
  | ["embed", o, s, b] => do
    let o ← cpOfHex o
    let s ← cpOfHex s
    let out := GqlgenVerif.EmbedPath.ofAbs o
    let src := GqlgenVerif.EmbedPath.ofAbs s
    let bit := fun (x : Bool) => if x then "1" else "0"
    pure s!"rel={toHex (GqlgenVerif.EmbedPath.relText out src)} emb={bit (GqlgenVerif.EmbedPath.embeds out src (b == "1"))} below={bit (GqlgenVerif.EmbedPath.below out src)} valid={bit (GqlgenVerif.EmbedPath.validPattern (GqlgenVerif.EmbedPath.relComps out src))}"
  -- Spec on a pattern the IMPLEMENTATION wrote after //go:embed
  | ["chkembed", h] =>
    match cpOfHex h with
    | some t => some (if GqlgenVerif.EmbedPath.validPattern (GqlgenVerif.EmbedPath.splitSlash t) then "ok" else "violates:embed-pattern-leaves-the-package")
    | none => some "violates:embed-pattern-leaves-the-package"
  | _ => none

def parseTys (s : String) : Option (List GqlgenVerif.ExecLayout.Ty) :=
  if s == "-" then some [] else (s.splitOn ",").mapM fun x => match x.splitOn ":" with
    | [n, b] => some ⟨n, b == "1"⟩
    | _ => none

/-- the two exec layouts (Model/ExecLayout.lean over Gen/ExecLayoutTwins.lean) -/
def rootStep : List String → Option String
  -- root_.gotpl against the single-file blocks of generated!.gotpl: ok | <index> @@ <token wanted> @@ <token found>
  | ["twin"] =>
    let want := GqlgenVerif.ExecLayout.twin GqlgenVerif.Gen.ExecLayoutTwins.singleFileBlocks GqlgenVerif.Gen.ExecLayoutTwins.builtinDirectives
    let tok := fun (o : Option Nat) => match o with
      | some i => GqlgenVerif.Gen.ExecLayoutTwins.tokens.getD i "?"
      | none => "<end>"
    let ctx := fun (l : List Nat) (i : Nat) => " ".intercalate (((l.drop (i - 6)).take 14).map fun j => GqlgenVerif.Gen.ExecLayoutTwins.tokens.getD j "?")
    match GqlgenVerif.ExecLayout.firstDiff want GqlgenVerif.Gen.ExecLayoutTwins.followRoot 0 with
    | none => some "ok"
    | some (i, a, b) => some s!"{i} @@ {tok a} @@ {tok b} @@ {ctx want i} @@ {ctx GqlgenVerif.Gen.ExecLayoutTwins.followRoot i}"
  -- `rootdecl <layout> <objects name:0|1,…|-> <inputs …>`: what ResolverRoot declares / the executor calls
  | ["rootdecl", l, os, is] => do
    let s : GqlgenVerif.ExecLayout.Sch := ⟨← parseTys os, ← parseTys is⟩
    let d := GqlgenVerif.ExecLayout.declared l s
    let c := GqlgenVerif.ExecLayout.called s
    let j := fun (xs : List String) => if xs.isEmpty then "-" else ",".intercalate xs
    pure s!"declared={j d} called={j c} missing={j (c.filter fun n => !d.contains n)}"
  | _ => none

def parseFiles (s : String) : List String := if s == "-" || s == "" then [] else s.splitOn ","

/-- the per-schema-file builds of exec layout follow-schema (Model/Builds.lean over Gen/BuildGuards.lean) and the
arguments of applied directives (Model/DirArgs.lean over Gen/DirArgRule.lean) -/
def filesStep : List String → Option String
  -- `passsafe`: per regenerated pass, can an iteration dereference a nil build
  | ["passsafe"] =>
    some (" ".intercalate (GqlgenVerif.Gen.BuildGuards.passes.map fun p =>
      let bad := [false, true].filter fun pr => match GqlgenVerif.Builds.iter p.2.2 pr with
        | some s => !s.present
        | none => true
      s!"{p.1}:{p.2.1}={if bad.isEmpty then "safe" else if bad.contains false then "nil-when-the-file-has-no-build-yet" else "nil-when-the-file-has-a-build"}"))
  -- `persch <files of objects> <of inputs> <of interfaces/unions> <of referenced types>` (comma lists | -)
  | ["persch", o, i, a, r] =>
    let byField := fun (f : String) => if f == "Objects" then parseFiles o else if f == "Inputs" then parseFiles i
      else if f == "Interfaces" then parseFiles a else if f == "ReferencedTypes" then parseFiles r else []
    let rec go (ps : List (String × String × List GqlgenVerif.Builds.Step)) (b : List String) : String :=
      match ps with
      | [] => "files=" ++ (if b.isEmpty then "-" else ",".intercalate b)
      | p :: rest =>
        match GqlgenVerif.Builds.runPass p.2.2 (byField p.2.1) b with
        | some b' => go rest b'
        | none =>
          -- the first element whose iteration dereferences nil
          let rec first (fs : List String) (b : List String) : String :=
            match fs with
            | [] => "?"
            | f :: fs' => match GqlgenVerif.Builds.iter p.2.2 (b.contains f) with
              | none => f
              | some s => first fs' (if s.present && !b.contains f then b ++ [f] else b)
          s!"PANIC pass={p.1} file={first (byField p.2.1) b}"
    some (go GqlgenVerif.Gen.BuildGuards.passes [])
  -- Spec on the files the IMPLEMENTATION wrote
  | ["chkfiles", o, i, a, r, impl] =>
    let want := GqlgenVerif.Builds.specFiles [parseFiles o, parseFiles i, parseFiles a, parseFiles r]
    let got := parseFiles impl
    let missing := want.filter fun f => !got.contains f
    let extra := got.filter fun f => !want.contains f
    let j := fun (xs : List String) => if xs.isEmpty then "-" else ",".intercalate xs
    some (if missing.isEmpty && extra.isEmpty && got.eraseDups.length == got.length then "ok"
          else s!"violates:generated-files-differ missing={j missing} extra={j extra}")
  -- `dirarg <definition default n|z|v> <use o|z|v>`
  | ["dirarg", d, u] => do
    let d ← (match d with | "n" => some GqlgenVerif.DirArgs.Dflt.none | "z" => some .null | "v" => some .value | _ => none)
    let u ← (match u with | "o" => some GqlgenVerif.DirArgs.Use.omitted | "z" => some .null | "v" => some .value | _ => none)
    let sv := fun (v : GqlgenVerif.DirArgs.Val) => match v with | .nil => "nil" | .dflt => "default" | .given => "given"
    let sd := fun (x : Option (String × GqlgenVerif.DirArgs.Val)) => match x with | none => "none" | some (p, v) => s!"{p}:{sv v}"
    match GqlgenVerif.DirArgs.useArg d u with
    | none => pure "unreadable"
    | some a =>
      let bit := fun (x : Bool) => if x then "1" else "0"
      pure s!"passed={(GqlgenVerif.DirArgs.passed a).getD "nil"} declared_fn={sd (GqlgenVerif.DirArgs.declared 0 a)} declared_m={sd (GqlgenVerif.DirArgs.declared 1 a)} effective={sv (GqlgenVerif.DirArgs.effective d u)} ok={bit (GqlgenVerif.DirArgs.closureOk 0 d u && GqlgenVerif.DirArgs.closureOk 1 d u)}"
  | _ => none

/-- `regen <autobind 0|1> <schema types a,b|-> <hand-written types|-> <types of the stale models file|-|none>`: one run of
`api.Generate` in the REGENERATED statement order (Gen/GenerateSteps.lean) on the tree model (Model/Regenerate.lean):
`ok|fail models=<a,b|none> spec=<ok|violates:…>`; Spec = succeeds and the models file declares exactly the schema types
without a hand-written Go type. -/
def regenStep : List String → Option String
  | ["regen", ab, ts, hs, st] =>
    let names := fun (x : String) => if x == "-" then [] else x.splitOn ","
    let p : GqlgenVerif.Regenerate.Project := ⟨names ts, names hs, ab == "1"⟩
    let t : GqlgenVerif.Regenerate.Tree := ⟨if st == "none" then none else some (names st), st != "none"⟩
    let (t', ok) := GqlgenVerif.Regenerate.run GqlgenVerif.Gen.GenerateSteps.steps p t
    let want := p.types.filter (fun x => !p.hand.contains x)
    let show' := fun (m : Option (List String)) => match m with | none => "none" | some l => if l.isEmpty then "-" else ",".intercalate l
    let spec := if !ok then "violates:generation-fails"
      else if t'.modelsFile.getD [] != want then "violates:models-do-not-follow-the-schema" else "ok"
    some s!"{if ok then "ok" else "fail"} models={show' t'.modelsFile} spec={spec}"
  | _ => none

def step (line : String) : String :=
  if line == "flav" then flavStep else
  if let some r := regenStep (line.splitOn " ") then r else
  if let some r := filesStep (line.splitOn " ") then r else
  if let some r := embedStep (line.splitOn " ") then r else
  if let some r := rootStep (line.splitOn " ") then r else
  if let some r := pkgStep (line.splitOn " ") then r else
  if let some r := typeRefStep (line.splitOn " ") then r else
  match line.splitOn " " with
  | ["togo", h] => match ofHex h with | some n => toHex (toGo n) | none => "bad-op"
  | ["priv", h] => match ofHex h with | some n => toHex (toGoPrivate n) | none => "bad-op"
  | ["walk", h] => match ofHex h with
    | some n => let ws := walk n; if ws.isEmpty then "-" else ",".intercalate (ws.map showWord)
    | none => "bad-op"
  | ["model", p, calls] =>
    let primary := if p = "P" then toGoPrivate else toGo
    match (calls.splitOn ";").mapM hexList with
    | some cs =>
      let (ns, _) := runCalls primary [] cs
      ";".intercalate (ns.map fun n => match n with | some x => toHex x | none => "DIVERGES")
    | none => "bad-op"
  | ["tid", t] => match parseType (t.splitOn ",") with
    | some ty => toHex (typeIdentifier ty)
    | none => "bad-op"
  | ["emit", ds] =>
    match (ds.splitOn "|").mapM parseDecl with
    | some ts => showEmitted (emitted ts)
    | none => "bad-op"
  -- Spec verdicts on the implementation's own output
  | ["chkid", h] => match cpOfHex h with    -- a public identifier: valid and not a keyword
    | some n => if validIdent n && !goKeywords.contains n then "ok" else "violates:invalid-ident"
    | none => "violates:invalid-ident"
  | ["chkemit", l] => chkEmit (l.splitOn ";")
  | ["chknames", l] =>            -- names handed out for pairwise distinct keys must be pairwise distinct
    match (l.splitOn ";").mapM cpOfHex with
    | some ns => if ns.eraseDups.length == ns.length then "ok" else "violates:name-collision"
    | none => "bad-op"
  | _ => "bad-op"

end Driver.C17

def main : IO Unit := do
  Driver.loop (← IO.getStdin) (← IO.getStdout) Driver.C17.step
