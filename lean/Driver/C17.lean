import Driver.Util
/-! Line-protocol driver for C17 (not built yet). -/
namespace Driver.C17
def step (_line : String) : String := "bad-op"
end Driver.C17

def main : IO Unit := do
  Driver.loop (← IO.getStdin) (← IO.getStdout) Driver.C17.step
