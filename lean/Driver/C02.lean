import Driver.Util
/-! Line-protocol driver for C02 (not built yet). -/
namespace Driver.C02
def step (_line : String) : String := "bad-op"
end Driver.C02

def main : IO Unit := do
  Driver.loop (← IO.getStdin) (← IO.getStdout) Driver.C02.step
