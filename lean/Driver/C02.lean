import Lean.Data.Json
import GqlgenVerif.Model.Coerce
import GqlgenVerif.Model.CoerceSpec
import GqlgenVerif.Model.CoerceBind
/-! Line-protocol driver for C02 (input coercion).

    schema <json>   the probe's input schema (universal.C02Schema) + "scalars" (GraphQL scalar ↦ binding) + "cfg"
    shapes          the Go shape the model derives for every argument / input-struct field
    case <json>     one operation (variable definitions, decoded variable values, field uses) → outcome
    spec <json>     the same operation through the Spec (GraphQL input coercion written directly)
    scalar <K> <json raw>   one scalar unmarshaler on one dynamic value
-/
open Lean GqlgenVerif GqlgenVerif.Coerce
namespace Driver.C02

def str (j : Json) (k : String) : String := (j.getObjValAs? String k).toOption.getD ""
def boolD (j : Json) (k : String) (d : Bool) : Bool := (j.getObjValAs? Bool k).toOption.getD d
def arr (j : Json) (k : String) : List Json :=
  match j.getObjVal? k with
  | .ok (.arr a) => a.toList
  | _ => []
def obj? (j : Json) (k : String) : Option Json :=
  match j.getObjVal? k with
  | .ok v => if v.isNull then none else some v
  | _ => none

partial def ty (j : Json) : Ty :=
  match obj? j "elem" with
  | some e => .list (ty e) (boolD j "nn" false)
  | none => .named (str j "name") (boolD j "nn" false)

def intOf (s : String) : Int := s.toInt?.getD 0

partial def lit (j : Json) : Lit :=
  match str j "k" with
  | "var" => .var (str j "s")
  | "int" => .int (intOf (str j "t"))
  | "float" => .float (str j "t")
  | "str" => .str (str j "s")
  | "bool" => .bool (boolD j "b" false)
  | "enum" => .enum (str j "s")
  | "list" => .list ((arr j "l").map lit)
  | "obj" => .obj ((arr j "f").map fun kv => (str kv "n", match obj? kv "v" with | some v => lit v | none => .null))
  | _ => .null

partial def raw (j : Json) : Raw :=
  match str j "k" with
  | "bool" => .bool (boolD j "b" false)
  | "int" => .int (intOf (str j "t"))
  | "i64" => .i64 (intOf (str j "t"))
  | "f64" => .f64 (str j "t")
  | "num" => .num (str j "t")
  | "str" => .str (str j "s")
  | "list" => .list ((arr j "l").map raw)
  | "obj" => .obj ((arr j "f").map fun kv => (str kv "n", match obj? kv "v" with | some v => raw v | none => .nil))
  | _ => .nil

def scalarK (s : String) : ScalarK :=
  match s with
  | "int" => .int | "int32" => .int32 | "int64" => .int64 | "uint" => .uint | "uint32" => .uint32
  | "uint64" => .uint64 | "id" => .id | "intID" => .intID | "uintID" => .uintID | "string" => .string
  | "float" => .float | "bool" => .bool | _ => .any

def fieldDef (j : Json) : FieldDef :=
  { name := str j "name", goName := str j "goName",
    ty := match obj? j "type" with | some t => ty t | none => .named "?" false,
    dflt := (obj? j "default").map lit, dir := boolD j "dir" false }

def argDef (j : Json) : ArgDef :=
  { name := str j "name", ty := match obj? j "type" with | some t => ty t | none => .named "?" false,
    dflt := (obj? j "default").map lit, dir := boolD j "dir" false }

structure St where
  schema : Schema := { types := [] }
  cfg : Cfg := {}
  resolvers : List (String × List ArgDef) := []   -- "Obj.field" ↦ argument definitions
  methods : List (String × (List String × Bool)) := []   -- "Obj.field" bound to a model method ↦ (parameter names, variadic)
  deriving Inhabited

def loadSchema (j : Json) : St :=
  let scalars := match obj? j "scalars" with | some s => s | none => Json.null
  let types := (arr j "types").map fun t =>
    let n := str t "name"
    (n, match str t "kind" with
      | "enum" => TypeDef.enum ((arr t "values").filterMap fun x => x.getStr?.toOption)
      | "input" => TypeDef.input (boolD t "isMap" false) ((arr t "fields").map fieldDef)
      | _ => TypeDef.scalar (scalarK (str scalars n)))
  let cj := match obj? j "cfg" with | some c => c | none => Json.null
  { schema := { types := types },
    cfg := { omittable := boolD cj "omittable" false, retPtr := boolD cj "retPtr" false,
             argDirNull := boolD cj "argDirNull" false, sfap := boolD cj "sfap" true, osep := boolD cj "osep" false },
    resolvers := (arr j "fields").map fun f => (str f "obj" ++ "." ++ str f "name", (arr f "args").map argDef),
    methods := (arr j "fields").filterMap fun f =>
      if str f "bound" = "method" then
        some (str f "obj" ++ "." ++ str f "name", ((arr f "params").filterMap fun x => x.getStr?.toOption, boolD f "variadic" false))
      else none }

def shapesLine (st : St) : String :=
  let args := st.resolvers.flatMap fun (k, defs) =>
    defs.map fun d => k ++ "." ++ d.name ++ "=" ++ renderShape (shapeRef st.schema st.cfg d.ty)
  let flds := st.schema.types.flatMap fun (n, td) =>
    match td with
    | .input false fields => fields.map fun fd =>
        let sh := renderShape (shapeField st.schema st.cfg fd.ty)
        n ++ "." ++ fd.name ++ "=" ++ (if fieldOmittable st.cfg fd.ty then "omit(" ++ sh ++ ")" else sh)
    | _ => []
  ";".intercalate (args ++ flds)

def pathStr (p : Path) : String := "/".intercalate p

def stepStr (p : Path) (s : Step) : String :=
  match s with
  | .call args => pathStr p ++ "\x1fcall\x1f" ++ ", ".intercalate (args.map render)
  | .error ep cls => pathStr p ++ "\x1ferror\x1f" ++ pathStr ep ++ "\x1f" ++ cls

def outcomeStr (o : Outcome) : String :=
  match o with
  | .gateValidation => "gate\tvalidation"
  | .gateVar p m => "gate\tvar\t" ++ pathStr p ++ "\t" ++ m
  | .gatePanic w => "gate\tpanic\t" ++ w
  | .ran steps => "ran\t" ++ "\t".intercalate (steps.map fun (p, s) => stepStr p s)

def parseCase (st : St) (j : Json) : List VarDef × List (String × Raw) × List FieldUseB :=
  let vars := (arr j "vars").map fun v =>
    ({ name := str v "name", ty := match obj? v "type" with | some t => ty t | none => .named "?" false,
       dflt := (obj? v "default").map lit } : VarDef)
  let values := (arr j "values").map fun kv => (str kv "n", match obj? kv "v" with | some v => raw v | none => Raw.nil)
  let fields := (arr j "fields").map fun f =>
    ({ use := { path := (str f "path").splitOn "/",
                defs := (lookup st.resolvers (str f "obj" ++ "." ++ str f "field")).getD [],
                given := (arr f "args").map fun kv => (str kv "n", match obj? kv "v" with | some v => lit v | none => Lit.null) },
       bind := lookup st.methods (str f "obj" ++ "." ++ str f "field") } : FieldUseB)
  (vars, values, fields)

def devs (s : String) : Spec.Devs :=
  if s = "all" then Spec.Devs.all else
  let l := s.splitOn ","
  { absentVarNull := l.contains "absentVarNull", literalInt64 := l.contains "literalInt64",
    mapList := l.contains "mapList", idFloat6 := l.contains "idFloat6",
    nestedNullPanic := l.contains "nestedNullPanic", lenientScalars := l.contains "lenientScalars" }

def step (st : St) (line : String) : St × String :=
  let (op, rest) := match line.splitOn " " with
    | [] => ("", "")
    | o :: r => (o, " ".intercalate r)
  match op with
  | "schema" =>
    (match Json.parse rest with
     | .ok j => (loadSchema j, "ok")
     | .error e => (st, "bad-json " ++ e))
  | "shapes" => (st, shapesLine st)
  | "case" =>
    (match Json.parse rest with
     | .ok j =>
       let (vars, values, fields) := parseCase st j
       let o := runOpB st.schema st.cfg vars values fields
       -- directive invocations (argument / input-field directives), when the operation is executed
       let dirs : List String :=
         match o, varValues st.schema vars values with
         | .ran _, .ok cv => fields.flatMap fun fu =>
             -- a method-bound field: only the arguments the method has a parameter for are unmarshalled
             let defs := match fu.bind with
               | some (ps, v) => (bindArgs fu.use.defs ps v).getD []
               | none => fu.use.defs
             fieldDirs st.schema st.cfg cv defs fu.use.given fu.use.path
         | _, _ => []
       (st, outcomeStr o ++ "\tdirs\x1f" ++ "\x1f".intercalate dirs)
     | .error e => (st, "bad-json " ++ e))
  | "spec" =>
    -- spec <devs> <json>: devs = comma-separated deviation switches, "-" = none (the specification), "all"
    (match rest.splitOn " " with
     | d :: r =>
       (match Json.parse (" ".intercalate r) with
        | .ok j =>
          let (vars, values, fields) := parseCase st j
          (st, Spec.outcomeStr (Spec.runOpB (devs d) st.schema st.cfg vars values fields))
        | .error e => (st, "bad-json " ++ e))
     | _ => (st, "bad-op"))
  | "scalar" =>
    (match rest.splitOn " " with
     | k :: r =>
       (match Json.parse (" ".intercalate r) with
        | .ok j =>
          (st, match scalar (scalarK k) (raw j) [] with
            | .ok g => "ok " ++ render g
            | .error (.err _ cls) => "err " ++ cls
            | .error (.panic w) => "panic " ++ w
            | .error .fuel => "fuel")
        | .error e => (st, "bad-json " ++ e))
     | _ => (st, "bad-op"))
  | _ => (st, "bad-op")

partial def loop (h : IO.FS.Stream) (out : IO.FS.Stream) (st : St) : IO Unit := do
  let line ← h.getLine
  if line.isEmpty then return ()
  let l := if line.back == '\n' then line.dropRight 1 else line
  let (st', o) := step st l
  out.putStrLn o
  loop h out st'

end Driver.C02

def main : IO Unit := do
  Driver.C02.loop (← IO.getStdin) (← IO.getStdout) {}
