import Driver.Util
/-! Line-protocol driver for C12 (not built yet). -/
namespace Driver.C12
def step (_line : String) : String := "bad-op"
end Driver.C12

def main : IO Unit := do
  Driver.loop (← IO.getStdin) (← IO.getStdout) Driver.C12.step
