import Driver.Util
import Lean.Data.Json
import GqlgenVerif.Model.Stream
import GqlgenVerif.Model.StreamGen
import GqlgenVerif.Model.StreamLoopGen
import GqlgenVerif.Model.StreamGuard
import GqlgenVerif.Model.StreamAlias
import GqlgenVerif.Gen.StreamGuard
open GqlgenVerif GqlgenVerif.Stream GqlgenVerif.StreamLoop
namespace Driver.C12

def opt : Option Bytes → String
  | none => "~"
  | some b => hex b

def showItem : Item → String
  | .comment t => "C" ++ hex t
  | .event t d => "E" ++ opt t ++ "/" ++ opt d
  | .junk l => "J" ++ hex l

def joinLF : List Bytes → Bytes
  | [] => []
  | [x] => x
  | x :: r => x ++ LF :: joinLF r

def showMItem : MItem → String
  | .part hs b => "P" ++ hex (joinLF hs) ++ "/" ++ hex b
  | .close => "Z"
  | .junk l => "J" ++ hex l

def showList (xs : List String) (tail : Bool) : String :=
  let ys := if tail then xs ++ ["R"] else xs
  if ys.isEmpty then "-" else ",".intercalate ys

def csv (s : String) : List String := if s = "-" then [] else s.splitOn ","

def parsePayloads (s : String) : Option (List Bytes) := (csv s).mapM unhex

def parseResps (s : String) : Option (List Resp) :=
  (csv s).mapM fun t =>
    match t.splitOn ":" with
    | [h, "1"] => (unhex h).map fun b => ⟨b, true⟩
    | [h, "0"] => (unhex h).map fun b => ⟨b, false⟩
    | _ => none

def parseSched (s : String) : Option (List Step) :=
  if s = "-" then some [] else
  s.toList.mapM fun c => if c = 'm' then some Step.main else if c = 't' then some Step.tick else none

/-- schedule with cancellations of the request context: m = `Do`'s next write, t = keep-alive tick,
    c = the request context ends (server side; the client stays connected) -/
def parseCSched (s : String) : Option (List StreamGuard.CStep) :=
  if s = "-" then some [] else
  s.toList.mapM fun c =>
    if c = 'm' then some StreamGuard.CStep.main else if c = 't' then some StreamGuard.CStep.tick
    else if c = 'c' then some StreamGuard.CStep.cancel else none

def toBA (b : Bytes) : ByteArray := ByteArray.mk (b.map (·.toUInt8)).toArray

/-- second opinion on "valid JSON" (Lean's own parser) -/
def jsonOK (b : Bytes) : Bool :=
  match String.fromUTF8? (toBA b) with
  | some s => (Lean.Json.parse s).isOk
  | none => false

def oneLine (b : Bytes) : Bool := !b.contains LF && !b.contains CR

def isJunk : Item → Bool
  | .junk _ => true
  | _ => false

def isMJunk : MItem → Bool
  | .junk _ => true
  | _ => false

def sseVerdict (full : Bool) (ps : List Bytes) (raw : Bytes) : String :=
  let r := parseSSE raw
  let v :=
    if !ps.all oneLine then "violates:payload-not-one-line"
    else if !ps.all jsonOK then "violates:payload-not-json"
    else if r.1.any isJunk then "violates:junk"
    else if full && r.2 then "violates:incomplete-tail"
    else if full then (if sseSpec ps r then "ok" else "violates:items")
    else (if sseSpecPrefix ps r then "ok" else "violates:prefix-items")
  v ++ " " ++ showList (r.1.map showItem) r.2

def mpVerdict (full : Bool) (boundary : Bytes) (ps : List Resp) (raw : Bytes) : String :=
  let r := parseMP boundary raw
  let partsJson := r.1.all fun i => match i with
    | .part _ b => jsonOK b
    | _ => true
  let v :=
    if !ps.all (fun p => oneLine p.body && p.body.head? == some 0x7B) then "violates:payload-not-one-line"
    else if !ps.all (fun p => jsonOK p.body) then "violates:payload-not-json"
    else if r.1.any isMJunk then "violates:junk"
    else if !partsJson then "violates:part-not-json"
    else if full && r.2 then "violates:no-closing-delimiter"
    else if full then (if mpSpec genMp ps r then "ok" else "violates:parts")
    else (if mpSpecPrefix genMp ps r then "ok" else "violates:prefix-parts")
  v ++ " " ++ showList (r.1.map showMItem) (r.2 && !full)

def showEnd : End → String
  | .done => "done"
  | .nilDeref => "nil-response-handed-to-writer"
  | .runaway => "handler-asked-again-after-end"

def parseFinB (s : String) : Option (Option Bytes) := if s = "-" then some none else (unhex s).map some

def parseFinR (s : String) : Option (Option Resp) :=
  if s = "-" then some none else (parseResps s).bind fun l => match l with | [r] => some (some r) | _ => none

/-- one line in, one line out -/
def step (line : String) : String :=
  match line.splitOn " " with
  -- `sseo` / `mpo`: an operation = good responses, then nil (`-`) or a panic (the error response);
  -- the regenerated response loop decides what reaches the writer
  | ["sseo", ka, good, fin, sched] =>
    match parsePayloads good, parseFinB fin, parseCSched sched with
    | some good, some fin, some sched =>
      let e := (runLoop Gen.StreamLoop.nextFacts Gen.StreamLoop.sseLoop good fin ⟨true, []⟩).2
      -- every write goes through the regenerated statements of `sseConnection.write`
      -- (`sseCancelChunksR` = `sseCancelChunks` with the chunk list built newest first: `sse_driver_runs_model`)
      let cs := StreamGuard.sseCancelChunksR Gen.StreamGuard.sseWrite (ka != "0") (genSseDelivered good fin) sched
      hex (chunksBytes genSse cs) ++ " " ++ showList (cs.map fun c => showItem c.item) false ++ " " ++ showEnd e
    | _, _, _ => "bad-op"
  | ["mpo", b, good, fin, sched] =>
    match unhex b, parseResps good, parseFinR fin, parseSched sched with
    | some b, some good, some fin, some sched =>
      let e := (runLoop Gen.StreamLoop.nextFacts Gen.StreamLoop.mpLoop good fin ⟨Gen.StreamLoop.mpFirstInit, []⟩).2
      let bytes := groupsBytes genMp b (mpGroups (genMpDelivered good fin) sched)
      let r := parseMP b bytes
      hex bytes ++ " " ++ showList (r.1.map showMItem) false ++ " " ++ showEnd e
    | _, _, _, _ => "bad-op"
  | ["sse", ka, ps, sched] =>
    match parsePayloads ps, parseSched sched with
    | some ps, some sched =>
      let cs := sseChunks (ka != "0") ps sched
      hex (chunksBytes genSse cs) ++ " " ++ showList (cs.map fun c => showItem c.item) false
    | _, _ => "bad-op"
  | ["ssechk", mode, ps, raw] =>
    match parsePayloads ps, unhex raw with
    | some ps, some raw => sseVerdict (mode == "full") ps raw
    | _, _ => "bad-op"
  | ["mp", b, ps, sched] =>
    match unhex b, parseResps ps, parseSched sched with
    | some b, some ps, some sched =>
      let gs := mpGroups ps sched
      let bytes := groupsBytes genMp b gs
      let r := parseMP b bytes
      hex bytes ++ " " ++ showList (r.1.map showMItem) false
    | _, _, _ => "bad-op"
  -- content of a stream outside the hasNext shape (delimiters are not judged there)
  | ["mpcontent", ps, raw] =>
    match parseResps ps, unhex raw with
    | some ps, some raw =>
      if !ps.all (fun p => oneLine p.body && jsonOK p.body) then "violates:payload-not-one-line-json"
      else if StreamAlias.mpContentSpec genMp ps raw then "ok" else "violates:noshape-content"
    | _, _ => "bad-op"
  | ["mpchk", mode, b, ps, raw] =>
    match unhex b, parseResps ps, unhex raw with
    | some b, some ps, some raw => mpVerdict (mode == "full") b ps raw
    | _, _, _ => "bad-op"
  | _ => "bad-op"

end Driver.C12

def main : IO Unit := do
  Driver.loop (← IO.getStdin) (← IO.getStdout) Driver.C12.step
