import Driver.Util
import GqlgenVerif.Model.ServerState
import GqlgenVerif.Model.ServerStateCfg
import GqlgenVerif.Gen.RespHeaders
import GqlgenVerif.Gen.CollectAlias
import GqlgenVerif.Gen.WsLoop
import GqlgenVerif.Gen.WsHolder
import GqlgenVerif.Gen.IntroStores
import GqlgenVerif.Gen.ErrValues
/-! Line-protocol driver for C07: runs `Model/ServerState` (configured from the regenerated
`Gen/PoolReset.lean`) on the request histories of the Go harness.

```
def <hexquery> <0|1 valid> <sha256>          text ↦ result of gqlparser + its SHA-256 (both libraries)
pq <hexvalue> absent|invalid|badVersion|ok <hexhash>   persistedQuery value ↦ mapstructure result
newserver                                   a new handler.Server (caches empty; the sync.Pool is per process)
poolgc                                      two GC cycles: the pool is empty
req <id> <apqHit> <qcHit> <request…>        serve one request alone: get(newest pooled) ; run ; put
witness                                     search the regenerated reset list for a leaking two-request history
hdrwitness                                  run the regenerated `mergeHeaders` program (Gen/RespHeaders.lean) on a grid of
                                            configured header maps × pairs of Accept headers: `none`, or the first
                                            configuration/history whose answer differs from a fresh server's or that
                                            changes the configured map
```
ws <r:<hexid|->:<0|1> | e:<k>>…             a websocket session as the read-loop model sees it (a client message with its id
                                            and whether it starts an operation; the k-th started operation sends a frame):
                                            the ids `Model/WsLoop` (configured from Gen/WsLoop.lean) puts on the frames, and
                                            whether each is the id of the message that started the operation
collectwitness                              run the regenerated `*ast.Field` arm of collectFields (Gen/CollectAlias.lean) on a
                                            grid of first-occurrence selection sets (1-9 entries, 0-3 spare cells), two
                                            requests including different later occurrences, request 0 parked while request
                                            1 merges: `none`, `unknown-arm`, or the first document on which request 0
                                            resolves something else than its own selections / the document is written
```
wsh <s:<k> | a:<k>:<hexmsg> | f:<k>>…        a websocket session as the error-holder model sees it (operation k is started, its
                                            resolver reports an error through AddSubscriptionError, its stream ends): how
                                            `Model/WsHolder` (configured from Gen/WsHolder.lean) ends each stream (`k:c` complete,
                                            `k:e:<hex of the messages, NUL-separated>`), and whether that is what the operation
                                            gets alone
holderwitness                               `none`, or a session on which the regenerated holder policy ends an operation with
                                            another operation's error
introwitness                                `none`, or what the regenerated facts about package introspection let a request do
                                            to the schema (OfType clearing NonNull on the schema's node; stores / mutating calls
                                            that reach it)
errwitness                                  `none`, or a history of failing requests on which the regenerated recover func /
                                            ErrorOnPath guard (Gen/ErrValues.lean) answer a request with a path that is
                                            not the path of its own failing resolver; or the package-level error values found
`req` answers `<class> [params] apq=<digest> qc=<digest> | spec=<same|DIFF> poolzero=<0|1> pool=<n>`.
-/
open GqlgenVerif GqlgenVerif.SS
namespace Driver.C07

abbrev Toks := List String

def unhexS (s : String) : Option String :=
  (unhex s).map fun bs => (String.fromUTF8? (ByteArray.mk (bs.map (·.toUInt8)).toArray)).getD ""

def hexS (s : String) : String := hex (bytesOf s)

partial def pKV : Toks → Option (KV × Toks)
  | n :: rest => do
    let cnt ← n.toNat?
    let rec go (k : Nat) (ts : Toks) (acc : KV) : Option (KV × Toks) :=
      if k = 0 then some (acc.reverse, ts) else
      match ts with
      | a :: b :: r =>
        match unhexS a, unhexS b with
        | some x, some y => go (k - 1) r ((x, y) :: acc)
        | _, _ => none
      | _ => none
    go cnt rest []
  | [] => none

def pFJ : Toks → Option (FJ × Toks)
  | "n" :: r => some (.null, r)
  | "x" :: r => some (.other, r)
  | "s" :: h :: r => (unhexS h).map fun s => (.str s, r)
  | "o" :: r => (pKV r).map fun (kv, r') => (.obj kv, r')
  | _ => none

partial def pBody : Toks → Option (Body × Toks)
  | "S" :: r => some (.syntaxErr, r)
  | "N" :: r => some (.jnull, r)
  | "X" :: r => some (.nonObject, r)
  | "O" :: n :: rest => do
    let cnt ← n.toNat?
    let rec go (k : Nat) (ts : Toks) (acc : List (String × FJ)) : Option (List (String × FJ) × Toks) :=
      if k = 0 then some (acc.reverse, ts) else
      match ts with
      | a :: r =>
        match unhexS a, pFJ r with
        | some key, some (v, r') => go (k - 1) r' ((key, v) :: acc)
        | _, _ => none
      | _ => none
    let (ms, r) ← go cnt rest []
    pure (.object ms, r)
  | _ => none

def pMapArg : Toks → Option (MapArg × Toks)
  | "a" :: r => some (.absent, r)
  | "S" :: r => some (.syntaxErr, r)
  | "N" :: r => some (.jnull, r)
  | "X" :: r => some (.nonObject, r)
  | "o" :: r => (pKV r).map fun (kv, r') => (.object kv, r')
  | _ => none

def pReq : Toks → Option Req
  | ["unsupported"] => some .unsupported
  | "post" :: r => do
    let (h, r) ← pKV r
    let (b, _) ← pBody r
    pure (.post h b)
  | "get" :: r => do
    let (h, r) ← pKV r
    match r with
    | bad :: q :: o :: r =>
      let q ← unhexS q
      let o ← unhexS o
      let (v, r) ← pMapArg r
      let (e, _) ← pMapArg r
      pure (.get h (bad == "1") q o v e)
    | _ => none
  | "form" :: r => do
    let (h, r) ← pKV r
    match r with
    | ["b"] => pure (.form h .bad)
    | ["t", q] => (unhexS q).map fun q => .form h (.text q)
    | "j" :: r => (pBody r).map fun (b, _) => .form h (.json b)
    | _ => none
  | "graphql" :: r => do
    let (h, r) ← pKV r
    match r with
    | ["b"] => pure (.graphql h none)
    | ["q", q] => (unhexS q).map fun q => .graphql h (some q)
    | _ => none
  | _ => none

/-! rendering, identical to the harness (`showParams`, `digest`) -/

def sortStr (l : List String) : List String := l.mergeSort fun a b => compare a b != .gt

def showKV : Option KV → String
  | none => "-"
  | some [] => "~"
  | some kv => ",".intercalate (sortStr (kv.map fun (k, v) => hexS k ++ ":" ++ hexS v))

def showParams (p : Params) : String :=
  s!"q={hexS p.query} o={hexS p.opName} v={showKV p.vars} e={showKV p.exts} h={showKV p.hdrs} rt={if p.readTime then 1 else 0}"

def tName : Transport → String
  | .post => "post" | .get => "get" | .form => "form" | .graphql => "graphql"

def apqErrName : ApqErr → String
  | .invalidData => "invalidData" | .badVersion => "badVersion" | .notFound => "notFound" | .hashMismatch => "hashMismatch"

def showOutcome : Outcome String String → String
  | .noTransport => "notransport"
  | .transportError t c => s!"terr:{tName t}:{c}"
  | .nilParams t => s!"nil:{tName t}"
  | .apqError t e p => s!"apqerr:{tName t}:{apqErrName e} {showParams p}"
  | .parseError t _ p => s!"perr:{tName t} {showParams p}"
  | .executed t _ p => s!"exec:{tName t} {showParams p}"

def hex16 (n : UInt64) : String :=
  String.ofList ((List.range 16).reverse.map fun i => nib ((n.toNat >>> (4 * i)) % 16))

def fnv (entries : List String) : String :=
  let prime : UInt64 := 1099511628211
  let h := (sortStr entries).foldl (fun (h : UInt64) e =>
    let h := e.toUTF8.foldl (fun (h : UInt64) b => (h ^^^ b.toUInt64) * prime) h
    (h ^^^ 0xff) * prime) (14695981039346656037 : UInt64)
  s!"{entries.length}:{hex16 h}"

def dedupKeys {V : Type} : List (String × V) → List (String × V)
  | [] => []
  | (k, v) :: r => (k, v) :: (dedupKeys r).filter (·.1 != k)

structure DState where
  defs : List (String × Bool × String) := []
  pqs : List (String × ApqExt) := []
  st : State String := State.fresh

def envOf (d : DState) : Env String String where
  sha q := match d.defs.lookup q with | some (_, h) => h | none => "?"
  parse q := match d.defs.lookup q with
    | some (true, _) => .ok q
    | _ => .error q
  apqOf v := (d.pqs.lookup v).getD .invalid

def allZero (pool : List Params) : Bool := pool.all (· == Params.zero)

/-- a two-request POST history that leaks under reset list `rs`, found by trying the canonical pair for each field -/
def witnessFor (cfg : Cfg) : Option String :=
  let env : Env String String := { sha := id, parse := .ok, apqOf := fun _ => .absent }
  let h : KV := [("Content-Type", "[\"application/json\"]")]
  let first : Req := .post (("X-Echo", "[\"one\"]") :: h)
    (.object [("query", .str "A"), ("operationName", .str "A"), ("variables", .obj [("s", "\"x\"")]), ("extensions", .obj [("k", "1")])])
  let seconds : List (String × Req) := [
    ("Query", .post h (.object [("operationName", .str "B")])),
    ("OperationName", .post h (.object [("query", .str "B")])),
    ("Variables", .post h (.object [("query", .str "B"), ("variables", .obj [("t", "2")])])),
    ("Extensions", .post h (.object [("query", .str "B"), ("extensions", .obj [("j", "2")])]))]
  seconds.findSome? fun (f, r2) =>
    let ch : Choice := ⟨some 0, true, true, false⟩
    let out := (serveSeq cfg env State.fresh 0 [(first, ch), (r2, ch)]).2
    match out[1]? with
    | some (_, o) => if o != spec cfg env (fun _ => none) r2 then some f else none
    | none => none

/-- `determineResponseContentType` on the grid's inputs: a configured Content-Type wins, no Accept = json -/
def gridNeg (m : RH.HMap) (accept : String) : String :=
  match m.find? (fun e => e.1.toLower == "content-type") with
  | some e => e.2.headD ""
  | none => if accept == "" then "application/json" else accept

/-- search a grid for a configured map / pair of requests on which the regenerated `mergeHeaders` makes the second
answer depend on the first, or changes the configured map -/
def hdrWitness : Option String :=
  let prog := Gen.RespHeaders.mergeProg
  let ps := Gen.RespHeaders.mergeParams
  let cfgs : List (String × RH.Heap × RH.Ref) := [
    ("nil", [], none), ("empty", [[]], some 0),
    ("cors", [[("Access-Control-Allow-Origin", ["*"])]], some 0),
    ("content-type", [[("Content-Type", ["text/x"]), ("X-Cfg", ["1"])]], some 0)]
  let accepts := ["", "application/json", "application/graphql-response+json"]
  let leak := cfgs.findSome? fun (name, h, cfg) =>
    accepts.findSome? fun a1 =>
      accepts.findSome? fun a2 =>
        let got := RH.serveAll prog ps gridNeg h [(cfg, a1), (cfg, a2)]
        let fresh := [(RH.serve prog ps gridNeg h cfg a1).1, (RH.serve prog ps gridNeg h cfg a2).1]
        if got != fresh then
          some s!"leak ResponseHeaders={name} first-Accept={a1} second-Accept={a2} answered={repr (got.getD 1 none)} fresh={repr (fresh.getD 1 none)}"
        else none
  leak.orElse fun _ => cfgs.findSome? fun (name, h, cfg) =>
    accepts.findSome? fun a1 =>
      let (a, h1) := RH.serve prog ps gridNeg h cfg a1
      if h1 != h then some s!"mutated ResponseHeaders={name} Accept={a1} now={repr h1}"
      else if a.isNone then some s!"panic ResponseHeaders={name} Accept={a1}"
      else none

/-- `ws` op: tokens → events of `Model/WsLoop` -/
def wsEvents (toks : List String) : Option (List WsLoop.Ev) :=
  toks.mapM fun t =>
    match t.splitOn ":" with
    | ["r", id, st] =>
      (if id == "-" then some "" else unhexS id).map fun i => WsLoop.Ev.recv ⟨i, st == "1"⟩
    | ["e", k] => k.toNat?.map WsLoop.Ev.emit
    | _ => none

def wsRun (evs : List WsLoop.Ev) : String :=
  let out := (WsLoop.run Gen.WsLoop.cells {} evs).out
  let starts := WsLoop.startMsgs evs
  let ids := out.map fun (_, i) => match i with | some "" => "-" | some i => hexS i | none => "none"
  let own := out.all fun (k, i) => i == (starts[k]?).map (·.id)
  s!"{" ".intercalate ids} | spec={if own then "same" else "DIFF"}"

/-- `wsh` op: tokens → events of `Model/WsHolder` -/
def wshEvents (toks : List String) : Option (List WsHolder.Ev) :=
  toks.mapM fun t =>
    match t.splitOn ":" with
    | ["s", k] => k.toNat?.map WsHolder.Ev.start
    | ["f", k] => k.toNat?.map WsHolder.Ev.finish
    | ["a", k, m] => (k.toNat?).bind fun k => (if m == "-" then some "" else unhexS m).map fun m => WsHolder.Ev.addErr k m
    | _ => none

def wshShow (f : Nat × Option (List String)) : String :=
  match f.2 with
  | none => s!"{f.1}:none"
  | some [] => s!"{f.1}:c"
  | some es => s!"{f.1}:e:{hexS ("\x00".intercalate es)}"

def wshRun (p : WsHolder.Policy) (evs : List WsHolder.Ev) : String :=
  let out := (WsHolder.run p evs).out
  let ops := (evs.map (·.op)).eraseDups
  let own := ops.all fun o => WsHolder.framesOf o out == (WsHolder.run p (WsHolder.only o evs)).out
  s!"{" ".intercalate (out.map wshShow)} | spec={if own then "same" else "DIFF"}"

def holderWitness : String :=
  let p := Gen.WsHolder.policy
  let grid : List (List WsHolder.Ev) := [
    [.start 0, .addErr 0 "first", .finish 0, .start 1, .finish 1],
    [.start 0, .start 1, .addErr 0 "first", .finish 1, .finish 0],
    [.start 0, .addErr 0 "first", .finish 0, .start 1, .addErr 1 "second", .finish 1]]
  let bad := grid.findSome? fun evs =>
    let out := (WsHolder.run p evs).out
    ([0, 1] : List Nat).findSome? fun o =>
      let alone := (WsHolder.run p (WsHolder.only o evs)).out
      if WsHolder.framesOf o out != alone then
        some s!"leak connection-holder={p.connHolder} install={repr p.install}: in the session {" ".intercalate (evs.map fun e => match e with | .start k => s!"start({k})" | .addErr k m => s!"AddSubscriptionError({k},{m})" | .finish k => s!"end({k})")} operation {o} ends with [{" ".intercalate ((WsHolder.framesOf o out).map wshShow)}], alone with [{" ".intercalate (alone.map wshShow)}]"
      else none
  bad.getD "none"

def introWitness : String :=
  let h0 : IntroHeap.Heap := [⟨true, some 1, ""⟩, ⟨true, none, "Int"⟩]
  let h1 := IntroHeap.walk Gen.IntroStores.ofTypeUnwrap h0 [0, 1]
  let shared := Gen.IntroStores.stores.filter fun s => s.2.2 != IntroHeap.Root.own
  if h1.take 2 != h0 then
    s!"schema-written OfType clears NonNull on the schema's own node: a `[Int!]!` position is {IntroHeap.kind h1 0} / its element {IntroHeap.kind h1 1} after one request resolved ofType on them (was NON_NULL / NON_NULL)"
  else if !shared.isEmpty then
    s!"store-reaches-schema {" ; ".intercalate (shared.map fun s => s.1 ++ ": " ++ s.2.1)}"
  else if !Gen.IntroStores.mutatingCallsOnShared.isEmpty then
    s!"mutating-call-on-schema {" ; ".intercalate (Gen.IntroStores.mutatingCallsOnShared.map fun s => s.1 ++ ": " ++ s.2)}"
  else "none"

/-- `errwitness` op: the error-heap model, configured from the regenerated facts, on a grid of histories / schedules -/
def errWitness : String :=
  let paths : List ErrHeap.Path := [["a"], ["b"], ["nodes", "1", "fail"]]
  let hists : List (List ErrHeap.Ev) :=
    (paths.flatMap fun p => (paths.filter (· != p)).flatMap fun q =>
      [[.fieldPanic 1 p, .respond 1, .fieldPanic 2 q, .respond 2],
       [.fieldPanic 1 p, .fieldPanic 2 q, .respond 1, .respond 2],
       [.fieldPanic 1 p, .respond 1, .serverPanic 2],
       [.serverPanic 1, .fieldPanic 2 q, .fieldPanic 2 p, .respond 2]])
  let showEv : ErrHeap.Ev → String
    | .fieldPanic r p => s!"request {r}: resolver at {p} panics"
    | .serverPanic r => s!"request {r}: panic reaches the server-level recover"
    | .respond r => s!"request {r}: response built"
  let bad := Gen.ErrValues.defaultRecoverReturns.findSome? fun src => hists.findSome? fun evs =>
    let got := ErrHeap.run src Gen.ErrValues.errorOnPathGuard evs
    if got != ErrHeap.spec evs then
      some s!"recover func returns {repr src}, ErrorOnPath guard {repr Gen.ErrValues.errorOnPathGuard}: history [{"; ".intercalate (evs.map showEv)}] is answered with error paths {got}, the requests' own failures are {ErrHeap.spec evs}"
    else none
  match bad with
  | some b => b
  | none =>
    if !Gen.ErrValues.pkgLevelGqlErrors.isEmpty then
      s!"package-level-error-value {" ; ".intercalate (Gen.ErrValues.pkgLevelGqlErrors.map fun v => v.1 ++ "." ++ v.2.1 ++ " (" ++ v.2.2 ++ ")")}"
    else if !(Gen.ErrValues.defaultPresenterReturns.all ErrHeap.Source.isOwn) then
      s!"presenter-returns-shared-value {repr Gen.ErrValues.defaultPresenterReturns}"
    else "none"

/-- `collectwitness` op -/
def collectWitness : String :=
  match CollectAlias.armSem Gen.CollectAlias.fieldArm with
  | none => "unknown-arm"
  | some sem =>
    let grid := (List.range 9).flatMap fun n => (List.range 4).map fun spare => (n + 1, spare)
    let bad := grid.findSome? fun (n, spare) =>
      let first := (List.range n).map (· + 1)
      let h0 : CollectAlias.Heap := [⟨0, first ++ List.replicate spare 0⟩, ⟨0, [101]⟩, ⟨0, [102]⟩]
      let todo : Nat → List CollectAlias.Slice := fun i =>
        if i == 0 then [⟨0, n, n + spare⟩, ⟨1, 1, 1⟩] else if i == 1 then [⟨0, n, n + spare⟩, ⟨2, 1, 1⟩] else []
      let w := CollectAlias.runW sem (fun _ => 0) ⟨h0, fun i => { todo := todo i }⟩ [0, 0, 1, 1]
      let got := CollectAlias.readS w.heap (w.ts 0).acc
      let want := CollectAlias.want h0 (todo 0)
      if got != want then
        some s!"leak first-selection-set={n} spare-capacity={spare}: request 0 (parked while request 1 merged) resolves {got} instead of {want}"
      else if w.heap.take 3 != h0 then
        some s!"document-written first-selection-set={n} spare-capacity={spare}: {repr (w.heap.take 3)}"
      else none
    bad.getD "none"

def stepD (d : DState) (line : String) : DState × String :=
  match line.splitOn " " with
  | ["def", q, v, h] =>
    match unhexS q with
    | some q => ({ d with defs := (q, v == "1", h) :: d.defs }, "ok")
    | none => (d, "bad-op")
  | ["pq", v, cls, h] =>
    match unhexS v, unhexS h with
    | some v, some h =>
      let c : ApqExt := if cls = "absent" then .absent else if cls = "badVersion" then .badVersion
        else if cls = "ok" then .ok h else .invalid
      ({ d with pqs := (v, c) :: d.pqs }, "ok")
    | _, _ => (d, "bad-op")
  | ["newserver"] => ({ d with st := { d.st with held := [], caches := ⟨[], []⟩ } }, "ok")
  | ["poolgc"] => ({ d with st := { d.st with pool := [] } }, "ok")
  | ["witness"] =>
    (d, match witnessFor genCfg with | some f => s!"leak {f}" | none => "none")
  | ["hdrwitness"] => (d, (hdrWitness.getD "none").replace "\n" " ")
  | ["collectwitness"] => (d, collectWitness)
  | ["holderwitness"] => (d, holderWitness.replace "\n" " ")
  | ["introwitness"] => (d, introWitness.replace "\n" " ")
  | ["errwitness"] => (d, errWitness.replace "\n" " ")
  | "wsh" :: toks =>
    match wshEvents toks with
    | some evs => (d, wshRun Gen.WsHolder.policy evs)
    | none => (d, "bad-op")
  | "ws" :: toks =>
    match wsEvents toks with
    | some evs => (d, wsRun evs)
    | none => (d, "bad-op")
  | "req" :: id :: a :: q :: rest =>
    match id.toNat?, pReq rest with
    | some id, some r =>
      let env := envOf d
      let ch : Choice := ⟨some 0, a == "1", q == "1", false⟩
      let look := cacheGet d.st.caches.apq ch.apqHit
      let res := runAll genCfg env d.st (eventsOf id r ch)
      let s' := res.1
      let o : Outcome String String := match res.2 with
        | [(_, o)] => o
        | _ => .noTransport
      let same := o == spec genCfg env look r
      let apqD := fnv ((dedupKeys s'.caches.apq).map fun (k, v) => k ++ "\x00" ++ v)
      let qcD := fnv ((dedupKeys s'.caches.qc).map fun (k, _) => k ++ "\x00")
      ({ d with st := s' },
        s!"{showOutcome o} apq={apqD} qc={qcD} | spec={if same then "same" else "DIFF"} poolzero={if allZero s'.pool then 1 else 0} pool={s'.pool.length}")
    | _, _ => (d, "bad-op")
  | _ => (d, "bad-op")

partial def loopS (h out : IO.FS.Stream) (d : DState) : IO Unit := do
  let line ← h.getLine
  if line.isEmpty then return ()
  let l := if line.back == '\n' then line.dropRight 1 else line
  let (d', o) := stepD d l
  out.putStrLn o
  loopS h out d'

end Driver.C07

def main : IO Unit := do
  Driver.C07.loopS (← IO.getStdin) (← IO.getStdout) {}
