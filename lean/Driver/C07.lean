import Driver.Util
/-! Line-protocol driver for C07 (not built yet). -/
namespace Driver.C07
def step (_line : String) : String := "bad-op"
end Driver.C07

def main : IO Unit := do
  Driver.loop (← IO.getStdin) (← IO.getStdout) Driver.C07.step
