import Driver.Util
/-! Line-protocol driver for C16 (not built yet). -/
namespace Driver.C16
def step (_line : String) : String := "bad-op"
end Driver.C16

def main : IO Unit := do
  Driver.loop (← IO.getStdin) (← IO.getStdout) Driver.C16.step
