import Lean.Data.Json
import Driver.Util
import Driver.ExecIO
import GqlgenVerif.Model.Introspect
import GqlgenVerif.Model.IntroGate
import GqlgenVerif.Model.IntroGateCfg
import GqlgenVerif.Gen.ExtOrder
import GqlgenVerif.Model.IntroServed
import GqlgenVerif.Gen.IntroSrc
/-! Line-protocol driver for C16. One line in (`<op> <json>`), one line out.

* `mirror <schema>`  : the model's answer to the standard introspection query for the schema the harness
                       serialised from gqlparser's `ast.Schema`, plus `wf` and the executable round trip
* `chk {schema, impl}` : the Spec on the IMPLEMENTATION's answer: `rebuild impl = normalise schema`
                       (first differing component), and the `includeDeprecated: false` views
* `schema <exec-schema>` : sets the execution-model schema for the following `gate` lines
* `gate <runner result>` : the execution model with the introspection gate closed, on the document,
                       variables and resolver log the generated server reported
* `cfg {exts, role, op}` : the configuration around the gate (`Model/IntroGateCfg.lean`): what the contract
                       (`Spec.effective`: every kind of hook in registration order) and the code read through
                       the REGENERATED facts (`Impl.effective Gen.ExtOrder.facts`) make of the request
* `compiled <schema>` : sets the compiled-in schema for the following `served` lines
* `served {layout, override, names}` : which schema is served (`Model/IntroServed.lean`): the contract's tree and
                       `__type(name)` answers for `Config.Schema = override` (null: none), and what the code of
                       that exec layout answers, read through the REGENERATED facts (`Gen.IntroSrc.layouts`) -/
open Lean GqlgenVerif.Introspect
open GqlgenVerif (TRef)
namespace Driver.C16

def optStr (j : Json) (k : String) : Option String :=
  match j.getObjVal? k with
  | .ok (.str s) => some s
  | _ => none

def str (j : Json) (k : String) : String := (optStr j k).getD ""
def bool (j : Json) (k : String) : Bool := (j.getObjValAs? Bool k).toOption.getD false
def arr (j : Json) (k : String) : List Json :=
  match j.getObjVal? k with
  | .ok (.arr a) => a.toList
  | _ => []
def obj? (j : Json) (k : String) : Option Json :=
  match j.getObjVal? k with
  | .ok v => if v.isNull then none else some v
  | _ => none

def kindOf (s : String) : Kind :=
  match s with
  | "OBJECT" => .object | "INTERFACE" => .interface | "UNION" => .union
  | "ENUM" => .enum | "INPUT_OBJECT" => .inputObject | _ => .scalar

/-! ### schema (harness format) → model -/

partial def tref (j : Json) : TRef :=
  match obj? j "elem" with
  | some e => .list (tref e) (bool j "nn")
  | none => .named (str j "name") (bool j "nn")

def dep (j : Json) : Dep :=
  match obj? j "dep" with
  | none => none
  | some d => some (optStr d "reason")

def typeOf (j : Json) : TRef := match obj? j "type" with | some t => tref t | none => .named "" false

def argDef (j : Json) : ArgDef :=
  { name := str j "name", description := str j "description", type := typeOf j,
    default := optStr j "default", dep := dep j }

def fieldDef (j : Json) : FieldDef :=
  { name := str j "name", description := str j "description", args := (arr j "args").map argDef,
    type := typeOf j, default := optStr j "default", dep := dep j }

def schemaOf (j : Json) : GqlgenVerif.Introspect.Schema :=
  { description := str j "description", query := optStr j "query", mutation := optStr j "mutation",
    subscription := optStr j "subscription",
    types := (arr j "types").map fun t =>
      { name := str t "name", kind := kindOf (str t "kind"), description := str t "description",
        fields := (arr t "fields").map fieldDef,
        interfaces := (arr t "interfaces").filterMap fun x => x.getStr?.toOption,
        possible := (arr t "possible").map fun p => (str p "name", kindOf (str p "kind")),
        enumValues := (arr t "enumValues").map fun v =>
          { name := str v "name", description := str v "description", dep := dep v },
        specifiedBy := optStr t "specifiedBy", oneOf := bool t "oneOf" },
    directives := (arr j "directives").map fun d =>
      { name := str d "name", description := str d "description",
        locations := (arr d "locations").filterMap fun x => x.getStr?.toOption,
        args := (arr d "args").map argDef, repeatable := bool d "repeatable" } }

/-! ### tree → JSON (the standard introspection query's answer) -/

def jopt : Option String → Json
  | some s => .str s
  | none => .null

def jref : ITypeRef → Json
  | .named k n => Json.mkObj [("kind", k.str), ("name", n), ("ofType", .null)]
  | .list t => Json.mkObj [("kind", "LIST"), ("name", .null), ("ofType", jref t)]
  | .nonNull t => Json.mkObj [("kind", "NON_NULL"), ("name", .null), ("ofType", jref t)]
  | .nilDeref => "PANIC"

def jiv (v : IInputValue) : Json :=
  Json.mkObj [("name", v.name), ("description", jopt v.description), ("type", jref v.type),
    ("defaultValue", jopt v.defaultValue), ("isDeprecated", v.isDeprecated),
    ("deprecationReason", jopt v.deprecationReason)]

def jarr {α} (f : α → Json) (l : List α) : Json := .arr (l.map f).toArray

def jfield (f : IField) : Json :=
  Json.mkObj [("name", f.name), ("description", jopt f.description), ("args", jarr jiv f.args),
    ("type", jref f.type), ("isDeprecated", f.isDeprecated), ("deprecationReason", jopt f.deprecationReason)]

def jev (v : IEnumValue) : Json :=
  Json.mkObj [("name", v.name), ("description", jopt v.description), ("isDeprecated", v.isDeprecated),
    ("deprecationReason", jopt v.deprecationReason)]

def jtype (s : GqlgenVerif.Introspect.Schema) (d : TypeDef) : Json :=
  let t := introType s d
  Json.mkObj [("kind", t.kind.str), ("name", jopt t.name), ("description", jopt t.description),
    ("specifiedByURL", jopt t.specifiedByURL), ("isOneOf", t.isOneOf),
    ("fields", jarr jfield t.fields),
    ("fieldsCurrent", jarr (fun f => Json.str f.name) (introFields s false d)),
    ("inputFields", jarr jiv t.inputFields), ("interfaces", jarr jref t.interfaces),
    ("possibleTypes", jarr jref t.possibleTypes), ("enumValues", jarr jev t.enumValues),
    ("enumValuesCurrent", jarr (fun v => Json.str v.name) (introEnumValues false d))]

def jroot : Option String → Json
  | some n => Json.mkObj [("name", n)]
  | none => .null

def jtree (s : GqlgenVerif.Introspect.Schema) : Json :=
  let t := introspect s
  Json.mkObj [("description", jopt t.description), ("queryType", jroot t.queryType),
    ("mutationType", jroot t.mutationType), ("subscriptionType", jroot t.subscriptionType),
    ("types", jarr (jtype s) (sortOn TypeDef.name s.types)),
    ("directives", jarr (fun d => Json.mkObj [("name", d.name), ("description", jopt d.description),
        ("locations", jarr Json.str d.locations), ("args", jarr jiv d.args), ("isRepeatable", d.isRepeatable)])
      t.directives)]

/-! ### the implementation's answer (JSON) → tree -/

partial def pref (j : Json) : ITypeRef :=
  match j with
  | .str _ => .nilDeref
  | _ =>
    match str j "kind" with
    | "LIST" => match obj? j "ofType" with | some t => .list (pref t) | none => .list .nilDeref
    | "NON_NULL" => match obj? j "ofType" with | some t => .nonNull (pref t) | none => .nonNull .nilDeref
    | k => .named (kindOf k) (str j "name")

def prefOf (j : Json) (k : String) : ITypeRef :=
  match j.getObjVal? k with | .ok t => pref t | _ => .nilDeref

def piv (j : Json) : IInputValue :=
  { name := str j "name", description := optStr j "description", type := prefOf j "type",
    defaultValue := optStr j "defaultValue", isDeprecated := bool j "isDeprecated",
    deprecationReason := optStr j "deprecationReason" }

def ptype (j : Json) : IType :=
  { kind := kindOf (str j "kind"), name := optStr j "name", description := optStr j "description",
    specifiedByURL := optStr j "specifiedByURL", isOneOf := bool j "isOneOf",
    fields := (arr j "fields").map fun f =>
      { name := str f "name", description := optStr f "description", args := (arr f "args").map piv,
        type := prefOf f "type", isDeprecated := bool f "isDeprecated",
        deprecationReason := optStr f "deprecationReason" },
    inputFields := (arr j "inputFields").map piv,
    interfaces := (arr j "interfaces").map pref, possibleTypes := (arr j "possibleTypes").map pref,
    enumValues := (arr j "enumValues").map fun v =>
      { name := str v "name", description := optStr v "description", isDeprecated := bool v "isDeprecated",
        deprecationReason := optStr v "deprecationReason" } }

def ptree (j : Json) : ITree :=
  { description := optStr j "description",
    queryType := (obj? j "queryType").bind (optStr · "name"),
    mutationType := (obj? j "mutationType").bind (optStr · "name"),
    subscriptionType := (obj? j "subscriptionType").bind (optStr · "name"),
    types := (arr j "types").map ptype,
    directives := (arr j "directives").map fun d =>
      { name := str d "name", description := optStr d "description",
        locations := (arr d "locations").filterMap fun x => x.getStr?.toOption,
        args := (arr d "args").map piv, isRepeatable := bool d "isRepeatable" } }

/-- first component in which the rebuilt schema differs from the normal form of the loaded one -/
def diffType (a b : TypeDef) : Option String :=
  if a.kind != b.kind then some "kind"
  else if a.description != b.description then some "description"
  else if a.fields.map (·.name) != b.fields.map (·.name) then some "field-names"
  else if a.fields.map (·.dep) != b.fields.map (·.dep) then
    some (if isFieldsKind b.kind then "field-deprecation" else "input-field-deprecation")
  else if a.fields.map (fun f => f.args.map (·.dep)) != b.fields.map (fun f => f.args.map (·.dep)) then
    some "argument-deprecation"
  else if a.fields.map (fun f => f.args.map (·.default)) != b.fields.map (fun f => f.args.map (·.default))
    || a.fields.map (·.default) != b.fields.map (·.default) then some "default-value"
  else if a.fields != b.fields then some "fields"
  else if a.interfaces != b.interfaces then some "interfaces"
  else if a.possible != b.possible then some "possible-types"
  else if a.enumValues != b.enumValues then some "enum-values"
  else if a.specifiedBy != b.specifiedBy then some "specifiedBy"
  else if a.oneOf != b.oneOf then some "oneOf"
  else none

def diffDir (a b : DirDef) : Option String :=
  if a.args.map (·.dep) != b.args.map (·.dep) then some "directive-argument-deprecation"
  else if a.repeatable != b.repeatable then some "repeatable"
  else if a.locations != b.locations then some "locations"
  else if a != b then some "directive"
  else none

def diffSchema (a b : GqlgenVerif.Introspect.Schema) : Option String :=
  if a.description != b.description then some "schema.description"
  else if a.query != b.query || a.mutation != b.mutation || a.subscription != b.subscription then some "schema.roots"
  else if a.types.map (·.name) != b.types.map (·.name) then some "schema.type-names"
  else if a.directives.map (·.name) != b.directives.map (·.name) then some "schema.directive-names"
  else
    match (a.types.zip b.types).findSome? fun (x, y) => (diffType x y).map fun c => y.name ++ ":" ++ c with
    | some c => some c
    | none =>
      (a.directives.zip b.directives).findSome? fun (x, y) => (diffDir x y).map fun c => "@" ++ y.name ++ ":" ++ c

/-- the `includeDeprecated: false` views of the implementation's answer hold exactly the elements it
    reports as not deprecated -/
def currentViews (impl : Json) : Option String :=
  (arr impl "types").findSome? fun t =>
    let cur (all cur : String) : Bool :=
      ((arr t all).filter (fun f => !bool f "isDeprecated")).map (str · "name") ==
        (arr t cur).filterMap fun x => x.getStr?.toOption
    if !cur "fields" "fieldsCurrent" then some (str t "name" ++ ":fields(includeDeprecated:false)")
    else if !cur "enumValues" "enumValuesCurrent" then some (str t "name" ++ ":enumValues(includeDeprecated:false)")
    else none

def mirror (j : Json) : String :=
  let s := schemaOf j
  (Json.mkObj [("wf", s.wf), ("wfFail", jarr Json.str ((s.types.filter fun d => !typeWF s d).map (·.name) ++
      (s.directives.filter fun d => !dirWF s d).map fun d => "@" ++ d.name)), ("roundtrip", decide (rebuild (introspect s) = normalise s)),
    ("tree", jtree s)]).compress

def chk (j : Json) : String :=
  match obj? j "schema", obj? j "impl" with
  | some sj, some ij =>
    let s := schemaOf sj
    if !s.wf then "not-wf" else
    match diffSchema (rebuild (ptree ij)) (normalise s) with
    | some c => "violates:" ++ c
    | none =>
      match currentViews ij with
      | some c => "violates:" ++ c
      | none => "ok"
  | _, _ => "bad-op"

/-! ### the gate -/
open GqlgenVerif GqlgenVerif.IntroGate Driver.ExecIO in
def gate (s : GqlgenVerif.Schema) (j : Json) : String :=
  match j.getObjVal? "doc" with
  | .error _ => "no-doc"
  | .ok dj =>
    let d := doc dj
    let vs := match j.getObjVal? "variables" with | .ok v => vars v | _ => []
    let s' := injectRoots s
    match s'.type? s'.query with
    | none => "no-root"
    | some root =>
      match planFields s' (implCollector s' d.frags vs) 100000 root d.sels with
      | none => "out-of-fuel"
      | some fields =>
        let o := gateOracle fields (oracle (ExecIO.arr j "log"))
        let (out, st) := Impl.execRoot o s'.query fields
        (Json.mkObj [("data", Json.str (render out)),
          ("errors", Json.arr ((errStrs st.errs).map Json.str).toArray),
          ("wf", Json.bool (fieldsWfb fields)), ("noDirs", Json.bool (gatedNoDirs fields)),
          ("unlogged", Json.arr (st.unlogged.map Json.str).toArray),
          ("gated", Json.arr ((gatedKeys fields).map fun (k, n, nn) =>
              Json.mkObj [("key", k), ("name", n), ("nn", nn), ("msg", gateMsg n)]).toArray)]).compress

/-! ### the configuration around the gate -/
section
open GqlgenVerif.IntroGate.Cfg

def condOf (h : Json) : Cond :=
  match str h "when" with
  | "roleIs" => .roleIs (str h "arg")
  | "roleIsNot" => .roleIsNot (str h "arg")
  | "opIs" => .opIs (str h "arg")
  | "opIsNot" => .opIsNot (str h "arg")
  | _ => .always

def actOf (h : Json) : Act :=
  match str h "do" with
  | "set" => .set (bool h "b")
  | "flip" => .flip
  | "fail" => .fail (str h "s")
  | _ => .keep

/-- `setQuery` (the query arrives through the parameter mutator) does not touch what the gate decides on -/
def pactOf (h : Json) : PAct :=
  match str h "do" with
  | "setRole" => .setRole (str h "s")
  | "fail" => .fail (str h "s")
  | _ => .keep

def extOf (j : Json) : Ext :=
  if str j "type" == "introspection" then { ctx := some .introspection }
  else
    { param := (obj? j "param").map fun h => (condOf h, pactOf h),
      ctx := (obj? j "ctx").map fun h => .user (condOf h) (actOf h),
      around := (obj? j "around").map fun h => (condOf h, actOf h) }

def outcomeJson : Outcome → Json
  | .rejected m => Json.mkObj [("k", "rejected"), ("msg", m)]
  | .denied m => Json.mkObj [("k", "denied"), ("msg", m)]
  | .run d => Json.mkObj [("k", "run"), ("disable", d)]
  | .unmodelled => Json.mkObj [("k", "unmodelled")]

def cfg (j : Json) : String :=
  let exts := (arr j "exts").map extOf
  let req : Req := ⟨str j "role", str j "op"⟩
  (Json.mkObj [("spec", outcomeJson (Spec.effective exts req)),
    ("impl", outcomeJson (Impl.effective GqlgenVerif.Gen.ExtOrder.facts exts req)),
    ("factsOk", Json.bool GqlgenVerif.Gen.ExtOrder.facts.ok)]).compress
end

/-! ### which schema is served (`Config.Schema`): contract and the code read through the regenerated facts -/
open GqlgenVerif.Introspect.Served in
def served (compiled : GqlgenVerif.Introspect.Schema) (j : Json) : String :=
  let sv : Server := { compiled := compiled, override := (obj? j "override").map schemaOf }
  let spec := Spec.served sv
  let names := (arr j "names").filterMap fun n => n.getStr?.toOption
  let b := sv.override.isSome
  let specTypes := names.map fun n => (n, match spec.lookup n with | some d => jtype spec d | none => Json.null)
  match GqlgenVerif.Gen.IntroSrc.layouts.find? (·.name == str j "layout") with
  | none => (Json.mkObj [("layoutKnown", false), ("factsOk", false), ("wf", spec.wf), ("specTree", jtree spec),
      ("specTypes", Json.mkObj specTypes)]).compress
  | some l =>
    let implSchema : Json :=
      if Impl.pick l b l.schemaSrc == some (Spec.which b) then "same" else
      match Impl.src l sv l.schemaSrc with
      | some s => jtree s
      | none => "nilDeref"
    let typesSame := Impl.pick l b l.typeWrapSrc == some (Spec.which b) && Impl.pick l b l.typeLookupSrc == some (Spec.which b)
    let implTypes : Json :=
      if typesSame then "same" else
      match Impl.src l sv l.typeWrapSrc, Impl.src l sv l.typeLookupSrc with
      | some w, some lk => Json.mkObj (names.map fun n => (n, match lk.lookup n with | some d => jtype w d | none => Json.null))
      | _, _ => "nilDeref"
    (Json.mkObj [("layoutKnown", true), ("factsOk", l.ok), ("wf", spec.wf),
      ("guards", Json.mkObj [("schema", l.schemaGuard), ("type", l.typeGuard)]),
      ("specTree", jtree spec), ("specTypes", Json.mkObj specTypes),
      ("implTree", implSchema), ("implTypes", implTypes)]).compress

partial def loop (h out : IO.FS.Stream) (st : IO.Ref (Option GqlgenVerif.Schema))
    (cst : IO.Ref (Option GqlgenVerif.Introspect.Schema)) : IO Unit := do
  let line ← h.getLine
  if line.isEmpty then return ()
  let l := if line.back == '\n' then (line.dropEnd 1).toString else line
  let (op, rest) := match l.splitOn " " with
    | [] => ("", "")
    | o :: r => (o, " ".intercalate r)
  let res ←
    match Json.parse rest with
    | .error e => pure ("bad-json " ++ e)
    | .ok j =>
      match op with
      | "mirror" => pure (mirror j)
      | "chk" => pure (chk j)
      | "cfg" => pure (cfg j)
      | "schema" => do st.set (some (Driver.ExecIO.schema j)); pure "ok"
      | "compiled" => do cst.set (some (schemaOf j)); pure "ok"
      | "served" => do
        match (← cst.get) with
        | some c => pure (served c j)
        | none => pure "no-compiled-schema"
      | "gate" => do
        match (← st.get) with
        | some s => pure (gate s j)
        | none => pure "no-schema"
      | _ => pure "bad-op"
  out.putStrLn res
  loop h out st cst

end Driver.C16

def main : IO Unit := do
  let st ← IO.mkRef (none : Option GqlgenVerif.Schema)
  let cst ← IO.mkRef (none : Option GqlgenVerif.Introspect.Schema)
  Driver.C16.loop (← IO.getStdin) (← IO.getStdout) st cst
