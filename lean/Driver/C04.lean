import Driver.ExecRun
/-! Driver for C04: the shared execution-model driver (`Driver/ExecRun.lean`). -/
def main : IO Unit := Driver.ExecRun.main
