import Driver.Util
/-! Line-protocol driver for C04 (not built yet). -/
namespace Driver.C04
def step (_line : String) : String := "bad-op"
end Driver.C04

def main : IO Unit := do
  Driver.loop (← IO.getStdin) (← IO.getStdout) Driver.C04.step
