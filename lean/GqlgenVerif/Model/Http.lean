import GqlgenVerif.Gen.HttpStatus
/-!
# Model of gqlgen's HTTP request handling (property C09)

Executable model (core Lean only) of

* `graphql/handler/server.go`      `Server.getTransport` (first transport whose `Supports` is true),
                                   `Server.ServeHTTP` ("transport not supported" answer)
* `graphql/handler/transport/`     `Supports` and `Do` of `Options`, `GET`, `POST`, `GRAPHQL`,
                                   `UrlEncodedForm`, `MultipartForm`; `determineResponseContentType`,
                                   `mergeHeaders`, `writeHeaders` (headers.go); `statusFor`,
                                   `statusForGraphQLResponse` (http_get.go)
* `graphql/errcode/codes.go`       `GetErrorKind`
* `graphql/executor/executor.go`   `CreateOperationContext` / `parseQuery` as the *gate*: the order in which
                                   parameter mutators, parsing, validation, operation lookup, variable
                                   coercion and operation-context mutators can stop a request; the error code
                                   of each exit is the REGENERATED `stamp…` (the code on the value returned)
* gqlparser `ast.OperationList.ForName`

The tables (`statusFor…`, `codeType`, the cases of `determineResponseContentType`, the GET guard) are NOT
written here: they come from `Gen/HttpStatus.lean`, regenerated from source on every run.

A request enters only through what the code looks at: method, `Upgrade` present, the class of the parsed
request `Content-Type`, the parsed parts of `Accept`, where decoding of the envelope fails (if it does),
what the gate finds (documents enter through their outcome class and their list of operations - kind and
name - so every theorem is unbounded in documents), the `operationName`, and whether the resolver fails.
-/
namespace GqlgenVerif.Http
open GqlgenVerif.Gen.HttpStatus

inductive Method | get | post | head | options | other
  deriving DecidableEq, Repr

/-- class of `mime.ParseMediaType(r.Header.Get("Content-Type"))`; `invalid` = parse error (or no header) -/
inductive ReqCT | json | graphql | urlencoded | multipart | other | invalid
  deriving DecidableEq, Repr

inductive TKind | options | get | post | graphql | urlenc | multipart
  deriving DecidableEq, Repr

/-- an operation of the document: kind and name ("" = anonymous) -/
structure Op where
  kind : AstOp
  name : String
  deriving DecidableEq, Repr

/-- what parsing + validation make of the query text. `ops []` is a document without operations. -/
inductive Doc
  | parseErr
  | invalid
  | ops (l : List Op)
  deriving DecidableEq, Repr

/-- `ResponseHeaders` of a transport: the configured `Content-Type` (single value, canonical key) and
    whether other headers are configured. `len(ResponseHeaders) == 0` iff `ct = none ∧ others = false`. -/
structure Hdrs where
  ct : Option String
  others : Bool
  deriving DecidableEq, Repr

structure Transport where
  kind : TKind
  hdrs : Hdrs
  deriving DecidableEq, Repr

/-- where decoding the request envelope fails (each constructor belongs to one transport) -/
inductive DecFail
  | getQuery | getVars | getExt          -- GET: url.ParseQuery / variables / extensions
  | postJson                              -- POST: body is not JSON
  | gqlEscape                             -- GRAPHQL: url.QueryUnescape fails
  | ueJson | ueEscape                     -- UrlEncodedForm: json form / escaped form
  | mpTooLarge                            -- MultipartForm: ContentLength > MaxUploadSize
  | mpForm                                -- MultipartForm: any of the malformed-form exits
  deriving DecidableEq, Repr

structure Req where
  method : Method
  upgrade : Bool
  rct : ReqCT
  /-- `none`: Accept absent or empty; `some parts`: per comma-separated part the parsed media type,
      `none` where `mime.ParseMediaType` fails -/
  accept : Option (List (Option String))
  dec : Option DecFail
  /-- an `OperationParameterMutator` (APQ) stops the request: `some code?` -/
  paramErr : Option (Option String)
  doc : Doc
  opName : String
  varsOk : Bool
  execErr : Bool
  /-- the parser's error is a PLAIN error, not a `*gqlerror.Error` (`exceeded token limit`, a server with
      `SetParserTokenLimit`); read only when `doc = .parseErr` -/
  parsePlain : Bool := false
  /-- an `OperationContextMutator` (complexity limit, …) stops the request after validation and variable
      coercion: `some code?` -/
  ctxErr : Option (Option String) := none
  deriving Repr

inductive Body | empty | errors | data | bad
  deriving DecidableEq, Repr

structure Resp where
  status : Nat
  /-- `none`: no Content-Type header written (net/http then sniffs one) -/
  ctype : Option String
  body : Body
  /-- the operation `ExecutableSchema.Exec` was called for -/
  executed : Option Op
  deriving DecidableEq, Repr

/-! ## gqlparser: `OperationList.ForName` -/

def forName (ops : List Op) (name : String) : Option Op :=
  match ops with
  | [o] => if name = "" then some o else ops.find? (fun it => it.name = name)
  | _ => ops.find? (fun it => it.name = name)

/-! ## errcode.GetErrorKind -/

def lookupKind (code : String) : Option ErrorKind :=
  (codeType.find? (fun p => p.1 = code)).map (·.2)

/-- `codes`: per error its `extensions.code` if it is a string -/
def getErrorKind : List (Option String) → ErrorKind
  | [] => defaultKind
  | none :: rest => getErrorKind rest
  | some c :: rest =>
    match lookupKind c with
    | some k => if k ≠ .KindUser then k else getErrorKind rest
    | none => getErrorKind rest

/-! ## headers.go -/

def caseFor (mt : String) : List (List String × String) → Option String
  | [] => none
  | (labels, r) :: rest => if labels.contains mt then some r else caseFor mt rest

def acceptLoop : List (Option String) → String
  | [] => ctDefault
  | none :: rest => acceptLoop rest            -- `if err != nil { continue }`
  | some mt :: rest =>
    match caseFor mt ctCases with
    | some r => r
    | none =>
      match ctSwitchDefault with               -- a `default:` arm of the switch answers here
      | some d => d
      | none => acceptLoop rest

/-- `determineResponseContentType(h.ResponseHeaders, r)` -/
def determineCT (explicit : Option String) (accept : Option (List (Option String))) : String :=
  match (if ctExplicitWins then explicit else none) with
  | some v => v
  | none =>
    match accept with
    | none => (match ctEmptyAccept with | some v => v | none => acceptLoop [none])
    | some parts => acceptLoop parts

/-! ## the gate: executor.CreateOperationContext -/

inductive GateOut
  | err (codes : List (Option String))
  | ok (op : Op)
  deriving Repr

def gate (r : Req) : GateOut :=
  match r.paramErr with
  | some code => .err [code]
  | none =>
    -- the code of each exit is the one the error value the exit RETURNS carries (`Gen/HttpStatus.lean`, stamps)
    match r.doc with
    | .parseErr => .err [if r.parsePlain then stampParsePlain else stampParseGql]
    | .invalid => .err [stampInvalid]
    | .ops [] => .err [stampNoOperation]                 -- "no operation provided"
    | .ops l =>
      match forName l r.opName with
      | none => .err [stampOpNotFound]                   -- "operation … not found"
      | some op =>
        if r.varsOk then
          (match r.ctxErr with
           | some code => .err [code]                    -- an OperationContextMutator refuses
           | none => .ok op)
        else .err [stampVariables]

/-! ## transports -/

def supports (k : TKind) (r : Req) : Bool :=
  match k with
  | .options => r.method = .head || r.method = .options
  | .get => !r.upgrade && r.method = .get
  | .post => !r.upgrade && r.method = .post && r.rct = .json
  | .graphql => !r.upgrade && r.method = .post && r.rct = .graphql
  | .urlenc => !r.upgrade && r.method = .post && r.rct = .urlencoded
  | .multipart => !r.upgrade && r.method = .post && r.rct = .multipart

/-- `Server.getTransport` -/
def getTransport (srv : List Transport) (r : Req) : Option Transport :=
  srv.find? (fun t => supports t.kind r)

/-- status of the decode failure `d` in transport `k`; `none`: `d` is not a failure of that transport -/
def decodeStatus (k : TKind) (d : DecFail) : Option Nat :=
  match k, d with
  | .get, .getQuery => some 400
  | .get, .getVars => some 400
  | .get, .getExt => some 400
  | .post, .postJson => some 400
  | .graphql, .gqlEscape => some 422
  | .urlenc, .ueJson => some 422
  | .urlenc, .ueEscape => some 422
  | .multipart, .mpTooLarge => some 200
  | .multipart, .mpForm => some 422
  | _, _ => none

/-- status written for a gate error, given the negotiated content type -/
def gateStatus (ct : String) (codes : List (Option String)) : Nat :=
  if ct = acceptApplicationGraphqlResponseJson then statusForGraphQLResponse (getErrorKind codes)
  else statusFor (getErrorKind codes)

/-- `Do` of GET / POST / GRAPHQL / UrlEncodedForm / MultipartForm -/
def doDocument (t : Transport) (r : Req) : Resp :=
  -- determineResponseContentType + mergeHeaders + writeHeaders come first in every one of them
  let ct := determineCT t.hdrs.ct r.accept
  match r.dec.bind (decodeStatus t.kind) with
  | some st => { status := st, ctype := some ct, body := .errors, executed := none }
  | none =>
    match gate r with
    | .err codes => { status := gateStatus ct codes, ctype := some ct, body := .errors, executed := none }
    | .ok op =>
      if t.kind = .get && getRefuses op.kind then
        { status := getRefusedStatus, ctype := some ct, body := .errors, executed := none }
      else
        { status := 200, ctype := some ct, body := if r.execErr then .errors else .data, executed := some op }

def doOptions (r : Req) : Resp :=
  match r.method with
  | .options => { status := 200, ctype := none, body := .empty, executed := none }
  | _ => { status := 405, ctype := none, body := .empty, executed := none }

/-- `Server.ServeHTTP` -/
def serve (srv : List Transport) (r : Req) : Resp :=
  match getTransport srv r with
  | none => { status := 400, ctype := some (determineCT none r.accept), body := .errors, executed := none }
  | some t => if t.kind = .options then doOptions r else doDocument t r

/-! ## Spec: the property written directly -/
namespace Spec

def json : String := "application/json"
def gqlresp : String := "application/graphql-response+json"

/-- the operation a request names: the one called `name`, or the only one when no name is given -/
def Names (ops : List Op) (name : String) (op : Op) : Prop :=
  op ∈ ops ∧ (op.name = name ∨ (name = "" ∧ ops = [op]))

instance (ops : List Op) (name : String) (op : Op) : Decidable (Names ops name op) := by
  unfold Names; exact inferInstance

def docOps : Doc → List Op
  | .ops l => l
  | _ => []

/-- does an Accept part ask for one of the two media types a GraphQL response can have -/
def wants (p : Option String) : Option String :=
  match p with
  | some "application/json" => some json
  | some "application/graphql-response+json" => some gqlresp
  | some "*/*" => some gqlresp
  | some "application/*" => some gqlresp
  | _ => none

/-- negotiation: a configured Content-Type wins; no Accept: application/json; otherwise the first Accept
    part that names (or covers) a GraphQL response media type decides; none does: graphql-response+json -/
def negotiate (configured : Option String) (accept : Option (List (Option String))) : String :=
  match configured, accept with
  | some v, _ => v
  | none, none => json
  | none, some parts => (parts.findSome? wants).getD gqlresp

/-- the client-error status defined for a media type -/
def clientError (ct : String) : Nat := if ct = gqlresp then 400 else 422

def configured (srv : List Transport) (r : Req) : Option String :=
  (getTransport srv r).bind (·.hdrs.ct)

/-- the request reaches parsing/validation: a document transport takes it, the envelope decodes and no
    parameter mutator stops it -/
def reachesGate (srv : List Transport) (r : Req) : Bool :=
  match getTransport srv r with
  | none => false
  | some t => t.kind ≠ .options && (r.dec.bind (decodeStatus t.kind)).isNone && r.paramErr.isNone

/-- the document fails parsing or validation (incl. no such operation, variables that do not coerce) -/
def docFails (r : Req) : Bool :=
  match r.doc with
  | .parseErr => true
  | .invalid => true
  | .ops l => (forName l r.opName).isNone || !r.varsOk

def is2xx (s : Nat) : Bool := 200 ≤ s && s < 300

/-- S1: over GET only queries execute; a request naming a mutation/subscription runs nothing and gets errors -/
def s1 (_srv : List Transport) (r : Req) (o : Resp) : Prop :=
  r.method = .get →
    (∀ op, o.executed = some op → op.kind = .astQuery) ∧
    (((docOps r.doc).map (·.name)).Nodup →      -- operation names are unique in a validated document
      ∀ op ∈ docOps r.doc, Names (docOps r.doc) r.opName op → op.kind ≠ .astQuery →
        o.executed = none ∧ o.body ≠ .data)

/-- S2: what executes is the operation the request names -/
def s2 (_srv : List Transport) (r : Req) (o : Resp) : Prop :=
  ∀ op, o.executed = some op → Names (docOps r.doc) r.opName op

/-- S3: nothing ran for a non-2xx answer -/
def s3 (_srv : List Transport) (_r : Req) (o : Resp) : Prop :=
  is2xx o.status = false → o.executed = none

/-- S4: a started execution is answered 200 -/
def s4 (_srv : List Transport) (_r : Req) (o : Resp) : Prop :=
  o.executed ≠ none → o.status = 200

/-- S5: parse/validation failure → the client-error status of the negotiated media type, nothing ran -/
def s5 (srv : List Transport) (r : Req) (o : Resp) : Prop :=
  reachesGate srv r = true → docFails r = true →
    o.status = clientError (negotiate (configured srv r) r.accept) ∧ o.executed = none

/-- S6: a response with a body carries exactly the negotiated Content-Type -/
def s6 (srv : List Transport) (r : Req) (o : Resp) : Prop :=
  o.body ≠ .empty → o.ctype = some (negotiate (configured srv r) r.accept)

/-- S7: the body is a JSON GraphQL response; only the Options transport answers without a body -/
def s7 (srv : List Transport) (r : Req) (o : Resp) : Prop :=
  o.body ≠ .bad ∧ (o.body = .empty → ∃ t, getTransport srv r = some t ∧ t.kind = .options)

/-! executable forms of S1–S7 for the driver (`Props/C09.lean` proves each `cᵢ = true ↔ sᵢ`) -/

def c1 (_srv : List Transport) (r : Req) (o : Resp) : Bool :=
  let ops := docOps r.doc
  r.method ≠ .get ||
    ((match o.executed with | some op => op.kind = .astQuery | none => true) &&
     (!decide ((ops.map (·.name)).Nodup) ||
      ops.all (fun op => !(decide (Names ops r.opName op) && op.kind ≠ .astQuery) ||
        (o.executed = none && o.body ≠ .data))))

def c2 (_srv : List Transport) (r : Req) (o : Resp) : Bool :=
  match o.executed with | some op => decide (Names (docOps r.doc) r.opName op) | none => true

def c3 (_srv : List Transport) (_r : Req) (o : Resp) : Bool := is2xx o.status || o.executed = none

def c4 (_srv : List Transport) (_r : Req) (o : Resp) : Bool := o.executed = none || o.status = 200

def c5 (srv : List Transport) (r : Req) (o : Resp) : Bool :=
  !(reachesGate srv r && docFails r) ||
    (o.status = clientError (negotiate (configured srv r) r.accept) && o.executed = none)

def c6 (srv : List Transport) (r : Req) (o : Resp) : Bool :=
  o.body = .empty || o.ctype = some (negotiate (configured srv r) r.accept)

def c7 (srv : List Transport) (r : Req) (o : Resp) : Bool :=
  o.body ≠ .bad && (o.body ≠ .empty ||
    (match getTransport srv r with | some t => t.kind = .options | none => false))

/-- names of the clauses an observed response violates -/
def violations (srv : List Transport) (r : Req) (o : Resp) : List String :=
  (if c1 srv r o then [] else ["get_executes_only_queries"]) ++
  (if c2 srv r o then [] else ["executes_named_operation"]) ++
  (if c3 srv r o then [] else ["non2xx_ran_nothing"]) ++
  (if c4 srv r o then [] else ["started_is_200"]) ++
  (if c5 srv r o then [] else ["parse_validation_status"]) ++
  (if c6 srv r o then [] else ["content_type_negotiated"]) ++
  (if c7 srv r o then [] else ["body_is_graphql_json"])

end Spec
end GqlgenVerif.Http
