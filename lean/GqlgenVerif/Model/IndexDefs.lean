/-!
# IndexDefs — the binder's per-package name index (C18)

`codegen/config/binder.go indexDefs` (behind `Binder.FindObject`, i.e. behind every `models:` / `@goModel` binding and
autobind) builds `name -> types.Object` for a model package by ranging over `pkg.TypesInfo.Defs`, a Go MAP keyed by
`*ast.Ident` - every identifier the package DEFINES, in every scope: package-level types, funcs, vars and consts, but
also methods, struct fields, parameters, named results, type parameters, locals, function-local types.

```go
scope := pkg.Types.Scope()
for astNode, def := range pkg.TypesInfo.Defs {
    if def == nil { continue }                       // package clause, symbolic variables of type switches
    parent := def.Parent()
    if parent == nil || parent != scope { continue } // methods / struct fields (nil), anything in a nested scope
    if _, ok := res[astNode.Name]; !ok { res[astNode.Name] = def }   // first inclusion wins
}
```

The index is keyed by the NAME of the identifier, not by the map's key, so two delivered entries may address the same
slot and then the delivery order decides. The guards (`skips`) are a REGENERATED fact (`go/extract/indexdefs.go` ->
`Gen/IndexDefs.lean`). What keeps the index order independent is that the guards let through the package scope only,
where the type checker keeps names pairwise distinct. Core Lean only.
-/
namespace GqlgenVerif.IndexDefs

/-- `def.Parent()`: nil (methods, struct fields), the package scope, or some nested scope (function, block, type
parameter list, file scope …) -/
inductive Parent where
  | none | pkg | nested
deriving DecidableEq, Repr

/-- one entry of `TypesInfo.Defs` -/
structure Def where
  name : String
  /-- identity of the `types.Object` (e.g. its position); meaningless when `isNil` -/
  obj : Nat
  /-- the map's value is nil -/
  isNil : Bool
  parent : Parent
deriving DecidableEq, Repr

/-- a condition under which the loop `continue`s -/
inductive Cond where
  | defNil | parentNil | parentNeScope | parentEqScope
  | not (c : Cond)
  | and (a b : Cond)
  | or (a b : Cond)
deriving Repr

/-- Go evaluates `def == nil || …` left to right, so `def.Parent()` is only reached with a non-nil def; for a nil def
the parent atoms are given the value they would short-circuit past (false) -/
def Cond.eval (d : Def) : Cond → Bool
  | .defNil => d.isNil
  | .parentNil => !d.isNil && d.parent == .none
  | .parentNeScope => !d.isNil && d.parent != .pkg
  | .parentEqScope => !d.isNil && d.parent == .pkg
  | .not c => !c.eval d
  | .and a b => a.eval d && b.eval d
  | .or a b => a.eval d || b.eval d

/-- the entry reaches the write -/
def kept (skips : List Cond) (d : Def) : Bool := !skips.any (·.eval d)

abbrev Index := String → Option Nat

/-- `if _, ok := res[name]; !ok { res[name] = def }` (first wins) or the bare `res[name] = def` (last wins) -/
def put (firstWins : Bool) (res : Index) (d : Def) : Index :=
  fun n => if n = d.name then (if firstWins then (res n).or (some d.obj) else some d.obj) else res n

/-- `indexDefs` on the entries in DELIVERY order -/
def indexDefs (skips : List Cond) (firstWins : Bool) (delivered : List Def) : Index :=
  (delivered.filter (kept skips)).foldl (put firstWins) (fun _ => none)

/-- `FindObject`: function based marshalers take precedence -/
def findObject (idx : Index) (typeName : String) : Option Nat :=
  (idx ("Marshal" ++ typeName)).or (idx typeName)

/-- what the Go type checker guarantees: non-nil definitions in the package scope have pairwise distinct names
(`init` and `_` are never entered into the scope: callers state the hypothesis for the names they look up) -/
def PkgDistinct (defs : List Def) : Prop :=
  ∀ a ∈ defs, ∀ b ∈ defs, a.isNil = false → b.isNil = false → a.parent = .pkg → b.parent = .pkg → a.name = b.name → a.obj = b.obj

/-- the guards with the `parent != scope` half dropped: everything that HAS a parent scope is indexed -/
def anyScope : List Cond := [.or .defNil .parentNil]

end GqlgenVerif.IndexDefs
