import GqlgenVerif.Model.Apq
/-!
# Model of the request pipeline of `graphql/executor`  (property C03)

Mirrors, in /repo:

* `graphql/executor/extensions.go`, `processExtensions` → `loop` / `chain` (the literal back-to-front
  loop `for i := len(exts)-1; i >= 0; i--` with the accumulator `previous`), `pmList` / `cmList`
  (the second, front-to-back loop collecting the mutators);
* `graphql/executor/executor.go`:
  `CreateOperationContext` → `create` (parameter mutators in order → `parseQuery` → `Operations.ForName`
  → `validator.VariableValues` → context mutators in order; the first failing step returns the error
  list and nothing after it runs), `parseQuery` → `parseQuery` (cache `Get`; on a miss: parse, "no
  operation provided", the `disableSuggestion` rule swap on gqlparser's **global** rule list,
  `validator.Validate`, and `Add` only after validation returned no error), `DispatchOperation` →
  `dispatch` (operation chain around `ExecutableSchema.Exec`; an error left by `Exec` itself is
  answered by a `OneShot` that does *not* pass the response chain; otherwise every call of the returned
  handler runs the response chain around the schema's handler), `DispatchError` → the `rejected` branch
  of `run` (response chain around an errors-only response);
* `graphql/handler/transport/*`: a transport calls `DispatchError` when `CreateOperationContext`
  returned errors, else `DispatchOperation` and then the handler `polls` times (`http_post.go`: once;
  streaming transports: until it answers nil) → `run` / `pollLoop`;
* gqlparser `validator.RemoveRule` / `ReplaceRule` / `Validate` (the rule list only; what the rules
  report on a document is the harness's classification of that document) → `removeRule`,
  `replaceRule`, `validate`;
* the query cache is any `Apq.CacheImpl` (`graphql.NoCache`, `graphql.MapCache`, `lru.LRU` are the
  instances of `Model/Apq.lean`), keyed by the query text (a `Nat` key here).

What gqlparser answers for a query text (syntax error or a document; per document the number of
errors the field-existence rule and the remaining rules report; per operation whether
`VariableValues` accepts the request's variables) is a parameter (`World`, `Req.varsOk`): gqlparser is
trusted base. The schema side (`ExecutableSchema.Exec`) is the harness's universal schema: per
response it resolves every root field through `RootResolverMiddleware` ∘ `ResolverMiddleware` and
every child field through `ResolverMiddleware`, logging a directive and a resolver event per field.
Core Lean only.
-/
namespace GqlgenVerif.Pipeline
open GqlgenVerif.Apq (CacheImpl)

abbrev Path := List Nat

/-- the four interceptor kinds of `graphql/handler.go` -/
inductive Kind where
  | op | resp | root | field
  deriving DecidableEq, Repr

/-- what the instrumented extensions, the universal schema and the logging cache wrapper record -/
inductive Ev where
  | pm (i : Nat)                                  -- MutateOperationParameters of extension i
  | cm (i : Nat)                                  -- MutateOperationContext of extension i
  | enter (k : Kind) (i : Nat) (p : Path)         -- Intercept* of extension i entered (field path p)
  | exit (k : Kind) (i : Nat) (p : Path)          -- … returned
  | exec                                          -- ExecutableSchema.Exec called
  | dir (p : Path)                                -- a directive ran on the field at p
  | res (p : Path)                                -- the resolver of the field at p ran
  | cget (q : Nat) (hit : Bool)                   -- queryCache.Get
  | cadd (q : Nat)                                -- queryCache.Add
  deriving DecidableEq, Repr

/-- operation / root-field / field interceptor, `Exec`, directive, resolver: what a rejected request
must never reach. (Response interceptors do run around the error response of `DispatchError`.) -/
def Ev.isExecution : Ev → Bool
  | .enter .resp _ _ => false
  | .exit .resp _ _ => false
  | .enter _ _ _ => true
  | .exit _ _ _ => true
  | .exec => true
  | .dir _ => true
  | .res _ => true
  | _ => false

def Ev.isCache : Ev → Bool
  | .cget _ _ => true
  | .cadd _ => true
  | _ => false

/-- a registered `graphql.HandlerExtension`: which hook interfaces it implements -/
structure Ext where
  id : Nat
  pm : Bool := false
  cm : Bool := false
  op : Bool := false
  resp : Bool := false
  root : Bool := false
  field : Bool := false
  deriving DecidableEq, Repr

def Ext.has (x : Ext) : Kind → Bool
  | .op => x.op
  | .resp => x.resp
  | .root => x.root
  | .field => x.field

/-! ## `processExtensions` -/

section fold
variable {H : Type}

/-- one iteration of the loop body for one middleware kind:
`if p, ok := exts[i].(Interceptor); ok { previous := e.mw; e.mw = func(next) { return p.Intercept(func() { return previous(next) }) } }` -/
def wrapWith (sel : Ext → Option (H → H)) (x : Option Ext) (previous : H → H) : H → H :=
  match x.bind sel with
  | some p => fun next => p (previous next)
  | none => previous

/-- `for i := len(exts) - 1; i >= 0; i--` : `loop … n e` runs indices `n-1, …, 0`. -/
def loop (sel : Ext → Option (H → H)) (exts : List Ext) : Nat → (H → H) → (H → H)
  | 0, e => e
  | i + 1, e => loop sel exts i (wrapWith sel exts[i]? e)

/-- the middleware `processExtensions` builds (initial value: `func(next) { return next() }`) -/
def chain (sel : Ext → Option (H → H)) (exts : List Ext) : H → H :=
  loop sel exts exts.length id

/-- the other direction, `for i := 0; i < len(exts); i++` : `loopFwd … xs e` runs the list front to back -/
def loopFwd (sel : Ext → Option (H → H)) : List Ext → (H → H) → (H → H)
  | [], e => e
  | x :: xs, e => loopFwd sel xs (wrapWith sel (some x) e)

/-- the middleware built by a loop of the direction the source has (`Gen.PipelineSteps.foldBackwards`) -/
def chainDir (backwards : Bool) (sel : Ext → Option (H → H)) (exts : List Ext) : H → H :=
  if backwards then chain sel exts else loopFwd sel exts id

/-- Spec: plain nesting, the first-registered extension outermost. -/
def nest (sel : Ext → Option (H → H)) : List Ext → H → H
  | [], next => next
  | x :: xs, next =>
    match sel x with
    | some p => p (nest sel xs next)
    | none => nest sel xs next

end fold

/-- second loop of `processExtensions`: mutators in registration order -/
def pmList (exts : List Ext) : List Ext := exts.filter (·.pm)
def cmList (exts : List Ext) : List Ext := exts.filter (·.cm)

/-! ## gqlparser's global rule list -/

inductive Rule where
  | foct        -- "FieldsOnCorrectType" (with suggestions)
  | ws          -- "FieldsOnCorrectTypeWithoutSuggestions"
  | other       -- all remaining specified rules
  deriving DecidableEq, Repr

abbrev Rules := List Rule

/-- `validator.RemoveRule(name)`: copy everything whose name differs -/
def removeRule (name : Rule) : Rules → Rules
  | [] => []
  | r :: rs => if r = name then removeRule name rs else r :: removeRule name rs

/-- the copy loop of `validator.ReplaceRule`: (found, result) -/
def replaceScan (name : Rule) : Rules → Bool × Rules
  | [] => (false, [])
  | r :: rs =>
    let (f, res) := replaceScan name rs
    if r = name then (true, name :: res) else (f, r :: res)

/-- `validator.ReplaceRule(name, f)` run atomically: replace in place, or append when absent -/
def replaceRule (name : Rule) (l : Rules) : Rules :=
  if (replaceScan name l).1 then (replaceScan name l).2 else l ++ [name]

/-- the rule swap `parseQuery` performs on every uncached request when `disableSuggestion` is set -/
def swapRules (l : Rules) : Rules := replaceRule .ws (removeRule .foct l)

/-- the list every process starts with (rule `init()`s of `validator/rules`) -/
def initRules : Rules := [.foct, .other]

/-- what gqlparser produced for an operation definition, as far as the pipeline looks at it -/
structure OpDef where
  name : String
  /-- `true` for `subscription` (the universal schema emits `Req.nEmit` responses), else one response -/
  sub : Bool
  /-- one entry per root field: its number of child fields -/
  roots : List Nat
  deriving DecidableEq, Repr

/-- a parsed document with the verdicts of the validation rules on it -/
structure Doc where
  id : Nat
  ops : List OpDef
  /-- number of errors one field-existence rule (either variant) reports -/
  nField : Nat
  /-- number of errors the remaining rules report -/
  nOther : Nat
  /-- the messages of `FieldsOnCorrectType` carry a "Did you mean" suggestion -/
  sugg : Bool
  deriving DecidableEq, Repr

/-- `validator.Validate(schema, doc)` with the global list `l`: number of errors -/
def validate (l : Rules) (d : Doc) : Nat :=
  (l.count .foct + l.count .ws) * d.nField + l.count .other * d.nOther

/-- valid under the complete rule set (the property's "passed validation") -/
def Doc.valid (d : Doc) : Bool := d.nField == 0 && d.nOther == 0

/-- gqlparser as a function of the query text: `none` = syntax error -/
structure World where
  parse : Nat → Option Doc

/-! ## Requests, responses, outcomes -/

structure Req where
  q : Nat
  opName : String := ""
  /-- per operation of the parsed document: `VariableValues` succeeds (missing entry = succeeds) -/
  varsOk : List Bool := []
  /-- extensions whose parameter mutator rejects this request -/
  pmReject : List Nat := []
  /-- extensions whose parameter mutator replaces `params.Query` (APQ style) -/
  pmRewrite : List (Nat × Nat) := []
  cmReject : List Nat := []
  /-- operation interceptors that answer themselves without calling `next` -/
  opBlock : List Nat := []
  /-- `ExecutableSchema.Exec` itself leaves an error (e.g. subscription set-up failed) -/
  execErr : Bool := false
  /-- responses a subscription emits -/
  nEmit : Nat := 1
  /-- how often the transport calls the response handler (it stops at the first nil) -/
  polls : Nat := 1
  deriving DecidableEq, Repr

inductive Gate where
  | pm (i : Nat) | parse | noOperation | validation | opNotFound | variables | cm (i : Nat)
  deriving DecidableEq, Repr

/-- error class of a response (from `extensions.code` / the message) -/
inductive Code where
  | none | gate (g : Gate) | blocked (i : Nat) | execErr
  deriving DecidableEq, Repr

structure Resp where
  hasData : Bool
  nErrors : Nat
  code : Code
  /-- some error message carries a "Did you mean" suggestion -/
  sugg : Bool := false
  deriving DecidableEq, Repr

structure Out where
  /-- `none`: `CreateOperationContext` returned no error -/
  gate : Option Gate
  log : List Ev
  /-- one entry per answer of the transport; `none` = the handler answered nil -/
  resps : List (Option Resp)
  deriving DecidableEq, Repr

structure Cfg where
  exts : List Ext
  disableSuggestion : Bool := false
  deriving Repr

/-- process state: this executor's query cache and gqlparser's global rule list -/
structure St (σ : Type) where
  cache : σ
  rules : Rules

/-! ## The instrumented interceptors -/

/-- a logging interceptor of kind `k`: enter, call next exactly once, exit -/
def logSel (k : Kind) (p : Path) (x : Ext) : Option (List Ev → List Ev) :=
  if x.has k then some (fun next => .enter k x.id p :: next ++ [.exit k x.id p]) else none

/-- kind of `graphql.ResponseHandler` an operation chain hands back -/
inductive Stream where
  | normal                -- the schema's handler behind the response chain
  | oneShot (c : Code)    -- `graphql.OneShot(errors-only response)`: no response chain
  deriving DecidableEq, Repr

abbrev OpH := List Ev × Stream

/-- operation interceptor: logs; one listed in `blk` answers itself without calling `next` -/
def opSel (blk : List Nat) (x : Ext) : Option (OpH → OpH) :=
  if x.op then some (fun next =>
    if x.id ∈ blk then ([.enter .op x.id [], .exit .op x.id []], .oneShot (.blocked x.id))
    else (.enter .op x.id [] :: next.1 ++ [.exit .op x.id []], next.2))
  else none

/-! ## The universal schema: one response -/

/-- one field: the field chain around (directive, resolver) -/
def fieldLog (exts : List Ext) (p : Path) : List Ev :=
  chain (logSel .field p) exts [.dir p, .res p]

/-- children `b, b+1, …` of root field `a` -/
def childrenLog (exts : List Ext) (a : Nat) : Nat → Nat → List Ev
  | 0, _ => []
  | n + 1, b => fieldLog exts [a, b] ++ childrenLog exts a n (b + 1)

/-- root field `a` with `n` children: root chain around (own field, then children) -/
def rootLog (exts : List Ext) (a n : Nat) : List Ev :=
  chain (logSel .root [a]) exts (fieldLog exts [a] ++ childrenLog exts a n 0)

def rootsLog (exts : List Ext) : Nat → List Nat → List Ev
  | _, [] => []
  | a, n :: ns => rootLog exts a n ++ rootsLog exts (a + 1) ns

/-- the response chain around `inner` -/
def respLog (exts : List Ext) (inner : List Ev) : List Ev :=
  chain (logSel .resp []) exts inner

/-! ## `CreateOperationContext` -/

def lookupNat (i : Nat) : List (Nat × Nat) → Option Nat
  | [] => none
  | (k, v) :: r => if k = i then some v else lookupNat i r

/-- `for _, p := range e.ext.operationParameterMutators`: result = rejecting extension or final query -/
def pmPhase (r : Req) : List Ext → Nat → (Option Nat × Nat) × List Ev
  | [], q => ((none, q), [])
  | x :: xs, q =>
    if x.id ∈ r.pmReject then ((some x.id, q), [.pm x.id])
    else
      let q' := (lookupNat x.id r.pmRewrite).getD q
      let (res, l) := pmPhase r xs q'
      (res, .pm x.id :: l)

/-- `for _, p := range e.ext.operationContextMutators` -/
def cmPhase (r : Req) : List Ext → Option Nat × List Ev
  | [] => (none, [])
  | x :: xs =>
    if x.id ∈ r.cmReject then (some x.id, [.cm x.id])
    else
      let (res, l) := cmPhase r xs
      (res, .cm x.id :: l)

/-- `ast.OperationList.ForName` : index and definition -/
def findName (name : String) : List OpDef → Nat → Option (Nat × OpDef)
  | [], _ => none
  | o :: os, i => if o.name = name then some (i, o) else findName name os (i + 1)

def forName (ops : List OpDef) (name : String) : Option (Nat × OpDef) :=
  match ops with
  | [o] => if name = "" then some (0, o) else findName name ops 0
  | _ => findName name ops 0

variable {σ : Type}

/-- result of `parseQuery`: a document, or the gate that failed with the error response data -/
inductive Parsed where
  | doc (d : Doc)
  | fail (g : Gate) (nErrors : Nat) (sugg : Bool)
  deriving DecidableEq, Repr

/-- the tail of `parseQuery` after a successful parse with an operation: `Validate` against the
(possibly just swapped) global list, and `Add` only when it reported nothing -/
def validateAndStore (C : CacheImpl σ Doc Nat) (rules : Rules) (c' : σ) (q : Nat) (d : Doc) :
    Parsed × St σ × List Ev :=
  if validate rules d ≠ 0 then
    (.fail .validation (validate rules d) (d.sugg && decide (0 < rules.count .foct) && decide (0 < d.nField)),
      { cache := c', rules := rules }, [.cget q false])
  else
    (.doc d, { cache := C.add c' q d, rules := rules }, [.cget q false, .cadd q])

/-- `Executor.parseQuery` -/
def parseQuery (W : World) (C : CacheImpl σ Doc Nat) (disable : Bool) (s : St σ) (q : Nat) :
    Parsed × St σ × List Ev :=
  match C.get s.cache q with
  | (some d, c') => (.doc d, { s with cache := c' }, [.cget q true])
  | (none, c') =>
    match W.parse q with
    | none => (.fail .parse 1 false, { s with cache := c' }, [.cget q false])
    | some d =>
      if d.ops.isEmpty then (.fail .noOperation 1 false, { s with cache := c' }, [.cget q false])
      else validateAndStore C (if disable then swapRules s.rules else s.rules) c' q d

/-- outcome of `CreateOperationContext`: the selected operation or the failed gate -/
inductive Created where
  | ok (op : OpDef)
  | rejected (g : Gate) (nErrors : Nat) (sugg : Bool)
  deriving DecidableEq, Repr

/-- `CreateOperationContext` once it holds a document: operation selection, variable coercion,
context mutators -/
def finishCreate (cfg : Cfg) (r : Req) (d : Doc) : Created × List Ev :=
  match forName d.ops r.opName with
  | none => (.rejected .opNotFound 1 false, [])
  | some (i, op) =>
    if (r.varsOk.getD i true) = false then (.rejected .variables 1 false, [])
    else
      match cmPhase r (cmList cfg.exts) with
      | (some j, l) => (.rejected (.cm j) 1 false, l)
      | (none, l) => (.ok op, l)

def create (W : World) (C : CacheImpl σ Doc Nat) (cfg : Cfg) (s : St σ) (r : Req) :
    Created × St σ × List Ev :=
  match pmPhase r (pmList cfg.exts) r.q with
  | ((some i, _), l) => (.rejected (.pm i) 1 false, s, l)
  | ((none, q), l) =>
    match parseQuery W C cfg.disableSuggestion s q with
    | (.fail g n sg, s', l') => (.rejected g n sg, s', l ++ l')
    | (.doc d, s', l') => ((finishCreate cfg r d).1, s', l ++ l' ++ (finishCreate cfg r d).2)

/-! ## `DispatchOperation` and the transport's polling -/

/-- number of responses the universal schema's handler produces before answering nil -/
def avail (op : OpDef) (r : Req) : Nat := if op.sub then r.nEmit else 1

def okResp : Resp := { hasData := true, nErrors := 0, code := .none }

/-- the transport calls the handler `fuel` more times; `j` = index of this call -/
def pollLoop (exts : List Ext) (op : OpDef) (r : Req) : Nat → Nat → List Ev × List (Option Resp)
  | 0, _ => ([], [])
  | n + 1, j =>
    if j < avail op r then
      let (l, rs) := pollLoop exts op r n (j + 1)
      (respLog exts (rootsLog exts 0 op.roots) ++ l, some okResp :: rs)
    else (respLog exts [], [none])

/-- polling a `OneShot`: the response, then nil; no chain involved -/
def pollOneShot (c : Code) : Nat → List (Option Resp)
  | 0 => []
  | 1 => [some { hasData := false, nErrors := 1, code := c }]
  | _ + 2 => [some { hasData := false, nErrors := 1, code := c }, none]

/-- `DispatchOperation`: the operation chain around `Exec` -/
def dispatch (exts : List Ext) (r : Req) : OpH :=
  chain (opSel r.opBlock) exts ([.exec], if r.execErr then .oneShot .execErr else .normal)

/-- one request through a transport -/
def run (W : World) (C : CacheImpl σ Doc Nat) (cfg : Cfg) (s : St σ) (r : Req) : Out × St σ :=
  match create W C cfg s r with
  | (.rejected g n sg, s', l) =>
    -- transport: `exec.DispatchError(ctx, errs)`
    ({ gate := some g, log := l ++ respLog cfg.exts [],
       resps := [some { hasData := false, nErrors := n, code := .gate g, sugg := sg }] }, s')
  | (.ok op, s', l) =>
    match dispatch cfg.exts r with
    | (lo, .normal) =>
      let (lp, rs) := pollLoop cfg.exts op r r.polls 0
      ({ gate := none, log := l ++ lo ++ lp, resps := rs }, s')
    | (lo, .oneShot c) =>
      ({ gate := none, log := l ++ lo, resps := pollOneShot c r.polls }, s')

/-- a history of requests on one executor -/
def runAll (W : World) (C : CacheImpl σ Doc Nat) (cfg : Cfg) : St σ → List Req → List Out × St σ
  | s, [] => ([], s)
  | s, r :: rs =>
    let (o, s') := run W C cfg s r
    let (os, s'') := runAll W C cfg s' rs
    (o :: os, s'')

end GqlgenVerif.Pipeline
