import GqlgenVerif.Model.Pipeline
/-!
# Concurrent requests against gqlparser's global rule list  (C03, concurrency clause)

`Executor.parseQuery` (graphql/executor/executor.go) runs, per uncached request and without any lock,
when `disableSuggestion` is set:

```
validator.RemoveRule("FieldsOnCorrectType")      // for _, r := range specifiedRules {…}; specifiedRules = result
validator.ReplaceRule(rule.Name, rule.RuleFunc)  // range specifiedRules; found → specifiedRules = result
                                                 //                        else  → specifiedRules = append(specifiedRules, rule)
validator.Validate(schema, doc)                  // rules = specifiedRules
```

(gqlparser v2.5.25 `validator/validator.go`). Since the `fix:` commit f280ab8 the first two calls run
inside `validatorRulesMu.Lock()`/`Unlock()` and `Validate` inside `RLock()`/`RUnlock()`; whether the
source still has these lock regions is re-read on every run (`Gen.PipelineSteps.parseQuerySteps`,
`Steps.swapAtomic`) and selects the program: locked → the swap is the single atomic step `Pc.swap`;
otherwise the fine-grained program below (the code before the fix). Each of the calls reads the package variable once (the
`range` expression / the `append` argument / the assignment in `Validate`) and writes it once, so a
request thread is the straight-line program below over one shared variable; threads interleave at
the granularity of these reads and writes (`Sched`: a schedule is the list of thread indices that take
the next step). The Go memory model (torn slice headers, visibility) is *not* modelled.
Core Lean only.
-/
namespace GqlgenVerif.Pipeline.Race

/-- program counter of one request thread inside `parseQuery` -/
inductive Pc where
  | swap          -- both calls inside `validatorRulesMu.Lock()`…`Unlock()`: one atomic step
  | rmLocked      -- RemoveRule alone inside a `Lock()`…`Unlock()` region of its own: one atomic step
  | rpLocked      -- ReplaceRule alone inside a second `Lock()`…`Unlock()` region: one atomic step
  | rmRead        -- RemoveRule: evaluate `range specifiedRules`
  | rmWrite       -- RemoveRule: `specifiedRules = result`
  | rpRead        -- ReplaceRule: evaluate `range specifiedRules`
  | rpWrite       -- ReplaceRule, found: `specifiedRules = result`
  | rpAppRead     -- ReplaceRule, not found: evaluate `append(specifiedRules, rule)`
  | rpAppWrite    -- ReplaceRule, not found: `specifiedRules = <that>`
  | valRead       -- Validate: `rules = specifiedRules`
  | done
  deriving DecidableEq, Repr

structure Thread where
  pc : Pc
  /-- the local slice computed from the last read -/
  loc : Rules := []
  /-- the rule list this request's `Validate` used -/
  seen : Option Rules := none
  deriving DecidableEq, Repr

structure State where
  global : Rules
  threads : List Thread
  deriving DecidableEq, Repr

/-- one atomic step of thread `t` against the shared variable `g` -/
def stepThread (g : Rules) (t : Thread) : Rules × Thread :=
  match t.pc with
  | .swap => (swapRules g, { t with pc := .valRead })
  | .rmLocked => (removeRule .foct g, { t with pc := .rpLocked })
  | .rpLocked => (replaceRule .ws g, { t with pc := .valRead })
  | .rmRead => (g, { t with pc := .rmWrite, loc := removeRule .foct g })
  | .rmWrite => (t.loc, { t with pc := .rpRead })
  | .rpRead =>
    let (found, res) := replaceScan .ws g
    if found then (g, { t with pc := .rpWrite, loc := res }) else (g, { t with pc := .rpAppRead })
  | .rpWrite => (t.loc, { t with pc := .valRead })
  | .rpAppRead => (g, { t with pc := .rpAppWrite, loc := g ++ [.ws] })
  | .rpAppWrite => (t.loc, { t with pc := .valRead })
  | .valRead => (g, { t with pc := .done, seen := some g })
  | .done => (g, t)

def setNth {α : Type} : List α → Nat → α → List α
  | [], _, _ => []
  | _ :: xs, 0, a => a :: xs
  | x :: xs, n + 1, a => x :: setNth xs n a

/-- thread `i` takes its next step (no such thread: nothing happens) -/
def step (s : State) (i : Nat) : State :=
  match s.threads[i]? with
  | none => s
  | some t =>
    let (g, t') := stepThread s.global t
    { global := g, threads := setNth s.threads i t' }

/-- run a schedule -/
def exec : State → List Nat → State
  | s, [] => s
  | s, i :: is => exec (step s i) is

/-- `n` request threads entering the rule swap; `atomic` = the swap is one step (it runs under the
writer lock and every `Validate` under the reader lock, `Steps.swapAtomic` of the source skeleton) -/
def start (atomic : Bool) (g : Rules) (n : Nat) : State :=
  { global := g, threads := List.replicate n { pc := if atomic then .swap else .rmRead } }

/-- how the source guards the swap (`Steps.lockShape` of the regenerated skeleton) -/
inductive LockShape where
  /-- `Lock(); RemoveRule; ReplaceRule; Unlock()` and `RLock(); Validate; RUnlock()` -/
  | atomic
  /-- `Lock(); RemoveRule; Unlock(); Lock(); ReplaceRule; Unlock()` and `RLock(); Validate; RUnlock()`:
  no data race, but two critical sections -/
  | split
  /-- anything else: the fine-grained reads and writes -/
  | unguarded
  deriving DecidableEq, Repr

/-- `Steps.lockShapeCode` of the regenerated skeleton -/
def LockShape.ofCode : Nat → LockShape
  | 0 => .atomic
  | 1 => .split
  | _ => .unguarded

def LockShape.entry : LockShape → Pc
  | .atomic => .swap
  | .split => .rmLocked
  | .unguarded => .rmRead

/-- a process with several executors: `n` request threads of executors with `disableSuggestion` (they
enter the rule swap) and `m` request threads of executors without it (they only `Validate`), all
against the one global rule list -/
def startMixed (shape : LockShape) (g : Rules) (n m : Nat) : State :=
  { global := g, threads := List.replicate n { pc := shape.entry } ++ List.replicate m { pc := .valRead } }

/-- a field-existence rule (either variant) is in the list -/
def hasFieldRule (l : Rules) : Bool := l.contains .foct || l.contains .ws

/-- one thread alone: the seven steps of `parseQuery` in program order -/
def soloSchedule : List Nat := [0, 0, 0, 0, 0, 0, 0]

end GqlgenVerif.Pipeline.Race
