import GqlgenVerif.Model.StreamLoop
import GqlgenVerif.Model.StreamGen
import GqlgenVerif.Gen.StreamLoop
/-!
The streams of an *operation* (good responses, then nil or a panic): the response loops and
`nextResponse` as they are in the source *now* (`Gen/StreamLoop.lean`, regenerated on every run by
`go/extract/streamloop.go`) decide what reaches the writers of `Model/Stream.lean`.
-/
namespace GqlgenVerif.StreamLoop
open GqlgenVerif.Stream GqlgenVerif.Gen

/-- what `MultipartMixed.Do`'s loop hands to `a.Add` -/
def genMpDelivered (good : List Resp) (fin : Option Resp) : List Resp :=
  delivered StreamLoop.nextFacts StreamLoop.mpLoop StreamLoop.mpFirstInit good fin

/-- what `SSE.Do`'s loop hands to `writeJsonWithSSE` -/
def genSseDelivered (good : List Bytes) (fin : Option Bytes) : List Bytes :=
  delivered StreamLoop.nextFacts StreamLoop.sseLoop true good fin

def mpOpStream (f : MpFmt) (boundary : Bytes) (good : List Resp) (fin : Option Resp) (sched : List Step) : Bytes :=
  mpStream f boundary (genMpDelivered good fin) sched

def sseOpStream (f : SseFmt) (ka : Bool) (good : List Bytes) (fin : Option Bytes) (sched : List Step) : Bytes :=
  sseStream f ka (genSseDelivered good fin) sched

end GqlgenVerif.StreamLoop
