import GqlgenVerif.Model.Stream
/-!
# WHEN the streaming transports write: guards and goroutine bodies (C12)

The vocabulary `go/extract/streamguard.go` regenerates from source on every run (`Gen/StreamGuard.lean`):

* `transport/sse.go`, `sseConnection.write` / `close` / `keepAlive` and the func literal of the last
  `c.write` of `SSE.Do`, statement by statement (`WStmt`); the condition of `write`'s
  `if … { return }` is a `WCond` over `c.closed` and "the request context is done" (`c.ctx.Err() != nil`);
* `transport/http_multipart_mixed.go`, the early return of `multipartResponseAggregator.flush`
  (`FCond` over `a.initialResponse == nil`, `len(a.deferResponses) == 0`), the select arms of the
  aggregator's ticker goroutine, `Done`.

`CSt` is the SSE model of `Model/Stream.lean` with one more kind of step: `.cancel` = the REQUEST
CONTEXT ENDS while the client stays connected (a deadline middleware, a shutdown that cancels base
contexts; nothing happens to the connection). Every write goes through the statement list of
`sseConnection.write` (`reaches`): whether it still writes after a cancellation is decided by the
regenerated guard, not by the model. Core Lean only.
-/
namespace GqlgenVerif.StreamGuard
open GqlgenVerif.Stream

/-- condition of `if … { return }` in `sseConnection.write` -/
inductive WCond where
  | closed                  -- `c.closed`
  | ctxDone                 -- `c.ctx.Err() != nil`
  | not (c : WCond)
  | or (a b : WCond)
  | and (a b : WCond)
deriving DecidableEq, Repr

/-- condition of the early return of `multipartResponseAggregator.flush` -/
inductive FCond where
  | initNil                 -- `a.initialResponse == nil`
  | noDeferred              -- `len(a.deferResponses) == 0`
  | not (c : FCond)
  | or (a b : FCond)
  | and (a b : FCond)
deriving DecidableEq, Repr

/-- what a `case <-…:` of a goroutine's select waits for -/
inductive Chan where
  | ctxDone                 -- `c.ctx.Done()`
  | tick                    -- the ticker's channel
  | done                    -- `a.done`
deriving DecidableEq, Repr

inductive WStmt where
  | lock | unlock | deferUnlock
  | retIf (c : WCond)       -- `if c { return }`
  | run                     -- `write()`: the write handed to `sseConnection.write`
  | flush                   -- `c.f.Flush()`
  | setClosed               -- `c.closed = true`
  | writeComplete           -- `fmt.Fprint(w, "event: complete\n\n")`
  | pingViaWrite            -- `c.write(func() { fmt.Fprintf(w, ": ping\n\n") })`
  | stopTicker              -- `c.keepAliveTicker.Stop()`
  | ret                     -- `return`
  | sendDone                -- `a.done <- true`
  | aggFlush                -- `a.flush(w)`
  | rethrow                 -- `a.rethrow()`: re-raise on this goroutine a panic a flush raised on the ticker goroutine
deriving DecidableEq, Repr

def WCond.eval (closed ctxDone : Bool) : WCond → Bool
  | .closed => closed
  | .ctxDone => ctxDone
  | .not c => !(c.eval closed ctxDone)
  | .or a b => a.eval closed ctxDone || b.eval closed ctxDone
  | .and a b => a.eval closed ctxDone && b.eval closed ctxDone

def FCond.eval (initNil noDeferred : Bool) : FCond → Bool
  | .initNil => initNil
  | .noDeferred => noDeferred
  | .not c => !(c.eval initNil noDeferred)
  | .or a b => a.eval initNil noDeferred || b.eval initNil noDeferred
  | .and a b => a.eval initNil noDeferred && b.eval initNil noDeferred

/-- does a call of `sseConnection.write` (its statements `w`) get to `write()`? -/
def reaches (closed ctxDone : Bool) : List WStmt → Bool
  | [] => false
  | .retIf c :: r => if c.eval closed ctxDone then false else reaches closed ctxDone r
  | .ret :: _ => false
  | .run :: _ => true
  | _ :: r => reaches closed ctxDone r

/-- who acts next: `Do`'s loop, the keep-alive goroutine, or whoever ends the request context -/
inductive CStep where
  | main | tick | cancel
deriving DecidableEq, Repr

structure CSt where
  s : SseSt
  cancelled : Bool          -- the request context is done (`c.ctx.Err() != nil`)
deriving Repr

/-- one step; `w` = the statements of `sseConnection.write`. A response the loop has taken from the
    operation is gone whether or not `write` wrote it; the last `c.write` of `Do` (complete) is followed by
    the deferred `c.close()`, which sets `closed` in any case. -/
def CSt.step (w : List WStmt) (c : CSt) : CStep → CSt
  | .cancel => { c with cancelled := true }
  | .tick =>
    if c.s.ka && reaches c.s.closed c.cancelled w then { c with s := { c.s with out := c.s.out ++ [.ping] } } else c
  | .main =>
    match c.s.todo with
    | p :: ps =>
      if reaches c.s.closed c.cancelled w then { c with s := { c.s with todo := ps, out := c.s.out ++ [.next p] } }
      else { c with s := { c.s with todo := ps } }
    | [] =>
      if c.s.closed then c
      else if reaches c.s.closed c.cancelled w then { c with s := { c.s with closed := true, out := c.s.out ++ [.complete] } }
      else { c with s := { c.s with closed := true } }

def cRun (w : List WStmt) (c : CSt) (sched : List CStep) : CSt := sched.foldl (CSt.step w) c

def cInit (ka : Bool) (ps : List Bytes) : CSt := ⟨sseInit ka ps, false⟩

/-- `Do` runs to its end whatever the schedule did -/
def cFinish (w : List WStmt) (c : CSt) : CSt := cRun w c (List.replicate (c.s.todo.length + 1) .main)

def sseCancelChunks (w : List WStmt) (ka : Bool) (ps : List Bytes) (sched : List CStep) : List Stream.Chunk :=
  (cFinish w (cRun w (cInit ka ps) sched)).s.out

def sseCancelStream (f : SseFmt) (w : List WStmt) (ka : Bool) (ps : List Bytes) (sched : List CStep) : Bytes :=
  chunksBytes f (sseCancelChunks w ka ps sched)

/-! ### the same machine with the chunks kept newest first

What the driver runs (`Lemmas/StreamGuard.lean`, `cancel_chunks_rev`: same chunks): appending to the end of a
list makes a ping storm of tens of thousands of steps quadratic. -/

def CSt.stepR (w : List WStmt) (c : CSt) : CStep → CSt
  | .cancel => { c with cancelled := true }
  | .tick =>
    if c.s.ka && reaches c.s.closed c.cancelled w then { c with s := { c.s with out := .ping :: c.s.out } } else c
  | .main =>
    match c.s.todo with
    | p :: ps =>
      if reaches c.s.closed c.cancelled w then { c with s := { c.s with todo := ps, out := .next p :: c.s.out } }
      else { c with s := { c.s with todo := ps } }
    | [] =>
      if c.s.closed then c
      else if reaches c.s.closed c.cancelled w then { c with s := { c.s with closed := true, out := .complete :: c.s.out } }
      else { c with s := { c.s with closed := true } }

def cRunR (w : List WStmt) (c : CSt) (sched : List CStep) : CSt := sched.foldl (CSt.stepR w) c

def cFinishR (w : List WStmt) (c : CSt) : CSt := cRunR w c (List.replicate (c.s.todo.length + 1) .main)

def sseCancelChunksR (w : List WStmt) (ka : Bool) (ps : List Bytes) (sched : List CStep) : List Stream.Chunk :=
  (cFinishR w (cRunR w (cInit ka ps) sched)).s.out.reverse

/-- the same schedule without the cancellations -/
def erase : List CStep → List Step
  | [] => []
  | .main :: r => .main :: erase r
  | .tick :: r => .tick :: erase r
  | .cancel :: r => erase r

/-- the functions as they are meant to be (negative witnesses in `Props/C12.lean` use variations) -/
def canonWrite : List WStmt := [.lock, .deferUnlock, .retIf .closed, .run, .flush]
def canonClose : List WStmt := [.lock, .deferUnlock, .setClosed, .flush]
def canonKeepAlive : List (Chan × List WStmt) := [(.ctxDone, [.stopTicker, .ret]), (.tick, [.pingViaWrite])]
def canonComplete : List WStmt := [.writeComplete, .setClosed]
def canonTicker : List (Chan × List WStmt) := [(.done, [.ret]), (.tick, [.aggFlush])]
def canonDone : List WStmt := [.sendDone, .rethrow, .aggFlush]

end GqlgenVerif.StreamGuard
