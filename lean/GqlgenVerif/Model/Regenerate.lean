/-!
# Regenerate — what a second run of `api.Generate` sees of the first run's output (C18)

`api.Generate` (api/generate.go) is a straight line of steps; `go/extract/generatesteps.go` regenerates their order
as `Gen/GenerateSteps.lean`. The part of the project tree that matters for idempotence is the previous output that
lives in packages the generator READS: the models file (`model.filename`) sits in the model package, and that package
is read by `cfg.Init()` (autobind binds every schema type that has a Go type of the same name in an autobound
package; the package preload) and by `codegen.BuildData` (the binder needs a Go type for every schema type).

State: the tree (`modelsFile` = the types `models_gen.go` declares if the file exists, `execFile`), `bound` = the
schema types with a user-defined entry in `cfg.Models`, `ok`. Steps:

* `unlinkExec` / `unlinkModel` remove the file;
* `init` (autobind): every schema type declared by a hand-written file of the model package OR by the models file
  that is lying there becomes user defined (only when the model package is autobound; types of the hand-written
  files that are bound through `models:` are user defined from the start);
* `mutateConfig` (modelgen): emits the schema types that are not user defined; nothing to emit = no file written
  (`if len(b.Models) == 0 && … { return nil }`);
* `buildData`: every schema type needs a Go type among the hand-written ones and the models file as it is NOW,
  else "unable to find type" and generation stops;
* `generateCode` writes the exec file. All other steps do not touch this state.

Core Lean only.
-/
namespace GqlgenVerif.Regenerate

abbrev Name := String

inductive Step where
  | unlinkExec | unlinkModel | setup | loadSchema | injectSources | init | mutateSchema | mutateConfig
  | buildData | pluginCode | generateCode | modTidy | validate
  | other (src : String)
deriving DecidableEq, Repr

def Step.isOther : Step → Bool
  | .other _ => true
  | _ => false

structure Tree where
  /-- the types declared by the models file, `none` = no such file -/
  modelsFile : Option (List Name)
  execFile : Bool
deriving DecidableEq, Repr

def clean : Tree := ⟨none, false⟩

/-- the inputs of a project that stay fixed between runs -/
structure Project where
  /-- schema types that need a Go type -/
  types : List Name
  /-- Go types declared by hand-written files of the model package -/
  hand : List Name
  /-- the model package is listed under `autobind:` (otherwise `hand` is bound through `models:`) -/
  autobind : Bool
deriving Repr

structure St where
  tree : Tree
  bound : List Name
  ok : Bool
deriving DecidableEq, Repr

def visible (p : Project) (t : Tree) : List Name := p.hand ++ t.modelsFile.getD []

def start (p : Project) (t : Tree) : St :=
  ⟨t, if p.autobind then [] else p.types.filter (p.hand.contains ·), true⟩

def step (p : Project) (s : St) : Step → St
  | .unlinkExec => if s.ok then { s with tree := { s.tree with execFile := false } } else s
  | .unlinkModel => if s.ok then { s with tree := { s.tree with modelsFile := none } } else s
  | .init =>
    if s.ok && p.autobind then { s with bound := p.types.filter ((visible p s.tree).contains ·) } else s
  | .mutateConfig =>
    if s.ok then
      let gen := p.types.filter (fun t => !s.bound.contains t)
      if gen.isEmpty then s else { s with tree := { s.tree with modelsFile := some gen } }
    else s
  | .buildData =>
    if s.ok then { s with ok := p.types.all ((visible p s.tree).contains ·) } else s
  | .generateCode => if s.ok then { s with tree := { s.tree with execFile := true } } else s
  | _ => s

/-- one run of the generator over tree `t`: the tree it leaves and whether it succeeded -/
def run (steps : List Step) (p : Project) (t : Tree) : Tree × Bool :=
  let s := steps.foldl (step p) (start p t)
  (s.tree, s.ok)

/-- `api.Generate` with the two unlinks moved below `cfg.Init()` ("drop the old output once the configuration is
known to be good"): the order the witness theorem is about -/
def unlinkAfterInit : List Step :=
  [.setup, .loadSchema, .init, .unlinkExec, .unlinkModel, .mutateSchema, .mutateConfig, .buildData, .pluginCode, .generateCode]

end GqlgenVerif.Regenerate
