/-!
# Model/ServerState — the memory a gqlgen HTTP server keeps between requests (C07)

Executable model (core Lean only) of everything in `graphql/handler` + `graphql/executor` that outlives one
request, and of how each HTTP transport turns a request into the `*graphql.RawParams` the executor sees.

| definition | mirrors |
|---|---|
| `Params`, `Params.zero`            | `graphql.RawParams` (graphql/handler.go) and its zero value |
| `resetBy`                          | the deferred `params.F = …` assignments of `POST.Do` (http_post.go); **which** fields are cleared is a parameter (`Cfg.resets`), instantiated from the regenerated `Gen/PoolReset.lean` |
| `decodeMember`, `decodeBody`       | `encoding/json` decoding of a request object into an **existing** `RawParams` through `jsonDecode(r, &params)`: only keys that are present touch a field, `null` leaves a string alone and nils a map, an object is merged into an existing map, a mistyped member is remembered as an error while decoding goes on |
| `getStruct`, `State.pool`          | `sync.Pool`: `Get` returns `New()` or *any* value previously `Put` (the choice is an input); `Put` may drop |
| `apqMutate`                        | `extension.AutomaticPersistedQuery.MutateOperationParameters` (extension/apq.go) over a lawful cache (a `Get` may miss) |
| `parseQuery`                       | `Executor.parseQuery` (executor/executor.go) over a lawful query cache |
| `execParams`                       | `Executor.CreateOperationContext` up to the point where the operation is a function of (document, params) |
| `paramsOf`                         | `GET.Do`, `UrlEncodedForm.Do`/`parseBody`, `GRAPHQL.Do` (fresh struct per request) |
| `apply` (`Ev.get/run/put/gc`)      | one request of `Server.ServeHTTP` split at the points where other requests can interleave |
| `spec`                             | the Spec: what a freshly constructed server answers to the request alone |

`Outcome` carries *everything the response may depend on* (transport, document, effective params or the
failure class); the response bytes are a deterministic rendering of it (tied by the fresh-server oracle of
the harness). `D`/`E` (documents / parse+validation errors) and `Env` (SHA-256, gqlparser, mapstructure) are
uninterpreted: every theorem holds for all of them.
-/
namespace GqlgenVerif.SS

/-- a Go `map[string]any` / `http.Header`: key ↦ canonical JSON text of the value, in insertion order -/
abbrev KV := List (String × String)

def kvSet : KV → String → String → KV
  | [], k, v => [(k, v)]
  | (k', v') :: r, k, v => if k' = k then (k, v) :: r else (k', v') :: kvSet r k v

/-- decoding a JSON object into an existing map assigns key by key (old keys survive) -/
def kvMerge (m new : KV) : KV := new.foldl (fun acc kv => kvSet acc kv.1 kv.2) m

def kvGet (m : KV) (k : String) : Option String := m.lookup k

/-- `graphql.RawParams`; `readTime = false` is the zero `TraceTiming` -/
structure Params where
  query : String
  opName : String
  vars : Option KV
  exts : Option KV
  hdrs : Option KV
  readTime : Bool
deriving DecidableEq, Repr, Inhabited

def Params.zero : Params := ⟨"", "", none, none, none, false⟩

/-- what the JSON text `null` does to the `*RawParams` variable a transport decodes into -/
inductive NullMode where
  /-- `jsonDecode(r, &params)`: the *pointer* becomes nil; the executor then dereferences it -/
  | nilPtr
  /-- `jsonDecodeParams(r, &params)`: the pointer is replaced by a new zero struct and an error is returned -/
  | freshErr
  /-- `jsonDecode(r, params)`: nothing happens -/
  | noop
deriving DecidableEq, Repr

/-- facts taken from the source on every run (`Gen/PoolReset.lean`) -/
structure Cfg where
  /-- `(field, rhs kind)` of the deferred assignments before `pool.Put` -/
  resets : List (String × String)
  /-- the decode call of `POST.Do` -/
  nullMode : NullMode
  /-- the decode call of `UrlEncodedForm.parseJson` -/
  formNullMode : NullMode
deriving Repr

/-- (decode function, its second argument) ↦ behaviour on `null` -/
def nullModeOf (fn target : String) : Option NullMode :=
  if fn = "jsonDecode" ∧ target = "&params" then some .nilPtr
  else if fn = "jsonDecodeParams" ∧ target = "&params" then some .freshErr
  else if fn = "jsonDecode" ∧ target = "params" then some .noop
  else none

/-- the rhs kind that is the zero value of a field of the given type kind -/
def zeroOf (kind : String) : String :=
  if kind = "string" then "emptyString"
  else if kind = "map" ∨ kind = "slice" ∨ kind = "pointer" ∨ kind = "interface" then "nil"
  else if kind = "struct" then "zeroStruct"
  else if kind = "number" then "zeroNumber"
  else if kind = "bool" then "false"
  else "?"

/-- the last assignment to the field in the deferred function stores the zero value of its type -/
def isReset (rs : List (String × String)) (name kind : String) : Bool :=
  match rs.reverse.lookup name with
  | some rhs => rhs == zeroOf kind
  | none => false

/-- the deferred reset of `POST.Do`: a field keeps its value unless the source clears it -/
def resetBy (rs : List (String × String)) (p : Params) : Params :=
  { query := if isReset rs "Query" "string" then "" else p.query
    opName := if isReset rs "OperationName" "string" then "" else p.opName
    vars := if isReset rs "Variables" "map" then none else p.vars
    exts := if isReset rs "Extensions" "map" then none else p.exts
    hdrs := if isReset rs "Headers" "map" then none else p.hdrs
    readTime := if isReset rs "ReadTime" "struct" then false else p.readTime }

/-! ## JSON decoding into an existing struct -/

/-- one member value of the request object, as far as `RawParams` decoding distinguishes -/
inductive FJ where
  | null
  | str (s : String)
  | obj (kv : KV)
  | other            -- number, bool, array
deriving DecidableEq, Repr

inductive Body where
  | syntaxErr                          -- not a JSON text: nothing is stored
  | jnull                              -- the JSON text `null`
  | nonObject                          -- number / string / array / bool: type error, nothing stored
  | object (ms : List (String × FJ))   -- members in source order, duplicates allowed
deriving DecidableEq, Repr

inductive Fld where | query | opName | vars | exts | hdrs
deriving DecidableEq, Repr

def lowerAscii (s : String) : String := String.ofList (s.toList.map Char.toLower)

/-- `encoding/json` matches keys to the `json:"…"` tags exactly or ASCII-case-insensitively -/
def fieldOfKey (k : String) : Option Fld :=
  let l := lowerAscii k
  if l = "query" then some .query
  else if l = "operationname" then some .opName
  else if l = "variables" then some .vars
  else if l = "extensions" then some .exts
  else if l = "headers" then some .hdrs
  else none

def decodeStr (old : String) : FJ → String × Bool
  | .null => (old, false)
  | .str s => (s, false)
  | _ => (old, true)

def decodeMap (old : Option KV) : FJ → Option KV × Bool
  | .null => (none, false)
  | .obj kv => (some (kvMerge (old.getD []) kv), false)
  | _ => (old, true)

/-- one object member; the flag is "type error" (decoding continues, the first error is returned at the end) -/
def decodeMember (p : Params) (k : String) (v : FJ) : Params × Bool :=
  match fieldOfKey k with
  | none => (p, false)
  | some .query => let r := decodeStr p.query v; ({ p with query := r.1 }, r.2)
  | some .opName => let r := decodeStr p.opName v; ({ p with opName := r.1 }, r.2)
  | some .vars => let r := decodeMap p.vars v; ({ p with vars := r.1 }, r.2)
  | some .exts => let r := decodeMap p.exts v; ({ p with exts := r.1 }, r.2)
  | some .hdrs => let r := decodeMap p.hdrs v; ({ p with hdrs := r.1 }, r.2)

def decodeMembers : Params → List (String × FJ) → Params × Bool
  | p, [] => (p, false)
  | p, (k, v) :: r =>
    let a := decodeMember p k v
    let b := decodeMembers a.1 r
    (b.1, a.2 || b.2)

inductive Decoded where
  | ok (p : Params)
  | err (p : Params)     -- error returned; `p` is what the struct holds now
  | nil                  -- the pointer variable is nil now (struct abandoned)
deriving DecidableEq, Repr

/-- the decode call of a transport on the struct `p` its pointer variable points to -/
def decodeBody (m : NullMode) (p : Params) : Body → Decoded
  | .syntaxErr => .err p
  | .nonObject => .err p
  | .jnull =>
    match m with
    | .nilPtr => .nil
    | .freshErr => .err Params.zero
    | .noop => .ok p
  | .object ms => let r := decodeMembers p ms; if r.2 then .err r.1 else .ok r.1

/-! ## Requests -/

/-- a JSON text decoded into a nil `map[string]any` (GET `variables=` / `extensions=`) -/
inductive MapArg where
  | absent | syntaxErr | jnull | nonObject | object (kv : KV)
deriving DecidableEq, Repr

inductive FormBody where
  | json (b : Body)        -- body contains `"query":` → `parseJson` into a new struct
  | text (q : String)      -- urlencoded or plain text → `Query` only
  | bad                    -- `url.QueryUnescape` fails
deriving DecidableEq, Repr

inductive Req where
  | post (hdrs : KV) (body : Body)
  | get (hdrs : KV) (badUrl : Bool) (query opName : String) (vars exts : MapArg)
  | form (hdrs : KV) (f : FormBody)
  | graphql (hdrs : KV) (q : Option String)     -- `none`: `cleanupBody` fails
  | unsupported
deriving DecidableEq, Repr

inductive Transport where | post | get | form | graphql
deriving DecidableEq, Repr

inductive ApqErr where | invalidData | badVersion | notFound | hashMismatch
deriving DecidableEq, Repr

/-- the decoded `persistedQuery` extension (`mapstructure.Decode`) -/
inductive ApqExt where
  | absent | invalid | badVersion | ok (hash : String)
deriving DecidableEq, Repr

structure Env (D E : Type) where
  sha : String → String
  /-- `parser.ParseQuery` + `validator.Validate` against the schema: a function of the text -/
  parse : String → Except E D
  apqOf : String → ApqExt

/-- everything the response may depend on -/
inductive Outcome (D E : Type) where
  | noTransport
  | transportError (t : Transport) (code : String)
  | nilParams (t : Transport)
  | apqError (t : Transport) (e : ApqErr) (p : Params)
  | parseError (t : Transport) (e : E) (p : Params)
  | executed (t : Transport) (d : D) (p : Params)
deriving DecidableEq, Repr

abbrev Apq := List (String × String)
abbrev QC (D : Type) := List (String × D)

/-- a lawful cache `Get`: `allowed = false` is an evicted / raced entry -/
def cacheGet {V : Type} (c : List (String × V)) (allowed : Bool) (k : String) : Option V :=
  if allowed then c.lookup k else none

/-- `AutomaticPersistedQuery.MutateOperationParameters` with the result `look` of `Cache.Get(hash)` -/
def apqCore {D E : Type} (env : Env D E) (look : String → Option String) (p : Params) :
    Except ApqErr (Params × Option (String × String)) :=
  match (p.exts.bind fun m => kvGet m "persistedQuery") with
  | none => .ok (p, none)
  | some v =>
    match env.apqOf v with
    | .absent => .ok (p, none)
    | .invalid => .error .invalidData
    | .badVersion => .error .badVersion
    | .ok h =>
      if p.query = "" then
        match look h with
        | none => .error .notFound
        | some q => .ok ({ p with query := q }, none)
      else if env.sha p.query = h then .ok (p, some (h, p.query))
      else .error .hashMismatch

def apqAdd (apq : Apq) : Option (String × String) → Apq
  | none => apq
  | some e => e :: apq

/-- `Executor.parseQuery`: cached document, or parse + validate and cache the valid ones -/
def parseQuery {D E : Type} (env : Env D E) (qc : QC D) (hit : Bool) (q : String) : Except E D × QC D :=
  match cacheGet qc hit q with
  | some d => (.ok d, qc)
  | none =>
    match env.parse q with
    | .error e => (.error e, qc)
    | .ok d => (.ok d, (q, d) :: qc)

structure Caches (D : Type) where
  qc : QC D
  apq : Apq

/-- `CreateOperationContext` + dispatch for the params a transport built; also returns the params struct as
the executor leaves it (APQ writes `rawParams.Query`) -/
def execParams {D E : Type} (env : Env D E) (c : Caches D) (apqHit qcHit : Bool) (t : Transport) (p : Params) :
    Outcome D E × Params × Caches D :=
  match apqCore env (cacheGet c.apq apqHit) p with
  | .error e => (.apqError t e p, p, c)
  | .ok (p', add) =>
    let apq' := apqAdd c.apq add
    match parseQuery env c.qc qcHit p'.query with
    | (.error e, qc') => (.parseError t e p', p', ⟨qc', apq'⟩)
    | (.ok d, qc') => (.executed t d p', p', ⟨qc', apq'⟩)

def decodeMapArg : MapArg → Option (Option KV)     -- none = "could not be decoded"
  | .absent => some none
  | .jnull => some none
  | .object kv => some (some (kvMerge [] kv))
  | .syntaxErr => none
  | .nonObject => none

inductive Built where
  | params (t : Transport) (p : Params)
  | fail (o : Transport × String)
  | nilp (t : Transport)
  | none
deriving DecidableEq, Repr

/-- the transports that allocate a new `RawParams` per request -/
def paramsOf (cfg : Cfg) : Req → Built
  | .unsupported => .none
  | .post _ _ => .none
  | .get h badUrl q o v e =>
    if badUrl then .fail (.get, "url") else
    match decodeMapArg v with
    | none => .fail (.get, "variables")
    | some vars =>
      match decodeMapArg e with
      | none => .fail (.get, "extensions")
      | some exts => .params .get ⟨q, o, vars, exts, some h, true⟩
  | .form _ .bad => .fail (.form, "cleanup")
  | .form _ (.text q) => .params .form { Params.zero with query := q }
  | .form _ (.json b) =>
    match decodeBody cfg.formNullMode Params.zero b with
    | .ok p => .params .form p
    | .err _ => .fail (.form, "cleanup")
    | .nil => .nilp .form
  | .graphql _ none => .fail (.graphql, "cleanup")
  | .graphql h (some q) => .params .graphql ⟨q, "", none, none, some h, true⟩

/-! ## Server state and events -/

/-- a POST request in flight: the struct it holds (`none`: its pointer became nil), and whether its body ran -/
structure Held where
  id : Nat
  p : Option Params
  ran : Bool
deriving DecidableEq, Repr

structure State (D : Type) where
  pool : List Params
  held : List Held
  caches : Caches D

def State.fresh {D : Type} : State D := ⟨[], [], ⟨[], []⟩⟩

inductive Ev where
  /-- POST: `pool.Get()`; `choice = none` is `New()`, `some i` the i-th pooled struct -/
  | get (id : Nat) (choice : Option Nat)
  /-- decode + executor, up to the written response -/
  | run (id : Nat) (r : Req) (apqHit qcHit : Bool)
  /-- POST: the deferred reset and `pool.Put` (`drop`: the pool forgets it at once) -/
  | put (id : Nat) (drop : Bool)
  /-- the pool forgets its i-th struct (GC) -/
  | gc (i : Nat)
deriving DecidableEq, Repr

def getStruct (pool : List Params) : Option Nat → Params × List Params
  | none => (Params.zero, pool)
  | some i =>
    match pool[i]? with
    | some p => (p, pool.eraseIdx i)
    | none => (Params.zero, pool)

def findHeld (hs : List Held) (id : Nat) : Option Held := hs.find? (·.id == id)

def setHeld (hs : List Held) (h : Held) : List Held := h :: hs.filter (·.id != h.id)

def dropHeld (hs : List Held) (id : Nat) : List Held := hs.filter (·.id != id)

/-- the POST transport on the struct it holds -/
def runPost {D E : Type} (cfg : Cfg) (env : Env D E) (c : Caches D) (apqHit qcHit : Bool) (p0 : Params)
    (hdrs : KV) (body : Body) : Outcome D E × Option Params × Caches D :=
  let p1 := { p0 with hdrs := some hdrs, readTime := true }
  match decodeBody cfg.nullMode p1 body with
  | .err p => (.transportError .post "decode", some p, c)
  | .nil => (.nilParams .post, none, c)
  | .ok p =>
    let r := execParams env c apqHit qcHit .post p
    (r.1, some r.2.1, r.2.2)

/-- one event; an event that is not enabled leaves the state alone and answers nothing -/
def apply {D E : Type} (cfg : Cfg) (env : Env D E) (s : State D) : Ev → State D × Option (Nat × Outcome D E)
  | .get id choice =>
    match findHeld s.held id with
    | some _ => (s, none)
    | none =>
      let g := getStruct s.pool choice
      ({ s with pool := g.2, held := setHeld s.held ⟨id, some g.1, false⟩ }, none)
  | .run id (.post hdrs body) apqHit qcHit =>
    match findHeld s.held id with
    | some ⟨_, some p0, false⟩ =>
      let r := runPost cfg env s.caches apqHit qcHit p0 hdrs body
      ({ s with held := setHeld s.held ⟨id, r.2.1, true⟩, caches := r.2.2 }, some (id, r.1))
    | _ => (s, none)
  | .run id r apqHit qcHit =>
    match paramsOf cfg r with
    | .none => (s, some (id, .noTransport))
    | .fail (t, code) => (s, some (id, .transportError t code))
    | .nilp t => (s, some (id, .nilParams t))
    | .params t p =>
      let x := execParams env s.caches apqHit qcHit t p
      ({ s with caches := x.2.2 }, some (id, x.1))
  | .put id drop =>
    match findHeld s.held id with
    | some ⟨_, some p, true⟩ =>
      ({ s with held := dropHeld s.held id, pool := if drop then s.pool else resetBy cfg.resets p :: s.pool }, none)
    | some ⟨_, none, true⟩ => ({ s with held := dropHeld s.held id }, none)   -- nil pointer: the deferred function panics before Put
    | _ => (s, none)
  | .gc i => ({ s with pool := s.pool.eraseIdx i }, none)

def runAll {D E : Type} (cfg : Cfg) (env : Env D E) : State D → List Ev → State D × List (Nat × Outcome D E)
  | s, [] => (s, [])
  | s, e :: es =>
    let a := apply cfg env s e
    let b := runAll cfg env a.1 es
    (b.1, a.2.toList ++ b.2)

/-- choices of the environment while one request is served without interleaving -/
structure Choice where
  pool : Option Nat
  apqHit : Bool
  qcHit : Bool
  drop : Bool
deriving DecidableEq, Repr

/-- the events of one request served alone (sequential history) -/
def eventsOf (id : Nat) (r : Req) (ch : Choice) : List Ev :=
  match r with
  | .post _ _ => [.get id ch.pool, .run id r ch.apqHit ch.qcHit, .put id ch.drop]
  | _ => [.run id r ch.apqHit ch.qcHit]

/-- sequential server: request `i` of the history gets id `i` -/
def serveSeq {D E : Type} (cfg : Cfg) (env : Env D E) (s : State D) (n : Nat) :
    List (Req × Choice) → State D × List (Nat × Outcome D E)
  | [] => (s, [])
  | (r, ch) :: rest =>
    let a := runAll cfg env s (eventsOf n r ch)
    let b := serveSeq cfg env a.1 (n + 1) rest
    (b.1, a.2 ++ b.2)

/-! ## Spec -/

/-- **Spec.** What a freshly constructed server (zero params, empty query cache) answers to the request
alone; `look` is the one thing it may remember: the text registered for a persisted-query hash. -/
def spec {D E : Type} (cfg : Cfg) (env : Env D E) (look : String → Option String) : Req → Outcome D E
  | .post hdrs body =>
    match decodeBody cfg.nullMode { Params.zero with hdrs := some hdrs, readTime := true } body with
    | .err _ => .transportError .post "decode"
    | .nil => .nilParams .post
    | .ok p => specExec env look .post p
  | r =>
    match paramsOf cfg r with
    | .none => .noTransport
    | .fail (t, code) => .transportError t code
    | .nilp t => .nilParams t
    | .params t p => specExec env look t p
where
  specExec {D E : Type} (env : Env D E) (look : String → Option String) (t : Transport) (p : Params) : Outcome D E :=
    match apqCore env look p with
    | .error e => .apqError t e p
    | .ok (p', _) =>
      match env.parse p'.query with
      | .error e => .parseError t e p'
      | .ok d => .executed t d p'

end GqlgenVerif.SS
