/-!
# The transports' configured response headers as server state (C07)

Every HTTP transport of gqlgen (`transport.GET / POST / UrlEncodedForm / GRAPHQL / MultipartForm`) carries one
option, `ResponseHeaders map[string][]string`. The map object is created once by the application and outlives
every request, so it is server state in the sense of C07, exactly like the `sync.Pool` and the caches. On every
request a transport

1. reads it in `determineResponseContentType(explicitHeaders, r)` (an explicitly configured `Content-Type`
   wins over the request's `Accept` header) - `neg` below, uninterpreted,
2. hands it, together with a per-request literal `{"Content-Type": {negotiated}}`, to
   `mergeHeaders(base, additional)` (`graphql/handler/transport/headers.go`) and writes the result with
   `writeHeaders`.

Go maps are references. `mergeHeaders` is therefore modelled as a *program* over a heap of maps, in the small
language `HStmt` that `go/extract/respheaders.go` translates its body into on every run (`Gen/RespHeaders.lean`):

* `mk x`             `x := make(map[string][]string)` / `x := map[string][]string{}`
* `alias x y`        `x := y` (both names now denote the same map object)
* `copy s d false`   `for k, v := range s { d[k] = v }`
* `copy s d true`    `for k, v := range s { if _, ok := d[k]; !ok { d[k] = v } }`
* `retIfEmpty t r`   `if len(t) == 0 { return r }`
* `ret r`            `return r`

`exec` is its semantics (a store into a nil map panics, as in Go), `pureFrom` a syntactic alias analysis ("every
store goes into a map made by this call"), `serve` one request of a transport and `serveAll` a history of requests
against ONE configured heap. Core Lean only.
-/
namespace GqlgenVerif.RH

/-- a header map: association list, keys unique (maintained by `setKey`) -/
abbrev HMap := List (String × List String)
/-- the heap of map objects; an address is an index -/
abbrev Heap := List HMap
/-- a map value: `none` = the nil map -/
abbrev Ref := Option Nat
abbrev Env := List (String × Ref)

inductive HStmt where
  | mk (x : String)
  | alias (x y : String)
  | copy (src dst : String) (onlyMissing : Bool)
  | retIfEmpty (t r : String)
  | ret (r : String)
  deriving Repr, DecidableEq

/-- value of a variable; an unbound name reads as the nil map -/
def lookupVar (env : Env) (x : String) : Ref :=
  match env.lookup x with
  | some r => r
  | none => none

/-- contents of a map value (the nil map reads as empty) -/
def readMap (h : Heap) : Ref → HMap
  | none => []
  | some a => h.getD a []

def hasKey (m : HMap) (k : String) : Bool := m.any (fun e => e.1 == k)

/-- `m[k] = v` -/
def setKey (m : HMap) (k : String) (v : List String) : HMap :=
  if hasKey m k then m.map (fun e => if e.1 == k then (k, v) else e) else m ++ [(k, v)]

/-- the range loop `for k, v := range src { [if _, ok := dst[k]; !ok] dst[k] = v }` on the contents -/
def copyInto (src dst : HMap) (onlyMissing : Bool) : HMap :=
  src.foldl (fun d e => if onlyMissing && hasKey d e.1 then d else setKey d e.1 e.2) dst

/-- outcome of running a function body -/
inductive Res where
  | ret (r : Ref) (h : Heap)
  | panic
  | fallthrough
  deriving Repr, DecidableEq

/-- semantics of a body of `HStmt`s over a heap of map objects -/
def exec : List HStmt → Env → Heap → Res
  | [], _, _ => .fallthrough
  | .mk x :: rest, env, h => exec rest ((x, some h.length) :: env) (h ++ [[]])
  | .alias x y :: rest, env, h => exec rest ((x, lookupVar env y) :: env) h
  | .copy s d om :: rest, env, h =>
    let m := readMap h (lookupVar env s)
    match lookupVar env d with
    | none => if m.isEmpty then exec rest env h else .panic
    | some a => exec rest env (h.set a (copyInto m (h.getD a []) om))
  | .retIfEmpty t r :: rest, env, h =>
    if (readMap h (lookupVar env t)).isEmpty then .ret (lookupVar env r) h else exec rest env h
  | .ret r :: _, env, h => .ret (lookupVar env r) h

/-- syntactic alias analysis: `fresh` = the variables that certainly hold a map made by this call. A body is
*pure* when every store goes into such a variable and every path ends in a `return`. -/
def pureFrom : List HStmt → List String → Bool
  | [], _ => false
  | .mk x :: rest, fresh => pureFrom rest (x :: fresh)
  | .alias x y :: rest, fresh =>
    pureFrom rest (if fresh.contains y then x :: fresh else fresh.filter (fun z => z != x))
  | .copy _ d _ :: rest, fresh => fresh.contains d && pureFrom rest fresh
  | .retIfEmpty _ _ :: rest, fresh => pureFrom rest fresh
  | .ret _ :: _, _ => true

/-- what one request is answered with as far as headers go: the negotiated media type (it also decides the status
of request-level errors: 422 vs 400) and the header map handed to `writeHeaders`; `none` = the call panicked -/
abbrev HdrAnswer := Option (String × HMap)

/-- one request through a transport whose configured `ResponseHeaders` is the map value `cfg` of heap `h`:
`neg` = `determineResponseContentType` (reads the configured map as it is NOW and the request's `Accept`),
`prog`/`params` = `mergeHeaders`. Maps made for this request are garbage afterwards: the state that survives
is the first `h.length` cells. -/
def serve (prog : List HStmt) (params : List String) (neg : HMap → String → String)
    (h : Heap) (cfg : Ref) (accept : String) : HdrAnswer × Heap :=
  let ct := neg (readMap h cfg) accept
  let env : Env := [(params.getD 0 "", some h.length), (params.getD 1 "", cfg)]
  match exec prog env (h ++ [[("Content-Type", [ct])]]) with
  | .ret r h' => (some (ct, readMap h' r), h'.take h.length)
  | _ => (none, h)

/-- a history of requests (which transport's map, which `Accept`) against one server -/
def serveAll (prog : List HStmt) (params : List String) (neg : HMap → String → String) :
    Heap → List (Ref × String) → List HdrAnswer
  | _, [] => []
  | h, (cfg, accept) :: rest =>
    let (a, h') := serve prog params neg h cfg accept
    a :: serveAll prog params neg h' rest

end GqlgenVerif.RH
