import GqlgenVerif.Model.Schema
/-!
# Introspection: the schema as gqlparser loaded it, what `graphql/introspection` reports, and back

* `Schema` (here `Introspect.Schema`) is the part of gqlparser's `ast.Schema` that introspection is about:
  `Types` (a Go map: a list with pairwise distinct names, in *any* order), per definition its kind,
  description, `Fields` (object/interface fields **and** input-object fields share `ast.FieldDefinition`),
  `Interfaces`, `schema.PossibleTypes[name]`, `EnumValues`, the `@specifiedBy` url, `@oneOf`; the
  directive definitions (locations, arguments, `IsRepeatable`); the root operation types; and on every
  field / argument / input field / enum value its *own* `@deprecated` application (`Dep`).
  Default values are the text `ast.Value.String()` renders (gqlparser is in the trusted base; the harness
  renders the text with an independent printer and re-parses it).
* `introspect : Schema → ITree` mirrors, function by function,
  `graphql/introspection/schema.go` (`Types`: sorted by name; `Directives`: sorted by name;
  `QueryType`/`MutationType`/`SubscriptionType`; `directiveFromDef`),
  `graphql/introspection/type.go` (`WrapTypeFromDef`, `WrapTypeFromType`, `Kind`, `Name`, `Description`,
  `Fields(includeDeprecated)`, `InputFields`, `Interfaces`, `PossibleTypes`, `EnumValues(includeDeprecated)`,
  `OfType`, `SpecifiedByURL`, `IsOneOf`) and `graphql/introspection/introspection.go`
  (`Description`, `IsDeprecated`, `DeprecationReason` of `Field` / `InputValue` / `EnumValue`) —
  **including which AST node each `deprecation` pointer is taken from**. `ITree` has the shape of the
  answer to the standard introspection query.
* A `Types[name]` lookup that finds nothing makes the Go code dereference nil (`Type.Kind` on
  `&Type{def: nil}`; `*WrapTypeFromDef(s, nil)` in `Interfaces`): outcome `ITypeRef.nilDeref`.
* `rebuild : ITree → Schema` is what a client does with the answer.
* `Old.*` are the three places as they were before the `fix:` commits (kept for the witness theorems).
-/
namespace GqlgenVerif.Introspect
open GqlgenVerif

deriving instance DecidableEq for TRef

/-- `ast.DefinitionKind` -/
inductive Kind where
  | scalar | object | interface | union | enum | inputObject
deriving Repr, DecidableEq, Inhabited

def Kind.str : Kind → String
  | .scalar => "SCALAR" | .object => "OBJECT" | .interface => "INTERFACE"
  | .union => "UNION" | .enum => "ENUM" | .inputObject => "INPUT_OBJECT"

/-- an element's own `@deprecated`: `none` = not applied; `some r` = applied, `r` = the `reason`
    argument as written (`none` = argument omitted) -/
abbrev Dep := Option (Option String)

/-- `ast.ArgumentDefinition` -/
structure ArgDef where
  name : String
  description : String := ""
  type : TRef
  default : Option String := none
  dep : Dep := none
deriving Repr, DecidableEq, Inhabited

/-- `ast.FieldDefinition` (field of an object / interface, or input field of an input object) -/
structure FieldDef where
  name : String
  description : String := ""
  args : List ArgDef := []
  type : TRef
  default : Option String := none
  dep : Dep := none
deriving Repr, DecidableEq, Inhabited

/-- `ast.EnumValueDefinition` -/
structure EnumVal where
  name : String
  description : String := ""
  dep : Dep := none
deriving Repr, DecidableEq, Inhabited

/-- `ast.Definition` -/
structure TypeDef where
  name : String
  kind : Kind
  description : String := ""
  fields : List FieldDef := []
  interfaces : List String := []
  /-- `schema.PossibleTypes[name]`: the definitions (name, kind) gqlparser registered -/
  possible : List (String × Kind) := []
  enumValues : List EnumVal := []
  /-- `url` of `@specifiedBy` -/
  specifiedBy : Option String := none
  oneOf : Bool := false
deriving Repr, DecidableEq, Inhabited

/-- `ast.DirectiveDefinition` -/
structure DirDef where
  name : String
  description : String := ""
  locations : List String := []
  args : List ArgDef := []
  repeatable : Bool := false
deriving Repr, DecidableEq, Inhabited

structure Schema where
  description : String := ""
  query : Option String := none
  mutation : Option String := none
  subscription : Option String := none
  types : List TypeDef := []
  directives : List DirDef := []
deriving Repr, DecidableEq, Inhabited

/-- `schema.Types[name]` -/
def Schema.lookup (s : Schema) (n : String) : Option TypeDef := s.types.find? (·.name == n)

/-! ## the answer -/

/-- `introspection.Type` seen through `kind name ofType` -/
inductive ITypeRef where
  | named (kind : Kind) (name : String)     -- `Type{def}`
  | list (ofType : ITypeRef)                -- `Type{typ}` with `Elem`
  | nonNull (ofType : ITypeRef)             -- `Type{typ}` with `NonNull`
  | nilDeref                                -- `Types[name]` was nil
deriving Repr, DecidableEq, Inhabited

structure IInputValue where
  name : String
  description : Option String
  type : ITypeRef
  defaultValue : Option String
  isDeprecated : Bool
  deprecationReason : Option String
deriving Repr, DecidableEq, Inhabited

structure IField where
  name : String
  description : Option String
  args : List IInputValue
  type : ITypeRef
  isDeprecated : Bool
  deprecationReason : Option String
deriving Repr, DecidableEq, Inhabited

structure IEnumValue where
  name : String
  description : Option String
  isDeprecated : Bool
  deprecationReason : Option String
deriving Repr, DecidableEq, Inhabited

structure IType where
  kind : Kind
  name : Option String
  description : Option String
  specifiedByURL : Option String
  isOneOf : Bool
  fields : List IField              -- `fields(includeDeprecated: true)`
  inputFields : List IInputValue
  interfaces : List ITypeRef
  possibleTypes : List ITypeRef
  enumValues : List IEnumValue      -- `enumValues(includeDeprecated: true)`
deriving Repr, DecidableEq, Inhabited

structure IDirective where
  name : String
  description : Option String
  locations : List String
  args : List IInputValue
  isRepeatable : Bool
deriving Repr, DecidableEq, Inhabited

structure ITree where
  description : Option String
  queryType : Option String
  mutationType : Option String
  subscriptionType : Option String
  types : List IType
  directives : List IDirective
deriving Repr, DecidableEq, Inhabited

/-! ## `introspect` -/

/-- the `Description()` methods: `""` is reported as null -/
def descr (s : String) : Option String := if s = "" then none else some s

/-- insertion into a list sorted by `key` (`sort.Strings` on the names, then lookup by name) -/
def insertOn {α} (key : α → String) (x : α) : List α → List α
  | [] => [x]
  | y :: ys => if key x ≤ key y then x :: y :: ys else y :: insertOn key x ys

def sortOn {α} (key : α → String) : List α → List α
  | [] => []
  | x :: xs => insertOn key x (sortOn key xs)

/-- `WrapTypeFromType` on `{NamedType: n, NonNull: false}`: `&Type{def: s.Types[n]}`, then `Kind()` / `Name()` -/
def wrapNamed (s : Schema) (n : String) : ITypeRef :=
  match s.lookup n with
  | some d => .named d.kind d.name
  | none => .nilDeref

/-- `WrapTypeFromType` followed to the bottom with `OfType()` ("fake non null nodes": a copy with
    `NonNull = false`) -/
def wrapType (s : Schema) : TRef → ITypeRef
  | .named n nn => if nn then .nonNull (wrapNamed s n) else wrapNamed s n
  | .list e nn => if nn then .nonNull (.list (wrapType s e)) else .list (wrapType s e)

/-- `Field.DeprecationReason`: the default reason is filled in -/
def fieldReason : Dep → Option String
  | none => none
  | some none => some "No longer supported"
  | some (some r) => some r

/-- `InputValue.DeprecationReason` / `EnumValue.DeprecationReason`: null when `reason` was omitted -/
def valueReason : Dep → Option String
  | none => none
  | some r => r

/-- an argument of a field or of a directive definition: `deprecation: arg.Directives.ForName("deprecated")` -/
def introArg (s : Schema) (a : ArgDef) : IInputValue :=
  { name := a.name, description := descr a.description, type := wrapType s a.type,
    defaultValue := a.default, isDeprecated := a.dep.isSome, deprecationReason := valueReason a.dep }

def introField (s : Schema) (f : FieldDef) : IField :=
  { name := f.name, description := descr f.description, args := f.args.map (introArg s),
    type := wrapType s f.type, isDeprecated := f.dep.isSome, deprecationReason := fieldReason f.dep }

def isFieldsKind (k : Kind) : Bool := k == .object || k == .interface
def isAbstract (k : Kind) : Bool := k == .interface || k == .union

/-- `strings.HasPrefix(f.Name, "__")`: gqlparser's loader adds the meta fields `__schema` / `__type` to the
    query root definition; `Fields` skips them -/
def isMeta (f : FieldDef) : Bool := f.name.startsWith "__"

/-- `Type.Fields(includeDeprecated)` -/
def introFields (s : Schema) (incl : Bool) (d : TypeDef) : List IField :=
  if !isFieldsKind d.kind then [] else
  (d.fields.filter fun f => !isMeta f && (incl || f.dep.isNone)).map (introField s)

def introInputField (s : Schema) (f : FieldDef) : IInputValue :=
  { name := f.name, description := descr f.description, type := wrapType s f.type,
    defaultValue := f.default, isDeprecated := f.dep.isSome, deprecationReason := valueReason f.dep }

/-- `Type.InputFields()` -/
def introInputFields (s : Schema) (d : TypeDef) : List IInputValue :=
  if d.kind != .inputObject then [] else d.fields.map (introInputField s)

def ITypeRef.isNil : ITypeRef → Bool
  | .nilDeref => true
  | _ => false

/-- `Type.Interfaces()` (objects and interfaces). A missing interface definition panics the whole call. -/
def introInterfaces (s : Schema) (d : TypeDef) : List ITypeRef :=
  if !isFieldsKind d.kind then [] else
  let l := d.interfaces.map (wrapNamed s)
  if l.any ITypeRef.isNil then [.nilDeref] else l

/-- `Type.PossibleTypes()`: `schema.GetPossibleTypes(def)` wrapped -/
def introPossible (d : TypeDef) : List ITypeRef :=
  if !isAbstract d.kind then [] else d.possible.map fun p => .named p.2 p.1

def introEnumValue (v : EnumVal) : IEnumValue :=
  { name := v.name, description := descr v.description, isDeprecated := v.dep.isSome,
    deprecationReason := valueReason v.dep }

/-- `Type.EnumValues(includeDeprecated)` -/
def introEnumValues (incl : Bool) (d : TypeDef) : List IEnumValue :=
  if d.kind != .enum then [] else
  (d.enumValues.filter fun v => incl || v.dep.isNone).map introEnumValue

/-- `WrapTypeFromDef(s, def)` seen through every field of `__Type` -/
def introType (s : Schema) (d : TypeDef) : IType :=
  { kind := d.kind, name := some d.name, description := descr d.description,
    specifiedByURL := if d.kind != .scalar then none else d.specifiedBy,
    isOneOf := d.kind == .inputObject && d.oneOf,
    fields := introFields s true d, inputFields := introInputFields s d,
    interfaces := introInterfaces s d, possibleTypes := introPossible d,
    enumValues := introEnumValues true d }

/-- `Schema.directiveFromDef` -/
def introDirective (s : Schema) (d : DirDef) : IDirective :=
  { name := d.name, description := descr d.description, locations := d.locations,
    args := d.args.map (introArg s), isRepeatable := d.repeatable }

/-- `introspection.WrapSchema(schema)` seen through the standard introspection query -/
def introspect (s : Schema) : ITree :=
  { description := descr s.description, queryType := s.query, mutationType := s.mutation,
    subscriptionType := s.subscription,
    types := (sortOn TypeDef.name s.types).map (introType s),
    directives := (sortOn DirDef.name s.directives).map (introDirective s) }

/-- `__type(name:)`: `WrapTypeFromDef(schema, schema.Types[name])` -/
def introTypeByName (s : Schema) (n : String) : Option IType := (s.lookup n).map (introType s)

/-! ## `rebuild` -/

def unwrapType : ITypeRef → TRef
  | .named _ n => .named n false
  | .list t => .list (unwrapType t) false
  | .nonNull t =>
    match unwrapType t with
    | .named n _ => .named n true
    | .list e _ => .list e true
  | .nilDeref => .named "" false

def rebuildDep (isDeprecated : Bool) (reason : Option String) : Dep :=
  if isDeprecated then some reason else none

def rebuildArg (v : IInputValue) : ArgDef :=
  { name := v.name, description := v.description.getD "", type := unwrapType v.type,
    default := v.defaultValue, dep := rebuildDep v.isDeprecated v.deprecationReason }

def rebuildField (f : IField) : FieldDef :=
  { name := f.name, description := f.description.getD "", args := f.args.map rebuildArg,
    type := unwrapType f.type, default := none, dep := rebuildDep f.isDeprecated f.deprecationReason }

def rebuildInputField (v : IInputValue) : FieldDef :=
  { name := v.name, description := v.description.getD "", args := [], type := unwrapType v.type,
    default := v.defaultValue, dep := rebuildDep v.isDeprecated v.deprecationReason }

def rebuildEnumValue (v : IEnumValue) : EnumVal :=
  { name := v.name, description := v.description.getD "", dep := rebuildDep v.isDeprecated v.deprecationReason }

def refName : ITypeRef → String
  | .named _ n => n
  | _ => ""

def refPair : ITypeRef → String × Kind
  | .named k n => (n, k)
  | _ => ("", .scalar)

def rebuildType (t : IType) : TypeDef :=
  { name := t.name.getD "", kind := t.kind, description := t.description.getD "",
    fields := if t.kind == .inputObject then t.inputFields.map rebuildInputField else t.fields.map rebuildField,
    interfaces := t.interfaces.map refName, possible := t.possibleTypes.map refPair,
    enumValues := t.enumValues.map rebuildEnumValue, specifiedBy := t.specifiedByURL, oneOf := t.isOneOf }

def rebuildDirective (d : IDirective) : DirDef :=
  { name := d.name, description := d.description.getD "", locations := d.locations,
    args := d.args.map rebuildArg, repeatable := d.isRepeatable }

def rebuild (t : ITree) : Schema :=
  { description := t.description.getD "", query := t.queryType, mutation := t.mutationType,
    subscription := t.subscriptionType, types := t.types.map rebuildType,
    directives := t.directives.map rebuildDirective }

/-! ## what "exactly" means: the normal form of a schema

Only what the schema itself leaves free, or what is derivable: a Go map has no order (types and
directives by name); a field's `@deprecated` without `reason` means the declared default reason;
`PossibleTypes[name]` of a non-abstract type (gqlparser registers every object as its own possible
type) is not schema information, nor are the meta fields (`__schema`, `__type`) gqlparser's loader adds
to the query root. -/

def normDep : Dep → Dep
  | some none => some (some "No longer supported")
  | d => d

def normField (f : FieldDef) : FieldDef := { f with dep := normDep f.dep }

def normType (d : TypeDef) : TypeDef :=
  { d with fields := if isFieldsKind d.kind then (d.fields.filter (!isMeta ·)).map normField else d.fields,
           possible := if isAbstract d.kind then d.possible else [] }

def normalise (s : Schema) : Schema :=
  { s with types := (sortOn TypeDef.name s.types).map normType,
           directives := sortOn DirDef.name s.directives }

/-! ## well-formedness: what gqlparser's loader and validator guarantee (decidable; the driver evaluates
    it on every schema of the correspondence run) -/

def TRef.resolves (s : Schema) : TRef → Bool
  | .named n _ => (s.lookup n).isSome
  | .list e _ => TRef.resolves s e

def argWF (s : Schema) (a : ArgDef) : Bool := TRef.resolves s a.type

def fieldWF (s : Schema) (k : Kind) (f : FieldDef) : Bool :=
  TRef.resolves s f.type && f.args.all (argWF s) &&
    (if isFieldsKind k then f.default.isNone else f.args.isEmpty)

def typeWF (s : Schema) (d : TypeDef) : Bool :=
  d.fields.all (fieldWF s d.kind) &&
  (isFieldsKind d.kind || d.kind == .inputObject || d.fields.isEmpty) &&
  (isFieldsKind d.kind || d.interfaces.isEmpty) &&
  d.interfaces.all (fun i => (s.lookup i).isSome) &&
  (d.kind == .enum || d.enumValues.isEmpty) &&
  (d.kind == .scalar || d.specifiedBy.isNone) &&
  (d.kind == .inputObject || !d.oneOf)

def dirWF (s : Schema) (d : DirDef) : Bool := d.args.all (argWF s)

def Schema.wf (s : Schema) : Bool := s.types.all (typeWF s) && s.directives.all (dirWF s)

/-! ## the code before the `fix:` commits (small separate definitions, for the witness theorems) -/
namespace Old

/-- `deprecation: f.Directives.ForName("deprecated")` — the enclosing FIELD's directive -/
def introArg (s : Schema) (f : FieldDef) (a : ArgDef) : IInputValue :=
  { name := a.name, description := descr a.description, type := wrapType s a.type,
    defaultValue := a.default, isDeprecated := f.dep.isSome, deprecationReason := valueReason f.dep }

def introField (s : Schema) (f : FieldDef) : IField :=
  { name := f.name, description := descr f.description, args := f.args.map (introArg s f),
    type := wrapType s f.type, isDeprecated := f.dep.isSome, deprecationReason := fieldReason f.dep }

/-- `if t.def.Kind != ast.Object { return []Type{} }` -/
def introInterfaces (s : Schema) (d : TypeDef) : List ITypeRef :=
  if d.kind != .object then [] else d.interfaces.map (wrapNamed s)

/-- `directiveFromDef` did not set `deprecation` at all -/
def introDirArg (s : Schema) (a : ArgDef) : IInputValue :=
  { name := a.name, description := descr a.description, type := wrapType s a.type,
    defaultValue := a.default, isDeprecated := false, deprecationReason := none }

end Old

end GqlgenVerif.Introspect
