import GqlgenVerif.Model.Apq
/-!
# A tiny imperative language for the body of `AutomaticPersistedQuery.MutateOperationParameters`

`go/extract/apqprog.go` translates the function body in /repo (graphql/handler/extension/apq.go) into a
`Prog` term on every run (`Gen/ApqProg.lean`): a decision tree in continuation form — an `if` whose
branches fall through has the rest of the function copied into both branches. `interp` gives the
term its meaning over the same abstract request the hand-written `Apq.step` takes. Property C15's
theorem `gen_prog_is_step` proves the regenerated tree equal to `step` for all inputs, so the theorems
about `step` are theorems about the function body as it is in the source today.

Registers: `query` = `rawParams.Query` (none = ""), `ok` = the second result of `Cache.Get`.
The `extension` struct is `(version, sha)`; it is the zero value `(0, h0)` unless decoding succeeded.
`H0` stands for `computeQueryHash("")` (only needed to make `interp` total; `hashNe` is reached with a
non-empty query in the real body).
Core Lean only.
-/
namespace GqlgenVerif.Apq

inductive Cond where
  /-- `rawParams.Extensions[key] == nil` -/
  | extNil
  /-- `err := mapstructure.Decode(rawParams.Extensions[key], &extension); err != nil` -/
  | decodeFails
  /-- `extension.Version != n` -/
  | versionNe (n : Int)
  /-- `rawParams.Query == ""` -/
  | queryEmpty
  /-- `!ok` -/
  | cacheMiss
  /-- `computeQueryHash(rawParams.Query) != extension.Sha256` -/
  | hashNe
  deriving Repr

inductive Ret where
  /-- `return nil` -/
  | pass
  /-- `return <error with this message and this errcode>` -/
  | err (msg : String) (code : Option String)
  deriving Repr

inductive Prog where
  | ret (r : Ret)
  | ite (c : Cond) (t e : Prog)
  /-- `rawParams.Query, ok = a.Cache.Get(ctx, extension.Sha256)`, then continue -/
  | get (k : Prog)
  /-- `a.Cache.Add(ctx, extension.Sha256, rawParams.Query)`, then continue -/
  | add (k : Prog)
  deriving Repr

/-- error message + errcode → outcome class (the strings the harness classifies responses by) -/
def classify {Text : Type} (msg : String) (code : Option String) : Option (Outcome Text) :=
  if msg = "invalid APQ extension data" ∧ code = none then some .invalidExt
  else if msg = "unsupported APQ version" ∧ code = none then some .badVersion
  else if msg = "PersistedQueryNotFound" ∧ code = some "PERSISTED_QUERY_NOT_FOUND" then some .notFound
  else if msg = "provided APQ hash does not match query" ∧ code = none then some .mismatch
  else none

structure Regs (σ Text Hash : Type) where
  state : σ
  query : Option Text
  ok : Bool
  ops : List (Op Text Hash)

variable {σ Text Hash : Type} [DecidableEq Hash]

def extVersion (r : Req Text Hash) : Int :=
  match r.ext with | .decoded v _ => v | _ => 0

def extSha (h0 : Hash) (r : Req Text Hash) : Hash :=
  match r.ext with | .decoded _ h => h | _ => h0

def evalCond (H : Text → Hash) (H0 h0 : Hash) (r : Req Text Hash) (g : Regs σ Text Hash) : Cond → Bool
  | .extNil => match r.ext with | .absent => true | _ => false
  | .decodeFails => match r.ext with | .malformed => true | _ => false
  | .versionNe n => decide (extVersion r ≠ n)
  | .queryEmpty => g.query.isNone
  | .cacheMiss => !g.ok
  | .hashNe => match g.query with
    | some t => decide (H t ≠ extSha h0 r)
    | none => decide (H0 ≠ extSha h0 r)

/-- Meaning of a program. `none`: an error message `classify` does not know, or `Cache.Add` reached with an EMPTY
`rawParams.Query` — that call registers `hash ↦ ""`, a text no client sent with that hash (a request with an empty
query is a hash-only request) and which no `StepRes` describes: cache values are texts somebody sent. (Until round 5
this case was "modelled as no call", which made a body that registers the empty text on a lookup miss
indistinguishable from one that registers nothing.) -/
def interp (H : Text → Hash) (H0 h0 : Hash) (C : CacheImpl σ Text Hash) (r : Req Text Hash) :
    Prog → Regs σ Text Hash → Option (StepRes σ Text Hash)
  | .ret .pass, g => some ⟨g.state, .run g.query, g.ops⟩
  | .ret (.err m c), g => (classify m c).map (fun o => ⟨g.state, o, g.ops⟩)
  | .ite c t e, g => if evalCond H H0 h0 r g c then interp H H0 h0 C r t g else interp H H0 h0 C r e g
  | .get k, g =>
    let res := C.get g.state (extSha h0 r)
    interp H H0 h0 C r k ⟨res.2, res.1, res.1.isSome, g.ops ++ [.get (extSha h0 r) res.1]⟩
  | .add k, g =>
    match g.query with
    | some t => interp H H0 h0 C r k ⟨C.add g.state (extSha h0 r) t, g.query, g.ok, g.ops ++ [.add (extSha h0 r) t]⟩
    | none => none

/-- Run the body on a request: `rawParams.Query` starts as the request's query. -/
def runProg (H : Text → Hash) (H0 h0 : Hash) (C : CacheImpl σ Text Hash) (p : Prog) (s : σ) (r : Req Text Hash) :
    Option (StepRes σ Text Hash) :=
  interp H H0 h0 C r p ⟨s, r.query, false, []⟩

end GqlgenVerif.Apq
