import GqlgenVerif.Model.Pipeline
import GqlgenVerif.Model.PipelineSpec
/-!
# The gate of a transport  (property C03: "a rejected request … is answered with errors only")

Every transport of `graphql/handler/transport` that carries an operation does

```go
rc, err := exec.CreateOperationContext(ctx, params)
if err != nil { … exec.DispatchError(…, err) … write … return }
… exec.DispatchOperation(ctx, rc) … poll the handler …
```

`Model/Pipeline.lean`'s `run` *assumes* that shape ("a transport calls `DispatchError` when
`CreateOperationContext` returned errors, else `DispatchOperation`"). Here the shape is a datum:
`go/extract/transportgates.go` re-reads, on every run, the statements that follow the call of
`CreateOperationContext` in each transport (`http_post.go`, `http_get.go`, `http_form_multipart.go`,
`http_form_urlencoded.go`, `http_graphql.go`, `http_multipart_mixed.go`, `sse.go`, `websocket.go`
`subscribe`) into the small statement language `TStmt` (→ `Gen/TransportGates.lean`), `acts` runs such
a program for a request that was accepted / rejected with a protocol-kind / rejected with a user-kind
error (`errcode.GetErrorKind`, which `websocket.go` switches on), and `runT` is `Pipeline.run` with the
transport's part played by the regenerated program. `Props/C03.lean` proves `Spec.ok` of `runT` for
every regenerated program; that proof needs `closed`, which is decided on the regenerated programs.
Core Lean only.
-/
namespace GqlgenVerif.Pipeline.Transport

/-- statements of a transport after `rc, err := exec.CreateOperationContext(…)` -/
inductive TStmt where
  /-- `if err != nil { thn } else { els }` (also `len(err) != 0`, `err == nil` with the arms swapped) -/
  | onRejected (thn els : List TStmt)
  /-- `switch errcode.GetErrorKind(err) { case errcode.KindProtocol: protocol; default: user }` -/
  | onKind (protocol user : List TStmt)
  /-- `exec.DispatchError(…, err)` -/
  | dispatchError
  /-- `exec.DispatchOperation(…, rc)` followed by the polling of the returned handler -/
  | dispatchOperation
  /-- something is written to the client (named for the reader only) -/
  | send (what : String)
  | ret
  /-- a statement that mentions the executor or the error list in a way the extractor does not know -/
  | other (src : String)
  deriving Repr

/-- what `CreateOperationContext` returned, as far as a transport can tell -/
inductive Mode where
  | accepted
  | rejected (protocolKind : Bool)
  deriving DecidableEq, Repr

inductive Act where
  | dispatchError | dispatchOperation
  deriving DecidableEq, Repr

mutual
/-- the executor calls a statement list makes, and whether it returned -/
def acts (m : Mode) : List TStmt → List Act × Bool
  | [] => ([], false)
  | s :: rest =>
    match act1 m s with
    | (a, true) => (a, true)
    | (a, false) => let (b, r) := acts m rest; (a ++ b, r)
def act1 (m : Mode) : TStmt → List Act × Bool
  | .onRejected thn els =>
    match m with
    | .accepted => acts m els
    | .rejected _ => acts m thn
  | .onKind p u =>
    match m with
    | .rejected true => acts m p
    | _ => acts m u           -- `GetErrorKind` of an empty list is `KindUser`
  | .dispatchError => ([.dispatchError], false)
  | .dispatchOperation => ([.dispatchOperation], false)
  | .send _ => ([], false)
  | .ret => ([], true)
  | .other _ => ([.dispatchOperation, .dispatchError], false)   -- unknown: assume the worst
end

/-- the gate of a transport is closed: a rejected request (either error kind) is handed to
`DispatchError` exactly once and never to `DispatchOperation`; an accepted one is dispatched exactly
once and never answered through `DispatchError`. -/
def closed (prog : List TStmt) : Bool :=
  (acts (.rejected true) prog).1 == [.dispatchError] &&
  (acts (.rejected false) prog).1 == [.dispatchError] &&
  (acts .accepted prog).1 == [.dispatchOperation]

/-- a regenerated transport -/
structure TGate where
  file : String
  func : String
  prog : List TStmt
  deriving Repr

/-- which gates produce protocol-kind errors (`graphql/errcode/codes.go`: `ValidationFailed` and
`ParseFailed` are registered as `KindProtocol`; an extension's own code is `KindUser` unless it
registers it otherwise — `extProtocol` says which extensions did) -/
def kindOf (extProtocol : Nat → Bool) : Pipeline.Gate → Bool
  | .pm i => extProtocol i
  | .cm i => extProtocol i
  | _ => true

/-- log and answers of one executor call made by the transport -/
def actOut (cfg : Cfg) (r : Req) (rej : Option Resp) (op : Option OpDef) : Act → List Ev × List (Option Resp)
  | .dispatchError =>
    (respLog cfg.exts [], [some (rej.getD { hasData := false, nErrors := 1, code := .none })])
  | .dispatchOperation =>
    match dispatch cfg.exts r with
    | (lo, .normal) =>
      -- a rejected operation context has no usable operation; the schema then runs whatever it finds
      let (lp, rs) := pollLoop cfg.exts (op.getD { name := "", sub := false, roots := [] }) r r.polls 0
      (lo ++ lp, rs)
    | (lo, .oneShot c) => (lo, pollOneShot c r.polls)

def actsOut (cfg : Cfg) (r : Req) (rej : Option Resp) (op : Option OpDef) : List Act → List Ev × List (Option Resp)
  | [] => ([], [])
  | a :: as =>
    let (l, rs) := actOut cfg r rej op a
    let (l', rs') := actsOut cfg r rej op as
    (l ++ l', rs ++ rs')

/-- one request through the transport whose statements after `CreateOperationContext` are `prog` -/
def runT (prog : List TStmt) (extProtocol : Nat → Bool) (W : World) (C : Apq.CacheImpl σ Doc Nat) (cfg : Cfg)
    (s : St σ) (r : Req) : Out × St σ :=
  match create W C cfg s r with
  | (.rejected g n sg, s', l) =>
    let (la, rs) := actsOut cfg r (some { hasData := false, nErrors := n, code := .gate g, sugg := sg }) none
      (acts (.rejected (kindOf extProtocol g)) prog).1
    ({ gate := some g, log := l ++ la, resps := rs }, s')
  | (.ok op, s', l) =>
    let (la, rs) := actsOut cfg r none (some op) (acts .accepted prog).1
    ({ gate := none, log := l ++ la, resps := rs }, s')

/-- the shape `Pipeline.run` assumes -/
def modelProg : List TStmt :=
  [.onRejected [.dispatchError, .send "errors", .ret] [], .dispatchOperation, .send "responses"]

/-- the transports the tie drives (`go/harness/c03/transports.go`), as (file, function) -/
def harnessed : List (String × String) :=
  [("http_form_multipart.go", "MultipartForm.Do"),
   ("http_form_urlencoded.go", "UrlEncodedForm.Do"),
   ("http_get.go", "GET.Do"),
   ("http_graphql.go", "GRAPHQL.Do"),
   ("http_multipart_mixed.go", "MultipartMixed.Do"),
   ("http_post.go", "POST.Do"),
   ("sse.go", "SSE.Do"),
   ("websocket.go", "wsConnection.subscribe")]

end GqlgenVerif.Pipeline.Transport
