/-!
# Where the generator is started vs where it works (C18, round 6 a)

`gqlgen generate` may be started in any directory inside a project. `config.LoadConfigFromDefaultLocations` searches
upwards for gqlgen.yml (`findCfg`), `os.Chdir`s to the directory that holds it and only then loads the configuration,
whose paths are all relative to that directory. What a read of the working directory SEES therefore depends on WHEN it
is evaluated: at package initialisation (process start, before any chdir) and during the upward search it sees the
start directory; while generating it sees wherever the steps of the loader left the process.
-/
namespace GqlgenVerif.StartDir

inductive Phase where
  | init | search | generate
  deriving Repr, DecidableEq

/-- a call of os.Getwd / filepath.Abs / os.Getenv("PWD") in the generator's source -/
structure Read where
  file : String
  func : String
  call : String
  line : Nat
  phase : Phase
  deriving Repr, DecidableEq

/-- the calls of LoadConfigFromDefaultLocations, in source order -/
inductive Step where
  | findCfg | chdirCfgDir | chdirOther | loadConfig
  deriving Repr, DecidableEq

/-- one run: the directory the process is started in, and the directory of the nearest gqlgen.yml at or above it -/
structure Proc where
  start : String
  cfgDir : String
  deriving Repr, DecidableEq

/-- state while the loader runs: working directory, has the config been located?, has the config been loaded? -/
structure St where
  wd : String
  found : Bool
  loaded : Bool

/-- `chdirOther` goes somewhere that is not a function of the config directory: modelled as "stays" (the weakest
assumption under which the theorems below are still meaningful). A chdir AFTER the load does not help the load. -/
def step (p : Proc) (s : St) : Step → St
  | .findCfg => { s with found := true }
  | .chdirCfgDir => if s.found && !s.loaded then { s with wd := p.cfgDir } else s
  | .chdirOther => s
  | .loadConfig => { s with loaded := true }

/-- the working directory in which the configuration is loaded and generation then runs: the moves made before the
load count; `none` when the loader never loads -/
def wdAtLoad (steps : List Step) (p : Proc) : Option String :=
  let rec go (s : St) : List Step → Option String
    | [] => none
    | .loadConfig :: _ => some s.wd
    | st :: rest => go (step p s st) rest
  go ⟨p.start, false, false⟩ steps

/-- what a read of the working directory sees -/
def seen (steps : List Step) (r : Read) (p : Proc) : Option String :=
  match r.phase with
  | .init => some p.start
  | .search => some p.start
  | .generate => wdAtLoad steps p

end GqlgenVerif.StartDir
