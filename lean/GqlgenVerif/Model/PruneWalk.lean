import GqlgenVerif.Gen.PruneFacts
/-!
# Which identifiers count as a use of an import (C19)

Mirrors `internal/imports/prune.go`:

* `Prune` parses the rendered file with `parser.ParseFile(…, parseFlags)`; go/parser binds an identifier to the
  declaration it refers to (`Ident.Obj`) for everything declared IN THAT FILE - parameters, named results,
  receivers, locals, range / closure / type-switch variables, labels aside, file-level declarations - unless
  `parser.SkipObjectResolution` is among the flags (`resolvesObjects`).
* `getUnusedImports` walks the file; for every selector expression `x.Sel` whose `x` is a plain identifier it
  marks `x` used, except (`skipResolvedBase`) when the parser resolved `x` (`countsAsUse`, `usedNames`).
* an imported name is reported unused - and deleted - unless it is in `used` (`dropsUsed`) or one of
  `neverUnused` (`keepName`).

The input is the list of selector bases of a file with what Go's scoping says about each (`resolved`: the
identifier is bound by a declaration of this file, so it can NOT be a package name). The harness computes that
with a parser mode of its own, independent of the flags in prune.go. The flags, the guard and the exemptions
are regenerated (`Gen/PruneFacts.lean`).
-/
namespace GqlgenVerif.PruneWalk
open GqlgenVerif.Gen.PruneFacts

/-- one selector expression `name.Sel` of the file -/
structure SelBase where
  name : String
  resolved : Bool   -- bound by a parameter / result / local / file-level declaration of this file
  deriving DecidableEq, Repr, Inhabited

/-- does a parse with these flags fill `Ident.Obj`? -/
def resolvesWith (flags : List String) : Bool := !flags.contains "SkipObjectResolution"

/-- `used[xident.Name] = true` is reached for this base, for a given parser behaviour and guard -/
def countsAsUseWith (resolves guard : Bool) (b : SelBase) : Bool := !(guard && resolves && b.resolved)

def usedNamesWith (resolves guard : Bool) (sels : List SelBase) : List String :=
  (sels.filter (countsAsUseWith resolves guard)).map (·.name)

/-- … as the source is now -/
def resolvesObjects : Bool := resolvesWith parseFlags
def countsAsUse (b : SelBase) : Bool := countsAsUseWith resolvesObjects skipResolvedBase b
def usedNames (sels : List SelBase) : List String := usedNamesWith resolvesObjects skipResolvedBase sels

/-- Go's own rule (Spec side, nothing regenerated): only a selector base that no declaration of the file binds
can refer to an imported package -/
def pkgRefs (sels : List SelBase) : List String := (sels.filter (!·.resolved)).map (·.name)

/-- an imported name survives the report of unused imports -/
def keepNameWith (never : List String) (drops : Bool) (used : List String) (n : String) : Bool :=
  never.contains n || (drops && used.contains n)

def keepName (used : List String) (n : String) : Bool := keepNameWith neverUnused dropsUsed used n

end GqlgenVerif.PruneWalk
