import GqlgenVerif.Gen.TypeRefRules
/-!
# How a `config.TypeReference` of a LEAF type (scalar / enum) is (un)marshalled: the is-list decision

Mirrors, for references whose definition is a scalar or an enum with a binding (a `Marshal…/Unmarshal…` function
pair, `MarshalGQL/UnmarshalGQL(+Context)` methods, or the named-string cast):

* `codegen/config/binder.go`: `(*Binder).CopyModifiersFromAst` (`copyModifiers`), `IsNilable` (`GoT.isNilable`),
  `(*TypeReference).IsSlice` (`isSlice`, over the REGENERATED `Gen.TypeRefRules.isSliceRule`), `IsPtrToSlice`,
  `IsPtrToPtr`, `IsPtrToIntf`, `Elem` (branch order pinned by `Gen.TypeRefRules.elemBranches`);
* `codegen/type.go`: `processType` (`processType`: the references it registers and whether it runs into the nil
  `GQL` that `Elem()` produces when `IsSlice` holds for a reference without `GQL.Elem`), recursion condition from
  the REGENERATED `Gen.TypeRefRules.processTypeRecursesOn`;
* `codegen/type.gotpl`: the generated `unmarshal<Key>` (`unmarshal`) and `marshal<Key>` (`marshal`) functions:
  null guards, the `IsPtrToSlice / IsPtrToIntf` delegation, the element-wise `IsSlice` branch
  (`graphql.CoerceList` on input), and the leaf branch that calls the bound function ONCE on the WHOLE value.

Go types are `go/types` shapes (`GoT`); a named type carries its underlying type. Values: `Val` is what the
executor hands to an unmarshaller (null / a non-list value with its canonical text / a list); `GoV` is the Go value
(nil / an opaque value of the bound type, remembered by the text it was unmarshalled from / a slice).

NOT modelled: pointer plumbing (`&res`, `*v`, `IsTargetNilable`) - pointers are transparent in `GoV`, the Go
compiler checks them in the sweep; the propagation of a null element of a `[T!]` list (no null is put there);
`IsPtrToPtr` without a binding (leaf types always have one); errors returned by bound functions.

`spec` is the property side: the response shape is decided by the GRAPHQL type alone - a list type is marshalled
element-wise, a NAMED type is one leaf written by the bound function, whatever Go type it is bound to.
-/
namespace GqlgenVerif.TypeRef
open GqlgenVerif.Gen.TypeRefRules

/-- a GraphQL type reference (`ast.Type`): `tag` identifies the bound marshaller of the named type -/
inductive GType where
  | named (tag : String) (nonNull : Bool)
  | list (elem : GType) (nonNull : Bool)
  deriving Repr, DecidableEq, Inhabited

/-- `go/types` shapes -/
inductive GoT where
  | basic | struct | map | iface | array | chan
  | named (under : GoT)
  | slice (elem : GoT)
  | ptr (elem : GoT)
  deriving Repr, DecidableEq, Inhabited

namespace GType
def nonNull : GType → Bool
  | named _ nn => nn
  | list _ nn => nn
/-- `ref.GQL.Elem` (`none` = nil) -/
def elem? : GType → Option GType
  | named _ _ => none
  | list e _ => some e
def tag : GType → String
  | named t _ => t
  | list e _ => e.tag
end GType

namespace GoT
def isSliceT : GoT → Bool
  | slice _ => true
  | _ => false
def isPtrT : GoT → Bool
  | ptr _ => true
  | _ => false
def isIfaceT : GoT → Bool
  | iface => true
  | _ => false
/-- `config.IsNilable` -/
def isNilable : GoT → Bool
  | named u => u.isNilable
  | ptr _ | map | iface | slice _ | chan => true
  | _ => false
/-- `_, isStruct := child.Underlying().(*types.Struct)` -/
def underStruct : GoT → Bool
  | struct => true
  | named u => u.underStruct
  | _ => false
/-- `named.Underlying().(*types.Interface)` of CopyModifiersFromAst -/
def isIntfNamed : GoT → Bool
  | named iface => true
  | _ => false
def isPtrToSlice : GoT → Bool
  | ptr (slice _) => true
  | _ => false
def isPtrToPtr : GoT → Bool
  | ptr (ptr _) => true
  | _ => false
def isPtrToIntf : GoT → Bool
  | ptr iface => true
  | _ => false
end GoT

/-- `(*Binder).CopyModifiersFromAst(t, base)`; `om` = `omit_slice_element_pointers` -/
def copyModifiers (om : Bool) : GType → GoT → GoT
  | .list e _, base =>
    let child := copyModifiers om e base
    .slice (if child.underStruct && !om then .ptr child else child)
  | .named _ nn, base =>
    if !base.isIntfNamed && !base.isNilable && !nn then .ptr base else base

/-- `(*TypeReference).IsSlice` -/
def isSlice (gql : GType) (go : GoT) : Bool := isSliceRule gql.elem?.isSome go.isSliceT

def recursesOn (p : String) : Bool := processTypeRecursesOn.contains p

/-- `codegen.processType`: the references registered from `(go, gql)` down its `Elem()` chain, and `true` when the
walk dereferences a nil `GQL` (`UniquenessKey` of the reference `Elem()` builds from a reference without
`GQL.Elem`) or asserts a non-slice to `*types.Slice` - the generator panics. -/
def processType : GoT → GType → List (GoT × GType) × Bool
  | .ptr e, g =>
    if (recursesOn "IsPtrToSlice" && e.isSliceT) || (recursesOn "IsPtrToPtr" && e.isPtrT)
        || (recursesOn "IsPtrToIntf" && e.isIfaceT) || (recursesOn "IsSlice" && isSlice g (.ptr e)) then
      let r := processType e g
      ((.ptr e, g) :: r.1, r.2)
    else ([(.ptr e, g)], false)
  | .slice e, g =>
    if recursesOn "IsSlice" && isSlice g (.slice e) then
      match g.elem? with
      | none => ([(.slice e, g)], true)
      | some ge => let r := processType e ge; ((.slice e, g) :: r.1, r.2)
    else ([(.slice e, g)], false)
  | go, g => ([(go, g)], recursesOn "IsSlice" && isSlice g go)

/-! ## values -/
inductive Val where
  | null
  | atom (text : String)
  | list (vs : List Val)
  deriving Repr, Inhabited

def Val.isNull : Val → Bool
  | .null => true
  | _ => false

mutual
/-- the canonical text of an input value (what the test bindings store: `ext.Canon`) -/
def canon : Val → String
  | .null => "null"
  | .atom s => s
  | .list vs => "[" ++ canonList vs ++ "]"
def canonList : List Val → String
  | [] => ""
  | [v] => canon v
  | v :: w :: vs => canon v ++ "," ++ canonList (w :: vs)
end

/-- `graphql.CoerceList` on the values a literal / JSON variable produces -/
def coerceList : Val → List Val
  | .null => []
  | .list vs => vs
  | v => [v]

inductive GoV where
  | nil
  | whole (text : String)
  | elems (l : List GoV)
  deriving Repr, Inhabited

inductive Out where
  | null
  | leaf (tag text : String)
  | arr (l : List Out)
  | fail (why : String)
  deriving Repr, Inhabited

/-- the null guards at the head of a generated unmarshal function -/
def guardNull (go : GoT) (g : GType) (v : Val) (k : Option GoV) : Option GoV :=
  if v.isNull then
    if g.nonNull then none                                   -- "must not be null"
    else if go.isNilable && !go.isPtrToPtr then some .nil
    else k
  else k

/-- the generated `unmarshal<Key>` of the reference `(go, g)`; `none` = error / generator failure -/
def unmarshal : GoT → GType → Val → Option GoV
  | .ptr (.slice e), g, v => guardNull (.ptr (.slice e)) g v (unmarshal (.slice e) g v)
  | .ptr .iface, g, v => guardNull (.ptr .iface) g v (if isSlice g .iface then none else some (.whole (canon v)))
  | .slice e, g, v => guardNull (.slice e) g v (
      if isSlice g (.slice e) then
        match g.elem? with
        | none => none
        | some ge => ((coerceList v).mapM (unmarshal e ge)).map .elems
      else some (.whole (canon v)))
  | go, g, v => guardNull go g v (if isSlice g go then none else some (.whole (canon v)))

def leafOut (g : GType) : GoV → Out
  | .nil => .null
  | .whole t => .leaf g.tag t
  | .elems _ => .fail "a slice handed to the bound marshaller of a leaf"

/-- the generated `marshal<Key>` of the reference `(go, g)` -/
def marshal : GoT → GType → GoV → Out
  | .ptr (.slice e), g, x => marshal (.slice e) g x
  | .ptr .iface, g, x => if isSlice g .iface then .fail "nil GQL" else leafOut g x
  | .slice e, g, x =>
    if isSlice g (.slice e) then
      match g.elem? with
      | none => .fail "nil GQL"
      | some ge =>
        match x with
        | .nil => if g.nonNull then .arr [] else .null
        | .elems l => .arr (l.map (marshal e ge))
        | .whole _ => .fail "a leaf value marshalled element-wise"
    else leafOut g x
  | go, g, x => if isSlice g go then .fail "nil GQL" else leafOut g x

/-- argument position: what comes back for input `v` through a resolver that returns its argument -/
def echo (go : GoT) (g : GType) (v : Val) : Out :=
  match unmarshal go g v with
  | none => .fail "unmarshal"
  | some x => marshal go g x

/-- output position: the Go value a resolver returns, with the list structure of the GraphQL type -/
def goValOf : GType → Val → GoV
  | _, .null => .nil
  | .named _ _, v => .whole (canon v)
  | .list e _, .list vs => .elems (vs.map (goValOf e))
  | .list e _, v => .elems [goValOf e v]

/-! ## Spec -/

/-- the response for input `v` at a position of GraphQL type `g`: decided by `g` alone -/
def spec : GType → Val → Out
  | _, .null => .null
  | .named tag _, v => .leaf tag (canon v)
  | .list e _, .list vs => .arr (vs.map (spec e))
  | .list e _, v => .arr [spec e v]

/-- no null at a non-null position -/
def fits : GType → Val → Bool
  | g, .null => !g.nonNull
  | .named _ _, _ => true
  | .list e _, .list vs => vs.all (fits e)
  | .list e _, v => fits e v

end GqlgenVerif.TypeRef
