import GqlgenVerif.Model.Collect
/-!
# Execution of an operation by a generated executor

Two stages.

*Stage A — planning* (`planFields` / `planType`): field collection depends only on the concrete type and
the variables, never on resolver results, so a (schema, document, variables) triple determines a finite
`Shape` tree: for every position the nullability, for an object position one collected field list per
possible concrete type, for a list position the element shape. Recursion follows the document's
selection nesting (finite even for recursive schema types); fuel bounds fragment expansion.

*Stage B — completion* (`Impl.complete…`): mirrors `codegen/object.gotpl` (`_T`: loop over collected
fields, `Invalids` counter, `return graphql.Null` when it is positive), `codegen/field.gotpl` (`_T_f`:
directive chain `directiveN(… directive0)`, resolver, `ec.Error` on error, recover on panic,
`resTmp == nil` ⇒ "must not be null" guarded by `HasFieldError`), `codegen/type.gotpl` (marshal funcs:
nil pointer at a non-null position ⇒ "the requested element is null which the schema does not allow"
guarded by `HasFieldError`; list completion with per-element `FieldContext{Index}` and the post-hoc
`== graphql.Null` scan when the element type is non-null; a nil slice at a non-null list position is
written as `[]`), `codegen/interface.gotpl` (dispatch on the concrete type), `graphql/context_response.go`
(`HasFieldError` = some recorded error has exactly this path) and `graphql/error.go` (`ErrorOnPath`).
User code is an *oracle*: `res path` is what the resolver invoked at that response path did, `dir path
name` what the schema directive did. Structural recursion on `Shape`.
-/
namespace GqlgenVerif

/-- what is known about a collected field when it is executed -/
structure FInfo where
  alias : String
  name : String
  /-- schema directives on the field definition, source order -/
  dirs : List String := []
  deferred : Option String := none
  /-- name of the definition the first collected occurrence was validated against -/
  objDef : String := ""
  /-- the field is a plain struct field of the parent object's Go model (`return obj.Field, nil`) -/
  plain : Bool := false
deriving Repr, Inhabited

inductive Shape where
  | leaf (nn : Bool)
  /-- `cases`: one collected field list per possible concrete type; `iface` = the Go value at this
      position is an interface (GraphQL interface / union), so a nil result reaches `_T_f` as an
      *untyped* nil (`resTmp == nil`) rather than as a typed nil pointer -/
  | obj (nn : Bool) (iface : Bool) (cases : List (String × List (FInfo × Shape)))
  /-- `elemCtx` = elements get their own `FieldContext{Index}` (false for lists of scalars) -/
  | list (nn : Bool) (elemCtx : Bool) (elem : Shape)
deriving Inhabited

def Shape.nn : Shape → Bool
  | .leaf b => b
  | .obj b _ _ => b
  | .list b _ _ => b

def Shape.isIface : Shape → Bool
  | .obj _ b _ => b
  | _ => false

/-! ## Stage A -/

/-- how the fields of a selection set are collected for a concrete object type -/
abbrev Collector := TypeDef → List Sel → Option (List CF)

/-- gqlgen: `graphql.CollectFields(ec.OperationContext, sel, <type>Implementors)` -/
def implCollector (s : Schema) (frags : List Frag) (vars : Vars) (isQuery : Bool := true) : Collector :=
  fun ty sels =>
    (Impl.collect true s frags vars ty.implementors 1000000 sels [] []).map fun r =>
      -- `deferrableIn`: @defer is honoured only in query operations
      if isQuery then r.1 else r.1.map fun cf => { cf with deferred := none }

/-- `DoesFragmentTypeApply(objectType, fragmentType)` from the schema itself -/
def Spec.applies (s : Schema) (ty : TypeDef) (tc : String) : Bool :=
  tc == ty.name || ty.interfaces.contains tc ||
    (match s.type? tc with
      | some t => t.kind == Kind.union && t.possible.contains ty.name
      | none => false)

/-- GraphQL §6.3.2: occurrences in document order, grouped by response key -/
def specCollector (s : Schema) (frags : List Frag) (vars : Vars) : Collector := fun ty sels =>
  (Spec.occurrences frags vars (Spec.applies s ty) 1000000 sels none []).map fun r => Spec.group r.1 []

mutual
def planFields (s : Schema) (col : Collector) :
    Nat → TypeDef → List Sel → Option (List (FInfo × Shape))
  | 0, _, _ => none
  | fuel + 1, ty, sels =>
    match col ty sels with
    | none => none
    | some cfs =>
      cfs.mapM fun cf =>
        if cf.name == "__typename" then
          some ({ alias := cf.alias, name := cf.name, deferred := cf.deferred, objDef := cf.objDef }, Shape.leaf true)
        else match ty.field? cf.name with
          | none => none      -- "unknown field": the validator has already run
          | some fd =>
            (planType s col fuel fd.type cf.sels).map fun sh =>
              -- the chain of a field: its schema directives innermost, then the executable directives the
              -- selection carries (`_fieldMiddleware`: the last one outermost)
              ({ alias := cf.alias, name := cf.name, dirs := fd.dirs ++ cf.fdirs, deferred := cf.deferred, objDef := cf.objDef,
                 plain := fd.plain }, sh)

def planType (s : Schema) (col : Collector) : Nat → TRef → List Sel → Option Shape
  | 0, _, _ => none
  | fuel + 1, .list e nn, sels =>
    (planType s col fuel e sels).map fun sh =>
      Shape.list nn (match s.type? e.base with
        | some t => t.kind != Kind.scalar || (match e with | .list _ _ => true | _ => false)
        | none => true) sh
  | fuel + 1, .named n nn, sels =>
    match s.type? n with
    | none => none
    | some t =>
      match t.kind with
      | .scalar | .enum | .input => some (Shape.leaf nn)
      | .object => (planFields s col fuel t sels).map fun fs => Shape.obj nn false [(n, fs)]
      | .interface | .union =>
        (t.possible.mapM fun c =>
          match s.type? c with
          | none => none
          | some ct => (planFields s col fuel ct sels).map fun fs => (c, fs)).map
          fun cases => Shape.obj nn true cases
end

/-! ### field interceptors (`AroundFields` / `OperationContext.ResolverMiddleware`)

`field.gotpl` runs everything a field does - schema directives, then the resolver or the struct read - inside
`ec.ResolverMiddleware(ctx, func(rctx) (any, error) { ... })`, for every field of every object (not for
`__typename`). An installed interceptor is therefore one more wrapper, outermost: in the model, a directive
named `~around` at the end of every field's chain (`runDirs`: the last one is outermost). Its outcome comes
from the oracle like a directive's: pass (calls `next`), error, panic, or `(nil, nil)` without calling `next`. -/
mutual
def Shape.around : Shape → Shape
  | .leaf nn => .leaf nn
  | .obj nn b cases => .obj nn b (casesAround cases)
  | .list nn ec e => .list nn ec e.around
def casesAround : List (String × List (FInfo × Shape)) → List (String × List (FInfo × Shape))
  | [] => []
  | (c, fs) :: rest => (c, fieldsAround fs) :: casesAround rest
def fieldsAround : List (FInfo × Shape) → List (FInfo × Shape)
  | [] => []
  | (fi, sh) :: rest =>
    ((if fi.name == "__typename" then fi else { fi with dirs := fi.dirs ++ ["~around"] }), sh.around) :: fieldsAround rest
end

/-! distinct response keys in every collected field list (decidable form of `Shape.WF`) -/
mutual
def Shape.wfb : Shape → Bool
  | .leaf _ => true
  | .obj _ _ cases => casesWfb cases
  | .list _ elemCtx e => e.wfb && (elemCtx || match e with | .leaf _ => true | _ => false)
def casesWfb : List (String × List (FInfo × Shape)) → Bool
  | [] => true
  | (_, fs) :: rest => fieldsWfb fs && casesWfb rest
def fieldsWfb : List (FInfo × Shape) → Bool
  | [] => true
  | (fi, sh) :: rest => rest.all (fun g => g.1.alias != fi.alias) && sh.wfb && fieldsWfb rest
end

/-! the shape of known finding F01: every pair of collected fields that share a response key was
    selected under *unrelated* type conditions (neither definition implements the other) -/
mutual
def Shape.dupsUnrelated (s : Schema) : Shape → Bool
  | .leaf _ => true
  | .obj _ _ cases => casesDupsUnrelated s cases
  | .list _ _ e => e.dupsUnrelated s
def casesDupsUnrelated (s : Schema) : List (String × List (FInfo × Shape)) → Bool
  | [] => true
  | (_, fs) :: rest => fieldsDupsUnrelated s fs && casesDupsUnrelated s rest
def fieldsDupsUnrelated (s : Schema) : List (FInfo × Shape) → Bool
  | [] => true
  | (fi, sh) :: rest =>
    rest.all (fun g => g.1.alias != fi.alias || !relatedDefs s g.1.objDef fi.objDef) &&
      sh.dupsUnrelated s && fieldsDupsUnrelated s rest
end

/-! ## Stage B -/

/-- the value a resolver returned, down to object boundaries -/
inductive V where
  | null
  | leaf (text : String)       -- the JSON text its marshaler writes
  | obj (ty : String)
  | list (vs : List V)
deriving Repr, Inhabited

def V.isNull : V → Bool
  | .null => true
  | _ => false

/-- resolver outcome -/
inductive ROut where
  | missing                    -- the implementation did not invoke a resolver at this path
  | err (m : String)
  | panic (m : String)
  | val (v : V)
deriving Repr, Inhabited

/-- schema-directive outcome -/
inductive DOut where
  | missing
  | pass                       -- calls `next` and returns its result
  | err (m : String)
  | panic (m : String)
  | block                      -- returns (nil, nil) without calling `next`
deriving Repr, Inhabited

/-- user code, keyed by response path (a resolver is invoked at most once per path); `plain objPath name`
    is the value the parent's resolver stored in the struct field `name` of the object at `objPath` -/
structure Oracle where
  res : Path → ROut
  dir : Path → String → DOut
  plain : Path → String → ROut := fun _ _ => .missing

/-- what the field's own "resolver" yields: a resolver call, or the read of a struct field -/
def Oracle.outcome (o : Oracle) (fi : FInfo) (p : Path) : ROut :=
  if fi.plain then o.plain p.dropLast fi.name else o.res p

inductive Out where
  | null
  | leaf (text : String)
  | obj (fields : List (String × Out))
  | list (xs : List Out)
deriving Repr, Inhabited

def Out.isNull : Out → Bool
  | .null => true
  | _ => false

structure Err where
  path : Path
  msg : String
deriving Repr, DecidableEq, Inhabited

/-- what completion threads: the response context's error list, the invocation log, recover count -/
structure St where
  errs : List Err := []
  invs : List (String × String) := []     -- (path, hook)
  recovers : Nat := 0
  unlogged : List String := []
deriving Repr, Inhabited

def St.addErr (st : St) (p : Path) (m : String) : St := { st with errs := st.errs ++ [⟨p, m⟩] }
/-- `graphql.HasFieldError` -/
def St.hasFieldError (st : St) (p : Path) : Bool := st.errs.any (·.path == p)
def St.invoked (st : St) (p : Path) (hook : String) : St :=
  { st with invs := st.invs ++ [(pathStr p, hook)] }
/-- a resolver invocation is recorded unless the field is a plain struct field -/
def St.resolved (st : St) (plain : Bool) (p : Path) : St :=
  if plain then st else st.invoked p "resolver"

def mustNotBeNull : String := "must not be null"
def elementIsNull : String := "the requested element is null which the schema does not allow"


/-- effects compose by concatenation -/
def St.append (a b : St) : St :=
  { errs := a.errs ++ b.errs, invs := a.invs ++ b.invs, recovers := a.recovers + b.recovers,
    unlogged := a.unlogged ++ b.unlogged }

def quoteTypename (ty : String) : String := "\"" ++ ty ++ "\""

namespace Impl

/-- a nil pointer / nil interface reached a marshal func -/
def nilAt (nn : Bool) (p : Path) (st : St) : Out × St :=
  if nn then
    (.null, if st.hasFieldError p then st else st.addErr p elementIsNull)
  else (.null, st)

/-- the directive chain around the resolver: the last directive of the list is outermost.
    Returns `none` when some directive did not call `next`, with the outcome it produced. -/
inductive Chain where
  | reached            -- every directive passed: the resolver runs
  | err (m : String)
  | panic (m : String)
  | block
  | missing (name : String)

def runDirs (o : Oracle) (p : Path) : List String → St → Chain × St
  | [], st => (.reached, st)
  | d :: inner, st =>
    -- `d` is the outermost remaining directive
    match o.dir p d with
    | .missing => (.missing d, st)
    | .pass => runDirs o p inner (st.invoked p ("directive:" ++ d))
    | .err m => (.err m, st.invoked p ("directive:" ++ d))
    | .panic m => (.panic m, st.invoked p ("directive:" ++ d))
    | .block => (.block, st.invoked p ("directive:" ++ d))

mutual
/-- marshal func for a value of the position's type -/
def completeValue (o : Oracle) : Shape → V → Path → St → Out × St
  | .leaf nn, v, p, st =>
    match v with
    | .leaf t => (.leaf t, st)
    | .null => nilAt nn p st
    | _ => (.null, st.addErr p "model: value does not fit a leaf position")
  | .obj nn _ cases, v, p, st =>
    match v with
    | .obj ty =>
      match completeCases o ty cases p st with
      | some r => (if r.2.1 > 0 then .null else .obj r.1, r.2.2)
      | none => (.null, st.addErr p ("model: no plan for concrete type " ++ ty))
    | .null => nilAt nn p st
    | _ => (.null, st.addErr p "model: value does not fit an object position")
  | .list nn elemCtx elem, v, p, st =>
    match v with
    | .list vs =>
      let r := completeElems o elem elemCtx vs p 0 st
      (if elem.nn && r.1.any Out.isNull then .null else .list r.1, r.2)
    | .null => if nn then (.list [], st) else (.null, st)
    | _ => (.null, st.addErr p "model: value does not fit a list position")

/-- `_Iface`: dispatch on the concrete type -/
def completeCases (o : Oracle) (ty : String) :
    List (String × List (FInfo × Shape)) → Path → St → Option (List (String × Out) × Nat × St)
  | [], _, _ => none
  | (c, fields) :: rest, p, st =>
    if c == ty then some (completeFields o ty fields p st) else completeCases o ty rest p st

/-- `_T`: (values, Invalids, state) -/
def completeFields (o : Oracle) (ty : String) :
    List (FInfo × Shape) → Path → St → List (String × Out) × Nat × St
  | [], _, st => ([], 0, st)
  | (fi, sh) :: rest, p, st =>
    let r :=
      if fi.name == "__typename" then (Out.leaf (quoteTypename ty), st)
      else completeField o fi sh (p ++ [.key fi.alias]) st
    let rs := completeFields o ty rest p r.2
    ((fi.alias, r.1) :: rs.1, (if sh.nn && r.1.isNull then 1 else 0) + rs.2.1, rs.2.2)

/-- `_T_f` -/
def completeField (o : Oracle) (fi : FInfo) (sh : Shape) (p : Path) (st : St) : Out × St :=
  match runDirs o p fi.dirs.reverse st with
  | (.missing d, st1) => (.null, { st1 with unlogged := st1.unlogged ++ [pathStr p ++ "@" ++ d] })
  | (.err m, st1) => (.null, st1.addErr p m)
  | (.panic m, st1) => (.null, { st1.addErr p ("recovered: " ++ m) with recovers := st1.recovers + 1 })
  | (.block, st1) =>
    (.null, if sh.nn && !st1.hasFieldError p then st1.addErr p mustNotBeNull else st1)
  | (.reached, st1) =>
    match o.outcome fi p with
    | .missing => (.null, { st1 with unlogged := st1.unlogged ++ [pathStr p] })
    | .err m => (.null, (st1.resolved fi.plain p).addErr p m)
    | .panic m =>
      let st2 := st1.resolved fi.plain p
      (.null, { st2.addErr p ("recovered: " ++ m) with recovers := st2.recovers + 1 })
    | .val v =>
      let st2 := st1.resolved fi.plain p
      if sh.isIface && v.isNull then
        -- a nil Go interface boxed into `any` is an untyped nil: `if resTmp == nil`
        (.null, if sh.nn && !st2.hasFieldError p then st2.addErr p mustNotBeNull else st2)
      else completeValue o sh v p st2

def completeElems (o : Oracle) (elem : Shape) (elemCtx : Bool) :
    List V → Path → Nat → St → List Out × St
  | [], _, _, st => ([], st)
  | v :: rest, p, i, st =>
    let r :=
      if !elemCtx && elem.nn && v.isNull then
        -- a scalar element has no field context of its own: `marshalN<scalar>` reports "the requested element
        -- is null" at the FIELD's path unless the field already has an error, i.e. once per list however many
        -- elements are null (a null can be there only through a user marshaler returning graphql.Null or a
        -- model with a slice of pointers). Modelled as: the last null element of the list reports it.
        (Out.null, if rest.any V.isNull then st else st.addErr p elementIsNull)
      else completeValue o elem v (if elemCtx then p ++ [.idx i] else p) st
    let rs := completeElems o elem elemCtx rest p (i + 1) r.2
    (r.1 :: rs.1, rs.2)
end

/-- `executableSchema.Exec` for a query or mutation: the root object -/
def execRoot (o : Oracle) (rootTy : String) (fields : List (FInfo × Shape)) : Out × St :=
  let r := completeFields o rootTy fields [] {}
  (if r.2.1 > 0 then .null else .obj r.1, r.2.2)

def unexpectedNil : String := "unexpected type <nil> from directive, should be graphql.Marshaler"

/-- ... under the operation's own directives (`_queryMiddleware` / `_mutationMiddleware` of `directives.gotpl`):
    a chain around the whole root object, the last directive of the operation outermost, invoked at the empty
    path. One that fails makes `data` null with its error (nothing of the operation runs); one that answers
    `(nil, nil)` without calling `next` does too, with gqlgen's "unexpected type" error. The generated
    middleware has no recover of its own: a panicking operation directive is the transport's to contain
    (C04, `Model/Serve.lean`), so `.panic` is reported as such by the driver and not given a response here. -/
def execOp (o : Oracle) (rootTy : String) (fields : List (FInfo × Shape)) (opDirs : List String) : Out × St :=
  match runDirs o [] opDirs.reverse {} with
  | (.reached, st) =>
    let r := completeFields o rootTy fields [] st
    (if r.2.1 > 0 then .null else .obj r.1, r.2.2)
  | (.err m, st) => (.null, st.addErr [] m)
  | (.block, st) => (.null, st.addErr [] unexpectedNil)
  | (.panic m, st) => (.null, { st.addErr [] ("panic escapes the generated code: " ++ m) with recovers := st.recovers })
  | (.missing d, st) => (.null, { st with unlogged := st.unlogged ++ ["@" ++ d] })

end Impl

end GqlgenVerif
