import GqlgenVerif.Model.Rewrite
import GqlgenVerif.Model.PruneWalk
/-!
# The property C19 written directly (Spec), executable

`violations cfg before sch after` lists every way in which the resolver files `after` (as go/parser reads
them, plus the text of their trailing WARNING comment) fail to preserve the user's code of `before` under
the schema `sch`. It never looks at how the output was produced. The driver's `chk` op evaluates it on the
implementation's real output; `Props/C19.lean` proves it empty for the model's output.

* `notValidGo f`                 – the file does not parse
* `method recv name what`        – a resolver method whose field still exists lost its body / named
                                   results / doc comment (`what`), or is missing altogether
* `importLost f alias path`      – an import whose name the new file still refers to is gone
* `unusedImport f alias path`    – the new file imports a package under a name no selector of the file can refer
                                   to (every `name.Sel` of the file has a parameter / local / … of the file as its
                                   base, or there is none): "imported and not used", the package no longer compiles
                                   - unless the same file already had that import unused before
* `declLost f idx`               – another declaration is neither kept verbatim, nor kept as a resolver
                                   method, nor present in the WARNING block of the same file
* `fileGone f`
-/
namespace GqlgenVerif.Rewrite.Spec
open GqlgenVerif.Rewrite GqlgenVerif.PruneWalk

structure AfterFile where
  file : File
  remaining : Text     -- text of the WARNING block, comment markers removed
  parseOK : Bool
  sels : List SelBase  -- every selector base `x` of an `x.Sel` in the file, with whether a declaration of the file binds it
  deriving Repr, Inhabited

inductive Violation
  | notValidGo (file : String)
  | method (recv name what : String)
  | importLost (file alias path : String)
  | unusedImport (file alias path : String)
  | declLost (file : String) (idx : Nat) (name : String)
  | fileGone (file : String)
  deriving DecidableEq, Repr

def afterPkg (after : List AfterFile) : Pkg := after.map (·.file)

/-- what of `d` the declaration `d'` fails to keep. Bodies are compared in gofmt's canonical form (`canon`,
supplied by the harness: the generator gofmt-s what it writes); for a gofmt-ed file that is `trim inner`. -/
def lostParts (d d' : Decl) : List String :=
  (if d'.canon == d.canon then [] else ["body"]) ++
  (if d'.namedV == d.namedV && d'.namedE == d.namedE then [] else ["named-results"]) ++
  (if d.specDoc == [] || d'.specDoc == d.specDoc then [] else ["doc"])

def keeps (d d' : Decl) : Bool := lostParts d d' == []

/-- resolver methods whose field still exists. A resolver method of a field is the method of that name on
the receiver type the template writes for the field's object (`emittedReqs`: what the previous run put into the
user's file) — not the name under which the generator happens to search for it. -/
def methodViolations (cfg : Cfg) (before : Pkg) (sch : Schema) (after : Pkg) : List Violation :=
  (emittedReqs cfg sch).flatMap fun r =>
    match firstMatch before r.recv r.name with
    | none => []
    | some (_, d) =>
      if trim d.inner == [] then []   -- an empty body is an unimplemented resolver
      else
        let cands := (allDecls after).filter fun kd => isMethod r.recv r.name kd.2
        if cands.any fun kd => keeps d kd.2 then []
        else match cands with
          | [] => [.method r.recv r.name "missing"]
          | kd :: _ => (lostParts d kd.2).map fun w => .method r.recv r.name w

def localOf (i : Import) : String := if i.alias == "" then i.pkg else i.alias

def importViolations (before : Pkg) (after : List AfterFile) : List Violation :=
  before.flatMap fun f =>
    match after.find? (·.file.name == f.name) with
    | none => []
    | some a =>
      f.imports.flatMap fun i =>
        let n := localOf i
        if (n == "_" || n == "." || (pkgRefs a.sels).contains n) && !(a.file.imports.any fun j => j.path == i.path && localOf j == n)
        then [.importLost f.name i.alias i.path] else []

/-- imports of a file that nothing in the file can refer to (Go: "imported and not used") -/
def unusedBy (nameOf : Import → String) (imports : List Import) (sels : List SelBase) : List Import :=
  imports.filter fun i => let n := nameOf i; !(n == "_" || n == "." || (pkgRefs sels).contains n)

/-- … of a file as go/parser reads it: the name an import spec binds is its alias, else the package name -/
def unusedIn (imports : List Import) (sels : List SelBase) : List Import := unusedBy localOf imports sels

/-- a file must not come back with an import it cannot use (unless it had it, unused, before: then the package
did not compile before either). `bsels`: the selector bases of the files of `before`, by file name. -/
def unusedImportViolations (before : Pkg) (bsels : List (String × List SelBase)) (after : List AfterFile) : List Violation :=
  after.flatMap fun a =>
    let was : List Import := match before.find? (·.name == a.file.name) with
      | some f => unusedIn f.imports ((bsels.lookup f.name).getD [])
      | none => []
    (unusedIn a.file.imports a.sels).flatMap fun i =>
      if was.any (fun j => j.path == i.path && localOf j == localOf i) then []
      else [.unusedImport a.file.name i.alias i.path]

def keptAsMethod (cfg : Cfg) (sch : Schema) (after : Pkg) (d : Decl) : Bool :=
  d.isFunc && (emittedReqs cfg sch).any (fun r => isMethod r.recv r.name d) &&
  (allDecls after).any fun kd => isMethod d.recv d.name kd.2 && keeps d kd.2

def declViolations (cfg : Cfg) (before : Pkg) (sch : Schema) (after : List AfterFile) : List Violation :=
  before.flatMap fun f =>
    match after.find? (·.file.name == f.name) with
    | none => [.fileGone f.name]
    | some a =>
      if !a.parseOK then [] else
      f.decls.zipIdx.flatMap fun dj =>
        let d := dj.1
        if d.isImport then []
        else if (allDecls (afterPkg after)).any (fun kd => kd.2.src == d.src) then []   -- kept verbatim (in whichever file)
        else if hasInfix d.src a.remaining then []
        else if keptAsMethod cfg sch (afterPkg after) d then []
        else [.declLost f.name dj.2 d.name]

/-- when a file does not parse nothing else can be read off the output -/
def violations (cfg : Cfg) (before : Pkg) (bsels : List (String × List SelBase)) (sch : Schema) (after : List AfterFile) : List Violation :=
  if after.any (!·.parseOK) then (after.filter (!·.parseOK)).map (fun a => Violation.notValidGo a.file.name)
  else
    methodViolations cfg before sch (afterPkg after) ++
    importViolations before after ++
    unusedImportViolations before bsels after ++
    declViolations cfg before sch after

end GqlgenVerif.Rewrite.Spec
