/-!
# Imports — the per-file import table of the generator (C18, idempotence of import aliases)

Mirrors `codegen/templates/import.go` (`Imports.Reserve`, `Imports.Lookup`, `Import.String`) and the way
`plugin/resolvergen/resolver.go` `(*File).Imports` re-reserves the imports of an EXISTING resolver file before the
template is rendered again. Aliases are handed out first-come-first-served (`model`, `model1`, …), so on a clean
tree they follow the order of first use; on re-generation the existing file's imports (sorted by path by gofmt)
are reserved first. Generation is idempotent only if that re-reservation pins every alias of the previous output.

* `Table` = `Imports.imports` (in insertion order); `nameOf` = `code.Packages.NameForPackage`; `own` = the import path
  of the destination directory (never imported).
* `reserve`: `Reserve(path[, alias])`; both error returns (`ambient import already exists`, `… collides on an
  alias`) leave the table as it is — `(*File).Imports` discards the error.
* `lookup`: `Lookup(path)`; candidates `name, name1, name2, …`; Go panics after 1000 collisions — here the search
  stops after the 1000 candidates Go tries and returns the next one (never reached by the theorems' hypotheses).
  (Go appends the new entry with an empty alias before searching; that only matters for an empty package name.)
* `printedAlias`: what `Import.String` writes and `internal/rewrite` reads back: no alias when the path ends in
  the alias and the alias is the package's own name.
Core Lean only.
-/
namespace GqlgenVerif.Imports

structure Imp where
  path : String
  alias : String
deriving Repr, DecidableEq

abbrev Table := List Imp

def findByPath (t : Table) (p : String) : Option Imp := t.find? (fun e => e.path == p)

def aliasUsed (t : Table) (a : String) : Bool := t.any (fun e => e.alias == a)

def reserve (nameOf : String → String) (own : String) (t : Table) (p : String) (alias : Option String) : Table :=
  if p == own then t else
  match findByPath t p with
  | some _ => t
  | none => if aliasUsed t (alias.getD (nameOf p)) then t else t ++ [⟨p, alias.getD (nameOf p)⟩]

def cand (n : String) (i : Nat) : String := if i = 0 then n else n ++ toString i

def firstFree (used : String → Bool) (n : String) : Nat → Nat → String
  | 0, i => cand n i
  | fuel + 1, i => if used (cand n i) then firstFree used n fuel (i + 1) else cand n i

def lookup (nameOf : String → String) (own : String) (t : Table) (p : String) : Table × String :=
  if p == own then (t, "") else
  match findByPath t p with
  | some e => (t, e.alias)
  | none => (t ++ [⟨p, firstFree (aliasUsed t) (nameOf p) 1000 0⟩], firstFree (aliasUsed t) (nameOf p) 1000 0)

/-- the `Lookup`s one template rendering makes, in order; returns the final table and the alias each call returned -/
def lookups (nameOf : String → String) (own : String) (t : Table) : List String → Table × List String
  | [] => (t, [])
  | p :: ps => ((lookups nameOf own (lookup nameOf own t p).1 ps).1,
                (lookup nameOf own t p).2 :: (lookups nameOf own (lookup nameOf own t p).1 ps).2)

def printedAlias (nameOf : String → String) (e : Imp) : String :=
  if e.path.endsWith e.alias && e.alias == nameOf e.path then "" else e.alias

/-- `(*File).Imports` on re-generation: `file` = the imports of the previous output (any order, any subset of the
previous table); `ra` = the alias argument it passes to `Reserve` given the alias read from the file
(`Gen.ResolverImports.reserveAlias`, regenerated from the source). -/
def reReserve (nameOf : String → String) (own : String) (ra : String → Option String) (t : Table) (file : List Imp) : Table :=
  file.foldl (fun t e => reserve nameOf own t e.path (ra (printedAlias nameOf e))) t

end GqlgenVerif.Imports
