import GqlgenVerif.Gen.FedResolvable
import GqlgenVerif.Model.Entities
/-!
# C20 — from the schema's entity declaration to the entity table the generated `_entities` dispatches on

`plugin/federation/federation.go` `buildEntity`: an entity type gets `buildResolvers(…)` = one resolver per `@key`
(directive order) unless `entity.allFieldsAreExternal(version)`; then it has none, the generated `resolveEntity` has no
`case` for it and every representation of it is answered `unknown type` (`Model/Entities.lean`, `resolveEntity`).
The guard itself is NOT written here: it is `Gen/FedResolvable.lean`, regenerated from `entity.go` on every run.
-/
namespace GqlgenVerif.Entities
open GqlgenVerif.Gen.FedResolvable

/-- what `buildEntity` reads of one `type T @key(…) … { … }` -/
structure SchemaEntity where
  name : String
  multi : Bool := false
  /-- one resolver per `@key`, in directive order (what `buildResolvers` makes of them) -/
  keys : List ResolverCfg
  /-- the first `@key` has no `resolvable:` argument -/
  resNil : Bool := true
  /-- raw text of that argument when it exists -/
  raw : String := ""
  /-- per field: (is a top-level field of the first `@key`, carries `@external`) -/
  fields : List (Bool × Bool)
  requires : List KeyField := []

/-- `buildEntity` for a type that has at least one `@key` (so `Def.Directives.ForName("key")` is not nil);
a nil dereference inside the guard (`none`) is a crash of the generator: no table at all -/
def entityCfgOf (ver : Nat) (s : SchemaEntity) : Option EntityCfg :=
  match allFieldsAreExternal ver false s.resNil s.raw s.fields with
  | none => none
  | some true => some { name := s.name, multi := s.multi, resolvers := [], requires := [] }
  | some false => some { name := s.name, multi := s.multi, resolvers := s.keys, requires := s.requires }

end GqlgenVerif.Entities
