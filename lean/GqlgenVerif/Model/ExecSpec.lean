import GqlgenVerif.Model.Exec
/-!
# Spec: GraphQL §6.4 value completion with null propagation

The property written directly. Completion of a position yields `some out`, or `none` = "null at a
non-null position: the parent becomes null" (the spec's field-error propagation); errors and the
user-code invocations are *returned* (a pure result), not threaded; there is no `Invalids` counter, no
`== Null` identity test, no `HasFieldError` lookup: every originating failure — a resolver or directive
error or panic, a nil result at a non-null position — contributes exactly one error at its own path.
-/
namespace GqlgenVerif
namespace Spec

def eff (errs : List Err) (invs : List (String × String) := []) (recovers : Nat := 0)
    (unlogged : List String := []) : St :=
  { errs, invs, recovers, unlogged }

/-- a failed position: null if nullable, otherwise propagate -/
def failed (nn : Bool) : Option Out := if nn then none else some .null

/-- nil at a position -/
def nilAt (nn : Bool) (p : Path) : Option Out × St :=
  if nn then (none, eff [⟨p, elementIsNull⟩]) else (some .null, {})

mutual
def completeValue (o : Oracle) : Shape → V → Path → Option Out × St
  | .leaf nn, v, p =>
    match v with
    | .leaf t => (some (.leaf t), {})
    | .null => nilAt nn p
    | _ => (failed nn, eff [⟨p, "model: value does not fit a leaf position"⟩])
  | .obj nn _ cases, v, p =>
    match v with
    | .obj ty =>
      match completeCases o ty cases p with
      | some (some fs, e) => (some (.obj fs), e)
      | some (none, e) => (failed nn, e)
      | none => (failed nn, eff [⟨p, "model: no plan for concrete type " ++ ty⟩])
    | .null => nilAt nn p
    | _ => (failed nn, eff [⟨p, "model: value does not fit an object position"⟩])
  | .list nn elemCtx elem, v, p =>
    match v with
    | .list vs =>
      match completeElems o elem elemCtx vs p 0 with
      | (some xs, e) => (some (.list xs), e)
      | (none, e) => (failed nn, e)
    | .null => if nn then (some (.list []), {}) else (some .null, {})
    | _ => (failed nn, eff [⟨p, "model: value does not fit a list position"⟩])

def completeCases (o : Oracle) (ty : String) :
    List (String × List (FInfo × Shape)) → Path → Option (Option (List (String × Out)) × St)
  | [], _ => none
  | (c, fields) :: rest, p =>
    if c == ty then some (completeFields o ty fields p) else completeCases o ty rest p

/-- `ExecuteSelectionSet` on the collected fields: `none` as soon as a non-null field failed -/
def completeFields (o : Oracle) (ty : String) :
    List (FInfo × Shape) → Path → Option (List (String × Out)) × St
  | [], _ => (some [], {})
  | (fi, sh) :: rest, p =>
    let r :=
      if fi.name == "__typename" then (some (Out.leaf (quoteTypename ty)), ({} : St))
      else completeField o fi sh (p ++ [.key fi.alias])
    let rs := completeFields o ty rest p
    (match r.1, rs.1 with
      | some x, some xs => some ((fi.alias, x) :: xs)
      | _, _ => none,
     r.2.append rs.2)

/-- `ExecuteField` + `CompleteValue` for one collected field -/
def completeField (o : Oracle) (fi : FInfo) (sh : Shape) (p : Path) : Option Out × St :=
  match Impl.runDirs o p fi.dirs.reverse {} with
  | (.missing d, e) => (failed sh.nn, e.append (eff [] [] 0 [pathStr p ++ "@" ++ d]))
  | (.err m, e) => (failed sh.nn, e.append (eff [⟨p, m⟩]))
  | (.panic m, e) => (failed sh.nn, e.append (eff [⟨p, "recovered: " ++ m⟩] [] 1))
  | (.block, e) => if sh.nn then (none, e.append (eff [⟨p, mustNotBeNull⟩])) else (some .null, e)
  | (.reached, e) =>
    let inv : List (String × String) := if fi.plain then [] else [(pathStr p, "resolver")]
    match o.outcome fi p with
    | .missing => (failed sh.nn, e.append (eff [] [] 0 [pathStr p]))
    | .err m => (failed sh.nn, e.append (eff [⟨p, m⟩] inv))
    | .panic m => (failed sh.nn, e.append (eff [⟨p, "recovered: " ++ m⟩] inv 1))
    | .val v =>
      let e1 := e.append (eff [] inv)
      if sh.isIface && v.isNull then
        (if sh.nn then (none, e1.append (eff [⟨p, mustNotBeNull⟩])) else (some .null, e1))
      else
        let r := completeValue o sh v p
        (r.1, e1.append r.2)

def completeElems (o : Oracle) (elem : Shape) (elemCtx : Bool) :
    List V → Path → Nat → Option (List Out) × St
  | [], _, _ => (some [], {})
  | v :: rest, p, i =>
    let r :=
      if !elemCtx && elem.nn && v.isNull then
        -- scalar elements share the field's path: one error for the list, however many elements are null
        ((none : Option Out), if rest.any V.isNull then {} else eff [⟨p, elementIsNull⟩])
      else completeValue o elem v (if elemCtx then p ++ [.idx i] else p)
    let rs := completeElems o elem elemCtx rest p (i + 1)
    (match r.1, rs.1 with
      | some x, some xs => some (x :: xs)
      | _, _ => none,
     r.2.append rs.2)
end

def execRoot (o : Oracle) (rootTy : String) (fields : List (FInfo × Shape)) : Out × St :=
  let r := completeFields o rootTy fields []
  (match r.1 with | some fs => .obj fs | none => .null, r.2)

/-- the operation under its own directives: they decide first, at the empty path; only when all of them pass
    is the root selection set executed (then exactly as `execRoot`) -/
def execOp (o : Oracle) (rootTy : String) (fields : List (FInfo × Shape)) (opDirs : List String) : Out × St :=
  match Impl.runDirs o [] opDirs.reverse {} with
  | (.reached, e) => let r := execRoot o rootTy fields; (r.1, e.append r.2)
  | (.err m, e) => (.null, e.append (eff [⟨[], m⟩]))
  | (.block, e) => (.null, e.append (eff [⟨[], Impl.unexpectedNil⟩]))
  | (.panic m, e) => (.null, e.append (eff [⟨[], "panic escapes the generated code: " ++ m⟩]))
  | (.missing d, e) => (.null, e.append (eff [] [] 0 ["@" ++ d]))

end Spec
end GqlgenVerif
