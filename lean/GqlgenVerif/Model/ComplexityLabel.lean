import GqlgenVerif.Model.ComplexitySwitch
/-!
# How a template flavour SPELLS the generated `Complexity()` switch (property C14)

`Model/ComplexitySwitch.lean` models the clauses of the switch with labels as pairs `(object, field)`. The
generated code compares **strings**: `switch typeName + "." + field { case "<label>": … }`, where the label is
spelled by the template from `$object.Name` / `$field.Name` and the entry it calls is a Go selector
`e.complexity.<Struct>.<Entry>` spelled from the same names through template functions (`ucFirst`).
`codegen/generated!.gotpl` (single-file layout) and `codegen/root_.gotpl` (follow-schema layout) each carry
their own copy. `go/extract/complexitylabels.go` translates both copies into a `Flavour`
(`Gen/ComplexityLabels.lean`, regenerated on every run); this file gives the terms their meaning.

* `GoArg`, `WalkerLookup`, `WalkerLookup.verbatim` — the other side of the lookup: which expressions
  `complexity/complexity.go` passes as (type name, field name) down to `ExecutableSchema.Complexity` (regenerated as
  `Gen.ComplexityLabels.walker`), and what they are when the names of the validated AST are handed on untouched.
* `ucFirst` / `lcFirst` — `templates.UcFirst` / `templates.LcFirst` on GraphQL names (`[_A-Za-z][_0-9A-Za-z]*`, so
  `unicode.ToUpper` on the first rune is ASCII upper-casing).
* `NameExpr`, `Part` — a template action producing a name, a stretch of template text / an action.
* `KeyPart` — the Go expression after `switch`: a `+` chain of the parameters `typeName`, `field` and literals.
* `Guard` — `{{ if not $object.IsReserved }}` / `{{ if not $field.IsReserved }}`; a guard may also read the KIND of
  the object (`$object.Root`: a root of the schema, `$object.Stream`: the subscription root) - `Guard.objAttr`,
  evaluated on `GObject.attrs`. A faithful flavour does not depend on it (`Faithful.objGuard` is stated for every
  valuation of the attributes): the fields of Query, Mutation and Subscription get their clauses like any other.
* `Flavour` — everything one template says about the switch and about `ComplexityRoot`.
* `sarmOf` / `sarms` / `dispatchArm` / `dispatchBy` / `switchCustomBy` — the generated switch, by flavour, over
  strings: the clause of a group carries one label per guarded member, `case` before the first and the body
  (spelled from the LAST member) after the last; the Go `switch` picks the first clause one of whose labels
  equals the tag; `if e.complexity.S.E == nil { break }` then `return e.complexity.S.E(…), true`.
* `GoRoot` — the user's `ComplexityRoot` value, addressed the way Go addresses it: struct field, entry.
* `Faithful` — what a template must spell for the switch to be the documented binding: the label is the tag
  applied to the schema's own names (`complexity.Calculate` hands `ObjectDefinition.Name` / `Field.Name` over
  verbatim), the guards drop exactly the reserved names, the nil check and the call address the entry
  `ComplexityRoot.<ucFirst type>.<GoFieldName>` that the struct declares.
-/
namespace GqlgenVerif.ComplexityLabel
open GqlgenVerif.FieldMap GqlgenVerif.Gen.UniqueFields GqlgenVerif.Complexity GqlgenVerif.ComplexitySwitch

/-- an argument of a Go call: a parameter of the enclosing function handed on untouched, or another expression -/
inductive GoArg where
  | param (i : Nat)
  | expr (src : String)
  deriving Repr, DecidableEq

/-- the (type name, field name) arguments of the calls through which `complexity/complexity.go` reaches
    `ExecutableSchema.Complexity(ctx, typeName, field, …)` -/
structure WalkerLookup where
  /-- `selectionSetComplexity` → `fieldComplexity` (field of an object) -/
  objectArgs : GoArg × GoArg
  /-- `selectionSetComplexity` → `interfaceFieldComplexity` (the definition, the field name) -/
  interfaceArgs : GoArg × GoArg
  /-- `interfaceFieldComplexity` → `fieldComplexity`, per implementor -/
  implementorArgs : GoArg × GoArg
  /-- `fieldComplexity` → `es.Complexity` -/
  complexityArgs : GoArg × GoArg
  deriving Repr, DecidableEq

/-- the names of the validated AST, untouched: `s.ObjectDefinition.Name` / `s.Name` for an object's field, each
    implementor's `t.Name` with the same field name for an interface's field, and `fieldComplexity` hands its own
    `object`, `field` parameters (positions 1, 2 after `ctx`) on to `Complexity` -/
def WalkerLookup.verbatim : WalkerLookup :=
  { objectArgs := (.expr "s.ObjectDefinition.Name", .expr "s.Name")
    interfaceArgs := (.expr "s.ObjectDefinition", .expr "s.Name")
    implementorArgs := (.expr "t.Name", .param 2)
    complexityArgs := (.param 1, .param 2) }

/-- `templates.UcFirst` -/
def ucFirst (s : String) : String :=
  match s.toList with
  | [] => ""
  | c :: cs => String.ofList (c.toUpper :: cs)

/-- `templates.LcFirst` -/
def lcFirst (s : String) : String :=
  match s.toList with
  | [] => ""
  | c :: cs => String.ofList (c.toLower :: cs)

inductive NameExpr where
  | objName
  | fieldName
  | fieldGoName
  | ucFirst (e : NameExpr)
  | lcFirst (e : NameExpr)
  deriving Repr, DecidableEq

inductive Part where
  | lit (s : String)
  | sub (e : NameExpr)
  deriving Repr, DecidableEq

inductive KeyPart where
  | typeName
  | field
  | lit (s : String)
  deriving Repr, DecidableEq

inductive Guard where
  | objReserved
  | fieldReserved
  /-- `$object.<name>`: another boolean attribute of `codegen.Object` (`Root`, `Stream`) -/
  | objAttr (name : String)
  | not (g : Guard)
  | and (a b : Guard)
  | or (a b : Guard)
  deriving Repr, DecidableEq

def NameExpr.eval : NameExpr → String → GField → String
  | .objName, o, _ => o
  | .fieldName, _, f => f.name
  | .fieldGoName, _, f => f.goName
  | .ucFirst e, o, f => ComplexityLabel.ucFirst (e.eval o f)
  | .lcFirst e, o, f => ComplexityLabel.lcFirst (e.eval o f)

def Part.eval : Part → String → GField → String
  | .lit s, _, _ => s
  | .sub e, o, f => e.eval o f

/-- the text a stretch of template produces for object `o` and field `f` -/
def evalParts : List Part → String → GField → String
  | [], _, _ => ""
  | p :: ps, o, f => p.eval o f ++ evalParts ps o f

def KeyPart.eval : KeyPart → String → String → String
  | .typeName, t, _ => t
  | .field, _, f => f
  | .lit s, _, _ => s

/-- the value of the `switch` tag for the arguments `typeName`, `field` -/
def evalKey : List KeyPart → String → String → String
  | [], _, _ => ""
  | p :: ps, t, f => p.eval t f ++ evalKey ps t f

/-- `Guard.eval g attr objReserved fieldReserved`; `attr` = which of the object's other attributes hold -/
def Guard.eval : Guard → (String → Bool) → Bool → Bool → Bool
  | .objReserved, _, o, _ => o
  | .fieldReserved, _, _, f => f
  | .objAttr n, av, _, _ => av n
  | .not g, av, o, f => !(g.eval av o f)
  | .and a b, av, o, f => a.eval av o f && b.eval av o f
  | .or a b, av, o, f => a.eval av o f || b.eval av o f

abbrev Path := List Part × List Part

def evalPath (p : Path) (o : String) (f : GField) : String × String := (evalParts p.1 o f, evalParts p.2 o f)

structure Flavour where
  /-- the expression after `switch` -/
  tag : List KeyPart
  /-- the string literal after `case` / `,` -/
  label : List Part
  /-- the `if` around the clauses of one object -/
  objGuard : Guard
  /-- the `if` around one member of a group -/
  fieldGuard : Guard
  /-- `if e.complexity.<S>.<E> == nil { break }` -/
  nilCheck : Path
  /-- `return e.complexity.<S>.<E>(childComplexity, …), true` -/
  call : Path
  /-- `ComplexityRoot`: the `if` around the struct of one object -/
  rootObjGuard : Guard
  /-- `ComplexityRoot`: the `if` around the entry of one group (on its FIRST member) -/
  rootFieldGuard : Guard
  /-- `ComplexityRoot`: the name of the struct field of one object -/
  rootStruct : List Part
  /-- `ComplexityRoot`: the name of the func field of one group (spelled from its FIRST member) -/
  rootEntry : List Part
  deriving Repr

/-- one `case` clause of the generated code: its labels as Go string values, the selector its nil check reads
    and the selector its `return` calls -/
structure SArm where
  labels : List String
  nilEntry : String × String
  callEntry : String × String
  deriving Repr

/-- the member the body of a clause is spelled from: the last of the group (`$last`) -/
def bodyMember (g : String × List GField) : GField :=
  match g.2.getLast? with
  | some f => f
  | none => { name := "", goName := g.1 }

def sarmOf (fl : Flavour) (o : GObject) (g : String × List GField) : SArm :=
  { labels := (g.2.filter fun f => fl.fieldGuard.eval o.has o.reserved f.reserved).map fun f => evalParts fl.label o.name f
    nilEntry := evalPath fl.nilCheck o.name (bodyMember g)
    callEntry := evalPath fl.call o.name (bodyMember g) }

def sarmsOf (fl : Flavour) (o : GObject) : List SArm :=
  if fl.objGuard.eval o.has o.reserved false then (uniqueFields o.fields).map (sarmOf fl o) else []

def sarms (fl : Flavour) (objs : List GObject) : List SArm := objs.flatMap (sarmsOf fl)

/-- the Go `switch`: the first clause with a label equal to the tag -/
def dispatchArm (fl : Flavour) (objs : List GObject) (t f : String) : Option SArm :=
  (sarms fl objs).find? fun a => decide (evalKey fl.tag t f ∈ a.labels)

/-- the selector `e.complexity.<S>.<E>` the generated switch calls for `typeName`, `field` -/
def dispatchBy (fl : Flavour) (objs : List GObject) (t f : String) : Option (String × String) :=
  (dispatchArm fl objs t f).map (·.callEntry)

/-- `Config.Complexity` as Go addresses it: `ComplexityRoot.<Struct>.<Entry>`, nil or a function -/
abbrev GoRoot := String → String → Option (Int → Args → Int)

/-- `executableSchema.Complexity(ctx, typeName, field, childComplexity, rawArgs)` of a flavour. A clause whose nil
    check passes but whose call selector is nil would panic; it is rendered as `none` here and excluded by
    `Faithful.nilCheck` (both selectors are the same). -/
def switchCustomBy (fl : Flavour) (objs : List GObject) (root : GoRoot) : Custom :=
  fun t f child args =>
    match dispatchArm fl objs t f with
    | none => none
    | some a =>
      match root a.nilEntry.1 a.nilEntry.2 with
      | none => none
      | some _ =>
        match root a.callEntry.1 a.callEntry.2 with
        | none => none
        | some fn => some (fn child args)

/-- the entries `ComplexityRoot` declares for one object: struct field name and func field names -/
def rootDecl (fl : Flavour) (o : GObject) : Option (String × List String) :=
  if fl.rootObjGuard.eval o.has o.reserved false then
    some (evalParts fl.rootStruct o.name { name := "", goName := "" },
      (uniqueFields o.fields).filterMap fun g =>
        match g.2.head? with
        | some f => if fl.rootFieldGuard.eval o.has o.reserved f.reserved then some (evalParts fl.rootEntry o.name f) else none
        | none => none)
  else none

/-- the Go selector of the entry the documentation promises for a schema field bound to Go field `k` of type `t`:
    `ComplexityRoot.<UcFirst t>.<k>` -/
def goEntry (e : String × String) : String × String := (ucFirst e.1, e.2)

/-- the user's `ComplexityRoot`, addressed by schema type name instead of by Go struct field -/
def GoRoot.bySchemaName (root : GoRoot) : ComplexityRoot := fun t k => root (ucFirst t) k

/-- a GraphQL name: no `.` in it -/
def NoDot (s : String) : Prop := '.' ∉ s.toList

structure Faithful (fl : Flavour) : Prop where
  /-- the switch looks up `typeName + "." + field` -/
  tag : ∀ t f, evalKey fl.tag t f = t ++ "." ++ f
  /-- the label of a member is the lookup key of the schema's own spelling of type and field -/
  label : ∀ o fd, evalParts fl.label o fd = evalKey fl.tag o fd.name
  /-- the clauses of an object are emitted unless it is reserved - whatever KIND of object it is (a root, the
      subscription root, an ordinary type): `av` ranges over every valuation of `$object.Root` / `$object.Stream` -/
  objGuard : ∀ av r b, fl.objGuard.eval av r b = !r
  fieldGuard : ∀ av r b, fl.fieldGuard.eval av r b = !b
  /-- the body calls `ComplexityRoot.<UcFirst type>.<GoFieldName>` -/
  call : ∀ o fd, evalPath fl.call o fd = (ucFirst o, fd.goName)
  /-- the nil check reads the selector that is called -/
  nilCheck : ∀ o fd, evalPath fl.nilCheck o fd = evalPath fl.call o fd
  rootObjGuard : ∀ av r b, fl.rootObjGuard.eval av r b = !r
  rootFieldGuard : ∀ av r b, fl.rootFieldGuard.eval av r b = !b
  /-- `ComplexityRoot` declares what the body addresses -/
  rootStruct : ∀ o fd, evalParts fl.rootStruct o fd = ucFirst o
  rootEntry : ∀ o fd, evalParts fl.rootEntry o fd = fd.goName

end GqlgenVerif.ComplexityLabel
