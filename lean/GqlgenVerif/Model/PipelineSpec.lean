import GqlgenVerif.Model.Pipeline
/-!
# C03 written directly: a checker over what was observed for one request

`Spec.accepts` says, without any reference to caches, rule lists or the order in which the executor
happens to test things, whether a request passes **every** gate of the property: no registered
parameter mutator rejects it; the (possibly rewritten) query text parses, contains an operation and is
valid under the complete rule set; the requested operation can be selected; its variables coerce; no
registered context mutator rejects it.

`Spec.ok` then judges an observation (event log + answers), coming from the model or from the real
implementation:
* not accepted → the log contains no operation / root-field / field interceptor event, no `Exec`, no
  directive and no resolver event, and every answer is errors-only;
* accepted → the log (cache bookkeeping removed) is: every parameter mutator in registration order,
  every context mutator in registration order, then the operation interceptors **nested with the
  first-registered outermost** (`nest`) around `Exec`, then per answer the response interceptors nested
  around the root fields in document order, each inside the nested root-field interceptors, each field
  inside the nested field interceptors around (directive, resolver).
Core Lean only.
-/
namespace GqlgenVerif.Pipeline.Spec

/-- the query text after all parameter mutators ran -/
def finalQuery (r : Req) : List Ext → Nat → Nat
  | [], q => q
  | x :: xs, q => finalQuery r xs (if x.pm then (lookupNat x.id r.pmRewrite).getD q else q)

/-- the operation to execute when every gate passes, else `none` -/
def accepts (W : World) (exts : List Ext) (r : Req) : Option OpDef :=
  if exts.any (fun x => x.pm && decide (x.id ∈ r.pmReject)) then none
  else match W.parse (finalQuery r exts r.q) with
    | none => none
    | some d =>
      if d.ops.isEmpty || !d.valid then none
      else match forName d.ops r.opName with
        | none => none
        | some (i, op) =>
          if (r.varsOk.getD i true) = false then none
          else if exts.any (fun x => x.cm && decide (x.id ∈ r.cmReject)) then none
          else some op

def fieldLog (exts : List Ext) (p : Path) : List Ev :=
  nest (logSel .field p) exts [.dir p, .res p]

def childrenLog (exts : List Ext) (a : Nat) : Nat → Nat → List Ev
  | 0, _ => []
  | n + 1, b => fieldLog exts [a, b] ++ childrenLog exts a n (b + 1)

def rootLog (exts : List Ext) (a n : Nat) : List Ev :=
  nest (logSel .root [a]) exts (fieldLog exts [a] ++ childrenLog exts a n 0)

def rootsLog (exts : List Ext) : Nat → List Nat → List Ev
  | _, [] => []
  | a, n :: ns => rootLog exts a n ++ rootsLog exts (a + 1) ns

def respLog (exts : List Ext) (inner : List Ev) : List Ev :=
  nest (logSel .resp []) exts inner

def pollLoop (exts : List Ext) (op : OpDef) (r : Req) : Nat → Nat → List Ev × List (Option Resp)
  | 0, _ => ([], [])
  | n + 1, j =>
    if j < avail op r then
      let (l, rs) := pollLoop exts op r n (j + 1)
      (respLog exts (rootsLog exts 0 op.roots) ++ l, some okResp :: rs)
    else (respLog exts [], [none])

/-- expected log (without cache events) and answers of an accepted request -/
def expected (exts : List Ext) (op : OpDef) (r : Req) : List Ev × List (Option Resp) :=
  let pre := (pmList exts).map (fun x => Ev.pm x.id) ++ (cmList exts).map (fun x => Ev.cm x.id)
  match nest (opSel r.opBlock) exts ([.exec], if r.execErr then .oneShot .execErr else .normal) with
  | (lo, .normal) =>
    let (lp, rs) := pollLoop exts op r r.polls 0
    (pre ++ lo ++ lp, rs)
  | (lo, .oneShot c) => (pre ++ lo, pollOneShot c r.polls)

def errorsOnly : Option Resp → Bool
  | some x => !x.hasData && decide (0 < x.nErrors)
  | none => false

/-- the property, on one observation -/
def ok (W : World) (exts : List Ext) (r : Req) (log : List Ev) (resps : List (Option Resp)) : Bool :=
  match accepts W exts r with
  | none => log.all (fun e => !e.isExecution) && resps.all errorsOnly && !resps.isEmpty
  | some op =>
    let (l, rs) := expected exts op r
    decide (log.filter (fun e => !e.isCache) = l) && decide (resps = rs)

end GqlgenVerif.Pipeline.Spec
