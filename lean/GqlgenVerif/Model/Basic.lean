/-! Shared small utilities for the executable models (core Lean only). -/
namespace GqlgenVerif

def hexDigit (n : Nat) : Char :=
  if n < 10 then Char.ofNat (48 + n) else Char.ofNat (87 + n)

end GqlgenVerif
