import GqlgenVerif.Model.Sched
/-!
# Model of the generated federation `_entities` resolver (C20)

Mirrors `/repo/plugin/federation/federation.gotpl` as it is instantiated for a schema (the entity table
`Cfg` is what `plugin/federation/federation.go: buildEntities/buildResolvers/buildRequires` compute from the
`@key`, `@requires`, `@entityResolver` directives; the check derives it from the schema text):

* `typenameOf`, `preErrs`, `groupsFrom`      — `buildRepresentationGroups` (group by `__typename` keeping indices)
* `probeKey`, `tryResolver`, `selectResolver` — `entityResolverNameFor<T>` (first `@key` whose fields are all
                                                present and not all null)
* `access`, `unmarshal`                       — `rep["a"].(map[string]any)["b"]` and the `graphql.Unmarshal*` calls
* `resolveEntity`                             — `resolveEntity` (single mode; own `recover`)
* `resolveMany`                               — `resolveManyEntities` (batch mode: resolver chosen from `reps[0]`,
                                                length check, positional zip over the user's returned slice;
                                                own `recover`)
* `Task`, `tasksOf`, `Task.effect`            — `resolveEntityGroup`: one goroutine per entity (single) / one call per
                                                group (multi), writing `list[rep.index]`
* `run`, `entities`                           — `__resolve_entities`: tasks applied in a completion order
* `Sys`                                       — the same as an interleaving system over `Sched.Reachable`
* `specElem`, `spec`                          — the Spec: each representation resolved directly, by itself

User code (entity resolvers, explicit_requires populators) is a parameter (`User`): total functions of the
arguments the generated code passes; panics and errors are explicit outcomes.

Granularity: a task (one `resolveEntity` call plus its `list[i] = …` / `ec.Error`, or one `resolveManyEntities`
call) is atomic. Go's memory model is not modelled.

Core Lean only.
-/
namespace GqlgenVerif.Entities

/-! ## JSON values of a representation, as the server receives them -/

inductive JV where
  | null
  | str (s : String)
  | num (n : Int)
  | bool (b : Bool)
  | obj (fs : List (String × JV))
  | arr (xs : List JV)
  deriving Repr, Inhabited

/-- a representation: a JSON object (`map[string]any`); the first binding of a key counts -/
abbrev Rep := List (String × JV)

def JV.isNull : JV → Bool
  | .null => true
  | _ => false

/-- Go's `%T` of the decoded value -/
def JV.goType : JV → String
  | .null => "<nil>"
  | .str _ => "string"
  | .num _ => "json.Number"
  | .bool _ => "bool"
  | .obj _ => "map[string]interface {}"
  | .arr _ => "[]interface {}"

/-! ## Entity table -/

/-- GraphQL type of a key / required field (the scalars the probe uses), `opt*` = nullable -/
inductive KType where
  | id | string | int | optId | optString | optInt
  deriving DecidableEq, Repr, Inhabited

structure KeyField where
  path : List String
  ty : KType
  /-- lowerCamel name used by the batch path's error text -/
  defName : String := ""
  deriving Repr, Inhabited

structure ResolverCfg where
  name : String
  keys : List KeyField
  deriving Repr, Inhabited

structure EntityCfg where
  name : String
  multi : Bool
  /-- in `@key` directive order; empty = entity without resolver -/
  resolvers : List ResolverCfg
  /-- leaf paths of all `@requires` field sets, in field order -/
  requires : List KeyField
  deriving Repr, Inhabited

structure Cfg where
  entities : List EntityCfg
  explicitRequires : Bool := false
  computedRequires : Bool := false
  deriving Repr, Inhabited

def Cfg.find (cfg : Cfg) (ty : String) : Option EntityCfg :=
  cfg.entities.find? (fun e => e.name == ty)

/-- `isMulti(typeName)`: entities that have resolvers and `@entityResolver(multi: true)` -/
def Cfg.isMulti (cfg : Cfg) (ty : String) : Bool :=
  match cfg.find ty with
  | some e => e.multi && !e.resolvers.isEmpty
  | none => false

/-! ## Values handed to user code, entities, user code -/

/-- an unmarshalled key / required value -/
inductive KV where
  | str (s : String)
  | int (n : Int)
  | nil
  deriving DecidableEq, Repr, Inhabited

/-- what the generated code stores in `list[i]`: a (possibly typed-nil) pointer to a model struct -/
structure Ent where
  ty : String
  /-- identifies the user call that produced the struct -/
  tag : String
  /-- typed nil pointer: marshals as `null` without an error -/
  isNil : Bool := false
  /-- fields assigned from the representation by the generated code (`@requires`, default mode) -/
  req : List (List String × KV) := []
  /-- whatever the explicit_requires populator did to the struct -/
  echo : Option String := none
  deriving DecidableEq, Repr, Inhabited

inductive Outcome where
  | value (tag : String)
  | nil
  | err (m : String)
  | panic (m : String)
  deriving DecidableEq, Repr, Inhabited

inductive MOutcome where
  /-- the returned slice: `some tag` a struct, `none` a nil element -/
  | values (es : List (Option String))
  | err (m : String)
  | panic (m : String)
  deriving DecidableEq, Repr, Inhabited

inductive POutcome where
  | ok (e : Ent)
  | err (m : String)
  | panic (m : String)
  deriving DecidableEq, Repr, Inhabited

structure User where
  /-- `Entity().Find<T>By<K>(ctx, k0, k1, …)` -/
  single : String → List KV → Outcome
  /-- `Entity().FindMany<T>By<K>s(ctx, []*Input)` : one key tuple per input -/
  multi : String → List (List KV) → MOutcome
  /-- `ec.Populate<T>Requires(ctx, entity, rep)` (explicit_requires) -/
  populate : String → Ent → Rep → POutcome

/-! ## buildRepresentationGroups -/

def typenameOf (rep : Rep) : Option String :=
  match rep.lookup "__typename" with
  | some (.str s) => some s
  | _ => none

def errNoTypename : String := "__typename must be an existing string"

/-- one error per representation without a string `__typename`, in request order -/
def preErrs : List Rep → List String
  | [] => []
  | r :: rest => (if (typenameOf r).isNone then [errNoTypename] else []) ++ preErrs rest

abbrev Groups := List (String × List (Nat × Rep))

/-- put `x` at the front of the group of `ty` (creating it at the end if absent) -/
def addFront (ty : String) (x : Nat × Rep) : Groups → Groups
  | [] => [(ty, [x])]
  | (t, xs) :: g => if t = ty then (t, x :: xs) :: g else (t, xs) :: addFront ty x g

/-- `for i, rep := range representations { repsMap[typeName] = append(repsMap[typeName], {i, rep}) }`,
written from the right so that every group lists its members in ascending index order (the order of the
groups themselves is Go's map iteration order, i.e. arbitrary - it is part of the schedule). -/
def groupsFrom (i : Nat) : List Rep → Groups
  | [] => []
  | r :: rest =>
    match typenameOf r with
    | some ty => addFront ty (i, r) (groupsFrom (i + 1) rest)
    | none => groupsFrom (i + 1) rest

def groupsOf (reps : List Rep) : Groups := groupsFrom 0 reps

/-! ## entityResolverNameFor<T> -/

inductive Probe where
  | missing (seg : String)
  | notMap (seg : String)
  | val (isNull : Bool)
  deriving DecidableEq, Repr

/-- walk one key field's path through the representation -/
def probeKey (m : Rep) : List String → Probe
  | [] => .val true
  | [k] =>
    match m.lookup k with
    | none => .missing k
    | some v => .val v.isNull
  | k :: rest =>
    match m.lookup k with
    | none => .missing k
    | some (.obj fs) => probeKey fs rest
    | some _ => .notMap k

def errTypeNotFound : String := "type not found"

/-- the single-iteration `for { … }` of one resolver: `none` = this resolver is usable -/
def tryKeys (ety : String) (rep : Rep) : List KeyField → Bool → Option String
  | [], allNull =>
    if allNull then some s!"{errTypeNotFound} due to all null value KeyFields for {ety}" else none
  | k :: rest, allNull =>
    match probeKey rep k.path with
    | .missing seg => some s!"{errTypeNotFound} due to missing Key Field \"{seg}\" for {ety}"
    | .notMap seg =>
      some s!"{errTypeNotFound} due to nested Key Field \"{seg}\" value not matching map[string]any for {ety}"
    | .val isNull => tryKeys ety rep rest (allNull && isNull)

def joinLines : List String → String
  | [] => ""
  | [a] => a
  | a :: rest => a ++ "\n" ++ joinLines rest

/-- first usable resolver in `@key` order, collecting the reasons the earlier ones were skipped -/
def selectFrom (ety : String) (rep : Rep) : List ResolverCfg → List String → Except String ResolverCfg
  | [], errs => .error s!"{errTypeNotFound} for {ety} due to {joinLines errs.reverse}"
  | r :: rest, errs =>
    match tryKeys ety rep r.keys true with
    | none => .ok r
    | some e => selectFrom ety rep rest (e :: errs)

def selectResolver (e : EntityCfg) (rep : Rep) : Except String ResolverCfg :=
  selectFrom e.name rep e.resolvers []

/-! ## reading and unmarshalling a field of the representation -/

inductive Access where
  | val (v : JV)
  /-- `x.(map[string]any)` on something that is not a map: runtime panic -/
  | assertPanic
  deriving Repr

/-- `rep["a"].(map[string]any)["b"]…` ; a missing key reads as nil -/
def access (m : Rep) : List String → Access
  | [] => .val .null
  | [k] => .val ((m.lookup k).getD .null)
  | k :: rest =>
    match m.lookup k with
    | some (.obj fs) => access fs rest
    | _ => .assertPanic

def digitsVal : List Char → Nat → Option Nat
  | [], acc => some acc
  | c :: cs, acc => if c.isDigit then digitsVal cs (acc * 10 + (c.toNat - 48)) else none

/-- `strconv.Atoi` on the strings the harness generates (letters and digits): all digits or a syntax error -/
def atoi (s : String) : Except String Int :=
  match s.toList with
  | [] => .error s!"strconv.Atoi: parsing \"{s}\": invalid syntax"
  | cs =>
    match digitsVal cs 0 with
    | some n => .ok (Int.ofNat n)
    | none => .error s!"strconv.Atoi: parsing \"{s}\": invalid syntax"

/-- graphql.UnmarshalID / UnmarshalString / UnmarshalInt on a decoded JSON value (numbers are json.Number) -/
def unmarshalNN (t : KType) (v : JV) : Except String KV :=
  match t, v with
  | .int, .str s => (atoi s).map KV.int
  | .int, .num n => .ok (.int n)
  | .int, .null => .ok (.int 0)
  | .int, v => .error s!"{v.goType} is not an int"
  | .optInt, .str s => (atoi s).map KV.int
  | .optInt, .num n => .ok (.int n)
  | .optInt, .null => .ok (.int 0)
  | .optInt, v => .error s!"{v.goType} is not an int"
  | _, .str s => .ok (.str s)
  | _, .num n => .ok (.str (toString n))
  | _, .bool b => .ok (.str (toString b))
  | .id, .null => .ok (.str "null")
  | .optId, .null => .ok (.str "null")
  | _, .null => .ok (.str "")
  | _, v => .error s!"{v.goType} is not a string"

def KType.nullable : KType → Bool
  | .optId | .optString | .optInt => true
  | _ => false

/-- `ec.unmarshal{N,O}<T>2…(ctx, v)` (codegen/type.gotpl): nil is a nil pointer for a nullable type and the
coercion error "must not be null" for a non-null one; everything else goes to `graphql.Unmarshal*` -/
def unmarshal (t : KType) (v : JV) : Except String KV :=
  if v.isNull then (if t.nullable then .ok .nil else .error "must not be null") else unmarshalNN t v

def msgAssert : String := "panic: type assertion"
def msgNilDeref : String := "panic: nil dereference"
def msgIndex : String := "panic: index out of range"
def msgPanic (m : String) : String := "panic: " ++ m

/-- the key arguments of resolver `r` read from `rep` (`id0, id1, …`); `onErr j msg` renders an unmarshal failure -/
def keyArgs (rep : Rep) (onErr : Nat → KeyField → String → String) : List KeyField → Nat → Except String (List KV)
  | [], _ => .ok []
  | k :: rest, j =>
    match access rep k.path with
    | .assertPanic => .error msgAssert
    | .val v =>
      match unmarshal k.ty v with
      | .error m => .error (onErr j k m)
      | .ok a =>
        match keyArgs rep onErr rest (j + 1) with
        | .error m => .error m
        | .ok as => .ok (a :: as)

/-- `entity.<F> , err = ec.unmarshal…(rep[…])` for every `@requires` leaf, in order. The right-hand side is
evaluated first (type assertion), then the assignment dereferences the entity pointer. -/
def assignRequires (rep : Rep) (isNil : Bool) : List KeyField → Except String (List (List String × KV))
  | [] => .ok []
  | k :: rest =>
    match access rep k.path with
    | .assertPanic => .error msgAssert
    | .val v =>
      if isNil then .error msgNilDeref else
      match unmarshal k.ty v with
      | .error m => .error m
      | .ok a =>
        match assignRequires rep isNil rest with
        | .error m => .error m
        | .ok as => .ok ((k.path, a) :: as)

/-! ## resolveEntity (single mode) -/

/-- the part after the user's resolver returned `entity, nil` -/
def finishSingle (cfg : Cfg) (u : User) (e : EntityCfg) (rep : Rep) (ent : Ent) : Except String Ent :=
  if cfg.computedRequires then .ok ent
  else if cfg.explicitRequires && !e.requires.isEmpty then
    match u.populate e.name ent rep with
    | .ok ent' => .ok ent'
    | .err m => .error s!"populating requires for Entity \"{e.name}\": {m}"
    | .panic m => .error (msgPanic m)
  else
    match assignRequires rep ent.isNil e.requires with
    | .ok rs => .ok { ent with req := rs }
    | .error m => .error m

/-- `resolveEntity(ctx, typeName, rep)`: the entity, or the error handed to `ec.Error` (panics recovered here) -/
def resolveEntity (cfg : Cfg) (u : User) (ty : String) (rep : Rep) : Except String Ent :=
  match cfg.find ty with
  | none => .error s!"unknown type: {ty}"
  | some e =>
    if e.resolvers.isEmpty || e.multi then .error s!"unknown type: {ty}" else
    match selectResolver e rep with
    | .error m => .error s!"finding resolver for Entity \"{e.name}\": {m}"
    | .ok r =>
      -- the presenter shows the innermost gqlerror: the unmarshal error's own text
      match keyArgs rep (fun _ _ m => m) r.keys 0 with
      | .error m => .error m
      | .ok args =>
        match u.single r.name args with
        | .err m => .error s!"resolving Entity \"{e.name}\": {m}"
        | .panic m => .error (msgPanic m)
        | .nil => finishSingle cfg u e rep { ty := e.name, tag := "", isNil := true }
        | .value tag => finishSingle cfg u e rep { ty := e.name, tag := tag }

/-! ## resolveManyEntities (batch mode) -/

/-- `typedReps[i] = &Input{…}` for every representation of the group, with the resolver chosen from `reps[0]` -/
def typedReps (r : ResolverCfg) : List (Nat × Rep) → Except String (List (List KV))
  | [] => .ok []
  | (_, rep) :: rest =>
    match keyArgs rep (fun _ k _ => s!"Field {k.defName} undefined in schema.") r.keys 0 with
    | .error m => .error m
    | .ok a =>
      match typedReps r rest with
      | .error m => .error m
      | .ok as => .ok (a :: as)

/-- `for i, entity := range entities { …requires…; list[reps[i].index] = entity }`:
the writes performed before the loop ended or failed, and the failure -/
def zipWrite (e : EntityCfg) : List (Option String) → List (Nat × Rep) → List (Nat × Ent) × Option String
  | [], _ => ([], none)
  | _ :: _, [] => ([], some msgIndex)
  | o :: es, (i, rep) :: reps =>
    let isNil := o.isNone
    match assignRequires rep isNil e.requires with
    | .error m => ([], some m)
    | .ok rs =>
      let ent : Ent := { ty := e.name, tag := o.getD "", isNil := isNil, req := rs }
      let r := zipWrite e es reps
      ((i, ent) :: r.1, r.2)

/-- `resolveManyEntities(ctx, typeName, reps, list)` for a non-empty group: writes and the error, if any -/
def resolveMany (cfg : Cfg) (u : User) (ty : String) (reps : List (Nat × Rep)) :
    List (Nat × Ent) × Option String :=
  match cfg.find ty, reps with
  | none, _ => ([], some ("unknown type: " ++ ty))
  | some _, [] => ([], some msgIndex)
  | some e, (i0, rep0) :: rest =>
    match selectResolver e rep0 with
    | .error m => ([], some s!"finding resolver for Entity \"{e.name}\": {m}")
    | .ok r =>
      match typedReps r ((i0, rep0) :: rest) with
      | .error m => ([], some m)
      | .ok args =>
        match u.multi r.name args with
        | .err m => ([], some m)
        | .panic m => ([], some (msgPanic m))
        | .values es =>
          -- the result is matched to the representations by position: the lengths must agree
          if es.length != rest.length + 1 then
            ([], some s!"entity resolver {r.name} returned {es.length} entities for {rest.length + 1} representations of \"{e.name}\"")
          else zipWrite e es ((i0, rep0) :: rest)

/-! ## tasks, effects, runs -/

inductive Task where
  | single (ty : String) (i : Nat) (rep : Rep)
  | multi (ty : String) (reps : List (Nat × Rep))
  deriving Repr

/-- indices a task owns -/
def Task.idxs : Task → List Nat
  | .single _ i _ => [i]
  | .multi _ reps => reps.map (·.1)

def groupTasks (cfg : Cfg) (g : String × List (Nat × Rep)) : List Task :=
  if cfg.isMulti g.1 then [.multi g.1 g.2] else g.2.map fun x => .single g.1 x.1 x.2

/-- `resolveEntityGroup` for every group: the concurrently running units -/
def tasksOf (cfg : Cfg) (gs : Groups) : List Task := gs.flatMap (groupTasks cfg)

/-- what a task does to the shared state: writes `list[i] = e`, errors appended with `ec.Error` -/
structure Eff where
  writes : List (Nat × Ent)
  errs : List String
  deriving DecidableEq, Repr, Inhabited

def Task.effect (cfg : Cfg) (u : User) : Task → Eff
  | .single ty i rep =>
    match resolveEntity cfg u ty rep with
    | .ok e => ⟨[(i, e)], []⟩
    | .error m => ⟨[], [m]⟩
  | .multi ty reps =>
    let r := resolveMany cfg u ty reps
    ⟨r.1, r.2.toList⟩

structure St where
  list : List (Option Ent)
  errs : List String
  deriving DecidableEq, Repr, Inhabited

def applyWrites (ws : List (Nat × Ent)) (l : List (Option Ent)) : List (Option Ent) :=
  ws.foldl (fun acc w => acc.set w.1 (some w.2)) l

def St.apply (s : St) (e : Eff) : St := ⟨applyWrites e.writes s.list, s.errs ++ e.errs⟩

/-- effects applied in a given completion order -/
def runE (effs : List Eff) (s : St) : St := effs.foldl St.apply s

def initSt (reps : List Rep) : St := ⟨List.replicate reps.length none, preErrs reps⟩

def tasks (cfg : Cfg) (reps : List Rep) : List Task := tasksOf cfg (groupsOf reps)

def effects (cfg : Cfg) (u : User) (reps : List Rep) : List Eff := (tasks cfg reps).map (Task.effect cfg u)

/-- `__resolve_entities` when the tasks complete in the order `order` -/
def runOrder (cfg : Cfg) (u : User) (reps : List Rep) (order : List Task) : St :=
  runE (order.map (Task.effect cfg u)) (initSt reps)

/-- one particular schedule: groups in first-occurrence order, entities in index order -/
def entities (cfg : Cfg) (u : User) (reps : List Rep) : St := runOrder cfg u reps (tasks cfg reps)

/-! ## the same as an interleaving system -/

structure Sys where
  pending : List Eff
  st : St

def Sys.init (effs : List Eff) (s0 : St) (s : Sys) : Prop := s.pending = effs ∧ s.st = s0

/-- any pending task may complete next -/
def Sys.step (s s' : Sys) : Prop :=
  ∃ l1 e l2, s.pending = l1 ++ e :: l2 ∧ s'.pending = l1 ++ l2 ∧ s'.st = s.st.apply e

/-! ## Spec: every representation resolved directly, by itself -/

/-- the batch resolver asked about one representation alone -/
def resolveAlone (cfg : Cfg) (u : User) (ty : String) (rep : Rep) : Option Ent × List String :=
  let r := resolveMany cfg u ty [(0, rep)]
  ((r.1.lookup 0), r.2.toList)

/-- element and errors of one representation -/
def specElem (cfg : Cfg) (u : User) (rep : Rep) : Option Ent × List String :=
  match typenameOf rep with
  | none => (none, [errNoTypename])
  | some ty =>
    if cfg.isMulti ty then resolveAlone cfg u ty rep
    else
      match resolveEntity cfg u ty rep with
      | .ok e => (some e, [])
      | .error m => (none, [m])

def spec (cfg : Cfg) (u : User) (reps : List Rep) : St :=
  ⟨reps.map fun r => (specElem cfg u r).1, reps.flatMap fun r => (specElem cfg u r).2⟩

end GqlgenVerif.Entities
