import GqlgenVerif.Model.Utf8
/-!
# Go integer semantics used by the scalar codecs

Integers are mathematical `Int`s together with the explicit conversion functions Go applies
(`uint(v)`, `int32(v)`, … are wrap-arounds modulo 2^n on a 64-bit platform), and decimal
rendering / strict parsing as `strconv.FormatInt` / `strconv.ParseInt(…, 10, 64)` and the JSON
number grammar define them. `strconv` itself is modelled-not-verified; the C08 correspondence run
compares these functions with the real ones byte for byte.
-/
namespace GqlgenVerif.Go

def maxInt32 : Int := 2147483647
def minInt32 : Int := -2147483648
def maxUint32 : Int := 4294967295
def maxInt64 : Int := 9223372036854775807
def minInt64 : Int := -9223372036854775808
def maxUint64 : Int := 18446744073709551615

def inInt64 (v : Int) : Prop := minInt64 ≤ v ∧ v ≤ maxInt64
def inInt32 (v : Int) : Prop := minInt32 ≤ v ∧ v ≤ maxInt32
def inUint64 (v : Int) : Prop := 0 ≤ v ∧ v ≤ maxUint64
def inUint32 (v : Int) : Prop := 0 ≤ v ∧ v ≤ maxUint32

/-- `uint64(v)` / `uint(v)` -/
def conv_uint64 (v : Int) : Int := v % 18446744073709551616
def conv_uint (v : Int) : Int := conv_uint64 v
/-- `uint32(v)` -/
def conv_uint32 (v : Int) : Int := v % 4294967296
/-- `int64(v)` / `int(v)` -/
def conv_int64 (v : Int) : Int := (v + 9223372036854775808) % 18446744073709551616 - 9223372036854775808
def conv_int (v : Int) : Int := conv_int64 v
/-- `int32(v)` -/
def conv_int32 (v : Int) : Int := (v + 2147483648) % 4294967296 - 2147483648

/-! ## decimal text -/

/-- `strconv.FormatUint(n, 10)` -/
def natDec (n : Nat) : Bytes :=
  if n < 10 then [48 + n] else natDec (n / 10) ++ [48 + n % 10]

/-- `strconv.FormatInt(i, 10)` -/
def intDec (i : Int) : Bytes :=
  if i < 0 then 0x2D :: natDec i.natAbs else natDec i.natAbs

def isDigit (b : Nat) : Bool := 48 ≤ b && b ≤ 57

/-- value of a digit string, most significant first; `none` on a non-digit or the empty string -/
def parseDigitsAcc (acc : Nat) : Bytes → Option Nat
  | [] => some acc
  | b :: r => if isDigit b then parseDigitsAcc (acc * 10 + (b - 48)) r else none

def parseNat : Bytes → Option Nat
  | [] => none
  | s => parseDigitsAcc 0 s

/-- the integer part of the JSON number grammar: `0 | [1-9][0-9]*` -/
def validJsonNat : Bytes → Bool
  | [] => false
  | [b] => isDigit b
  | b :: r => isDigit b && b != 48 && r.all isDigit

/-- a JSON integer token `-? (0 | [1-9][0-9]*)` and its value -/
def parseJsonInt : Bytes → Option Int
  | 0x2D :: r =>
    if validJsonNat r then (match parseNat r with | some n => some (- Int.ofNat n) | none => none) else none
  | s =>
    if validJsonNat s then (match parseNat s with | some n => some (Int.ofNat n) | none => none) else none

end GqlgenVerif.Go
