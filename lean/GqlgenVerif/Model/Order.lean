/-!
# Order — how gqlgen's generator consumes Go maps (C18)

Go randomises map iteration. The generator (`codegen`, `codegen/config`, `plugin/modelgen`, …) ranges over maps
of types, interfaces, referenced types, builds and files in ~40 places; its output is deterministic only if no
such loop lets the iteration order through. A map-iteration site is modelled as a function of the LIST `l` of
elements in the order the runtime happened to deliver them; "order-independent" = equal results for every
permutation of `l`. The shapes the source uses (classified per site by `go/extract/mapranges.go`,
`Gen/MapRanges.lean`):

| class            | source shape                                                        | model            |
|------------------|---------------------------------------------------------------------|------------------|
| sorted-after     | `for … range m { s = append(s, f(x)) }; sort.Slice(s, key <)`       | `collectSort`    |
| keyed-write      | `for k, v := range m { out[k] = g(v) }` / set insert                 | `writeAll`       |
| pure-search      | `for … range m { if p(x) { return true } }; return false`           | `search`         |
| commutative-acc  | `for … range m { n += g(x) }`                                       | `accumulate`     |

`sortByKey` is also what `Model/Naming.lean` uses for `sort.Slice(b.Enums|Models|Interfaces, Name <)`.
Core Lean only.
-/
namespace GqlgenVerif.Order

/-- `a.Name <= b.Name` on Go strings: lexicographic on bytes (code points for ASCII names) -/
def leKey {α} (key : α → List Nat) (a b : α) : Bool := decide (key a ≤ key b)

/-- `sort.Slice(l, func(i, j) bool { return key(l[i]) < key(l[j]) })`. Go's sort is not stable; on distinct keys
every correct sort returns the same list, which is the only case the theorems use. -/
def sortByKey {α} (key : α → List Nat) (l : List α) : List α := l.mergeSort (leKey key)

/-- collect in iteration order, then sort: `for _, x := range m { if keep x { s = append(s, f x) } }; sort(s)` -/
def collectSort {α β} (keep : α → Bool) (f : α → β) (key : β → List Nat) (l : List α) : List β :=
  sortByKey key ((l.filter keep).map f)

/-- a Go map as a partial function -/
abbrev GoMap (K V : Type) := K → Option V

/-- `for _, x := range m { out[idx x] = val x }` -/
def writeAll {α K V} [DecidableEq K] (idx : α → K) (val : α → V) (out : GoMap K V) (l : List α) : GoMap K V :=
  l.foldl (fun m a => fun k => if k = idx a then some (val a) else m k) out

/-- `for _, x := range m { if p x { return true } }; return false` -/
def search {α} (p : α → Bool) (l : List α) : Bool := l.any p

/-- `for _, x := range m { n += g x }` -/
def accumulate {α} (g : α → Nat) (n0 : Nat) (l : List α) : Nat := l.foldl (fun n a => n + g a) n0

end GqlgenVerif.Order
