import GqlgenVerif.Model.Exec
/-!
# `@defer`: deferred groups (`codegen/object.gotpl`, `processDeferredGroup`, the query response function)

`D.complete…` is `Impl.complete…` (Model/Exec.lean) extended with what `_T` does for a collected field
whose `Deferrable` is set (non-root objects, resolver-backed fields): the field is *not* executed, its
slot in the object holds `graphql.Null`, and it joins the field set of its label; after the object's own
`Dispatch`, if `Invalids = 0`, one group per label is started (`processDeferredGroup`) with the object's
path. A group runs its fields with a **fresh** response context (`WithFreshResponseContext`), its result
is `Null` when its own `Invalids > 0`, and it may start further groups while it runs.

Groups started are an effect, collected in `DSt.groups`; `execDeferred` then runs the worklist. The map
iteration over labels and the goroutines make the delivery order nondeterministic: the model fixes one
order and the check compares payloads as a set keyed by (path, label).
-/
namespace GqlgenVerif

structure Group where
  path : Path
  label : String
  ty : String
  fields : List (FInfo × Shape)
deriving Inhabited

structure DSt where
  st : St := {}
  groups : List Group := []
deriving Inhabited

namespace D

def lift (f : St → St) (d : DSt) : DSt := { d with st := f d.st }

/-- group the deferred fields of one object by label, labels in order of first appearance -/
def groupByLabel : List (FInfo × Shape) → List (String × List (FInfo × Shape)) → List (String × List (FInfo × Shape))
  | [], acc => acc
  | (fi, sh) :: rest, acc =>
    match (if fi.name == "__typename" || fi.plain then none else fi.deferred) with
    | none => groupByLabel rest acc     -- `__typename` and plain struct fields are written eagerly, never deferred
    | some l =>
      match acc.findIdx? (·.1 == l) with
      | some i => groupByLabel rest (acc.modify i fun g => (g.1, g.2 ++ [(fi, sh)]))
      | none => groupByLabel rest (acc ++ [(l, [(fi, sh)])])

mutual
def completeValue (o : Oracle) : Shape → V → Path → DSt → Out × DSt
  | .leaf nn, v, p, d =>
    match v with
    | .leaf t => (.leaf t, d)
    | .null => let r := Impl.nilAt nn p d.st; (r.1, { d with st := r.2 })
    | _ => (.null, lift (·.addErr p "model: value does not fit a leaf position") d)
  | .obj nn _ cases, v, p, d =>
    match v with
    | .obj ty =>
      match completeCases o ty cases p d with
      | some r => r
      | none => (.null, lift (·.addErr p ("model: no plan for concrete type " ++ ty)) d)
    | .null => let r := Impl.nilAt nn p d.st; (r.1, { d with st := r.2 })
    | _ => (.null, lift (·.addErr p "model: value does not fit an object position") d)
  | .list nn elemCtx elem, v, p, d =>
    match v with
    | .list vs =>
      let r := completeElems o elem elemCtx vs p 0 d
      (if elem.nn && r.1.any Out.isNull then .null else .list r.1, r.2)
    | .null => if nn then (.list [], d) else (.null, d)
    | _ => (.null, lift (·.addErr p "model: value does not fit a list position") d)

def completeCases (o : Oracle) (ty : String) :
    List (String × List (FInfo × Shape)) → Path → DSt → Option (Out × DSt)
  | [], _, _ => none
  | (c, fields) :: rest, p, d =>
    if c == ty then
      -- `_T(ctx, sel, obj)` for a non-root object
      let r := completeFields o ty false fields p d
      if r.2.1 > 0 then some (.null, r.2.2)
      else
        let gs := (groupByLabel fields []).map fun (l, fs) => ({ path := p, label := l, ty, fields := fs } : Group)
        some (.obj r.1, { r.2.2 with groups := r.2.2.groups ++ gs })
    else completeCases o ty rest p d

/-- the field loop of `_T`; `inGroup` = these fields are being run as a deferred group's field set
    (their own `Deferrable` no longer defers them) or the object is a root object -/
def completeFields (o : Oracle) (ty : String) (inGroup : Bool) :
    List (FInfo × Shape) → Path → DSt → List (String × Out) × Nat × DSt
  | [], _, d => ([], 0, d)
  | (fi, sh) :: rest, p, d =>
    if !inGroup && fi.deferred.isSome && fi.name != "__typename" && !fi.plain then
      -- `out.Values[i] = graphql.Null; continue`
      let rs := completeFields o ty inGroup rest p d
      ((fi.alias, Out.null) :: rs.1, rs.2.1, rs.2.2)
    else
      let r :=
        if fi.name == "__typename" then (Out.leaf (quoteTypename ty), d)
        else completeField o fi sh (p ++ [.key fi.alias]) d
      let rs := completeFields o ty inGroup rest p r.2
      ((fi.alias, r.1) :: rs.1, (if sh.nn && r.1.isNull then 1 else 0) + rs.2.1, rs.2.2)

def completeField (o : Oracle) (fi : FInfo) (sh : Shape) (p : Path) (d : DSt) : Out × DSt :=
  match Impl.runDirs o p fi.dirs.reverse d.st with
  | (.missing dn, st1) => (.null, { d with st := { st1 with unlogged := st1.unlogged ++ [pathStr p ++ "@" ++ dn] } })
  | (.err m, st1) => (.null, { d with st := st1.addErr p m })
  | (.panic m, st1) => (.null, { d with st := { st1.addErr p ("recovered: " ++ m) with recovers := st1.recovers + 1 } })
  | (.block, st1) =>
    (.null, { d with st := if sh.nn && !st1.hasFieldError p then st1.addErr p mustNotBeNull else st1 })
  | (.reached, st1) =>
    match o.outcome fi p with
    | .missing => (.null, { d with st := { st1 with unlogged := st1.unlogged ++ [pathStr p] } })
    | .err m => (.null, { d with st := (st1.resolved fi.plain p).addErr p m })
    | .panic m =>
      let st2 := st1.resolved fi.plain p
      (.null, { d with st := { st2.addErr p ("recovered: " ++ m) with recovers := st2.recovers + 1 } })
    | .val v =>
      let st2 := st1.resolved fi.plain p
      if sh.isIface && v.isNull then
        (.null, { d with st := if sh.nn && !st2.hasFieldError p then st2.addErr p mustNotBeNull else st2 })
      else completeValue o sh v p { d with st := st2 }

def completeElems (o : Oracle) (elem : Shape) (elemCtx : Bool) :
    List V → Path → Nat → DSt → List Out × DSt
  | [], _, _, d => ([], d)
  | v :: rest, p, i, d =>
    let r :=
      if !elemCtx && elem.nn && v.isNull then
        (Out.null, if rest.any V.isNull then d else lift (·.addErr p elementIsNull) d)
      else completeValue o elem v (if elemCtx then p ++ [.idx i] else p) d
    let rs := completeElems o elem elemCtx rest p (i + 1) r.2
    (r.1 :: rs.1, rs.2)
end

/-- one payload of the response sequence -/
structure Payload where
  path : Path
  label : String
  data : Out
  st : St
deriving Inhabited

/-- run started groups until none is left (each may start more); fuel bounds the worklist -/
def runGroups (o : Oracle) : Nat → List Group → List Payload → List Payload
  | 0, _, acc => acc
  | _, [], acc => acc
  | fuel + 1, g :: rest, acc =>
    -- `WithFreshResponseContext`: the group's errors start empty
    let r := completeFields o g.ty true g.fields g.path {}
    let data := if r.2.1 > 0 then Out.null else Out.obj r.1
    runGroups o fuel (rest ++ r.2.2.groups) (acc ++ [{ path := g.path, label := g.label, data, st := r.2.2.st }])

/-- a query: initial payload then one payload per started group -/
def execDeferred (o : Oracle) (rootTy : String) (fields : List (FInfo × Shape)) : Payload × List Payload :=
  let r := completeFields o rootTy true fields [] {}
  let data := if r.2.1 > 0 then Out.null else Out.obj r.1
  ({ path := [], label := "", data, st := r.2.2.st }, runGroups o 100000 r.2.2.groups [])

end D
end GqlgenVerif
