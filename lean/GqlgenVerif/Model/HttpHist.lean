import GqlgenVerif.Model.Http
import GqlgenVerif.Gen.HttpHistory
/-!
# Request SEQUENCES against one long-lived server (property C09)

`Model/Http.lean` answers one request. A production server keeps three things between requests; this file
models them and `step`/`run` serve a whole history:

* `graphql/executor/executor.go`  `(*Executor).parseQuery` with its query cache (`Server.SetQueryCache`):
  `runPQ` INTERPRETS `Gen.HttpHistory.parseQueryProg` - the top-level steps of the function in source order,
  regenerated on every run - so the place of `queryCache.Add` relative to the error returns is the source's.
  A cache hit returns the stored document with nil errors (it is trusted).
* `graphql/handler/extension/apq.go`  `AutomaticPersistedQuery.MutateOperationParameters` with its cache
  (`apqStep`): hash without query → looked up; hash with query → verified and stored.
* `graphql/handler/transport/http_post.go`  the `sync.Pool` of `*graphql.RawParams`: the JSON body is decoded
  INTO the pooled struct, a key the body lacks keeps the value left there; the deferred function resets the
  fields listed in `Gen.HttpHistory.postResetFields`.

Query texts enter as numbers (`0` = the empty string); what gqlparser makes of a text is a pure function of
the text (`World`). The sha256 of text `t` is written `t` (hashes are taken to be collision-free).
The bounded LRU's evictions are an arbitrary `keep` predicate per event; the APQ cache is taken to be large
enough not to evict (the harness configures it so).
-/
namespace GqlgenVerif.HttpHist
open GqlgenVerif.Http GqlgenVerif.Gen.HttpStatus GqlgenVerif.Gen.HttpHistory

/-- gqlparser on a query text: `parses t = none` is a syntax error, otherwise the operations of the parsed
    document; `valid t` = `validate(schema, doc)` returns no error -/
structure World where
  parses : Nat → Option (List Op)
  valid : Nat → Bool

/-- what parsing + validation make of a text, statelessly (the `Doc` of `Model/Http.lean`) -/
def outcome (w : World) (q : Nat) : Doc :=
  match w.parses q with
  | none => .parseErr
  | some [] => .ops []
  | some l => if w.valid q then .ops l else .invalid

/-- the document parseQuery hands back with nil errors: its operations, whatever validation would say -/
def trusted (w : World) (q : Nat) : Doc := .ops ((w.parses q).getD [])

/-- `(*Executor).parseQuery(query)` against the cache `c`: result and the cache afterwards -/
def runPQ (w : World) (q : Nat) : List PQStep → List Nat → Doc × List Nat
  | [], c => (trusted w q, c)
  | .getHit :: rest, c => if c.contains q then (trusted w q, c) else runPQ w q rest c
  | .parse :: rest, c => runPQ w q rest c
  | .retParseErr :: rest, c => if (w.parses q).isNone then (.parseErr, c) else runPQ w q rest c
  | .retNoOp :: rest, c => if w.parses q = some [] then (.ops [], c) else runPQ w q rest c
  | .validate :: rest, c => runPQ w q rest c
  | .retInvalid :: rest, c => if w.valid q then runPQ w q rest c else (.invalid, c)
  | .add :: rest, c => runPQ w q rest (q :: c)
  | .retOk :: _, c => (trusted w q, c)

def apqNotFound : String := "PERSISTED_QUERY_NOT_FOUND"

/-- `AutomaticPersistedQuery.MutateOperationParameters`: `h` = the sha256Hash sent (none: no persistedQuery
    extension). Answers the query text the request goes on with, or the error's code, and the store. -/
def apqStep (store : List Nat) (q : Nat) (h : Option Nat) : Except (Option String) Nat × List Nat :=
  match h with
  | none => (.ok q, store)
  | some h =>
    if q = 0 then
      (if store.contains h then (.ok h, store) else (.error (some apqNotFound), store))
    else if q = h then (.ok q, h :: store)
    else (.error none, store)

/-- a request as the history model sees it. `r.doc`, `r.paramErr`, `r.opName` are NOT read: they are what
    the server makes of `query` / `apqHash` / `opNameSent`. -/
structure HReq where
  r : Req
  query : Nat
  /-- `none`: the envelope has no operationName key -/
  opNameSent : Option String
  apqHash : Option Nat

structure Ev where
  req : HReq
  /-- query-cache entries the bounded cache still holds after this request -/
  keep : Nat → Bool

structure St where
  qcache : List Nat
  apq : List Nat
  /-- `OperationName` of the `*RawParams` lying in POST's pool -/
  poolOp : String

def St.init : St := { qcache := [], apq := [], poolOp := "" }

def poolResetsOpName : Bool := postResetFields.contains "OperationName"

/-- `Server.ServeHTTP` on the server state `s` -/
def step (w : World) (srv : List Transport) (s : St) (e : Ev) : Resp × St :=
  let h := e.req
  match getTransport srv h.r with
  | none => (serve srv h.r, s)
  | some t =>
    if t.kind = .options then (serve srv h.r, s) else
    let usesPool := t.kind = .post && postPooled
    -- POST.Do: json.Decode into the pooled params
    let opName := h.opNameSent.getD (if usesPool then s.poolOp else "")
    let left (cur : String) := if usesPool then (if poolResetsOpName then "" else cur) else s.poolOp
    match h.r.dec.bind (decodeStatus t.kind) with
    | some _ => (doDocument t h.r, { s with poolOp := left s.poolOp })
    | none =>
      match apqStep s.apq h.query h.apqHash with
      | (.error code, apq') =>
        (doDocument t { h.r with paramErr := some code, opName := opName },
         { s with apq := apq', poolOp := left opName })
      | (.ok q, apq') =>
        let pq := runPQ w q parseQueryProg s.qcache
        (doDocument t { h.r with paramErr := none, doc := pq.1, opName := opName },
         { qcache := pq.2.filter e.keep, apq := apq', poolOp := left opName })

def run (w : World) (srv : List Transport) : St → List Ev → List Resp
  | _, [] => []
  | s, e :: es => (step w srv s e).1 :: run w srv (step w srv s e).2 es

/-! ## the stateless reference: the request itself, given only what APQ has been told -/

/-- the request of `Model/Http.lean` this request IS, given the APQ registrations `apq` -/
def reqOf (w : World) (apq : List Nat) (h : HReq) : Req :=
  match apqStep apq h.query h.apqHash with
  | (.error code, _) => { h.r with paramErr := some code, opName := h.opNameSent.getD "" }
  | (.ok q, _) => { h.r with paramErr := none, doc := outcome w q, opName := h.opNameSent.getD "" }

/-- the request gets as far as the parameter mutators -/
def reachesMutators (srv : List Transport) (r : Req) : Bool :=
  match getTransport srv r with
  | none => false
  | some t => t.kind ≠ .options && (r.dec.bind (decodeStatus t.kind)).isNone

/-- APQ registrations after the request -/
def apqAfter (srv : List Transport) (apq : List Nat) (h : HReq) : List Nat :=
  if reachesMutators srv h.r then (apqStep apq h.query h.apqHash).2 else apq

/-- every request answered by `serve` on its own, threading only the APQ registrations -/
def runRef (w : World) (srv : List Transport) : List Nat → List Ev → List Resp
  | _, [] => []
  | a, e :: es => serve srv (reqOf w a e.req) :: runRef w srv (apqAfter srv a e.req) es

end GqlgenVerif.HttpHist
