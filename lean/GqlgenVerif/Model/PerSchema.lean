/-!
# PerSchema — which schema source a per-file build of the follow-schema executor is pinned to (C18)

`codegen/generate.go generatePerSchema` distributes the data over one build (`*Data`) per OUTPUT file name. The
output name of an element is derived from the BASE name of the schema file it is defined in (`filename()`:
`users/schema.graphql` and `orders/schema.graphql` both give `schema.generated.go`), so several sources can share
one build. Four passes run one after the other, each of the shape

```go
for … := range <data.Objects | data.Inputs | data.Interfaces | data.ReferencedTypes> {
    filename := filename(x.Position, data.Config)
    if (*builds)[filename] == nil { addBuild(filename, x.Position, data, builds) }   -- `ensure`
    … keyed write / append into (*builds)[filename] …
}
```

and `addBuild` pins the new build to the source of the element that happened to create it
(`buildConfig.Sources = []*ast.Source{p.Src}`). `Data.Directives()` later keeps exactly the directives defined in
`Config.Sources`, which decides whether the `dir_<name>_args` functions (and the `_queryMiddleware` … functions of
executable directives) are written into that file (`argFuncs`).

`data.Objects` / `data.Inputs` are slices sorted by name (a *slice pass*: fixed delivery order), `data.Interfaces` /
`data.ReferencedTypes` are Go maps (a *map pass*: any delivery order). The ORDER of the four calls is regenerated
from the source (`go/extract/perschemasteps.go`, `Gen/PerSchemaSteps.lean`). Core Lean only.
-/
namespace GqlgenVerif.PerSchema

inductive PassKind where
  | slice | map
deriving DecidableEq, Repr

/-- one `add…(data, &builds)` call of `generatePerSchema` -/
structure Pass where
  name : String
  /-- what the pass ranges over: a sorted slice or a Go map -/
  kind : PassKind
  /-- the loop body creates a missing build through `if (*builds)[filename] == nil { addBuild(…) }` -/
  ensures : Bool
deriving DecidableEq, Repr

/-- an element of `data.Objects` / `Inputs` / `Interfaces` / `ReferencedTypes`, reduced to what `addBuild` reads -/
structure Elem where
  /-- output file name: `filename(x.Position, cfg)` -/
  file : String
  /-- `x.Position.Src`: the schema source the element is defined in -/
  src : String
deriving DecidableEq, Repr

/-- the `builds` map reduced to the pinned source of each build (`Config.Sources` has exactly one entry) -/
abbrev Builds := String → Option String

/-- `if (*builds)[filename] == nil { addBuild(filename, x.Position, data, builds) }` -/
def ensure (b : Builds) (e : Elem) : Builds :=
  fun f => if f = e.file then (match b f with | some s => some s | none => some e.src) else b f

/-- all passes, elements in the order they were delivered -/
def pins (delivered : List Elem) : Builds := delivered.foldl ensure (fun _ => none)

/-- a run of `generatePerSchema`: per pass its kind and its elements in delivery order -/
abbrev Run := List (PassKind × List Elem)

def delivered : Run → List Elem
  | [] => []
  | (_, l) :: r => l ++ delivered r

def slicePart : Run → List Elem
  | [] => []
  | (.slice, l) :: r => l ++ slicePart r
  | (.map, _) :: r => slicePart r

def mapPart : Run → List Elem
  | [] => []
  | (.slice, _) :: r => mapPart r
  | (.map, l) :: r => l ++ mapPart r

/-- no slice pass runs after a map pass -/
def slicesFirst : List PassKind → Bool
  | [] => true
  | .slice :: r => slicesFirst r
  | .map :: r => r.all (· == .map)

/-- the same run with every MAP pass delivered in some other order (slice passes untouched) -/
inductive Reordered : Run → Run → Prop where
  | nil : Reordered [] []
  | slice (l : List Elem) {r r' : Run} : Reordered r r' → Reordered ((.slice, l) :: r) ((.slice, l) :: r')
  | map {l l' : List Elem} {r r' : Run} : l.Perm l' → Reordered r r' → Reordered ((.map, l) :: r) ((.map, l') :: r')

/-- every output file that a map pass touches either got its build from a slice pass already, or all the map
elements of that file come from ONE source (schema files with distinct base names) -/
def Covered (S M : List Elem) : Prop :=
  ∀ e ∈ M, (∃ s ∈ S, s.file = e.file) ∨ (∀ e' ∈ M, e'.file = e.file → e'.src = e.src)

/-- a directive definition with arguments: name and the source it is defined in -/
structure ArgDirective where
  name : String
  src : String
deriving DecidableEq, Repr

/-- `Data.Directives()` of the build of file `f`: the directives whose source is in `Config.Sources` - the
`dir_<name>_args` functions written into `f` -/
def argFuncs (dirs : List ArgDirective) (b : Builds) (f : String) : List String :=
  (dirs.filter fun d => b f == some d.src).map (·.name)

/-- decidable version of `Covered` for the driver -/
def coveredB (S M : List Elem) : Bool :=
  M.all fun e => S.any (fun s => s.file == e.file) || M.all (fun e' => e'.file != e.file || e'.src == e.src)

end GqlgenVerif.PerSchema
