/-!
# C17 — the per-schema-file builds of `codegen.generatePerSchema` (exec layout follow-schema)

Mirrors `codegen/generate.go`: `generatePerSchema` distributes the data over one `*Data` ("build") per schema file in
several passes (`addObjects`, `addInputs`, `addInterfaces`, `addReferencedTypes`); every pass ranges over one
collection, computes the element's file name and must get hold of that file's build, creating it when no earlier
element of an earlier pass did (`addBuild`). Whether that can dereference a nil `*Data` depends only on the ORDER of
four kinds of statements in the loop body and on whether the map already has an entry - which is decided by what the
schema files contain (a file with an object is created by the first pass, a file that holds only interfaces / unions
by the third, only enums / scalars by the fourth).

`Step` is one such statement; `Gen/BuildGuards.lean` (go/extract/buildguards.go) is the list of steps of each pass,
regenerated from the source. A file is identified by its name (`filename(pos, cfg)`: base name of the source).
-/
namespace GqlgenVerif.Builds

/-- a statement of a pass's loop body, as far as the build of the element's file is concerned -/
inductive Step where
  /-- `if (*builds)[filename] == nil {` … `}` with `n` (flattened) steps in its body -/
  | ifMapNil (n : Nat)
  /-- `if build == nil {` … `}` on the local that was loaded before -/
  | ifVarNil (n : Nat)
  /-- `addBuild(filename, x.Position, data, builds)`: `(*builds)[filename] = &Data{…}` -/
  | create
  /-- `build := (*builds)[filename]` -/
  | load
  /-- `(*builds)[filename].F` read or written -/
  | useMap
  /-- `build.F` read or written -/
  | useVar
  deriving DecidableEq, Repr

/-- the state of one loop iteration: is there a (non-nil) map entry for the file; the local `build` (`none`: not
assigned yet, `some b`: assigned, non-nil iff `b`); how many of the next steps are skipped (body of a guard not taken) -/
structure St where
  present : Bool
  var : Option Bool
  skip : Nat
  deriving DecidableEq, Repr

/-- one loop iteration; `none` = a nil `*Data` is dereferenced (the generator panics) -/
def runIter : List Step → St → Option St
  | [], s => some s
  | st :: rest, s =>
    if s.skip > 0 then runIter rest { s with skip := s.skip - 1 } else
    match st with
    | .ifMapNil n => runIter rest (if s.present then { s with skip := n } else s)
    | .ifVarNil n =>
      match s.var with
      | none => none
      | some b => runIter rest (if b then { s with skip := n } else s)
    | .create => runIter rest { s with present := true }
    | .load => runIter rest { s with var := some s.present }
    | .useMap => if s.present then runIter rest s else none
    | .useVar => if s.var == some true then runIter rest s else none

/-- the iteration for a file that has / has no build yet -/
def iter (steps : List Step) (present : Bool) : Option St := runIter steps ⟨present, none, 0⟩

/-- a pass is SAFE when, whether or not the file already has a build, an iteration dereferences no nil build and the
file has a build afterwards -/
def safe (steps : List Step) : Bool :=
  [true, false].all fun p => match iter steps p with
    | some s => s.present
    | none => false

/-- one pass over the files of its elements (in iteration order), `builds` = the files that have a build -/
def runPass (steps : List Step) : List String → List String → Option (List String)
  | [], b => some b
  | f :: fs, b =>
    match iter steps (b.contains f) with
    | none => none
    | some s => runPass steps fs (if s.present && !b.contains f then b ++ [f] else b)

/-- all passes in order; `elems` = per pass the files of its elements -/
def runAll : List (List Step) → List (List String) → List String → Option (List String)
  | [], _, b => some b
  | p :: ps, es, b =>
    match runPass p (es.headD []) b with
    | none => none
    | some b' => runAll ps es.tail b'

/-- Spec: the files that must get a `<name>.generated.go`: those that declare an element of some pass, once each, in
order of first occurrence -/
def specFiles (elems : List (List String)) : List String := elems.flatten.eraseDups

end GqlgenVerif.Builds
