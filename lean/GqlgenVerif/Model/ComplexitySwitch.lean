import GqlgenVerif.Gen.UniqueFields
import GqlgenVerif.Model.Complexity
/-!
# The generated `executableSchema.Complexity` switch (property C14)

Model of what `codegen/generated!.gotpl` and `codegen/root_.gotpl` (identical in this part) emit from
`codegen.Data.Objects`:

```
switch typeName + "." + field {
{{ range $object := .Objects }}{{ if not $object.IsReserved }}
  {{ range $_, $fields := $object.UniqueFields }}          -- Gen/UniqueFields.lean, regenerated
    {{ range $i, $field := $fields }}{{ if not $field.IsReserved }}
      [case ]"{{$object.Name}}.{{$field.Name}}"[, | :          -- one label per field of the group
         if e.complexity.<Object>.<GoFieldName> == nil { break }
         args, err := ec.field_<Object>_<field>_args(ctx, rawArgs); if err != nil { return 0, false }
         return e.complexity.<Object>.<GoFieldName>(childComplexity, args…), true]   -- after the LAST label
}
return 0, false
```

(How each of the two templates SPELLS the tag, the labels and the selectors - as strings, through `ucFirst` - is
`Model/ComplexityLabel.lean` over the regenerated `Gen/ComplexityLabels.lean`; `Props/C14Label.lean` proves that string
switch equal to the pair switch below.)

* `GObject` — `Object.Name`, `Object.IsReserved`, `Object.Fields`.
* `Arm` — one `case` clause: its labels (as pairs; GraphQL names contain no `.`, so `typeName + "." + field`
  is injective on them) and the `ComplexityRoot` entry `(object, GoFieldName)` its body calls. The body is
  emitted for the last field of the group, so the entry is the last field's `GoFieldName`.
* `dispatch` — the Go `switch`: the first clause with a matching label (duplicate labels do not compile).
* `ComplexityRoot` — the user's `Config.Complexity`: per `(object, GoFieldName)` a function or nil.
* `switchCustom` — `executableSchema.Complexity` as the `Custom` the walker of `Model/Complexity.lean`
  calls. Argument unmarshalling (`field_…_args`) is not modelled: the walker only hands over arguments of a
  validated operation with coerced variables, for which it does not fail (the harness checks this on the real
  generated code for every case).
* `Spec.*` — the documented binding, written directly: schema field `T.f` costs what the function configured
  for the Go field it is bound to says; no function configured = no custom cost.
-/
namespace GqlgenVerif.ComplexitySwitch
open GqlgenVerif.FieldMap GqlgenVerif.Gen.UniqueFields GqlgenVerif.Complexity

structure GObject where
  name : String
  reserved : Bool := false
  fields : List GField
  /-- the other boolean attributes of `codegen.Object` that hold for this object and that a template can read in a
      guard: `"Root"` (`Object.Root`: a root of the schema - query, mutation or subscription) and `"Stream"`
      (`Object.Stream`: the subscription root). The pair switch below does not look at them: the documented binding
      gives every non-reserved field of every non-reserved object its function, whatever kind of object it is. -/
  attrs : List String := []
  deriving Repr

/-- `$object.<a>` for the attributes listed in `GObject.attrs` -/
def GObject.has (o : GObject) (a : String) : Bool := o.attrs.contains a

structure Arm where
  labels : List (String × String)
  entry : String × String
  deriving Repr

/-- the clause emitted for one group `(key, fields)` of `UniqueFields` -/
def armOf (obj : String) (g : String × List GField) : Arm :=
  { labels := (g.2.filter fun f => !f.reserved).map fun f => (obj, f.name)
    entry := (obj, match g.2.getLast? with
      | some f => f.goName
      | none => g.1) }

def armsOf (o : GObject) : List Arm :=
  if o.reserved then [] else (uniqueFields o.fields).map (armOf o.name)

def arms (objs : List GObject) : List Arm := objs.flatMap armsOf

/-- the Go `switch` over the emitted clauses -/
def dispatch (objs : List GObject) (t f : String) : Option (String × String) :=
  ((arms objs).find? fun a => decide ((t, f) ∈ a.labels)).map (·.entry)

/-- `Config.Complexity` (a `ComplexityRoot` value): nil or a function, per object and Go field name -/
abbrev ComplexityRoot := String → String → Option (Int → Args → Int)

/-- `executableSchema.Complexity(ctx, typeName, field, childComplexity, rawArgs)` -/
def switchCustom (objs : List GObject) (root : ComplexityRoot) : Custom :=
  fun t f child args =>
    match dispatch objs t f with
    | none => none
    | some e =>
      match root e.1 e.2 with
      | none => none
      | some fn => some (fn child args)

namespace Spec

/-- `T.f` is a (non-reserved) field of a (non-reserved) object of the schema, bound to Go field `e.2` -/
def Bound (objs : List GObject) (t f : String) (e : String × String) : Prop :=
  ∃ o ∈ objs, o.name = t ∧ o.reserved = false ∧ ∃ fd ∈ o.fields, fd.name = f ∧ fd.reserved = false ∧ e = (t, fd.goName)

/-- the same as a lookup (object and field names are unique in a valid schema: `WellNamed`) -/
def entryOf (objs : List GObject) (t f : String) : Option (String × String) :=
  match objs.find? fun o => decide (o.name = t) with
  | none => none
  | some o =>
    if o.reserved then none else
    match o.fields.find? fun fd => decide (fd.name = f) with
    | none => none
    | some fd => if fd.reserved then none else some (t, fd.goName)

/-- the documented cost function of a generated server: the function configured for the Go field -/
def boundCustom (objs : List GObject) (root : ComplexityRoot) : Custom :=
  fun t f child args =>
    match entryOf objs t f with
    | none => none
    | some e =>
      match root e.1 e.2 with
      | none => none
      | some fn => some (fn child args)

end Spec

/-- a valid schema: object type names are unique, field names are unique within an object -/
def WellNamed (objs : List GObject) : Prop :=
  objs.Pairwise (fun a b => a.name ≠ b.name) ∧ ∀ o ∈ objs, o.fields.Pairwise (fun a b => a.name ≠ b.name)

end GqlgenVerif.ComplexitySwitch
