/-!
# Who holds a pooled `*graphql.RawParams`  (property C15, requests in flight at once)

`graphql/handler/transport/http_post.go`: `POST.Do` takes the `*graphql.RawParams` it decodes the request
into from a package-level `sync.Pool` and hands it to `exec.CreateOperationContext`, where the APQ extension
reads `Query` / `Extensions` and writes `Query`. The sequential model `Apq.step` is a model of what one request
does only if no other request in flight holds the same object. This file models the pool at the level that
matters for that: reference multiplicities.

* `Ev` / `disciplined` — the pool-relevant events of one return path of a handler function, as regenerated from
  the source by `go/extract/postpool.go` (`Gen/PostPool.lean`): a path is disciplined when it is
  `get use* put` — one `Get`, one `Put`, and the `Put` is the last thing that touches the object.
* `St` / `Act` / `step` — the pool and the in-flight requests: per object the number of references the pool
  holds and the number of requests holding it. `put` is a disciplined release (the holder gives the object up),
  `putKeep` is a `Put` by somebody who keeps (or already gave up) his reference — what a second `Put` on one
  path, or a use after `Put`, amounts to.

Core Lean only.
-/
namespace GqlgenVerif.ApqPool

/-- pool-relevant events of one path through a handler: `pool.Get()`, a statement that mentions the object,
`pool.Put(obj)` (deferred calls appear where they run: at the return) -/
inductive Ev where
  | get | use | put
  deriving DecidableEq, Repr

/-- `use* put` -/
def disciplinedTail : List Ev → Bool
  | [.put] => true
  | .use :: r => disciplinedTail r
  | _ => false

/-- `get use* put` -/
def disciplined : List Ev → Bool
  | .get :: r => disciplinedTail r
  | _ => false

structure St where
  /-- how many references to object `o` the pool holds -/
  inPool : Nat → Nat
  /-- how many requests in flight hold object `o` -/
  holders : Nat → Nat
  /-- objects `≥ next` have not been allocated yet (`sync.Pool.New`) -/
  next : Nat

def init : St := ⟨fun _ => 0, fun _ => 0, 0⟩

inductive Act where
  /-- `pool.Get()` allocates (`New`): the pool is empty, or `sync.Pool` dropped / does not offer its content -/
  | getNew
  /-- `pool.Get()` hands out a reference the pool holds -/
  | getPooled (o : Nat)
  /-- a holder of `o` puts it back and does not touch it again -/
  | put (o : Nat)
  /-- a holder of `o` puts it back and keeps using it (a later `put` is then a second `Put` of one `Get`) -/
  | putKeep (o : Nat)
  deriving DecidableEq, Repr

def Act.isDisciplined : Act → Bool
  | .putKeep _ => false
  | _ => true

def bump (f : Nat → Nat) (o : Nat) : Nat → Nat := fun x => if x = o then f x + 1 else f x
def drop (f : Nat → Nat) (o : Nat) : Nat → Nat := fun x => if x = o then f x - 1 else f x

/-- one step; `none` = the action is not enabled -/
def step (s : St) : Act → Option St
  | .getNew => some ⟨s.inPool, bump s.holders s.next, s.next + 1⟩
  | .getPooled o => if s.inPool o > 0 then some ⟨drop s.inPool o, bump s.holders o, s.next⟩ else none
  | .put o => if s.holders o > 0 then some ⟨bump s.inPool o, drop s.holders o, s.next⟩ else none
  | .putKeep o => if s.holders o > 0 then some ⟨bump s.inPool o, s.holders, s.next⟩ else none

def run : St → List Act → Option St
  | s, [] => some s
  | s, a :: as => match step s a with
    | some s' => run s' as
    | none => none

/-- the actions one path contributes for the object `o` it obtained: every `Put` that is not the last event of
the path leaves the path still holding (using, or about to put again) the object -/
def actsOfPath (o : Nat) : List Ev → List Act
  | [] => []
  | [.put] => [.put o]
  | .put :: r => .putKeep o :: actsOfPath o r
  | _ :: r => actsOfPath o r

end GqlgenVerif.ApqPool
