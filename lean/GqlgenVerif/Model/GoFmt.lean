/-!
# How payload bytes reach the writer (C12, content dimension)

The stream model (`Model/Stream.lean`) takes the bytes of a `next` event to be `nextPre ++ payload ++ nextSuf`
and the body of a multipart part to be the payload itself. That is a statement about the *expressions* the
transports hand to `fmt.Fprintf` / `fmt.Fprint` / `w.Write` - in particular that the payload is an ARGUMENT of
`Fprintf`, never part of its FORMAT. This file models just enough of those calls to state it for **all**
payload contents:

* `BExpr` - the expression written, as `go/extract/streambytes.go` reads it off the source
  (`transport/sse.go writeJsonWithSSE`, `transport/util.go writeJson`,
  `transport/http_multipart_mixed.go writeIncrementalJson`): string literal, the marshalled payload `b`
  (a `[]byte`), `string(b)` / `[]byte(s)` conversions, `+`, anything else (`opaque`).
* `goFmt` - `fmt.Fprintf` restricted to the verbs that occur: `%s` with a string / `[]byte` operand prints it
  verbatim, `%%` prints `%`, a verb without operand prints `%!v(MISSING)`, a lone `%` at the end prints
  `%!(NOVERB)`, operands left over print `%!(EXTRA …)` (their rendering is not modelled: the marker `extra`);
  flags, widths and explicit indexes are NOT modelled - a `%` followed by any other character is treated as
  that verb (operand missing: `%!c(MISSING)`, operand present: `%!c(…)` = marker `badverb`).
  (`fmt/print.go doPrintf`, `fmt/format.go`.)
* `render` / `renderFn` - what one call / one payload-writing function writes for a payload; `none` when an
  expression is `opaque` or a `[]byte` is handed to `fmt.Fprint` (which prints `[123 34 …]`).
-/
namespace GqlgenVerif.GoFmt

abbrev Bytes := List Nat

inductive BExpr where
  | lit (bs : Bytes)
  | payload
  | conv (e : BExpr)
  | cat (a b : BExpr)
  | opaque
deriving DecidableEq, Repr

inductive WriteCall where
  | printf (format : BExpr) (args : List BExpr)   -- fmt.Fprintf(w, format, args...)
  | print (args : List BExpr)                     -- fmt.Fprint(w, args...)
  | write (e : BExpr)                             -- w.Write(e) / io.WriteString(w, e)
  | other                                         -- any other statement
deriving DecidableEq, Repr

/-- a function that marshals a response and writes it: `b, err := json.Marshal(<its parameter>)`,
    `if err != nil { panic(…) }` (`guarded`), then `writes` -/
structure PayloadFn where
  guarded : Bool
  writes : List WriteCall
deriving DecidableEq, Repr

/-- one printf-family call of the transport package -/
structure FmtSite where
  file : String
  line : Nat
  constFormat : Bool   -- the format operand is a string literal
  forwards : Bool      -- … or the enclosing function's own `format` parameter, handed on with `args...`
  verbs : Nat          -- verbs in the literal (`%%` not counted)
  nargs : Nat          -- operands after the format
deriving DecidableEq, Repr

def BExpr.eval (p : Bytes) : BExpr → Option Bytes
  | .lit bs => some bs
  | .payload => some p
  | .conv e => e.eval p
  | .cat a b => match a.eval p, b.eval p with
    | some x, some y => some (x ++ y)
    | _, _ => none
  | .opaque => none

/-- static type of the expression is `string` (as opposed to `[]byte`) -/
def BExpr.isString : BExpr → Bool
  | .lit _ => true
  | .payload => false
  | .conv e => !e.isString
  | .cat _ _ => true
  | .opaque => false

def evalAll (p : Bytes) : List BExpr → Option (List Bytes)
  | [] => some []
  | e :: es => match e.eval p, evalAll p es with
    | some x, some xs => some (x :: xs)
    | _, _ => none

/-- `%!` -/
def bang : Bytes := [0x25, 0x21]
/-- `(MISSING)` -/
def missing : Bytes := [0x28, 0x4D, 0x49, 0x53, 0x53, 0x49, 0x4E, 0x47, 0x29]
/-- `%!(NOVERB)` -/
def noverb : Bytes := [0x25, 0x21, 0x28, 0x4E, 0x4F, 0x56, 0x45, 0x52, 0x42, 0x29]
/-- `%!(EXTRA …)` (marker: the operands' rendering is not modelled) -/
def extra : Bytes := [0x25, 0x21, 0x28, 0x45, 0x58, 0x54, 0x52, 0x41, 0x29]
/-- `%!c(…)` for a verb that does not fit its operand (marker) -/
def badverb (c : Nat) : Bytes := bang ++ [c, 0x28, 0x29]

/-- `fmt.Fprintf`'s output for a format and string / `[]byte` operands -/
def goFmt : Bytes → List Bytes → Bytes
  | [], as => if as.isEmpty then [] else extra
  | c :: rest, as =>
    if c = 0x25 then
      match rest with
      | [] => noverb
      | v :: rest' =>
        if v = 0x25 then 0x25 :: goFmt rest' as
        else match as with
          | [] => bang ++ v :: missing ++ goFmt rest' []
          | a :: as' => if v = 0x73 then a ++ goFmt rest' as' else badverb v ++ goFmt rest' as'
    else c :: goFmt rest as

def concatAll : List Bytes → Bytes
  | [] => []
  | x :: xs => x ++ concatAll xs

def render (p : Bytes) : WriteCall → Option Bytes
  | .printf f as => match f.eval p, evalAll p as with
    | some fb, some vs => some (goFmt fb vs)
    | _, _ => none
  | .print as => if as.all BExpr.isString then (evalAll p as).map concatAll else none
  | .write e => e.eval p
  | .other => none

def renderAll (p : Bytes) : List WriteCall → Option Bytes
  | [] => some []
  | w :: ws => match render p w, renderAll p ws with
    | some x, some y => some (x ++ y)
    | _, _ => none

def renderFn (f : PayloadFn) (p : Bytes) : Option Bytes :=
  if f.guarded then renderAll p f.writes else none

/-- a printf-family call is sound when its format is a literal whose verbs are matched by its operands, or
    when it hands its own `format, args...` on -/
def FmtSite.ok (s : FmtSite) : Bool :=
  (s.constFormat && s.verbs == s.nargs) || (s.forwards && !s.constFormat)

end GqlgenVerif.GoFmt
