/-!
# Join and hand-off bookkeeping (C05)

Transition systems for the two places where an operation waits for goroutines it started:

* `LJ` — list completion in `codegen/type.gotpl` (marshal func of a list of non-scalars): `wg.Add(n)` up
  front; the spawner takes the elements in order; with `worker_limit` it first acquires a semaphore
  token, which either succeeds (the element goroutine is started and later does `Release; wg.Done`) or
  fails because the context is done (`ackFail = true`: the fixed code does `ret[i] = Null; wg.Done()`
  itself; `false`: the code before the fix did nothing). `wg.Wait()` returns iff `wg = 0`.
* `DH` — the deferred hand-off in `generated!.gotpl` / `root_.gotpl`: every started group finishes its
  work and then offers its result on an unbuffered channel; the response function receives while it is
  still being called; once the request context is done, `ctxAware = true` (fixed code) lets both sides
  give up, `false` (code before the fix) leaves the sender blocked.

"Resolvers return" is the fairness assumption: a running element can always take its `finish` step.
-/
namespace GqlgenVerif.Join

/-! ## list join -/

structure LJ where
  pending : Nat      -- elements the spawner has not reached yet
  running : Nat      -- element goroutines started and not finished
  tokens : Nat       -- free semaphore tokens (worker_limit - running); irrelevant when unlimited
  wg : Nat           -- the WaitGroup counter
  cancelled : Bool
deriving Repr, DecidableEq

inductive LStep where
  | spawn        -- Acquire succeeded (or no worker limit): `go f(i)`
  | acquireFail  -- Acquire returned ctx.Err()
  | finish       -- an element returned: `sm.Release(1); wg.Done()`
  | cancel
deriving Repr, DecidableEq

def LJ.init (n limit : Nat) : LJ := { pending := n, running := 0, tokens := limit, wg := n, cancelled := false }

/-- `limited` = worker_limit > 0; `ackFail` = the failed-Acquire branch calls `wg.Done()` -/
def LJ.step (limited ackFail : Bool) (s : LJ) : LStep → Option LJ
  | .spawn =>
    if s.pending > 0 ∧ (!limited ∨ s.tokens > 0) then
      some { s with pending := s.pending - 1, running := s.running + 1,
                    tokens := if limited then s.tokens - 1 else s.tokens }
    else none
  | .acquireFail =>
    if limited ∧ s.cancelled ∧ s.pending > 0 then
      some { s with pending := s.pending - 1, wg := if ackFail then s.wg - 1 else s.wg }
    else none
  | .finish =>
    if s.running > 0 then
      some { s with running := s.running - 1, tokens := if limited then s.tokens + 1 else s.tokens,
                    wg := s.wg - 1 }
    else none
  | .cancel => some { s with cancelled := true }

def LJ.run (limited ackFail : Bool) : LJ → List LStep → Option LJ
  | s, [] => some s
  | s, e :: es => match s.step limited ackFail e with
    | some s' => LJ.run limited ackFail s' es
    | none => none

/-- nothing left to do: the spawner is through and every element has returned -/
def LJ.quiescent (s : LJ) : Prop := s.pending = 0 ∧ s.running = 0

/-! ## deferred hand-off -/

structure DH where
  working : Nat     -- groups still resolving their fields
  offering : Nat    -- groups blocked on `ec.deferredResults <- ds`
  delivered : Nat
  gaveUp : Nat      -- groups that returned because the context was done
  calls : Nat       -- how many more times the transport will call the response function
  cancelled : Bool
deriving Repr, DecidableEq

inductive DStep where
  | groupDone     -- a group finished its fields and now offers its result
  | receive       -- the response function is called and receives one result
  | giveUp        -- a blocked sender sees ctx.Done()
  | cancel
deriving Repr, DecidableEq

def DH.step (ctxAware : Bool) (s : DH) : DStep → Option DH
  | .groupDone => if s.working > 0 then some { s with working := s.working - 1, offering := s.offering + 1 } else none
  | .receive =>
    if s.offering > 0 ∧ s.calls > 0 then
      some { s with offering := s.offering - 1, delivered := s.delivered + 1, calls := s.calls - 1 }
    else none
  | .giveUp =>
    if ctxAware ∧ s.cancelled ∧ s.offering > 0 then
      some { s with offering := s.offering - 1, gaveUp := s.gaveUp + 1 }
    else none
  | .cancel => some { s with cancelled := true }

def DH.run (ctxAware : Bool) : DH → List DStep → Option DH
  | s, [] => some s
  | s, e :: es => match s.step ctxAware e with
    | some s' => DH.run ctxAware s' es
    | none => none

end GqlgenVerif.Join
