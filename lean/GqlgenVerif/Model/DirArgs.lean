import GqlgenVerif.Gen.DirArgRule
/-!
# C17 — the arguments of an applied schema directive in the generated executor

For every application of a runtime directive (`FIELD_DEFINITION`, `ARGUMENT_DEFINITION`, `INPUT_FIELD_DEFINITION`,
`OBJECT`, `INPUT_OBJECT`) the generated closure `directiveN` (codegen/directives.gotpl, `implDirectives`)
* declares a local `dirArg_<name>, err := ec.unmarshal…(ctx, <dumped value>)` per argument - the first link of an
  if / else-if chain whose tested field is non-nil decides which value is dumped, no link = no local -, and
* calls the directive function with `ResolveArgs` (codegen/directive.go): per argument the local's name or `nil`.
Go rejects both a reference to an undeclared local and a declared local that is never used, so the two sites must agree
for every argument of every use. What they look at is the `codegen.FieldArgument` of the USE (`getDirectives`): `Value`
= the value written at the use (nil for an explicit `null`), else the definition's default value (`buildDirectives`:
`DefaultValue.Value(nil)`, nil when there is no default or the default is `null`); `Default` is not set for a use; the
promoted `DefaultValue` (embedded `*ast.ArgumentDefinition`) is the default as WRITTEN in the definition - non-nil also
for `= null` and independent of the use.

The decision of `ResolveArgs`, the fields set by `getDirectives` / `buildDirectives` and the chain of `implDirectives`
are REGENERATED (`Gen/DirArgRule.lean`).
-/
namespace GqlgenVerif.DirArgs
open GqlgenVerif.Gen

/-- the default in the directive's definition: none | `= null` | `= <value>` -/
inductive Dflt where | none | null | value
  deriving DecidableEq, Repr

/-- how a use gives the argument: left out | `arg: null` | `arg: <value>` -/
inductive Use where | omitted | null | value
  deriving DecidableEq, Repr

/-- a Go value of a FieldArgument field, by provenance: nil | the definition's default value | the value of the use -/
inductive Val where | nil | dflt | given
  deriving DecidableEq, Repr

/-- a `codegen.FieldArgument` as ResolveArgs and the template see it -/
structure Arg where
  value : Val
  default : Val
  /-- `arg.DefaultValue == nil` (the definition writes no default) -/
  defDefaultNil : Bool
  deriving DecidableEq, Repr

/-- `arg.DefaultValue.Value(nil)` under `if arg.DefaultValue != nil`: the default VALUE of the definition -/
def defaultValueOf : Dflt → Val
  | .value => .dflt
  | _ => .nil

/-- the sources the extractor may report for a field of the use's FieldArgument -/
def evalUseExpr (d : Dflt) (u : Use) (e : String) : Option Val :=
  if e == "value" then
    -- `value := <init>; if argValue, ok := argValues[a.Name]; ok { value = argValue }`
    if DirArgRule.useValueInit == "a.Default" && DirArgRule.useValueWhenGiven == "argValues[a.Name]" then
      some (match u with
        | .omitted => defaultValueOf d
        | .null => .nil
        | .value => .given)
    else none
  else if e == "a.Default" then some (defaultValueOf d)
  else none

def fieldOf (fs : List (String × String)) (n : String) : Option String := (fs.find? (·.1 == n)).map (·.2)

/-- the FieldArgument `getDirectives` builds for a use (`none`: the regenerated facts are outside what the model reads) -/
def useArg (d : Dflt) (u : Use) : Option Arg :=
  if DirArgRule.defDefaultGuard == "arg.DefaultValue != nil" && DirArgRule.defDefaultFrom == "arg.DefaultValue.Value(nil)"
      && (fieldOf DirArgRule.defFields "ArgumentDefinition") == some "arg"
      && (fieldOf DirArgRule.useFields "ArgumentDefinition") == some "a.ArgumentDefinition" then
    let get := fun (n : String) => match fieldOf DirArgRule.useFields n with
      | none => some Val.nil                 -- a field the literal leaves out is the zero value
      | some e => evalUseExpr d u e
    match get "Value", get "Default" with
    | some v, some df => some ⟨v, df, d == .none⟩
    | _, _ => none
  else none

def Arg.get (a : Arg) (f : String) : Option Val :=
  if f == "Value" then some a.value else if f == "Default" then some a.default else none

/-- implDirectives: the local the closure declares for the argument, under flavour arm `fl` (0 = function syntax,
1 = method syntax): `(prefix, dumped value)`; `none` = no local. `Except`-free: an unreadable chain declares `("?", nil)` -/
def declaredBy : List (String × List (String × String)) → Nat → Arg → Option (String × Val)
  | [], _, _ => none
  | (f, arms) :: rest, fl, a =>
    match a.get f with
    | some .nil => declaredBy rest fl a
    | some _ =>
      match arms[fl]? <|> arms.head? with
      | some (p, dumped) => some (p, (a.get dumped).getD .nil)
      | none => some ("?", .nil)
    | none => some ("?", .nil)

def declared (fl : Nat) (a : Arg) : Option (String × Val) := declaredBy DirArgRule.declChain fl a

/-- ResolveArgs: the prefix of the local the call names, `none` = the literal `nil` -/
def passed (a : Arg) : Option String :=
  if DirArgRule.passesNil (a.value == .nil) (a.default == .nil) a.defDefaultNil then none else some DirArgRule.localPrefix

/-- Spec: the effective value of the argument at this use (GraphQL: the use's value, also when it is `null`; else the
definition's default) -/
def effective (d : Dflt) (u : Use) : Val :=
  match u with
  | .value => .given
  | .null => .nil
  | .omitted => defaultValueOf d

/-- Spec of the generated closure for one argument: a local exists iff the effective value is non-nil, it is unmarshalled
from the effective value, and the call passes exactly that local (else `nil`) -/
def closureOk (fl : Nat) (d : Dflt) (u : Use) : Bool :=
  match useArg d u with
  | none => false
  | some a =>
    let want : Option (String × Val) := if effective d u == .nil then none else some (DirArgRule.localPrefix, effective d u)
    declared fl a == want && passed a == want.map (·.1)

end GqlgenVerif.DirArgs
