/-!
# collectFields and the slices of the shared document (C07)

Mirrors `graphql/executable_schema.go` `collectFields`, `case *ast.Field:`

```go
f := getOrCreateAndAppendField(&groupedFields, …, func() CollectedField { return CollectedField{Field: sel} })
f.Selections = append(f.Selections, sel.SelectionSet...)
```

and Go's slices: a slice is a window `(array, len, cap)`; `append(s, xs...)` writes INTO the array of `s` when
`len + |xs| ≤ cap` and otherwise allocates a new one (how much spare capacity the new array gets is the runtime's
business: the parameter `grow`). The parsed `*ast.QueryDocument` sits in the query cache and is shared by every
request with the same text, so its arrays - including their spare capacity, which gqlparser's own `append`s leave
behind (a selection set of 3, 5-7, 9-15 … entries) - belong to all of them.

What is modelled: ONE response key that the document selects several times in one selection set. Each request
merges the occurrences its own variables include (`@include` / `@skip`), so the list of occurrences differs per
request while the arrays are the same. A request is a thread: one step per occurrence; any number of requests,
any interleaving. What a request finally resolves is what its slice header reads at the end - after every write
of every other request.

`ArmStmt` is the vocabulary `go/extract/collectalias.go` translates the arm into (`Gen/CollectAlias.lean`).
-/
namespace GqlgenVerif.CollectAlias

/-- how a `CollectedField{…}` literal initialises `Selections` -/
inductive SelInit where
  | absent          -- not mentioned / nil: starts empty, owns nothing
  | aliasDocument   -- `Selections: sel.SelectionSet`: the slice header of the document
  | other
  deriving DecidableEq, Repr

/-- right-hand side of `x.Selections = …` -/
inductive SelRhs where
  | appendSelf      -- `append(x.Selections, src...)`
  | aliasDocument   -- `sel.SelectionSet`
  | assign          -- anything else
  | setNil
  deriving DecidableEq, Repr

/-- where appended elements come from -/
inductive SelSrc where
  | document | collected | unknown
  deriving DecidableEq, Repr

inductive ArmStmt where
  | guardInclude
  /-- `f := getOrCreateAndAppendField(…, func() CollectedField { return CollectedField{…} })`; `plain`: the creator
  does nothing else and the statement is unconditional -/
  | getOrCreate (init : SelInit) (plain : Bool)
  | store (rhs : SelRhs) (conditional : Bool)
  | other (src : String)
  deriving DecidableEq, Repr

/-- what the arm does with the selection sets of the occurrences of one response key -/
structure ArmSem where
  /-- `Selections` of the CollectedField the first occurrence creates -/
  init : SelInit
  /-- the first occurrence's selection set is also appended (the code as it is: yes, unconditionally) -/
  appendFirst : Bool
  deriving DecidableEq, Repr

/-- the arm shapes whose meaning is known -/
def armSem : List ArmStmt → Option ArmSem
  | [.guardInclude, .getOrCreate .absent true, .store .appendSelf false] => some ⟨.absent, true⟩
  | [.guardInclude, .getOrCreate .aliasDocument true, .store .appendSelf false] => some ⟨.aliasDocument, true⟩
  | _ => none

/-! ## Go slices -/

/-- a selection (a pointer); `0` is the zero value spare capacity is filled with -/
abbrev Cell := Nat

structure Slice where
  arr : Nat
  len : Nat
  cap : Nat
  deriving DecidableEq, Repr

/-- an array; `owner` is ghost state: `0` = the parsed document, `i+1` = allocated by request `i` -/
structure Arr where
  owner : Nat
  cells : List Cell
  deriving DecidableEq, Repr

abbrev Heap := List Arr

def cellsAt (h : Heap) (a : Nat) : List Cell := ((h[a]?).map (·.cells)).getD []

/-- what a slice header reads NOW -/
def readS (h : Heap) : Option Slice → List Cell
  | none => []
  | some s => (cellsAt h s.arr).take s.len

def writeAt (cs : List Cell) (pos : Nat) (xs : List Cell) : List Cell :=
  cs.take pos ++ xs ++ cs.drop (pos + xs.length)

def setCells (h : Heap) (a : Nat) (cs : List Cell) : Heap :=
  match h[a]? with
  | none => h
  | some x => h.set a { x with cells := cs }

/-- `append(s, xs...)` executed by request `me` -/
def goAppend (grow : Nat → Nat) (me : Nat) (h : Heap) (s : Option Slice) (xs : List Cell) : Heap × Option Slice :=
  match s with
  | none =>
    if xs = [] then (h, none)
    else (h ++ [⟨me + 1, xs ++ List.replicate (grow xs.length) 0⟩], some ⟨h.length, xs.length, xs.length + grow xs.length⟩)
  | some s =>
    if s.len + xs.length ≤ s.cap then
      (setCells h s.arr (writeAt (cellsAt h s.arr) s.len xs), some { s with len := s.len + xs.length })
    else
      let all := readS h (some s) ++ xs
      (h ++ [⟨me + 1, all ++ List.replicate (grow all.length) 0⟩], some ⟨h.length, all.length, all.length + grow all.length⟩)

/-! ## Requests -/

structure Thread where
  /-- the CollectedField of the response key exists -/
  created : Bool := false
  /-- its `Selections` -/
  acc : Option Slice := none
  /-- the occurrences (slices of the document) this request's variables include, still to be merged -/
  todo : List Slice
  deriving Repr

/-- one occurrence merged by request `me` -/
def stepT (sem : ArmSem) (grow : Nat → Nat) (me : Nat) (h : Heap) (t : Thread) : Heap × Thread :=
  match t.todo with
  | [] => (h, t)
  | src :: rest =>
    let acc0 := if t.created then t.acc else (match sem.init with | .aliasDocument => some src | _ => none)
    if t.created || sem.appendFirst then
      let r := goAppend grow me h acc0 (readS h (some src))
      (r.1, { created := true, acc := r.2, todo := rest })
    else (h, { created := true, acc := acc0, todo := rest })

structure World where
  heap : Heap
  ts : Nat → Thread

def upd (f : Nat → Thread) (i : Nat) (t : Thread) : Nat → Thread := fun j => if j = i then t else f j

def stepW (sem : ArmSem) (grow : Nat → Nat) (w : World) (i : Nat) : World :=
  let r := stepT sem grow i w.heap (w.ts i)
  ⟨r.1, upd w.ts i r.2⟩

/-- any interleaving: `sched` names the request that merges its next occurrence -/
def runW (sem : ArmSem) (grow : Nat → Nat) (w : World) (sched : List Nat) : World := sched.foldl (stepW sem grow) w

/-- what a request is entitled to: the selections of its own occurrences, as the document had them -/
def want (h0 : Heap) (todo : List Slice) : List Cell := (todo.map fun s => readS h0 (some s)).flatten

/-- a slice of the document: a window of an array the document owns -/
def docSlice (h0 : Heap) (s : Slice) : Prop := s.arr < h0.length

end GqlgenVerif.CollectAlias
