import GqlgenVerif.Model.Pipeline
import GqlgenVerif.Model.PipelineSpec
/-!
# Two guards of `parseQuery` the pipeline model took for granted  (C03, round 4)

**The key of the query cache is the query text.** `Model/Pipeline.lean` keys the cache by the text (a
`Nat` = identity of the text). In /repo that is three facts: `parseQuery` passes the very variable it
hands to the parser (`query`) to `queryCache.Get` and `queryCache.Add`, and each cache implementation
(`graphql.MapCache`, `graphql.NoCache`, `lru.LRU`) passes the key parameter unchanged to its store.
`go/extract/parseguards.go` re-reads them (`Gen/ParseGuards.lean`, vocabulary `KeyExpr`); `keyed f C` is
a cache whose implementation looks entries up under `f key`: lawful for injective `f`
(`Props/C03Guards.lean`), and with a key function that identifies two texts the document validated for one
text is executed for the other (witness there).

**Every error of the parser is a refusal.** `parser.ParseQueryWithTokenLimit(src, limit)` fails with a
`*gqlerror.Error` (syntax) or with a plain error (`exceeded token limit`, `parser.next`:
`p.maxTokenLimit != 0 && p.tokenCount > p.maxTokenLimit`) and in the latter case still returns the
truncated prefix it had built. `ParserResult` / `parserResult` model the call, `ErrBranch` the shape of the
`if err != nil { … }` that follows it in `parseQuery` (regenerated), `implWorld` the parse function the rest
of the pipeline (`Pipeline.parseQuery`, a parameter `World`) then sees. The property's reading — a text the
parser refuses under the configured limit "fails parsing" — is `World.withLimit`.
Core Lean only.
-/
namespace GqlgenVerif.Pipeline
namespace Guards
open GqlgenVerif.Apq (CacheImpl)

/-! ## cache keys -/

/-- what an implementation passes to its store where the model passes the key -/
inductive KeyExpr where
  | param                    -- the key parameter itself, nothing else done with it
  | unused                   -- the parameter is not used (NoCache)
  | other (src : String)     -- anything else (a call on the key, an assignment to it, …)
  deriving DecidableEq, Repr

structure KeyFact where
  recv : String
  method : String
  key : KeyExpr
  deriving DecidableEq, Repr

/-- the facts `Model/Pipeline.lean` + `Model/Apq.lean` implement: `parseQuery` looks up / stores / parses
one and the same variable, the caches use their key parameter as it is -/
def modelKeyFacts : List KeyFact :=
  [⟨"parseQuery", "queryCache.Get", .param⟩, ⟨"parseQuery", "parser.ParseQueryWithTokenLimit", .param⟩,
   ⟨"parseQuery", "queryCache.Add", .param⟩,
   ⟨"MapCache", "Get", .param⟩, ⟨"MapCache", "Add", .param⟩,
   ⟨"NoCache", "Get", .unused⟩, ⟨"NoCache", "Add", .unused⟩,
   ⟨"LRU", "Get", .param⟩, ⟨"LRU", "Add", .param⟩]

variable {σ : Type}

/-- a cache implementation that files entries under `f key` -/
def keyed (f : Nat → Nat) (C : CacheImpl σ Doc Nat) : CacheImpl σ Doc Nat where
  get s k := C.get s (f k)
  add s k v := C.add s (f k) v

/-! ## the parser call and the error branch -/

/-- `parser.next`: `p.maxTokenLimit != 0 && p.tokenCount > p.maxTokenLimit` (`ntok` = tokens the parser
consumes for the text) -/
def overLimit (limit ntok : Nat) : Bool := limit != 0 && decide (limit < ntok)

/-- (`doc`, `err`) of `parser.ParseQueryWithTokenLimit` as `parseQuery` can tell them apart -/
inductive ParserResult where
  | doc (d : Doc)                      -- err == nil
  | gqlError                           -- err.(*gqlerror.Error) succeeds: syntax error
  | plainError (pre : Option Doc)      -- any other error; `pre` = the truncated document returned with it
  deriving DecidableEq, Repr

/-- the parser with a token limit; `trunc q` = what the prefix of `q` that fits the limit parses to -/
def parserResult (W : World) (ntok : Nat → Nat) (trunc : Nat → Option Doc) (limit : Nat) (q : Nat) :
    ParserResult :=
  if overLimit limit (ntok q) then .plainError (trunc q)
  else match W.parse q with
    | some d => .doc d
    | none => .gqlError

/-- shape of the statement after the parser call: `if err != nil { … }` -/
inductive ErrBranch where
  | always                   -- every path through the body returns `nil, <errors>`
  | onlyGqlError             -- returns only inside `if ok` of `gqlErr, ok := err.(*gqlerror.Error)`
  | other (src : String)
  deriving DecidableEq, Repr

/-- the document `parseQuery` goes on with (`none` = it returned the error) -/
def afterErrBranch : ErrBranch → ParserResult → Option Doc
  | _, .doc d => some d
  | .always, _ => none
  | .onlyGqlError, .gqlError => none
  | .onlyGqlError, .plainError pre => pre
  | .other _, .gqlError => none
  | .other _, .plainError pre => pre

/-- the parse function the rest of `parseQuery` sees in an executor with `SetParserTokenLimit(limit)` -/
def implWorld (b : ErrBranch) (W : World) (ntok : Nat → Nat) (trunc : Nat → Option Doc) (limit : Nat) : World :=
  { parse := fun q => afterErrBranch b (parserResult W ntok trunc limit q) }

/-- the limit the parser is called with is the field `SetParserTokenLimit` writes (executor and server),
`0` (= no limit for gqlparser) unless configured -/
def modelLimitWiring : List (String × String) :=
  [("parserArg", "e.parserTokenLimit"),
   ("Executor.SetParserTokenLimit(limit)", "{ e.parserTokenLimit = limit }"),
   ("New", "parserTokenNoLimit"),
   ("parserTokenNoLimit", "0"),
   ("Server.SetParserTokenLimit(limit)", "{ s.exec.SetParserTokenLimit(limit) }")]

end Guards

/-- the property's reading of "fails parsing" under a token limit: a text that needs more tokens than the
limit has no document -/
def World.withLimit (W : World) (ntok : Nat → Nat) (limit : Nat) : World :=
  { parse := fun q => if Guards.overLimit limit (ntok q) then none else W.parse q }

end GqlgenVerif.Pipeline
