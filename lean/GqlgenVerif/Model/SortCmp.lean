import GqlgenVerif.Model.Order
/-!
# SortCmp — the comparators of the generator's `sort.Slice` calls (C18)

A slice collected from a Go map is deterministic only if the comparator handed to `sort.Slice` really orders two
DIFFERENT elements: `func(i, j int) bool { return s[i].K < s[j].K }`. `go/extract/sortcomparators.go` lists every
sort call with a comparator literal in the generator packages (`Gen/SortComparators.lean`) and, for every comparison
`L op R` in the literal's body, which of the two parameters `L` and `R` mention, and whether `L` and `R` are the same
expression once the parameters are erased. `SortSite.proper` is the shape the order model (`Order.sortByKey`) covers.

`lessAt key l r` is the comparator `func(i, j) bool { return key(s[l]) < key(s[r]) }` with `l, r ∈ {i, j}` chosen
freely, `sortWith less` what `sort.Slice` does with it (modelled by a merge sort with `le a b := !less b a`,
Go's `sort` contract: `less(j, i) = false` means "i may stay before j"). Core Lean only.
-/
namespace GqlgenVerif.SortCmp
open GqlgenVerif.Order

/-- which of the comparator's two index parameters an operand mentions -/
inductive Side where
  | i | j | both | none
deriving DecidableEq, Repr

/-- one comparison `L op R` in the body of a comparator literal -/
structure Comparison where
  op : String
  left : Side
  right : Side
  /-- `L` and `R` are the same expression once `i` and `j` are erased: the same key of two elements -/
  sameKey : Bool
  /-- `op` is `<`, `>`, `<=` or `>=` -/
  ordered : Bool
deriving DecidableEq, Repr

/-- `sort.Slice(slice, func(i, j int) bool {…})` at `file:line` in `func` -/
structure SortSite where
  file : String
  func : String
  slice : String
  line : Nat
  stable : Bool
  /-- the comparator is a function literal (otherwise nothing below is known) -/
  literal : Bool
  usesI : Bool
  usesJ : Bool
  comparisons : List Comparison
deriving Repr

/-- one side built from `i`, the other from `j` -/
def Comparison.crossed (c : Comparison) : Bool :=
  (c.left == .i && c.right == .j) || (c.left == .j && c.right == .i)

/-- a test of ONE element against a constant (`s[i].Name == ""`): a unary predicate, allowed as a tie-break guard -/
def Comparison.oneSided (c : Comparison) : Bool :=
  (c.left == .none) != (c.right == .none)

def Comparison.constant (c : Comparison) : Bool := c.left == .none && c.right == .none

/-- the comparator really compares two elements: it mentions both parameters, every comparison is either the same
key of element `i` against element `j` (either way round), an equality test of one element against a constant, or
a constant; and at least one ordering comparison is of the first kind. `s[i].K < s[i].K` is not. -/
def SortSite.proper (s : SortSite) : Bool :=
  !s.literal ||
  (s.usesI && s.usesJ
    && s.comparisons.all (fun c => (c.crossed && c.sameKey) || (c.oneSided && !c.ordered) || c.constant)
    && s.comparisons.any (fun c => c.ordered && c.crossed && c.sameKey))

def pick {α} : Side → α → α → α
  | .j, _, b => b
  | _, a, _ => a

/-- `func(i, j int) bool { return key(s[l]) < key(s[r]) }` applied to the elements at `i` (= `a`) and `j` (= `b`) -/
def lessAt {α} (key : α → List Nat) (l r : Side) (a b : α) : Bool :=
  decide (key (pick l a b) < key (pick r a b))

/-- `sort.Slice(l, less)`: `a` may stay before `b` unless `less b a` -/
def sortWith {α} (less : α → α → Bool) (l : List α) : List α :=
  l.mergeSort (fun a b => !less b a)

end GqlgenVerif.SortCmp
