import GqlgenVerif.Model.Utf8
/-!
# `graphql.writeQuotedString` and a strict JSON string decoder

`writeQuoted` mirrors `graphql/string.go: writeQuotedString` (one `chunk` per iteration of the `range`
loop; the segments `s[start:i]` written between escapes are exactly the sources of the non-escaped
chunks). `decodeString` is a strict RFC 8259 string decoder written from the grammar, rejecting raw
control bytes and any byte sequence that is not well-formed UTF-8.
-/
namespace GqlgenVerif

def hexUpper (n : Nat) : Nat := if n < 10 then 48 + n else 55 + n   -- "0123456789ABCDEF"[n]

/-- what the loop writes for one ASCII byte -/
def escAscii (b : Nat) : Bytes :=
  if b = 0x09 then [0x5C, 0x74]            -- \t
  else if b = 0x0D then [0x5C, 0x72]       -- \r
  else if b = 0x0A then [0x5C, 0x6E]       -- \n
  else if b = 0x5C then [0x5C, 0x5C]       -- \\
  else if b = 0x22 then [0x5C, 0x22]       -- \"
  else if b < 0x20 then [0x5C, 0x75, 0x30, 0x30, hexUpper (b / 16), hexUpper (b % 16)]  -- \u00XY
  else [b]

def replacementEscape : Bytes := [0x5C, 0x75, 0x66, 0x66, 0x66, 0x64]   -- �

def emit : Chunk → Bytes
  | .ascii b => escAscii b
  | .multi bs => bs
  | .bad _ => replacementEscape

def quotedBody (s : Bytes) : Bytes :=
  match h : chunk s with
  | none => []
  | some (c, r) => emit c ++ quotedBody r
termination_by s.length
decreasing_by exact chunk_length h

def writeQuoted (s : Bytes) : Bytes := 0x22 :: (quotedBody s ++ [0x22])

/-! ## strict decoder -/

def hexVal (b : Nat) : Option Nat :=
  if 48 ≤ b ∧ b ≤ 57 then some (b - 48)
  else if 65 ≤ b ∧ b ≤ 70 then some (b - 55)
  else if 97 ≤ b ∧ b ≤ 102 then some (b - 87)
  else none

def hex4 (a b c d : Nat) : Option Nat :=
  match hexVal a, hexVal b, hexVal c, hexVal d with
  | some a, some b, some c, some d => some (((a * 16 + b) * 16 + c) * 16 + d)
  | _, _, _, _ => none

/-- UTF-8 encoding of a scalar value -/
def encodeRune (cp : Nat) : Bytes :=
  if cp < 0x80 then [cp]
  else if cp < 0x800 then [0xC0 + cp / 64, 0x80 + cp % 64]
  else if cp < 0x10000 then [0xE0 + cp / 4096, 0x80 + cp / 64 % 64, 0x80 + cp % 64]
  else [0xF0 + cp / 262144, 0x80 + cp / 4096 % 64, 0x80 + cp / 64 % 64, 0x80 + cp % 64]

def pre (bs : Bytes) : Option (Bytes × Bytes) → Option (Bytes × Bytes)
  | none => none
  | some (d, r) => some (bs ++ d, r)

/-- one token of a JSON string body -/
inductive Tok where
  | fail
  | close (rest : Bytes)                 -- the closing quote
  | out (bs : Bytes) (rest : Bytes)      -- decoded bytes of one character / escape

/-- `\uXXXX` (the `\u` consumed), with surrogate pairs -/
def uTok (r : Bytes) : Tok :=
  match r with
  | h1 :: h2 :: h3 :: h4 :: r' =>
    match hex4 h1 h2 h3 h4 with
    | none => .fail
    | some cp =>
      if 0xD800 ≤ cp ∧ cp ≤ 0xDBFF then
        -- high surrogate: must be followed by an escaped low surrogate
        match r' with
        | 0x5C :: 0x75 :: l1 :: l2 :: l3 :: l4 :: r'' =>
          match hex4 l1 l2 l3 l4 with
          | none => .fail
          | some lo =>
            if 0xDC00 ≤ lo ∧ lo ≤ 0xDFFF then
              .out (encodeRune (0x10000 + (cp - 0xD800) * 1024 + (lo - 0xDC00))) r''
            else .fail
        | _ => .fail
      else if 0xDC00 ≤ cp ∧ cp ≤ 0xDFFF then .fail
      else .out (encodeRune cp) r'
  | _ => .fail

def escTok (e : Nat) (r : Bytes) : Tok :=
  if e = 0x22 then .out [0x22] r
  else if e = 0x5C then .out [0x5C] r
  else if e = 0x2F then .out [0x2F] r
  else if e = 0x62 then .out [0x08] r
  else if e = 0x66 then .out [0x0C] r
  else if e = 0x6E then .out [0x0A] r
  else if e = 0x72 then .out [0x0D] r
  else if e = 0x74 then .out [0x09] r
  else if e = 0x75 then uTok r
  else .fail

def tok (s : Bytes) : Tok :=
  match s with
  | [] => .fail
  | b :: r =>
    if b = 0x22 then .close r
    else if b = 0x5C then
      match r with
      | [] => .fail
      | e :: r' => escTok e r'
    else if b < 0x20 then .fail
    else match chunk (b :: r) with
      | some (.ascii a, r') => .out [a] r'
      | some (.multi bs, r') => .out bs r'
      | _ => .fail

theorem uTok_length {r bs r' : Bytes} (h : uTok r = .out bs r') :
    r'.length ≤ r.length := by
  unfold uTok at h
  split at h
  · split at h
    · cases h
    · split at h
      · split at h
        · split at h
          · cases h
          · split at h
            · injection h with h1 h2; subst h2; simp only [List.length_cons]; omega
            · cases h
        · cases h
      · split at h
        · cases h
        · injection h with h1 h2; subst h2; simp only [List.length_cons]; omega
  · cases h

theorem escTok_length {e : Nat} {r bs r' : Bytes} (h : escTok e r = .out bs r') :
    r'.length ≤ r.length := by
  unfold escTok at h
  iterate 8 (split at h; · cases h; exact Nat.le_refl _)
  split at h
  · exact uTok_length h
  · cases h

theorem tok_length {s bs r : Bytes} (h : tok s = .out bs r) : r.length < s.length := by
  unfold tok at h
  split at h
  · cases h
  · split at h
    · cases h
    · split at h
      · split at h
        · cases h
        · have := escTok_length h; simp; omega
      · split at h
        · cases h
        · split at h
          · next hc => cases h; exact chunk_length hc
          · next hc => cases h; exact chunk_length hc
          · cases h

/-- decode a JSON string whose opening quote has been consumed; returns (decoded bytes, rest after
    the closing quote) -/
def decodeBody (s : Bytes) : Option (Bytes × Bytes) :=
  match h : tok s with
  | .fail => none
  | .close r => some ([], r)
  | .out bs r => pre bs (decodeBody r)
termination_by s.length
decreasing_by exact tok_length h

/-- decode a complete quoted JSON string; the whole input must be consumed -/
def decodeString (s : Bytes) : Option Bytes :=
  match s with
  | 0x22 :: r =>
    match decodeBody r with
    | some (d, []) => some d
    | _ => none
  | _ => none

end GqlgenVerif
