import GqlgenVerif.Model.Coerce
/-!
# Input coercion as the GraphQL specification defines it (C02) — the Spec

Written directly from the specification (October 2021, section 3 "Input Coercion" of each type, 6.1.2
`CoerceVariableValues`, 6.4.1 `CoerceArgumentValues`), over abstract input values `IV` (what the client
wrote: a JSON variable value or a literal of the document) and abstract coerced values `CV`:

* `Int` accepts only integers (of the bound Go type's range — gqlgen binds `Int` to `int`), `Float` integers
  and floats, `String` only strings, `Boolean` only booleans, `ID` strings and integers;
* an enum accepts a name of the enum (a string in variables, an enum literal in documents);
* a list accepts a list (item by item) and otherwise wraps the single coerced item (`single_to_list`);
  `null` is accepted exactly by nullable types;
* an input object accepts an object with known fields only; each field in schema order: provided value, else
  default value, else — non-null: error, nullable: the field is omitted from the result; a variable without a
  runtime value in a field position makes the field omitted, in a list-item position it is `null`;
* custom scalars are service-defined: the integer scalars (`Int32`, `Uint64`, `IntID`, …) accept integers of
  their range and decimal strings denoting one.

`embed` places a coerced value into the Go type the generated code uses (`shapeRef`/`shapeField`): `null` is
the nil pointer / slice / map, an omitted field is the zero value — or `unset` of an `Omittable`, or a missing
key of a map-backed input — and a provided field of an `Omittable` is `set`.

The validation gate (`docOK`, gqlparser's rules) is shared with the Impl: the Spec starts from an operation that
was admitted to execution.
-/
namespace GqlgenVerif.Coerce.Spec
open GqlgenVerif GqlgenVerif.Coerce

/-- The places where the code as it exists departs from the specification, each an explicit switch of the
    Spec. `Spec.runOp {}` is the specification; `Spec.runOp Devs.all` is what the Impl model is shown to compute
    (`Props/C02`), and every switch has a witness on which it changes the result (known findings F02a–F02f). -/
structure Devs where
  /-- F02a: a variable without a runtime value in an input-object-literal field position is an explicit `null`
      (gqlparser `ast.Value.Value`), not an omitted field -/
  absentVarNull : Bool := false
  /-- F02b: an `Int` literal outside int64 at a custom-scalar position panics in gqlparser's `arg2map`
      (`strconv.ParseInt`): recovered, reported at the FIELD's path, also for values the scalar accepts (Uint64) -/
  literalInt64 : Bool := false
  /-- F02c: a list of map-backed inputs is bound to a single `map[string]any` (`Binder.TypeReference` drops the
      list): a single object is taken as such, a list panics in `unmarshalInput*` -/
  mapList : Bool := false
  /-- F02d: a custom scalar bound to `graphql.ID` accepts a float literal (`UnmarshalID(float64)`) and rounds it
      to six decimals, and accepts a boolean as "true"/"false" -/
  idFloat6 : Bool := false
  /-- F02e: gqlparser `validateVarType` panics (`reflect.Value.Type` on the zero Value) on a `null` item of a
      list whose item type is itself a list -/
  nestedNullPanic : Bool := false
  /-- F02f: lenient, value-preserving conversions of the built-in scalars in variables: numeric strings for
      `Int`/`Float`, numbers for `String`, non-integer numbers for `ID` (taken as their text) -/
  lenientScalars : Bool := false
  deriving Repr, Inhabited, DecidableEq

def Devs.all : Devs :=
  { absentVarNull := true, literalInt64 := true, mapList := true, idFloat6 := true, nestedNullPanic := true,
    lenientScalars := true }

/-- what the client wrote -/
inductive IV where
  | absentVar                 -- a variable without runtime value (inside a literal)
  | null
  | bool (b : Bool)
  | int (n : Int) (t : String)   -- an integer and the decimal text it was written as
  | float (t : String)
  | floatLit (t : String)     -- a float literal of the document (same meaning as `float`; gqlparser parses it)
  | str (s : String)
  | list (xs : List IV)
  | obj (fs : List (String × IV))
  deriving Repr, Inhabited

inductive CV where
  | null
  | int (n : Int)
  | float (t : String)
  | str (s : String)
  | fmt6 (t : String)               -- only with `idFloat6`: the float t printed with six decimals
  | bool (b : Bool)
  | list (xs : List CV)
  | obj (fs : List (String × CV))   -- present fields, schema order
  | any
  deriving Repr, Inhabited

/-- a JSON number token that denotes an integer: `-?digits` -/
def jsonIntToken (t : String) : Option Int :=
  match t.toList with
  | '-' :: r => (parseDigits r).map fun n => -(n : Int)
  | cs => (parseDigits cs).map fun n => (n : Int)

/-- a decoded JSON variable value -/
def ivOfRaw : Nat → Raw → IV
  | 0, _ => .null
  | f + 1, r =>
    match r with
    | .nil => .null
    | .bool b => .bool b
    | .int n | .i64 n => .int n (toString n)
    | .num t | .f64 t => (match jsonIntToken t with | some n => .int n t | none => .float t)
    | .str s => .str s
    | .list xs | .typed _ xs => .list (xs.map (ivOfRaw f))
    | .obj fs => .obj (fs.map fun kv => (kv.1, ivOfRaw f kv.2))

/-- a literal, with variables replaced by their coerced runtime values (already `IV`s) -/
def ivOfLit (vars : List (String × IV)) : Nat → Lit → IV
  | 0, _ => .null
  | f + 1, l =>
    match l with
    | .var n => (lookup vars n).getD .absentVar
    | .int n => .int n (toString n)
    | .float t => .floatLit t
    | .str s => .str s
    | .bool b => .bool b
    | .null => .null
    | .enum s => .str s   -- an enum literal is its name (validation has checked the literal's kind)
    | .list xs => .list (xs.map (ivOfLit vars f))
    | .obj fs => .obj (fs.map fun kv => (kv.1, ivOfLit vars f kv.2))

def intRange : ScalarK → Option (Int × Int)
  | .int | .int64 | .intID => some (Go.minInt64, Go.maxInt64)
  | .int32 => some (Go.minInt32, Go.maxInt32)
  | .uint | .uint64 | .uintID => some (0, Go.maxUint64)
  | .uint32 => some (0, Go.maxUint32)
  | _ => none

def inRange (k : ScalarK) (n : Int) : Bool :=
  match intRange k with
  | some (lo, hi) => lo ≤ n ∧ n ≤ hi
  | none => false

/-- decimal integer text `[+-]?digits` (signed kinds) / `digits` (unsigned kinds) -/
def decimalText (signed : Bool) (s : String) : Option Int :=
  match s.toList with
  | '-' :: r => if signed then (parseDigits r).map fun n => -(n : Int) else none
  | '+' :: r => if signed then (parseDigits r).map fun n => (n : Int) else none
  | cs => (parseDigits cs).map fun n => (n : Int)

def signedKind : ScalarK → Bool
  | .uint | .uint32 | .uint64 | .uintID => false
  | _ => true

/-- scalar input coercion; `tn` = the GraphQL type name (the five built-in scalars follow the specification
    strictly; other names are custom scalars) -/
def coerceScalar (dv : Devs) (tn : String) (k : ScalarK) (iv : IV) : Option CV :=
  let builtin := builtinScalar tn
  match k with
  | .any => some .any
  | .float =>
    (match iv with
     | .int _ t => some (.float t)
     | .float t | .floatLit t => some (.float t)
     | .str s => if dv.lenientScalars && builtin && floatSyntax s then some (.float s) else none
     | _ => none)
  | .string =>
    (match iv with
     | .str s => some (.str s)
     | .int _ t => if dv.lenientScalars && builtin then some (.str t) else none
     | .float t => if dv.lenientScalars && builtin then some (.str t) else none
     | _ => none)
  | .bool => (match iv with | .bool b => some (.bool b) | _ => none)
  | .id =>
    (match iv with
     | .str s => some (.str s)
     | .int _ t => some (.str t)
     | .float t => if (dv.lenientScalars && builtin) || (dv.idFloat6 && !builtin) then some (.str t) else none
     | .floatLit t => if dv.idFloat6 && !builtin then some (.fmt6 t) else none
     | .bool b => if dv.idFloat6 && !builtin then some (.str (if b then "true" else "false")) else none
     | _ => none)
  | k =>
    (match iv with
     | .int n _ => if inRange k n then some (.int n) else none
     | .str s =>
       if builtin && !dv.lenientScalars then none
       else (match decimalText (signedKind k) s with
         | some n => if inRange k n then some (.int n) else none
         | none => none)
     | _ => none)

inductive SErr where
  | at (path : Path)
  | panic (what : String)     -- only with a deviation switched on
  | fuel
  deriving Repr, DecidableEq, Inhabited

/-- Input coercion of value `iv` to type `t`. `none` result = the position is omitted (only for `absentVar`). -/
def isListTy : Ty → Bool
  | .list _ _ => true
  | _ => false

def isNullIV : IV → Bool
  | .null | .absentVar => true
  | _ => false

/-- the value the document provides for a field: a variable without runtime value is as if the field was not
    written (F02a: the code takes it as an explicit null) -/
def providedOf (dv : Devs) : Option IV → Option IV
  | some .absentVar => if dv.absentVarNull then some .null else none
  | o => o

/-- the provided value, else the field's default -/
def useValOf (fd : FieldDef) : Option IV → Option IV
  | some v => some v
  | none => fd.dflt.map (ivOfLit [] litDepth)

/-- one field of an input object: the provided value, else the default, else omitted / an error -/
def objField (dv : Devs) (rec : Ty → IV → Path → Except SErr CV) (fs : List (String × IV)) (path : Path)
    (fd : FieldDef) : Except SErr (Option (String × CV)) :=
  let p := path ++ [fd.name]
  match useValOf fd (providedOf dv (lookup fs fd.name)) with
  | none => if fd.ty.nn then .error (SErr.at p) else .ok none
  | some v =>
    match rec fd.ty v p with
    | .ok c => .ok (some (fd.name, c))
    | .error e => .error e

/-- input-object coercion, given the coercion of its field values -/
def coerceObj (dv : Devs) (rec : Ty → IV → Path → Except SErr CV) (fields : List FieldDef) (iv : IV)
    (path : Path) : Except SErr CV :=
  match iv with
  | .obj fs =>
    (match fs.find? (fun kv => (fields.find? (fun fd => fd.name = kv.1)).isNone) with
     | some kv => .error (.at (path ++ [kv.1]))
     | none =>
       match mapE (objField dv rec fs path) fields with
       | .ok kvs => .ok (.obj (kvs.filterMap id))
       | .error e => .error e)
  | _ => .error (.at path)

/-- input coercion up to the input objects reached (`obj` = their coercion): by recursion on the type -/
def coerceTy (dv : Devs) (s : Schema) (obj : List FieldDef → IV → Path → Except SErr CV) :
    Ty → IV → Path → Except SErr CV
  | t, iv, path =>
    if isNullIV iv then (if t.nn then .error (.at path) else .ok .null) else
    match t with
    | .list et _ =>
      if dv.mapList && (isMapBase s t).isSome then
        -- F02c: the list is ignored; a list value crashes the type assertion of unmarshalInput*
        (match iv, s.get t.base with
         | .list _, _ => .error (.panic "interface conversion")
         | _, some (.input _ fields) => obj fields iv path
         | _, _ => .error (.at path))
      else
      (match iv with
       | .list xs =>
         (match mapIdxE (fun i x =>
             if dv.nestedNullPanic && isNullIV x && isListTy et && !et.nn then
               .error (SErr.panic "reflect: call of reflect.Value.Type on zero Value")
             else coerceTy dv s obj et x (path ++ [toString i])) 0 xs with
          | .ok cs => .ok (.list cs)
          | .error e => .error e)
       | _ =>
         -- a single value: coerce it as the item type and wrap it
         (match coerceTy dv s obj et iv (path ++ ["0"]) with
          | .ok c => .ok (.list [c])
          | .error e => .error e))
    | .named n _ =>
      match s.get n with
      | none => .error (.at path)
      | some (.scalar k) =>
        (match coerceScalar dv n k iv with
         | some c => .ok c
         | none => .error (.at path))
      | some (.enum vals) =>
        (match iv with
         | .str x => if vals.contains x then .ok (.str x) else .error (.at path)
         | _ => .error (.at path))
      | some (.input _ fields) => obj fields iv path

/-- Input coercion of value `iv` to type `t`. Fuel is consumed only when an input object is entered. -/
def coerce (dv : Devs) (s : Schema) : Nat → Ty → IV → Path → Except SErr CV
  | 0 => fun _ _ _ => .error .fuel
  | f + 1 => coerceTy dv s (coerceObj dv (coerce dv s f))

/-! ## embedding coerced values into the generated Go types -/

/-- a coerced input object as the generated struct / the map of a map-backed input -/
def embedObj (s : Schema) (c : Cfg) (zeroOf : Sh → GoV) (rec : Ty → Sh → CV → GoV) (n : String) (isMap : Bool)
    (cv : CV) : GoV :=
  match s.get n, cv with
  | some (.input _ fields), .obj fs =>
    if isMap then
      .map (fields.filterMap fun fd =>
        (lookup fs fd.name).map fun v => (fd.name, rec fd.ty (shapeRef s c fd.ty) v))
    else
      .struct (fields.map fun fd =>
        let fsh := shapeField s c fd.ty
        let om := fieldOmittable c fd.ty
        match lookup fs fd.name with
        | none => (fd.goName, if om then GoV.unset else zeroOf fsh)
        | some v => (fd.goName, if om then GoV.set (rec fd.ty fsh v) else rec fd.ty fsh v))
  | _, _ => .nil

def embedSh (obj : String → Bool → CV → GoV) : Sh → Ty → CV → GoV
  | sh, t, cv =>
    match cv with
    | .null =>
      (match sh with
       | .slice _ => .nilSlice
       | .mapIn _ => .nilMap
       | _ => .nil)
    | _ =>
      match sh with
      | .scalar .any => .str "<any>"
      | .ptr inner => .ptr (embedSh obj inner t cv)
      | .slice el =>
        (match t, cv with
         | .list et _, .list xs => .slice (xs.map (embedSh obj el et))
         | _, _ => .nil)
      | .scalar _ =>
        (match cv with
         | .int n => .int n
         | .float x => .float x
         | .str x => .str x
         | .fmt6 x => .fmt6 x
         | .bool b => .bool b
         | _ => .nil)
      | .enum _ => (match cv with | .str x => .str x | _ => .nil)
      | .struct n => obj n false cv
      | .mapIn n => obj n true cv
      | .bad _ => .nil

def embed (s : Schema) (c : Cfg) : Nat → Ty → Sh → CV → GoV
  | 0 => fun _ _ _ => .nil
  | f + 1 => fun t sh cv => embedSh (embedObj s c (zero s c f) (embed s c f)) sh t cv

/-! ## variables and arguments -/

/-- `CoerceVariableValues`: name ↦ coerced runtime value re-read as an input value, or the failing variable -/
def cvToIV : Nat → CV → IV
  | 0, _ => .null
  | f + 1, c =>
    match c with
    | .null => .null
    | .int n => .int n (toString n)
    | .float t => .float t
    | .str s => .str s
    | .fmt6 t => .float t
    | .bool b => .bool b
    | .list xs => .list (xs.map (cvToIV f))
    | .obj fs => .obj (fs.map fun kv => (kv.1, cvToIV f kv.2))
    | .any => .null

/-- the provided runtime value of every variable that has one (values are coerced again at their use site,
    which is idempotent for values that passed `CoerceVariableValues`; keeping the client's value lets the
    use site see e.g. the enum as written) -/
def coerceVars (dv : Devs) (s : Schema) (defs : List VarDef) (input : List (String × Raw)) :
    Except (Option Path) (List (String × IV)) :=
  let rec go (acc : List (String × IV)) : List VarDef → Except (Option Path) (List (String × IV))
    | [] => .ok acc
    | d :: r =>
      let path := ["variable", d.name]
      let provided : Option IV :=
        match lookup input d.name with
        | some v => some (ivOfRaw litDepth v)
        | none => d.dflt.map (ivOfLit [] litDepth)
      match provided with
      | none => if d.ty.nn then .error (some path) else go acc r
      | some iv =>
        -- the variable stage knows nothing of F02c (it is a property of the argument's Go binding)
        match coerce { dv with mapList := false } s fuelDefault d.ty iv path with
        | .error (.at p) => .error (some p)
        | .error (.panic _) => .error none
        | .error .fuel => .error (some path)
        | .ok _ =>
          -- a single value given to a list-typed variable is the one-item list from here on
          let iv' := if isListTy d.ty && !isNullIV iv then (match iv with | .list _ => iv | _ => IV.list [iv]) else iv
          go (acc ++ [(d.name, iv')]) r
  go [] defs

/-- an `Int` literal outside int64 somewhere in the value -/
def litBigInt : Nat → Lit → Bool
  | 0, _ => false
  | f + 1, l =>
    match l with
    | .int n => !inInt64 n
    | .list xs => xs.any (litBigInt f)
    | .obj fs => fs.any fun kv => litBigInt f kv.2
    | _ => false

/-- `CoerceArgumentValues` for one field, embedded into the resolver's Go parameter types -/
def fieldArgs (dv : Devs) (s : Schema) (c : Cfg) (vars : List (String × IV)) (defs : List ArgDef)
    (given : List (String × Lit)) (fieldPath : Path) : Except SErr (List GoV) :=
  if dv.literalInt64 && defs.any (fun d =>
      match lookup given d.name with
      | some l => litBigInt litDepth l
      | none => false) then .error (.panic "strconv.ParseInt: value out of range") else
  mapE (fun (d : ArgDef) =>
    let sh := shapeRef s c d.ty
    let p := fieldPath ++ [d.name]
    let provided : Option IV :=
      match lookup given d.name with
      | some l => (match ivOfLit vars litDepth l with
        | .absentVar => none
        | iv => some iv)
      | none => none
    let useVal : Option IV :=
      match provided with
      | some v => some v
      | none => d.dflt.map (ivOfLit [] litDepth)
    match useVal with
    | none => if d.ty.nn then .error (SErr.at p) else .ok (zero s c fuelDefault sh)
    | some iv =>
      -- F02e belongs to the variable stage (gqlparser's validator); literals never pass through it
      match coerce { dv with nestedNullPanic := false } s fuelDefault d.ty iv p with
      | .ok cv => .ok (embed s c fuelDefault d.ty sh cv)
      | .error e => .error e) defs

def fieldStep (dv : Devs) (s : Schema) (c : Cfg) (vars : List (String × IV)) (defs : List ArgDef)
    (given : List (String × Lit)) (fieldPath : Path) : Step :=
  match fieldArgs dv s c vars defs given fieldPath with
  | .ok args => .call args
  | .error (.at p) => .error p "spec"
  | .error (.panic w) => .error fieldPath ("panic: " ++ w)
  | .error .fuel => .error fieldPath "fuel"

def runOp (dv : Devs) (s : Schema) (c : Cfg) (vars : List VarDef) (input : List (String × Raw)) (fields : List FieldUse) : Outcome :=
  if !docOK s vars fields then .gateValidation else
  match coerceVars dv s vars input with
  | .error (some p) => .gateVar p "spec"
  | .error none => .gatePanic "reflect: call of reflect.Value.Type on zero Value"
  | .ok cv => .ran (fields.map fun fu => (fu.path, fieldStep dv s c cv fu.defs fu.given fu.path))

def pathStr (p : Path) : String := "/".intercalate p

def outcomeStr (o : Outcome) : String :=
  match o with
  | .gateValidation => "gate\tvalidation"
  | .gateVar p m => "gate\tvar\t" ++ pathStr p ++ "\t" ++ m
  | .gatePanic w => "gate\tpanic\t" ++ w
  | .ran steps => "ran\t" ++ "\t".intercalate (steps.map fun (p, st) =>
      match st with
      | .call args => pathStr p ++ "\x1fcall\x1f" ++ ", ".intercalate (args.map render)
      | .error ep cls => pathStr p ++ "\x1ferror\x1f" ++ pathStr ep ++ "\x1f" ++ cls)

end GqlgenVerif.Coerce.Spec
