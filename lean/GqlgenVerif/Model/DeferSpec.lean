import GqlgenVerif.Model.Exec
/-!
# C13 as an executable statement over a payload sequence

What a client does with an incremental response, and what C13 says about the outcome, written directly:
the payloads are merged **in arrival order** - each incremental payload's object is located by its path
in what has been merged so far and its keys are set there - and the merged tree is compared with the
result of the same operation executed without `@defer`:

* equal, except that where the plain result is `null` the merged tree may still hold the object a *failed*
  deferred group belongs to (null propagation from a failure inside a group stops at that object);
* no error that the plain execution does not report (as multisets);
* each (path, label) at most once; the object of every payload can be found when the payload arrives;
* `hasNext` is true on every payload but the last.

`check` returns the violated clauses. The C13 driver evaluates it on the **implementation's** payloads
(decoded from the wire) against the implementation's plain run, and on the defer model's payloads.
-/
namespace GqlgenVerif.DeferSpec
open GqlgenVerif

/-- one payload as it arrives; `data = none` is `"data": null` (the group failed) -/
structure WP where
  path : Path
  label : String
  data : Option (List (String × Out))
  /-- the initial payload's data may be any value (null when the root was nulled) -/
  root : Out := .null
  errs : List (String × String)        -- (path text, message)
  hasNext : Option Bool
deriving Inhabited

def lookupKey (fs : List (String × Out)) (k : String) : Option Out :=
  (fs.find? (·.1 == k)).map (·.2)

/-- follow a response path -/
def locate : Out → Path → Option Out
  | t, [] => some t
  | .obj fs, .key k :: rest =>
    match lookupKey fs k with
    | some v => locate v rest
    | none => none
  | .list xs, .idx i :: rest =>
    match xs[i]? with
    | some v => locate v rest
    | none => none
  | _, _ => none

/-- set the keys of an object: existing keys keep their position, new keys are appended -/
def setKeys (fs : List (String × Out)) : List (String × Out) → List (String × Out)
  | [] => fs
  | (k, v) :: rest =>
    let fs' := if fs.any (·.1 == k) then fs.map (fun e => if e.1 == k then (k, v) else e) else fs ++ [(k, v)]
    setKeys fs' rest

/-- set keys of the object at `path`; `none` when there is no object there -/
def applyAt : Out → Path → List (String × Out) → Option Out
  | .obj fs, [], upd => some (.obj (setKeys fs upd))
  | .obj fs, .key k :: rest, upd =>
    match lookupKey fs k with
    | none => none
    | some v =>
      match applyAt v rest upd with
      | none => none
      | some v' => some (.obj (fs.map fun e => if e.1 == k then (k, v') else e))
  | .list xs, .idx i :: rest, upd =>
    match xs[i]? with
    | none => none
    | some v =>
      match applyAt v rest upd with
      | none => none
      | some v' => some (.list (xs.set i v'))
  | _, _, _ => none

def isPrefix : Path → Path → Bool
  | [], _ => true
  | _ :: _, [] => false
  | a :: as, b :: bs => a == b && isPrefix as bs

mutual
/-- merged `m` equals plain `p`, except below a position where plain is null and a failed group lies -/
def eqModCut (failed : List Path) : Out → Out → Path → Bool
  | m, .null, path => m.isNull || failed.any (fun f => isPrefix path f)
  | .obj ms, .obj ps, path => eqMembers failed ms ps path
  | .list ms, .list ps, path => eqElems failed ms ps path 0
  | .leaf a, .leaf b, _ => a == b
  | _, _, _ => false
def eqMembers (failed : List Path) : List (String × Out) → List (String × Out) → Path → Bool
  | [], [], _ => true
  | (k, m) :: ms, (k', p) :: ps, path => k == k' && eqModCut failed m p (path ++ [.key k]) && eqMembers failed ms ps path
  | _, _, _ => false
def eqElems (failed : List Path) : List Out → List Out → Path → Nat → Bool
  | [], [], _, _ => true
  | m :: ms, p :: ps, path, i => eqModCut failed m p (path ++ [.idx i]) && eqElems failed ms ps path (i + 1)
  | _, _, _, _ => false
end

/-- multiset difference on error texts: what is in `xs` and not accounted for by `ys` -/
def notIn : List (String × String) → List (String × String) → List (String × String)
  | [], _ => []
  | x :: xs, ys => if ys.contains x then notIn xs (ys.erase x) else x :: notIn xs ys

structure MergeSt where
  merged : Out
  failed : List Path := []
  seen : List (String × String) := []
  pending : List WP := []
  bad : List String := []

/-- retry payloads whose object was not there yet: one that becomes applicable later arrived too early -/
def retryPending (merged : Out) : List WP → Out × List WP × List String
  | [] => (merged, [], [])
  | q :: rest =>
    match q.data with
    | none =>
      -- a failed group: nothing to set, but its object must be there
      match locate merged q.path with
      | some (.obj _) =>
        let r := retryPending merged rest
        (r.1, r.2.1, ("child-group-before-parent-group:" ++ pathStr q.path ++ "|" ++ q.label) :: r.2.2)
      | _ =>
        let r := retryPending merged rest
        (r.1, q :: r.2.1, r.2.2)
    | some upd =>
      match applyAt merged q.path upd with
      | some m' =>
        let r := retryPending m' rest
        (r.1, r.2.1, ("child-group-before-parent-group:" ++ pathStr q.path ++ "|" ++ q.label) :: r.2.2)
      | none =>
        let r := retryPending merged rest
        (r.1, q :: r.2.1, r.2.2)

def step (s : MergeSt) (p : WP) : MergeSt :=
  let key := (pathStr p.path, p.label)
  let bad := if s.seen.contains key then s.bad ++ ["group-delivered-twice:" ++ key.1 ++ "|" ++ key.2] else s.bad
  let failed := if p.data.isNone then s.failed ++ [p.path] else s.failed
  if s.merged.isNull then { s with bad, failed, seen := s.seen ++ [key] }
  else
    match p.data with
    | none =>
      -- nothing to set, but the object must be there
      let found := match locate s.merged p.path with | some (.obj _) => true | _ => false
      let r := retryPending s.merged s.pending
      { merged := r.1, failed, seen := s.seen ++ [key], pending := if found then r.2.1 else r.2.1 ++ [p], bad := bad ++ r.2.2 }
    | some upd =>
      match applyAt s.merged p.path upd with
      | some m' =>
        let r := retryPending m' s.pending
        { merged := r.1, failed, seen := s.seen ++ [key], pending := r.2.1, bad := bad ++ r.2.2 }
      | none => { s with failed, seen := s.seen ++ [key], pending := s.pending ++ [p], bad }

def hasNextClauses (ps : List WP) : List String :=
  match ps with
  | [] => ["no-payload"]
  | [p] => if p.hasNext == some true then ["hasNext-true-on-only-payload"] else []
  | _ =>
    (ps.zipIdx.filter fun (p, i) => p.hasNext != some (decide (i + 1 < ps.length))).map
      fun (_, i) => "hasNext-wrong-at-" ++ toString i

/-- the violated clauses of C13 for the payload sequence `ps` (initial payload first, in arrival order)
    against the plain execution (`plainData`, `plainErrs`) -/
def check (ps : List WP) (plainData : Out) (plainErrs : List (String × String)) : List String :=
  match ps with
  | [] => ["no-payload"]
  | init :: rest =>
    let s := rest.foldl step { merged := init.root }
    let orphan := s.pending.map fun q =>
      (if plainData.isNull || (locate plainData q.path).isNone || ((locate plainData q.path).map Out.isNull == some true)
        then "orphan-payload-object-nulled:" else "payload-object-missing-but-present-in-plain:")
        ++ pathStr q.path ++ "|" ++ q.label
    let dataBad := if eqModCut s.failed s.merged plainData [] then [] else ["merged-data-differs-from-plain"]
    let errBad := (notIn (ps.flatMap (·.errs)) plainErrs).map fun e => "error-not-in-plain:" ++ e.1 ++ " :: " ++ e.2
    s.bad ++ orphan ++ hasNextClauses ps ++ dataBad ++ errBad

end GqlgenVerif.DeferSpec
