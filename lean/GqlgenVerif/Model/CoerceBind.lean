import GqlgenVerif.Model.Coerce
import GqlgenVerif.Model.CoerceSpec
import GqlgenVerif.Gen.BindArgs
/-! # C02: what a field with arguments is bound to

A field of an object type is resolved either by a method of the generated resolver interface (parameters in schema
order, `fieldStep`) or — when the type is bound to a hand-written model — by a METHOD OF THE MODEL. For a method,
`codegen/args.go bindArgs` matches every Go parameter (after an optional context) to the GraphQL argument of the same
name (`strings.EqualFold`), rebuilds `field.Args` in PARAMETER order, and from then on everything generated for the
field uses that list: `field_*_args` (args.gotpl) unmarshals exactly those arguments into the map `fc.Args` keyed by
argument name, and `CallArgs` (codegen/field.go) emits `obj.Method([ctx,] fc.Args["<key>"].(T), …)` in that order.

* `Gen.BindArgs.bindArgs`, `callKey` — REGENERATED from the source on every run (go/extract/bindargs.go).
* `argsMap`, `handOver`            — the map `fc.Args` and the values of the generated call expression.
* `methodArgs` / `methodStep`      — the method's parameters receive …; an argument the method has no parameter for
                                      is still evaluated by `Field.ArgumentMap` (its panic precedes everything) but is
                                      never unmarshalled.
* `report`                         — what the probe's methods answer: the received values listed in the SCHEMA's
                                      argument order, looked up by parameter name (universal.C02Recv).
* `Spec.methodStep`                — the property: every parameter holds the spec-coerced value of the argument it is
                                      NAMED after (no notion of position).
-/
namespace GqlgenVerif.Coerce

/-- how a field is bound: `none` = resolver method (schema order); `some (params, variadic)` = model method with these
    parameter names after the context -/
abbrev Binding := Option (List String × Bool)

/-- `bindArgs` at the model's argument type -/
def bindArgs (all : List ArgDef) (params : List String) (variadic : Bool) : Option (List ArgDef) :=
  Gen.BindArgs.bindArgs ArgDef.name equalFold all params variadic

/-- the argument a parameter is named after (the first one in schema order, as `bindArgs`' inner loop) -/
def argNamed (all : List ArgDef) (param : String) : Option ArgDef :=
  all.find? fun d => equalFold d.name param

/-- the writes `args[<name>] = arg<i>` of `field_*_args`, in order -/
def argsMap (bound : List ArgDef) (vals : List GoV) : List (String × GoV) :=
  (bound.zip vals).map fun dv => (dv.1.name, dv.2)

/-- reading a Go map after these writes: the LAST write of a key wins -/
def mapGet (m : List (String × GoV)) (k : String) : Option GoV := lookup m.reverse k

/-- `Option`-valued map over a list -/
def mapO {α β : Type} (f : α → Option β) : List α → Option (List β)
  | [] => some []
  | a :: r => match f a, mapO f r with
    | some b, some bs => some (b :: bs)
    | _, _ => none

/-- the values of the generated call `obj.M(fc.Args[key₀].(T₀), …)`; `none`: a failed type assertion (nil map entry) -/
def handOver (bound : List ArgDef) (vals : List GoV) : Option (List GoV) :=
  mapO (fun d => mapGet (argsMap bound vals) (Gen.BindArgs.callKey ArgDef.name (fun d => d.name) d)) bound

/-- `Field.ArgumentMap` is evaluated over ALL argument definitions of the schema: its panic (F02b) precedes -/
def arg2mapFail (vars : List (String × Raw)) (all : List ArgDef) (given : List (String × Lit)) : Option Fail :=
  match mapE (fun d => argRaw vars d (lookup given d.name)) all with
  | .error e => some e
  | .ok _ => none

/-- the values the method's parameters receive, in parameter order -/
def methodArgs (s : Schema) (c : Cfg) (vars : List (String × Raw)) (all : List ArgDef) (params : List String)
    (variadic : Bool) (given : List (String × Lit)) (fieldPath : Path) : Res (List GoV) :=
  match bindArgs all params variadic with
  | none => .error (.panic "bindArgs: generation fails")
  | some bound =>
    match arg2mapFail vars all given with
    | some e => .error e
    | none =>
      match fieldArgs s c vars bound given fieldPath with
      | .error e => .error e
      | .ok vals =>
        match handOver bound vals with
        | some recv => .ok recv
        | none => .error (.panic "interface conversion")

/-- the probe's methods answer their parameters listed in the schema's argument order, by parameter NAME -/
def report (all : List ArgDef) (params : List String) (recv : List GoV) : List GoV :=
  all.filterMap fun d =>
    match (params.zip recv).find? (fun pv => equalFold d.name pv.1) with
    | some pv => some pv.2
    | none => none

def methodStep (s : Schema) (c : Cfg) (vars : List (String × Raw)) (all : List ArgDef) (params : List String)
    (variadic : Bool) (given : List (String × Lit)) (fieldPath : Path) : Step :=
  match methodArgs s c vars all params variadic given fieldPath with
  | .ok recv => .call (report all params recv)
  | .error (.err p cls) => .error p cls
  | .error (.panic w) => .error fieldPath ("panic: " ++ w)
  | .error .fuel => .error fieldPath "fuel"

structure FieldUseB where
  use : FieldUse
  bind : Binding := none
  deriving Inhabited

def stepB (s : Schema) (c : Cfg) (vars : List (String × Raw)) (fu : FieldUseB) : Step :=
  match fu.bind with
  | none => fieldStep s c vars fu.use.defs fu.use.given fu.use.path
  | some (params, variadic) => methodStep s c vars fu.use.defs params variadic fu.use.given fu.use.path

/-- `runOp` with a binding per field -/
def runOpB (s : Schema) (c : Cfg) (vars : List VarDef) (input : List (String × Raw)) (fields : List FieldUseB) : Outcome :=
  if !docOK s vars (fields.map (·.use)) then .gateValidation else
  match varValues s vars input with
  | .error (.at p m) => .gateVar p m
  | .error (.panic w) => .gatePanic w
  | .error .fuel => .gatePanic "fuel"
  | .ok cv => .ran (fields.map fun fu => (fu.use.path, stepB s c cv fu))

namespace Spec

/-- The specification does not fix in which order the arguments of a field are coerced, so it does not fix WHICH
    uncoercible argument is reported when there are several. For a method-bound field the order chosen here is the
    one of the method's parameters (by NAME), then the arguments the method has no parameter for. -/
def specOrder (all : List ArgDef) (params : List String) : List ArgDef :=
  params.filterMap (argNamed all) ++ all.filter fun d => !params.any fun p => equalFold d.name p

/-- the property for a method-bound field: `CoerceArgumentValues` over ALL arguments of the field; the parameter
    NAMED after an argument holds that argument's coerced value (no notion of position). In the vocabulary of
    `report`: the values of the arguments that have a parameter, in schema order. -/
def methodStep (dv : Devs) (s : Schema) (c : Cfg) (vars : List (String × IV)) (all : List ArgDef) (params : List String)
    (given : List (String × Lit)) (fieldPath : Path) : Step :=
  let order := specOrder all params
  match fieldStep dv s c vars order given fieldPath with
  | .call vals => .call (all.filterMap fun d =>
      if params.any (fun p => equalFold d.name p) then
        ((order.zip vals).find? fun dv => dv.1.name = d.name).map (·.2)
      else none)
  | st => st

def stepB (dv : Devs) (s : Schema) (c : Cfg) (vars : List (String × IV)) (fu : FieldUseB) : Step :=
  match fu.bind with
  | none => fieldStep dv s c vars fu.use.defs fu.use.given fu.use.path
  | some (params, _) => methodStep dv s c vars fu.use.defs params fu.use.given fu.use.path

def runOpB (dv : Devs) (s : Schema) (c : Cfg) (vars : List VarDef) (input : List (String × Raw)) (fields : List FieldUseB) : Outcome :=
  if !docOK s vars (fields.map (·.use)) then .gateValidation else
  match coerceVars dv s vars input with
  | .error (some p) => .gateVar p "spec"
  | .error none => .gatePanic "reflect: call of reflect.Value.Type on zero Value"
  | .ok cv => .ran (fields.map fun fu => (fu.use.path, stepB dv s c cv fu))

end Spec
end GqlgenVerif.Coerce
