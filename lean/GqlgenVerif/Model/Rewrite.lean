import GqlgenVerif.Gen.RewriteOffsets
/-!
# Model of resolver regeneration  (property C19)

A resolver package is a list of files (in `packages.Package.Syntax` order = file-name order); a file is
its import specs plus its top-level declarations with their *source text*. Mirrors, in /repo:

* `internal/rewrite/rewriter.go`
  - `GetPrevDecl(struct, method)`            → `firstMatch` (first `FuncDecl` of the whole package whose
    name and `T` / `*T` receiver match; marks it copied — it does **not** look at what is copied already)
  - `MarkStructCopied(name)`                 → `isStructDecl` (every `type` GenDecl whose first spec has that name)
  - `GetMethodBody`                          → `getMethodBody` (`getSource(Body.Pos()+a, Body.End()-b)`, the
    offsets `a`, `b` regenerated from the source: `Gen.RewriteOffsets.bodyStartOff/bodyEndOff`)
  - `GetMethodComment`                       → `Decl.doc` (`Doc.Text()`, go/ast: modelled-not-verified)
  - `ExistingImports(file)`                  → `File.imports`
  - `RemainingSource(file)`                  → `remainingSource` (skip conditions and separator from
    `Gen.RewriteOffsets`; `strings.TrimSpace` at the end)
* `plugin/resolvergen/resolver.go` `generateSingleFile` / `generatePerSchema` → `regenerate`
  (order of the rewriter calls, `TrimSpace(TrimLeft(comment, "\\"))`, `TrimSpace(body)`, the
  `implementation != ""` split of the single-file layout, `Resolver.Implementation`, which file gets which
  object / resolver, `File.Imports` after the template's own `reserveImport`s)
* `plugin/resolvergen/resolver.gotpl`        → `NewFile` (methods, then object accessors, then struct types,
  then the trailing WARNING block `trailer`, whose shape is regenerated: `Gen.RewriteOffsets.trailerMode`)
* `codegen/field.go` `ShortResolverSignature` → `NewMethod.namedV/namedE` (named results of the previous decl)
* `codegen/templates/import.go` `Reserve` / `Import.String`, `internal/imports/prune.go` → `reserve`, `printedLocal`, `prune`
* re-parsing the written file (go/parser; modelled-not-verified, tied by the correspondence run) → `reparse`,
  so that repeated regeneration is `iterate`.

Text is `List Char`. Core Lean only.
-/
namespace GqlgenVerif.Rewrite
open GqlgenVerif.Gen.RewriteOffsets

abbrev Text := List Char

/-- Go's `unicode.IsSpace` (what `strings.TrimSpace` trims). -/
def isSpace (c : Char) : Bool :=
  c == '\t' || c == '\n' || c.toNat == 0x0b || c.toNat == 0x0c || c == '\r' || c == ' ' ||
  c.toNat == 0x85 || c.toNat == 0xA0 || c.toNat == 0x1680 || (0x2000 ≤ c.toNat && c.toNat ≤ 0x200a) ||
  c.toNat == 0x2028 || c.toNat == 0x2029 || c.toNat == 0x202f || c.toNat == 0x205f || c.toNat == 0x3000

def trimLeft (t : Text) : Text := t.dropWhile isSpace
def trimRight (t : Text) : Text := (t.reverse.dropWhile isSpace).reverse
/-- `strings.TrimSpace` -/
def trim (t : Text) : Text := trimRight (trimLeft t)
/-- `strings.TrimLeft(s, "\\")` -/
def trimBackslashes (t : Text) : Text := t.dropWhile (· == '\\')

/-- `xs` occurs in `t` as a contiguous substring (decidable version of `List.IsInfix`). -/
def hasInfix (xs : Text) : Text → Bool
  | [] => xs.isEmpty
  | c :: t => xs.isPrefixOf (c :: t) || hasInfix xs t

structure Import where
  alias : String   -- "" = no explicit name
  path : String
  pkg : String     -- the package name behind `path` (`code.Packages.NameForPackage`)
  deriving DecidableEq, Repr, Inhabited

structure Decl where
  isFunc : Bool
  tok : String       -- GenDecl token: "IMPORT" | "TYPE" | "VAR" | "CONST"; "" for a FuncDecl
  recv : String      -- base type name of a `T` / `*T` receiver; "" when absent or not an identifier
  name : String      -- FuncDecl name; name of the first spec of a `type` GenDecl
  doc : Text         -- `Doc.Text()`
  specDoc : Text     -- the doc comment with markers removed and nothing else dropped (Spec side only)
  namedV : String    -- name of the first / second result, "" when unnamed
  namedE : String
  hdr : Text         -- source from `d.Pos()` up to the body's `{`; the whole `d.Pos()..d.End()` when no body
  inner : Text       -- source between the body's braces
  hasBody : Bool
  deriving DecidableEq, Repr, Inhabited

/-- the `{ … }` of the declaration: `Body.Pos() .. Body.End()` -/
def Decl.body (d : Decl) : Text := '{' :: (d.inner ++ ['}'])
/-- `getSource(d.Pos(), d.End())` -/
def Decl.src (d : Decl) : Text := if d.hasBody then d.hdr ++ d.body else d.hdr
def Decl.isImport (d : Decl) : Bool := !d.isFunc && d.tok == "IMPORT"

structure File where
  name : String
  imports : List Import
  decls : List Decl
  deriving DecidableEq, Repr, Inhabited

abbrev Pkg := List File
abbrev Key := Nat × Nat   -- (file index, declaration index): identity of an `ast.Decl`

/-- every declaration of the package in `for f in pkg.Syntax { for d in f.Decls` order -/
def allDecls (p : Pkg) : List (Key × Decl) :=
  p.zipIdx.flatMap fun fi => fi.1.decls.zipIdx.map fun dj => ((fi.2, dj.2), dj.1)

def isMethod (s m : String) (d : Decl) : Bool := d.isFunc && d.name == m && d.recv == s
def isStructDecl (n : String) (d : Decl) : Bool := !d.isFunc && d.tok == "TYPE" && d.name == n

/-- `GetPrevDecl` -/
def firstMatch (p : Pkg) (s m : String) : Option (Key × Decl) := (allDecls p).find? fun kd => isMethod s m kd.2

/-- `GetMethodBody`: `file[Body.Pos()+a : Body.End()-b]` with the regenerated offsets -/
def getMethodBody (d : Decl) : Text :=
  (d.body.drop bodyStartOff).take (d.body.length - bodyStartOff - bodyEndOff)

-- ---------------------------------------------------------------- schema' and configuration

structure Field where
  goName : String
  name : String
  file : String      -- resolver file of the schema file that holds the field
  isResolver : Bool
  deriving DecidableEq, Repr, Inhabited

structure Obj where
  name : String
  file : String      -- resolver file of the schema file that holds the type definition
  fields : List Field
  deriving DecidableEq, Repr, Inhabited

abbrev Schema := List Obj   -- `data.Objects` (sorted by name), fields in definition order

def Obj.hasResolvers (o : Obj) : Bool := o.fields.any (·.isResolver)
def Obj.resolverFields (o : Obj) : List Field := o.fields.filter (·.isResolver)

inductive Layout | single | follow
  deriving DecidableEq, Repr, Inhabited

structure Cfg where
  layout : Layout
  rtype : String := "Resolver"          -- `resolver.type`
  singleName : String := "resolver.go"  -- `resolver.filename` (single-file layout)
  omitTemplateComment : Bool := false
  deriving Repr, Inhabited

def mapFirst (f : Char → Char) (s : String) : String :=
  match s.toList with
  | [] => ""
  | c :: r => String.ofList (f c :: r)
/-- `templates.LcFirst` / `UcFirst` (GraphQL names are ASCII) -/
def lcFirst (s : String) : String := mapFirst Char.toLower s
def ucFirst (s : String) : String := mapFirst Char.toUpper s

def structName (cfg : Cfg) (o : Obj) : String := lcFirst o.name ++ ucFirst cfg.rtype

/-- a `GetPrevDecl` call made by resolvergen -/
structure Req where
  recv : String
  name : String
  deriving DecidableEq, Repr

/-- resolver-method lookups of one object -/
def fieldReqs (cfg : Cfg) (o : Obj) : List Req := o.resolverFields.map fun f => ⟨structName cfg o, f.goName⟩
/-- all lookups of one object: the accessor `func (r *Resolver) <Title o.Name>()` first -/
def objReqs (cfg : Cfg) (o : Obj) : List Req :=
  (if o.hasResolvers then [⟨cfg.rtype, ucFirst o.name⟩] else []) ++ fieldReqs cfg o
def reqs (cfg : Cfg) (sch : Schema) : List Req := sch.flatMap (objReqs cfg)
def resolverReqs (cfg : Cfg) (sch : Schema) : List Req := sch.flatMap (fieldReqs cfg)
def structNames (cfg : Cfg) (sch : Schema) : List String := (sch.filter (·.hasResolvers)).map (structName cfg)

/-- `Rewriter.copied` after resolvergen's loop -/
def copied (cfg : Cfg) (p : Pkg) (sch : Schema) : List Key :=
  ((reqs cfg sch).filterMap fun r => (firstMatch p r.recv r.name).map (·.1)) ++
  ((allDecls p).filter fun kd => (structNames cfg sch).any fun n => isStructDecl n kd.2).map (·.1)

-- ---------------------------------------------------------------- RemainingSource

/-- the skip test of `RemainingSource`'s loop, regenerated from the source -/
def skipped (cp : List Key) (k : Key) (d : Decl) : Bool :=
  (skipCopied && cp.contains k) || (!d.isFunc && skipToks.contains d.tok)

def remainingRaw (cp : List Key) (fi : Nat) (f : File) : Text :=
  f.decls.zipIdx.flatMap fun dj => if skipped cp (fi, dj.2) dj.1 then [] else dj.1.src ++ declSep.toList

def findFile (p : Pkg) (name : String) : Option (Nat × File) :=
  (p.zipIdx.find? fun fi => fi.1.name == name).map fun fi => (fi.2, fi.1)

/-- `RemainingSource(filename)` -/
def remainingSource (cp : List Key) (p : Pkg) (name : String) : Text :=
  match findFile p name with
  | some (fi, f) => if trimRemaining then trim (remainingRaw cp fi f) else remainingRaw cp fi f
  | none => []

/-- `ExistingImports(filename)` -/
def existingImports (p : Pkg) (name : String) : List Import :=
  match findFile p name with
  | some (_, f) => f.imports
  | none => []

-- ---------------------------------------------------------------- imports

/-- the `reserveImport` lines at the top of resolver.gotpl (alias = package name) -/
def ambient : List Import := [
  ⟨"context", "context", "context"⟩, ⟨"fmt", "fmt", "fmt"⟩, ⟨"io", "io", "io"⟩, ⟨"strconv", "strconv", "strconv"⟩,
  ⟨"time", "time", "time"⟩, ⟨"sync", "sync", "sync"⟩, ⟨"errors", "errors", "errors"⟩, ⟨"bytes", "bytes", "bytes"⟩,
  ⟨"gqlparser", "github.com/vektah/gqlparser/v2", "gqlparser"⟩, ⟨"ast", "github.com/vektah/gqlparser/v2/ast", "ast"⟩,
  ⟨"graphql", "github.com/99designs/gqlgen/graphql", "graphql"⟩,
  ⟨"introspection", "github.com/99designs/gqlgen/graphql/introspection", "introspection"⟩]

/-- `Imports.Reserve(path, alias?)` with the error ignored, as `File.Imports` does: a path that is
already there, or an alias that is already taken, silently drops the import. The reserved entry's
`alias` is always explicit (the package name when the user gave none). -/
def reserve1 (acc : List Import) (i : Import) : List Import :=
  let al := if i.alias == "" then i.pkg else i.alias
  if acc.any (·.path == i.path) then acc
  else if acc.any (·.alias == al) then acc
  else acc ++ [{ i with alias := al }]

def reserve (user : List Import) : List Import := user.foldl reserve1 ambient

def isSuffixStr (suf s : String) : Bool := suf.toList.isSuffixOf s.toList

/-- the name under which a reserved import is visible in the written file: `Import.String` omits the
alias when the path merely *ends with* it, and then Go uses the real package name -/
def printedLocal (i : Import) : String := if isSuffixStr i.alias i.path then i.pkg else i.alias

/-- the name the user's import spec binds in the old file -/
def userLocal (i : Import) : String := if i.alias == "" then i.pkg else i.alias

/-- `imports.Prune`: drop what the file's code does not mention (`_` and `.` imports stay) -/
def prune (used : List String) (l : List Import) : List Import :=
  l.filter fun i => let n := printedLocal i; n == "_" || n == "." || used.contains n

-- ---------------------------------------------------------------- the new file

structure NewMethod where
  recv : String
  name : String
  gqlName : String
  doc : Text        -- emitted as `// ` lines above the method; [] = no comment
  namedV : String
  namedE : String
  impl : Text       -- emitted between `{` newline and newline `}`
  hasPrev : Bool
  deriving DecidableEq, Repr, Inhabited

structure NewFile where
  name : String
  hasRoot : Bool             -- single-file layout: `type Resolver struct{}` first
  imports : List Import      -- reserved, before pruning
  methods : List NewMethod
  objects : List String      -- GraphQL names of the objects whose accessor + struct type live here
  remaining : Text
  deriving DecidableEq, Repr, Inhabited

def defaultImpl (f : Field) : Text :=
  ("panic(fmt.Errorf(\"not implemented: " ++ f.goName ++ " - " ++ f.name ++ "\"))").toList
def defaultDoc (f : Field) : Text := (f.goName ++ " is the resolver for the " ++ f.name ++ " field.").toList
def singleDefaultImpl : Text := "panic(\"not implemented\")".toList

/-- the `Resolver{…}` built for one field -/
def mkMethod (cfg : Cfg) (p : Pkg) (o : Obj) (f : Field) : NewMethod :=
  let s := structName cfg o
  let docOr (c : Text) : Text := if c != [] then c else if cfg.omitTemplateComment then [] else defaultDoc f
  match firstMatch p s f.goName with
  | some (_, d) =>
    let comment := trim (trimBackslashes d.doc)
    let impl := trim (getMethodBody d)
    if impl != [] then
      { recv := s, name := f.goName, gqlName := f.name, doc := docOr comment, namedV := d.namedV, namedE := d.namedE, impl := impl, hasPrev := true }
    else match cfg.layout with
      | .follow => { recv := s, name := f.goName, gqlName := f.name, doc := docOr comment, namedV := d.namedV, namedE := d.namedE, impl := defaultImpl f, hasPrev := true }
      | .single => { recv := s, name := f.goName, gqlName := f.name, doc := docOr [], namedV := "", namedE := "", impl := singleDefaultImpl, hasPrev := false }
  | none =>
    match cfg.layout with
    | .follow => { recv := s, name := f.goName, gqlName := f.name, doc := docOr [], namedV := "", namedE := "", impl := defaultImpl f, hasPrev := false }
    | .single => { recv := s, name := f.goName, gqlName := f.name, doc := docOr [], namedV := "", namedE := "", impl := singleDefaultImpl, hasPrev := false }

inductive Item
  | obj (name : String)
  | meth (m : NewMethod)
  deriving Repr

/-- what goes where, in the order resolvergen appends it -/
def items (cfg : Cfg) (p : Pkg) (sch : Schema) : List (String × Item) :=
  sch.flatMap fun o =>
    (if o.hasResolvers then [((match cfg.layout with | .single => cfg.singleName | .follow => o.file), Item.obj o.name)] else []) ++
    o.resolverFields.map fun f => ((match cfg.layout with | .single => cfg.singleName | .follow => f.file), Item.meth (mkMethod cfg p o f))

def dedup : List String → List String
  | [] => []
  | a :: r => a :: (dedup r).filter (· != a)

/-- the files resolvergen renders -/
def outNames (cfg : Cfg) (p : Pkg) (sch : Schema) : List String :=
  match cfg.layout with
  | .single => [cfg.singleName]
  | .follow => dedup ((items cfg p sch).map (·.1))

def mkFile (cfg : Cfg) (p : Pkg) (sch : Schema) (name : String) : NewFile :=
  let its := (items cfg p sch).filter (·.1 == name)
  { name := name
    hasRoot := cfg.layout == .single
    imports := reserve (existingImports p name)
    methods := its.filterMap fun it => match it.2 with | .meth m => some m | _ => none
    objects := its.filterMap fun it => match it.2 with | .obj n => some n | _ => none
    remaining := remainingSource (copied cfg p sch) p name }

/-- one run of resolvergen over the package -/
def regenerate (cfg : Cfg) (p : Pkg) (sch : Schema) : List NewFile := (outNames cfg p sch).map (mkFile cfg p sch)

-- ---------------------------------------------------------------- the trailing WARNING block

/-- `prefixLines "// "` -/
def prefixLines (pre : Text) (t : Text) : Text :=
  pre ++ t.flatMap fun c => if c == '\n' then '\n' :: pre else [c]

def warningHeader : Text :=
  ("// !!! WARNING !!!\n// The code below was going to be deleted when updating resolvers. It has been copied here so you have\n" ++
   "// one last chance to move it out of harms way if you want. There are two reasons this happens:\n" ++
   "//  - When renaming or deleting a resolver the old code will be put in here. You can safely delete\n" ++
   "//    it when you're done.\n" ++
   "//  - You have helper methods in this file. Move them out to keep these resolver files clean.\n").toList

def blockEnd : Text := ['*', '/']

/-- the text the template writes after the last declaration -/
def trailer (mode : TrailerMode) (rem : Text) : Text :=
  if rem == [] then []
  else match mode with
    | .blockAlways => warningHeader ++ "/*\n\t".toList ++ rem ++ "\n\t*/\n".toList
    | .lineWhenBlockEnd =>
      if hasInfix blockEnd rem then warningHeader ++ prefixLines "// ".toList rem ++ ['\n']
      else warningHeader ++ "/*\n\t".toList ++ rem ++ "\n\t*/\n".toList

/-- skip a `//` comment: everything up to and including the newline -/
def skipLine : Text → Text
  | [] => []
  | c :: t => if c == '\n' then t else skipLine t

/-- skip the rest of a `/* */` comment; `none` when it is not terminated -/
def skipBlock : Text → Option Text
  | [] => none
  | [_] => none
  | a :: b :: t => if a == '*' && b == '/' then some t else skipBlock (b :: t)

/-- Go's scanner on a file tail: only white space and comments up to EOF (`fuel` bounds the recursion; the
length of the text is always enough) -/
def commentsOnly : Nat → Text → Bool
  | _, [] => true
  | 0, _ => false
  | n + 1, c :: t =>
    if isSpace c then commentsOnly n t
    else if c == '/' then
      match t with
      | '/' :: t' => commentsOnly n (skipLine t')
      | '*' :: t' => match skipBlock t' with
        | some r => commentsOnly n r
        | none => false
      | _ => false
    else false

/-- the file tail is lexically valid Go (nothing but comments after the last declaration) -/
def validTail (t : Text) : Bool := commentsOnly (t.length + 1) t

-- ---------------------------------------------------------------- re-parsing, repeated regeneration

/-- the method as go/parser sees it in the written file. The signature text is regenerated from the
schema and is not modelled (`hdr` is left empty); the doc comment `// l1 \n // l2` reads back as the
text plus a final newline; the body is the implementation on its own lines. -/
def NewMethod.toDecl (m : NewMethod) : Decl :=
  { isFunc := true, tok := "", recv := m.recv, name := m.name,
    doc := if m.doc == [] then [] else m.doc ++ ['\n'], specDoc := m.doc,
    namedV := m.namedV, namedE := m.namedE, hdr := [], inner := '\n' :: '\t' :: (m.impl ++ ['\n']), hasBody := true }

def accessorDecl (cfg : Cfg) (o : String) : Decl :=
  { isFunc := true, tok := "", recv := cfg.rtype, name := ucFirst o, doc := [], specDoc := [], namedV := "", namedE := "",
    hdr := [], inner := (" return &" ++ lcFirst o ++ ucFirst cfg.rtype ++ "{r} ").toList, hasBody := true }

def structDecl (cfg : Cfg) (o : String) : Decl :=
  { isFunc := false, tok := "TYPE", recv := "", name := lcFirst o ++ ucFirst cfg.rtype, doc := [], specDoc := [], namedV := "", namedE := "",
    hdr := ("type " ++ lcFirst o ++ ucFirst cfg.rtype ++ " struct{ *" ++ cfg.rtype ++ " }").toList, inner := [], hasBody := false }

def rootDecl (cfg : Cfg) : Decl :=
  { isFunc := false, tok := "TYPE", recv := "", name := cfg.rtype, doc := [], specDoc := [], namedV := "", namedE := "",
    hdr := ("type " ++ cfg.rtype ++ " struct{}").toList, inner := [], hasBody := false }

/-- the written file read back (imports are given un-pruned; the comment block is not a declaration) -/
def reparse (cfg : Cfg) (nf : NewFile) : File :=
  { name := nf.name
    imports := nf.imports.map fun i => { i with alias := if isSuffixStr i.alias i.path then "" else i.alias }
    decls := (if nf.hasRoot then [rootDecl cfg] else []) ++ nf.methods.map (·.toDecl) ++
             nf.objects.map (accessorDecl cfg) ++ nf.objects.map (structDecl cfg) }

/-- write the rendered files over the package: an existing file of that name is replaced in place, a new
one is appended (file order only matters when a method is declared twice, which does not compile) -/
def writeFile (p : Pkg) (f : File) : Pkg :=
  if p.any (·.name == f.name) then p.map fun g => if g.name == f.name then f else g else p ++ [f]

def apply (cfg : Cfg) (p : Pkg) (out : List NewFile) : Pkg := out.foldl (fun q nf => writeFile q (reparse cfg nf)) p

/-- one `gqlgen generate` -/
def step (cfg : Cfg) (p : Pkg) (sch : Schema) : Pkg := apply cfg p (regenerate cfg p sch)

/-- a history of regenerations, one schema per run -/
def iterate (cfg : Cfg) (p : Pkg) : List Schema → Pkg
  | [] => p
  | s :: r => iterate cfg (step cfg p s) r

end GqlgenVerif.Rewrite
