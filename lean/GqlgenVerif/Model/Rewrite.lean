import GqlgenVerif.Gen.RewriteOffsets
import GqlgenVerif.Gen.ReserveFacts
/-!
# Model of resolver regeneration  (property C19)

A resolver package is a list of files (in `packages.Package.Syntax` order = file-name order); a file is
its import specs plus its top-level declarations with their *source text*. Mirrors, in /repo:

* `internal/rewrite/rewriter.go`
  - `GetPrevDecl(struct, method)`            → `firstMatch` (first `FuncDecl` of the whole package whose
    name and `T` / `*T` receiver match; marks it copied — it does **not** look at what is copied already)
  - `MarkStructCopied(name)`                 → `isStructDecl` (every `type` GenDecl whose first spec has that name)
  - `GetMethodBody`                          → `getMethodBody` (`getSource(Body.Pos()+a, Body.End()-b)`, the
    offsets `a`, `b` regenerated from the source: `Gen.RewriteOffsets.bodyStartOff/bodyEndOff`)
  - `GetMethodComment`                       → `Decl.doc` (`Doc.Text()`, go/ast: modelled-not-verified)
  - `ExistingImports(file)`                  → `File.imports`
  - `RemainingSource(file)`                  → `remainingSource` (skip conditions and separator from
    `Gen.RewriteOffsets`; `strings.TrimSpace` at the end)
* `plugin/resolvergen/resolver.go` `generateSingleFile` / `generatePerSchema` → `regenerate`
  (order of the rewriter calls, `TrimSpace(TrimLeft(comment, "\\"))`, `TrimSpace(body)`, the
  `implementation != ""` split of the single-file layout, `Resolver.Implementation`, which file gets which
  object / resolver, `File.Imports` after the template's own `reserveImport`s)
* `plugin/resolvergen/resolver.gotpl`        → `NewFile` (methods, then object accessors, then struct types,
  then the trailing WARNING block `trailer`, whose shape is regenerated: `Gen.RewriteOffsets.trailerMode`)
* `codegen/field.go` `ShortResolverSignature` → `NewMethod.namedV/namedE` (named results of the previous decl)
* the Go names derived from a GraphQL type name: WHICH helper resolver.go applies to compute the receiver it
  looks a previous method up under / the struct it marks copied / the accessor it looks up, and which helper
  resolver.gotpl applies to emit the receiver / accessor / struct type, are regenerated facts
  (`Gen.RewriteOffsets.lookupRecvSingle` … `emitStruct`) → `lookupName`, `markName`, `accessorLookup`,
  `structName`, `accessorName`, `structTypeName`. `templates.LcFirst` / `UcFirst` are computed (`lcFirst`,
  `ucFirst`); the values of `templates.ToGo`, `templates.ToGoPrivate` and `cases.Title(…).String` are inputs
  (`Cfg.names`, an arbitrary function: the harness calls the real helpers)
* `codegen/templates/import.go` `Reserve` / `Import.String`, `internal/imports/prune.go` → `reserve`, `printedLocal`, `prune`
* re-parsing the written file (go/parser; modelled-not-verified, tied by the correspondence run) → `reparse`,
  so that repeated regeneration is `iterate`.

Text is `List Char`. Core Lean only.
-/
namespace GqlgenVerif.Rewrite
open GqlgenVerif.Gen.RewriteOffsets
open GqlgenVerif.Gen.ReserveFacts

abbrev Text := List Char

/-- Go's `unicode.IsSpace` (what `strings.TrimSpace` trims). -/
def isSpace (c : Char) : Bool :=
  c == '\t' || c == '\n' || c.toNat == 0x0b || c.toNat == 0x0c || c == '\r' || c == ' ' ||
  c.toNat == 0x85 || c.toNat == 0xA0 || c.toNat == 0x1680 || (0x2000 ≤ c.toNat && c.toNat ≤ 0x200a) ||
  c.toNat == 0x2028 || c.toNat == 0x2029 || c.toNat == 0x202f || c.toNat == 0x205f || c.toNat == 0x3000

def trimLeft (t : Text) : Text := t.dropWhile isSpace
def trimRight (t : Text) : Text := (t.reverse.dropWhile isSpace).reverse
/-- `strings.TrimSpace` -/
def trim (t : Text) : Text := trimRight (trimLeft t)
/-- `strings.TrimLeft(s, "\\")` -/
def trimBackslashes (t : Text) : Text := t.dropWhile (· == '\\')

/-- `xs` occurs in `t` as a contiguous substring (decidable version of `List.IsInfix`). -/
def hasInfix (xs : Text) : Text → Bool
  | [] => xs.isEmpty
  | c :: t => xs.isPrefixOf (c :: t) || hasInfix xs t

structure Import where
  alias : String   -- "" = no explicit name
  path : String
  pkg : String     -- the package name behind `path` (`code.Packages.NameForPackage`)
  deriving DecidableEq, Repr, Inhabited

structure Decl where
  isFunc : Bool
  tok : String       -- GenDecl token: "IMPORT" | "TYPE" | "VAR" | "CONST"; "" for a FuncDecl
  recv : String      -- base type name of a `T` / `*T` receiver; "" when absent or not an identifier
  name : String      -- FuncDecl name; name of the first spec of a `type` GenDecl
  doc : Text         -- `Doc.Text()`
  specDoc : Text     -- the doc comment with markers removed and nothing else dropped (Spec side only)
  namedV : String    -- name of the first / second result, "" when unnamed
  namedE : String
  hdr : Text         -- source from `d.Pos()` up to the body's `{`; the whole `d.Pos()..d.End()` when no body
  inner : Text       -- source between the body's braces
  hasBody : Bool
  canon : Text := []  -- the body as gofmt prints it, trimmed (Spec side only; `trim inner` for a gofmt-ed file)
  deriving DecidableEq, Repr, Inhabited

/-- the `{ … }` of the declaration: `Body.Pos() .. Body.End()` -/
def Decl.body (d : Decl) : Text := '{' :: (d.inner ++ ['}'])
/-- `getSource(d.Pos(), d.End())` -/
def Decl.src (d : Decl) : Text := if d.hasBody then d.hdr ++ d.body else d.hdr
def Decl.isImport (d : Decl) : Bool := !d.isFunc && d.tok == "IMPORT"

structure File where
  name : String
  imports : List Import
  decls : List Decl
  deriving DecidableEq, Repr, Inhabited

abbrev Pkg := List File
abbrev Key := Nat × Nat   -- (file index, declaration index): identity of an `ast.Decl`

/-- every declaration of the package in `for f in pkg.Syntax { for d in f.Decls` order -/
def allDecls (p : Pkg) : List (Key × Decl) :=
  p.zipIdx.flatMap fun fi => fi.1.decls.zipIdx.map fun dj => ((fi.2, dj.2), dj.1)

def isMethod (s m : String) (d : Decl) : Bool := d.isFunc && d.name == m && d.recv == s
def isStructDecl (n : String) (d : Decl) : Bool := !d.isFunc && d.tok == "TYPE" && d.name == n

/-- `GetPrevDecl` -/
def firstMatch (p : Pkg) (s m : String) : Option (Key × Decl) := (allDecls p).find? fun kd => isMethod s m kd.2

/-- `GetMethodBody`: `file[Body.Pos()+a : Body.End()-b]` with the regenerated offsets -/
def getMethodBody (d : Decl) : Text :=
  (d.body.drop bodyStartOff).take (d.body.length - bodyStartOff - bodyEndOff)

-- ---------------------------------------------------------------- schema' and configuration

structure Field where
  goName : String
  name : String
  file : String      -- resolver file of the schema file that holds the field
  isResolver : Bool
  deriving DecidableEq, Repr, Inhabited

structure Obj where
  name : String
  file : String      -- resolver file of the schema file that holds the type definition
  fields : List Field
  deriving DecidableEq, Repr, Inhabited

abbrev Schema := List Obj   -- `data.Objects` (sorted by name), fields in definition order

def Obj.hasResolvers (o : Obj) : Bool := o.fields.any (·.isResolver)
def Obj.resolverFields (o : Obj) : List Field := o.fields.filter (·.isResolver)

inductive Layout | single | follow
  deriving DecidableEq, Repr, Inhabited

def mapFirst (f : Char → Char) (s : String) : String :=
  match s.toList with
  | [] => ""
  | c :: r => String.ofList (f c :: r)
/-- `templates.LcFirst` / `UcFirst` (GraphQL names are ASCII) -/
def lcFirst (s : String) : String := mapFirst Char.toLower s
def ucFirst (s : String) : String := mapFirst Char.toUpper s

/-- the values, for one GraphQL name, of the name helpers the model does not compute itself -/
structure Mangled where
  goPrivate : String   -- `templates.ToGoPrivate`
  goPublic : String    -- `templates.ToGo`
  title : String       -- `cases.Title(language.English, cases.NoLower).String`
  deriving DecidableEq, Repr, Inhabited

structure Cfg where
  layout : Layout
  rtype : String := "Resolver"          -- `resolver.type`
  singleName : String := "resolver.go"  -- `resolver.filename` (single-file layout)
  omitTemplateComment : Bool := false
  /-- `ToGoPrivate` / `ToGo` / `cases.Title` as functions of the GraphQL name: an input (any function);
  the default is what they return for names like `Query`, `Todo` -/
  names : String → Mangled := fun s => ⟨lcFirst s, ucFirst s, ucFirst s⟩
  deriving Inhabited

/-- apply one of the name helpers to a GraphQL name -/
def mangle (cfg : Cfg) : NameHelper → String → String
  | .lcFirst, s => lcFirst s
  | .ucFirst, s => ucFirst s
  | .toGo, s => (cfg.names s).goPublic
  | .toGoPrivate, s => (cfg.names s).goPrivate
  | .title, s => (cfg.names s).title

/-- the choice resolver.go makes per layout (`generateSingleFile` / `generatePerSchema`) -/
def byLayout {α : Type} (cfg : Cfg) (single follow : α) : α :=
  match cfg.layout with | .single => single | .follow => follow

/-- the receiver type the template EMITS for the resolver methods of `o`:
`func (r *{{lcFirst $resolver.Object.Name}}{{ucFirst $.ResolverType}})` -/
def structName (cfg : Cfg) (o : Obj) : String := mangle cfg emitRecv o.name ++ ucFirst cfg.rtype
/-- the receiver type under which resolver.go LOOKS UP the previous method of `o`
(`structName := templates.LcFirst(o.Name) + templates.UcFirst(data.Config.Resolver.Type)`) -/
def lookupName (cfg : Cfg) (o : Obj) : String :=
  mangle cfg (byLayout cfg lookupRecvSingle lookupRecvFollow) o.name ++ ucFirst cfg.rtype
/-- the struct type `MarkStructCopied` is called with -/
def markName (cfg : Cfg) (o : Obj) : String :=
  mangle cfg (byLayout cfg markStructSingle markStructFollow) o.name ++ ucFirst cfg.rtype
/-- the accessor `rewriter.GetMethodBody(Resolver.Type, caser.String(o.Name))` looks up -/
def accessorLookup (cfg : Cfg) (o : Obj) : String :=
  mangle cfg (byLayout cfg lookupAccessorSingle lookupAccessorFollow) o.name
/-- the accessor / struct type / accessor result the template emits for the object called `o` -/
def accessorName (cfg : Cfg) (o : String) : String := mangle cfg emitAccessor o
def structTypeName (cfg : Cfg) (o : String) : String := mangle cfg emitStruct o ++ ucFirst cfg.rtype
def accessorRetName (cfg : Cfg) (o : String) : String := mangle cfg emitAccessorRet o ++ ucFirst cfg.rtype

/-- a `GetPrevDecl` call made by resolvergen -/
structure Req where
  recv : String
  name : String
  deriving DecidableEq, Repr

/-- resolver-method lookups of one object -/
def fieldReqs (cfg : Cfg) (o : Obj) : List Req := o.resolverFields.map fun f => ⟨lookupName cfg o, f.goName⟩
/-- all lookups of one object: the accessor `func (r *Resolver) <Title o.Name>()` first -/
def objReqs (cfg : Cfg) (o : Obj) : List Req :=
  (if o.hasResolvers then [⟨cfg.rtype, accessorLookup cfg o⟩] else []) ++ fieldReqs cfg o
def reqs (cfg : Cfg) (sch : Schema) : List Req := sch.flatMap (objReqs cfg)
def resolverReqs (cfg : Cfg) (sch : Schema) : List Req := sch.flatMap (fieldReqs cfg)
/-- the resolver methods as the template writes them (receiver `structName`): what a user's file holds -/
def emittedReqs (cfg : Cfg) (sch : Schema) : List Req :=
  sch.flatMap fun o => o.resolverFields.map fun f => ⟨structName cfg o, f.goName⟩
def structNames (cfg : Cfg) (sch : Schema) : List String := (sch.filter (·.hasResolvers)).map (markName cfg)

/-- `Rewriter.copied` after resolvergen's loop -/
def copied (cfg : Cfg) (p : Pkg) (sch : Schema) : List Key :=
  ((reqs cfg sch).filterMap fun r => (firstMatch p r.recv r.name).map (·.1)) ++
  ((allDecls p).filter fun kd => (structNames cfg sch).any fun n => isStructDecl n kd.2).map (·.1)

-- ---------------------------------------------------------------- RemainingSource

/-- the skip test of `RemainingSource`'s loop, regenerated from the source -/
def skipped (cp : List Key) (k : Key) (d : Decl) : Bool :=
  (skipCopied && cp.contains k) || (!d.isFunc && skipToks.contains d.tok)

def remainingRaw (cp : List Key) (fi : Nat) (f : File) : Text :=
  f.decls.zipIdx.flatMap fun dj => if skipped cp (fi, dj.2) dj.1 then [] else dj.1.src ++ declSep.toList

def findFile (p : Pkg) (name : String) : Option (Nat × File) :=
  (p.zipIdx.find? fun fi => fi.1.name == name).map fun fi => (fi.2, fi.1)

/-- `RemainingSource(filename)` -/
def remainingSource (cp : List Key) (p : Pkg) (name : String) : Text :=
  match findFile p name with
  | some (fi, f) => if trimRemaining then trim (remainingRaw cp fi f) else remainingRaw cp fi f
  | none => []

/-- `ExistingImports(filename)` -/
def existingImports (p : Pkg) (name : String) : List Import :=
  match findFile p name with
  | some (_, f) => f.imports
  | none => []

-- ---------------------------------------------------------------- the bytes the rewriter slices

/-- `strings.ReplaceAll(s, "\r\n", "\n")` -/
def normCRLF : Text → Text
  | [] => []
  | [c] => [c]
  | c :: d :: t => if c = '\r' ∧ d = '\n' then '\n' :: normCRLF t else c :: normCRLF (d :: t)

/-- what `(*Rewriter).getFile` caches for the bytes of a file -/
def cachedWith (form : CacheForm) (bytes : Text) : Text :=
  match form with
  | .raw => bytes
  | .crlfToLf => normCRLF bytes

/-- `getSource(start, end)` of a file whose bytes are `bytes`: `start`/`end` are the byte offsets go/parser computed on
`bytes`; the text that is sliced is the cached one (form regenerated, `Gen/ReserveFacts.cacheForm`) -/
def getSourceWith (form : CacheForm) (bytes : Text) (s e : Nat) : Text := ((cachedWith form bytes).drop s).take (e - s)
def getSourceOf (bytes : Text) (s e : Nat) : Text := getSourceWith cacheForm bytes s e

-- ---------------------------------------------------------------- imports

/-- the `reserveImport` lines at the top of resolver.gotpl (alias = package name) -/
def ambient : List Import := [
  ⟨"context", "context", "context"⟩, ⟨"fmt", "fmt", "fmt"⟩, ⟨"io", "io", "io"⟩, ⟨"strconv", "strconv", "strconv"⟩,
  ⟨"time", "time", "time"⟩, ⟨"sync", "sync", "sync"⟩, ⟨"errors", "errors", "errors"⟩, ⟨"bytes", "bytes", "bytes"⟩,
  ⟨"gqlparser", "github.com/vektah/gqlparser/v2", "gqlparser"⟩, ⟨"ast", "github.com/vektah/gqlparser/v2/ast", "ast"⟩,
  ⟨"graphql", "github.com/99designs/gqlgen/graphql", "graphql"⟩,
  ⟨"introspection", "github.com/99designs/gqlgen/graphql/introspection", "introspection"⟩]

/-- the name the user's import spec binds in the old file -/
def userLocal (i : Import) : String := if i.alias == "" then i.pkg else i.alias

/-- the name `Reserve` looks up among the aliases already taken: the name the import will have in the file, or
(a variant of the source, seeded change C19-11) the package's real name whatever the alias -/
def collisionName (key : CollisionKey) (i : Import) : String :=
  match key with
  | .alias => userLocal i
  | .name => i.pkg

/-- `Imports.Reserve(path, alias?)` with the error ignored, as `File.Imports` does: a path that is
already there, or an alias that is already taken, silently drops the import. The reserved entry's
`alias` is always explicit (the package name when the user gave none). `exempt`: the aliases the source
does not run the collision test for (`if alias != "_" && alias != "." { … findByAlias … }`, `fix:` 0731d3e;
`[]` = the unconditional test of the source before it, F19h). The guard tests the alias the import will have,
whatever the lookup key is. -/
def reserve1With (key : CollisionKey) (exempt : List String) (acc : List Import) (i : Import) : List Import :=
  if acc.any (·.path == i.path) || (!exempt.contains (userLocal i) && acc.any (·.alias == collisionName key i)) then acc
  else acc ++ [{ i with alias := userLocal i }]

/-- … with the lookup key and the exemptions that are in the source now (regenerated, `Gen/ReserveFacts.collisionKey`,
`collisionExempt`) -/
def reserve1 (acc : List Import) (i : Import) : List Import := reserve1With collisionKey collisionExempt acc i

def reserve (user : List Import) : List Import := user.foldl reserve1 ambient

def isSuffixStr (suf s : String) : Bool := suf.toList.isSuffixOf s.toList

/-- `Import.String` leaves the alias out, under either form of the condition -/
def omitAliasWith (rule : AliasOmitRule) (i : Import) : Bool :=
  match rule with
  | .suffixOnly => isSuffixStr i.alias i.path
  | .suffixAndName => isSuffixStr i.alias i.path && (i.alias == i.pkg || i.pkg == "")

/-- … with the condition that is in the source now (regenerated) -/
def omitAlias (i : Import) : Bool := omitAliasWith aliasOmitRule i

/-- the name under which a reserved import is visible in the written file: without a written alias Go
uses the real package name -/
def printedLocal (i : Import) : String := if omitAlias i then i.pkg else i.alias

/-- `imports.Prune`: drop what the file's code does not mention (`_` and `.` imports stay) -/
def prune (used : List String) (l : List Import) : List Import :=
  l.filter fun i => let n := printedLocal i; n == "_" || n == "." || used.contains n

-- ---------------------------------------------------------------- the new file

structure NewMethod where
  recv : String
  name : String
  gqlName : String
  doc : Text        -- emitted as `// ` lines above the method; [] = no comment
  namedV : String
  namedE : String
  impl : Text       -- emitted between `{` newline and newline `}`
  hasPrev : Bool
  deriving DecidableEq, Repr, Inhabited

structure NewFile where
  name : String
  hasRoot : Bool             -- single-file layout: `type Resolver struct{}` first
  imports : List Import      -- reserved, before pruning
  methods : List NewMethod
  objects : List String      -- GraphQL names of the objects whose accessor + struct type live here
  remaining : Text
  deriving DecidableEq, Repr, Inhabited

def defaultImpl (f : Field) : Text :=
  "panic(fmt.Errorf(\"not implemented: ".toList ++ f.goName.toList ++ " - ".toList ++ f.name.toList ++ "\"))".toList
def defaultDoc (f : Field) : Text := f.goName.toList ++ " is the resolver for the ".toList ++ f.name.toList ++ " field.".toList
def singleDefaultImpl : Text := "panic(\"not implemented\")".toList

/-- what resolvergen reads off a previous declaration -/
structure Content where
  body : Text     -- `strings.TrimSpace(rewriter.GetMethodBody(…))`
  namedV : String
  namedE : String
  comment : Text  -- `strings.TrimSpace(strings.TrimLeft(rewriter.GetMethodComment(…), "\\"))`
  deriving DecidableEq, Repr

def content (d : Decl) : Content := ⟨trim (getMethodBody d), d.namedV, d.namedE, trim (trimBackslashes d.doc)⟩

def implStrOf (c : Option Content) : Text := match c with | some c => c.body | none => []
def commentOf (c : Option Content) : Text := match c with | some c => c.comment | none => []
/-- is the previous declaration (comment, named results) carried into the `Resolver{…}`? The follow-schema
layout always carries it, the single-file layout only when the trimmed body is not empty. -/
def keepOf (cfg : Cfg) (c : Option Content) : Bool :=
  match cfg.layout with | .follow => c.isSome | .single => implStrOf c != []
def keptComment (cfg : Cfg) (c : Option Content) : Text := if keepOf cfg c then commentOf c else []
/-- the body written for a resolver without a previous implementation -/
def defaultFor (cfg : Cfg) (f : Field) : Text :=
  match cfg.layout with | .follow => defaultImpl f | .single => singleDefaultImpl

/-- the `Resolver{…}` built for one field from what was read off the previous declaration (`none`: there is
none); `doc` / `impl` are what the template and `Resolver.Implementation` make of it. -/
def mkOf (cfg : Cfg) (o : Obj) (f : Field) (c : Option Content) : NewMethod :=
  { recv := structName cfg o, name := f.goName, gqlName := f.name
    doc := if keptComment cfg c != [] then keptComment cfg c else if cfg.omitTemplateComment then [] else defaultDoc f
    namedV := if keepOf cfg c then (c.map (·.namedV)).getD "" else ""
    namedE := if keepOf cfg c then (c.map (·.namedE)).getD "" else ""
    impl := if implStrOf c != [] then implStrOf c else defaultFor cfg f
    hasPrev := keepOf cfg c }

/-- … with `GetPrevDecl` under the receiver name `lk` -/
def mkMethodAt (cfg : Cfg) (p : Pkg) (o : Obj) (f : Field) (lk : String) : NewMethod :=
  mkOf cfg o f ((firstMatch p lk f.goName).map fun kd => content kd.2)

/-- … under the name resolver.go computes (`lookupName`); the method is written with receiver `structName` -/
def mkMethod (cfg : Cfg) (p : Pkg) (o : Obj) (f : Field) : NewMethod := mkMethodAt cfg p o f (lookupName cfg o)

inductive Item
  | obj (name : String)
  | meth (m : NewMethod)
  deriving Repr

/-- what goes where, in the order resolvergen appends it -/
def items (cfg : Cfg) (p : Pkg) (sch : Schema) : List (String × Item) :=
  sch.flatMap fun o =>
    (if o.hasResolvers then [((match cfg.layout with | .single => cfg.singleName | .follow => o.file), Item.obj o.name)] else []) ++
    o.resolverFields.map fun f => ((match cfg.layout with | .single => cfg.singleName | .follow => f.file), Item.meth (mkMethod cfg p o f))

def dedup : List String → List String
  | [] => []
  | a :: r => a :: (dedup r).filter (· != a)

/-- the files resolvergen renders -/
def outNames (cfg : Cfg) (p : Pkg) (sch : Schema) : List String :=
  match cfg.layout with
  | .single => [cfg.singleName]
  | .follow => dedup ((items cfg p sch).map (·.1))

def mkFile (cfg : Cfg) (p : Pkg) (sch : Schema) (name : String) : NewFile :=
  let its := (items cfg p sch).filter (·.1 == name)
  { name := name
    hasRoot := cfg.layout == .single
    imports := reserve (existingImports p name)
    methods := its.filterMap fun it => match it.2 with | .meth m => some m | _ => none
    objects := its.filterMap fun it => match it.2 with | .obj n => some n | _ => none
    remaining := remainingSource (copied cfg p sch) p name }

/-- one run of resolvergen over the package -/
def regenerate (cfg : Cfg) (p : Pkg) (sch : Schema) : List NewFile := (outNames cfg p sch).map (mkFile cfg p sch)

-- ---------------------------------------------------------------- the trailing WARNING block

/-- `prefixLines "// "` -/
def prefixLines (pre : Text) (t : Text) : Text :=
  pre ++ t.flatMap fun c => if c == '\n' then '\n' :: pre else [c]

def dropPrefix (pre t : Text) : Text := if pre.isPrefixOf t then t.drop pre.length else t

theorem dropPrefix_length_le (pre t : Text) : (dropPrefix pre t).length ≤ t.length := by
  unfold dropPrefix; split <;> simp

/-- undo `prefixLines`: drop the prefix at the start of every line -/
def unprefixTail (pre : Text) : Text → Text
  | [] => []
  | c :: t =>
    if c == '\n' then '\n' :: unprefixTail pre (dropPrefix pre t) else c :: unprefixTail pre t
termination_by t => t.length
decreasing_by
  all_goals simp_wf
  · exact Nat.lt_succ_of_le (dropPrefix_length_le pre t)

def unprefixLines (pre : Text) (t : Text) : Text := unprefixTail pre (dropPrefix pre t)

/-- the six `//` lines of the template above the leftover code (a character list literal, so that the
kernel can run the scanner over it cheaply) -/
def warningHeader : Text :=
  ['/', '/', ' ', '!', '!', '!', ' ', 'W', 'A', 'R', 'N', 'I', 'N', 'G', ' ', '!', '!', '!', '\n'] ++
  ['/', '/', ' ', 'T', 'h', 'e', ' ', 'c', 'o', 'd', 'e', ' ', 'b', 'e', 'l', 'o', 'w', ' ', 'w', 'a', 's', ' ', 'g', 'o', 'i', 'n', 'g', ' ', 't', 'o', ' ', 'b', 'e', ' ', 'd', 'e', 'l', 'e', 't', 'e', 'd', ' ', 'w', 'h', 'e', 'n', ' ', 'u', 'p', 'd', 'a', 't', 'i', 'n', 'g', ' ', 'r', 'e', 's', 'o', 'l', 'v', 'e', 'r', 's', '.', ' ', 'I', 't', ' ', 'h', 'a', 's', ' ', 'b', 'e', 'e', 'n', ' ', 'c', 'o', 'p', 'i', 'e', 'd', ' ', 'h', 'e', 'r', 'e', ' ', 's', 'o', ' ', 'y', 'o', 'u', ' ', 'h', 'a', 'v', 'e', '\n'] ++
  ['/', '/', ' ', 'o', 'n', 'e', ' ', 'l', 'a', 's', 't', ' ', 'c', 'h', 'a', 'n', 'c', 'e', ' ', 't', 'o', ' ', 'm', 'o', 'v', 'e', ' ', 'i', 't', ' ', 'o', 'u', 't', ' ', 'o', 'f', ' ', 'h', 'a', 'r', 'm', 's', ' ', 'w', 'a', 'y', ' ', 'i', 'f', ' ', 'y', 'o', 'u', ' ', 'w', 'a', 'n', 't', '.', ' ', 'T', 'h', 'e', 'r', 'e', ' ', 'a', 'r', 'e', ' ', 't', 'w', 'o', ' ', 'r', 'e', 'a', 's', 'o', 'n', 's', ' ', 't', 'h', 'i', 's', ' ', 'h', 'a', 'p', 'p', 'e', 'n', 's', ':', '\n'] ++
  ['/', '/', ' ', ' ', '-', ' ', 'W', 'h', 'e', 'n', ' ', 'r', 'e', 'n', 'a', 'm', 'i', 'n', 'g', ' ', 'o', 'r', ' ', 'd', 'e', 'l', 'e', 't', 'i', 'n', 'g', ' ', 'a', ' ', 'r', 'e', 's', 'o', 'l', 'v', 'e', 'r', ' ', 't', 'h', 'e', ' ', 'o', 'l', 'd', ' ', 'c', 'o', 'd', 'e', ' ', 'w', 'i', 'l', 'l', ' ', 'b', 'e', ' ', 'p', 'u', 't', ' ', 'i', 'n', ' ', 'h', 'e', 'r', 'e', '.', ' ', 'Y', 'o', 'u', ' ', 'c', 'a', 'n', ' ', 's', 'a', 'f', 'e', 'l', 'y', ' ', 'd', 'e', 'l', 'e', 't', 'e', '\n'] ++
  ['/', '/', ' ', ' ', ' ', ' ', 'i', 't', ' ', 'w', 'h', 'e', 'n', ' ', 'y', 'o', 'u', '\'', 'r', 'e', ' ', 'd', 'o', 'n', 'e', '.', '\n'] ++
  ['/', '/', ' ', ' ', '-', ' ', 'Y', 'o', 'u', ' ', 'h', 'a', 'v', 'e', ' ', 'h', 'e', 'l', 'p', 'e', 'r', ' ', 'm', 'e', 't', 'h', 'o', 'd', 's', ' ', 'i', 'n', ' ', 't', 'h', 'i', 's', ' ', 'f', 'i', 'l', 'e', '.', ' ', 'M', 'o', 'v', 'e', ' ', 't', 'h', 'e', 'm', ' ', 'o', 'u', 't', ' ', 't', 'o', ' ', 'k', 'e', 'e', 'p', ' ', 't', 'h', 'e', 's', 'e', ' ', 'r', 'e', 's', 'o', 'l', 'v', 'e', 'r', ' ', 'f', 'i', 'l', 'e', 's', ' ', 'c', 'l', 'e', 'a', 'n', '.', '\n']

def blockEnd : Text := ['*', '/']

/-- the text the template writes after the last declaration -/
def trailer (mode : TrailerMode) (rem : Text) : Text :=
  if rem == [] then []
  else match mode with
    | .blockAlways => warningHeader ++ "/*\n\t".toList ++ rem ++ "\n\t*/\n".toList
    | .lineWhenBlockEnd =>
      if hasInfix blockEnd rem then warningHeader ++ prefixLines "// ".toList rem ++ ['\n']
      else warningHeader ++ "/*\n\t".toList ++ rem ++ "\n\t*/\n".toList

/-- Go's scanner on the tail of a file, as a state machine over characters: outside a comment only white
space and `/` are acceptable. -/
inductive LexSt
  | code        -- outside any comment
  | slash       -- just read `/`
  | line        -- inside a `//` comment
  | block       -- inside a `/* */` comment
  | blockStar   -- inside a `/* */` comment, just read `*`
  deriving DecidableEq, Repr

def lexStep : LexSt → Char → Option LexSt
  | .code, c => if isSpace c then some .code else if c == '/' then some .slash else none
  | .slash, c => if c == '/' then some .line else if c == '*' then some .block else none
  | .line, c => if c == '\n' then some .code else some .line
  | .block, c => if c == '*' then some .blockStar else some .block
  | .blockStar, c => if c == '/' then some .code else if c == '*' then some .blockStar else some .block

def lexRun : LexSt → Text → Option LexSt
  | s, [] => some s
  | s, c :: t => match lexStep s c with
    | some s' => lexRun s' t
    | none => none

/-- the file tail is lexically valid Go: nothing but white space and complete comments up to EOF (a `//`
comment may be ended by EOF) -/
def validTail (t : Text) : Bool :=
  match lexRun .code t with
  | some .code => true
  | some .line => true
  | _ => false

-- ---------------------------------------------------------------- re-parsing, repeated regeneration

/-- the method as go/parser sees it in the written file. The signature text is regenerated from the
schema and is not modelled (`hdr` is left empty); the doc comment `// l1 \n // l2` reads back as the
text plus a final newline; the body is the implementation on its own lines. -/
def NewMethod.toDecl (m : NewMethod) : Decl :=
  { isFunc := true, tok := "", recv := m.recv, name := m.name,
    doc := if m.doc == [] then [] else m.doc ++ ['\n'], specDoc := m.doc,
    namedV := m.namedV, namedE := m.namedE, hdr := [], inner := '\n' :: '\t' :: (m.impl ++ ['\n']), hasBody := true,
    canon := m.impl }

def accessorDecl (cfg : Cfg) (o : String) : Decl :=
  { isFunc := true, tok := "", recv := cfg.rtype, name := accessorName cfg o, doc := [], specDoc := [], namedV := "", namedE := "",
    hdr := [], inner := (" return &" ++ accessorRetName cfg o ++ "{r} ").toList, hasBody := true }

def structDecl (cfg : Cfg) (o : String) : Decl :=
  { isFunc := false, tok := "TYPE", recv := "", name := structTypeName cfg o, doc := [], specDoc := [], namedV := "", namedE := "",
    hdr := ("type " ++ structTypeName cfg o ++ " struct{ *" ++ cfg.rtype ++ " }").toList, inner := [], hasBody := false }

def rootDecl (cfg : Cfg) : Decl :=
  { isFunc := false, tok := "TYPE", recv := "", name := cfg.rtype, doc := [], specDoc := [], namedV := "", namedE := "",
    hdr := ("type " ++ cfg.rtype ++ " struct{}").toList, inner := [], hasBody := false }

/-- the written file read back (imports are given un-pruned; the comment block is not a declaration) -/
def reparse (cfg : Cfg) (nf : NewFile) : File :=
  { name := nf.name
    imports := nf.imports.map fun i => { i with alias := if omitAlias i then "" else i.alias }
    decls := (if nf.hasRoot then [rootDecl cfg] else []) ++ nf.methods.map (·.toDecl) ++
             nf.objects.map (accessorDecl cfg) ++ nf.objects.map (structDecl cfg) }

/-- write the rendered files over the package: an existing file of that name is replaced in place, a new
one is appended (file order only matters when a method is declared twice, which does not compile) -/
def writeFile (p : Pkg) (f : File) : Pkg :=
  if p.any (·.name == f.name) then p.map fun g => if g.name == f.name then f else g else p ++ [f]

def apply (cfg : Cfg) (p : Pkg) (out : List NewFile) : Pkg := out.foldl (fun q nf => writeFile q (reparse cfg nf)) p

/-- one `gqlgen generate` -/
def step (cfg : Cfg) (p : Pkg) (sch : Schema) : Pkg := apply cfg p (regenerate cfg p sch)

/-- a history of regenerations, one schema per run -/
def iterate (cfg : Cfg) (p : Pkg) : List Schema → Pkg
  | [] => p
  | s :: r => iterate cfg (step cfg p s) r

end GqlgenVerif.Rewrite
