import GqlgenVerif.Model.Order
import GqlgenVerif.Model.SortCmp
/-!
# RenderOrder — the order in which `templates.Render` executes its root templates (C18)

`codegen/templates/templates.go Render` collects the names of the parsed templates from `t.Templates()` - a range
over a Go MAP, so the delivery order is random per call - drops the names that end in `_.gotpl` and those that do not
end in `.gotpl`, and then orders what is left with

```go
sort.SliceStable(roots, func(i, j int) bool {
    if strings.HasSuffix(roots[i], "!.gotpl") && !strings.HasSuffix(roots[j], "!.gotpl") { return true }
    if strings.HasSuffix(roots[j], "!.gotpl") && !strings.HasSuffix(roots[i], "!.gotpl") { return false }
    return roots[i] < roots[j]
})
```

Every root is executed into ONE output file in that order, so the sort is the only thing between the map order and
the bytes of the file. The comparator literal is a REGENERATED fact (`go/extract/renderorder.go` ->
`Gen/RenderOrder.lean`): a list of guarded returns (`Clause`: a Boolean formula over "element i is important" /
"element j is important", and the constant returned) followed by the final comparison of the two names. `less` runs
it. Gqlgen's own template sets hold at most one `!.gotpl` file; a plugin's set (`Options.TemplateFS`, or the directory
of the caller) may hold any number, which is where a comparator that is not a strict order shows.

Names are byte strings (`List Nat`, Go's `<` on strings = lexicographic on bytes). Core Lean only.
-/
namespace GqlgenVerif.RenderOrder
open GqlgenVerif.Order

/-- the condition of one `if … { return <const> }` of the comparator: a formula over `HasSuffix(roots[i], imp)` and
`HasSuffix(roots[j], imp)` -/
inductive Cond where
  | impI | impJ
  | not (c : Cond)
  | and (a b : Cond)
  | or (a b : Cond)
deriving Repr

structure Clause where
  cond : Cond
  ret : Bool
deriving Repr

/-- the final `return roots[a] < roots[b]` -/
inductive Final where
  | ltIJ | ltJI
deriving DecidableEq, Repr

structure Comparator where
  clauses : List Clause
  final : Final
  /-- `sort.SliceStable` (true) or `sort.Slice` -/
  stable : Bool
deriving Repr

def Cond.eval (p q : Bool) : Cond → Bool
  | .impI => p
  | .impJ => q
  | .not c => !c.eval p q
  | .and a b => a.eval p q && b.eval p q
  | .or a b => a.eval p q || b.eval p q

/-- the guarded returns, top to bottom: `some r` = the comparator returns `r`, `none` = falls through to the final
comparison. `p` / `q`: element i / element j is important. -/
def decideClauses (p q : Bool) : List Clause → Option Bool
  | [] => none
  | c :: cs => if c.cond.eval p q then some c.ret else decideClauses p q cs

/-- what the guards have to decide: an important template before an ordinary one, never after; otherwise by name -/
def spec (p q : Bool) : Option Bool :=
  if p && !q then some true else if q && !p then some false else none

/-- the comparator applied to the names at `i` (= `a`) and `j` (= `b`) -/
def less (c : Comparator) (imp : List Nat → Bool) (a b : List Nat) : Bool :=
  match decideClauses (imp a) (imp b) c.clauses with
  | some r => r
  | none => match c.final with
    | .ltIJ => decide (a < b)
    | .ltJI => decide (b < a)

/-- the sort key the comparator is meant to implement: important templates first, then by name -/
def key (imp : List Nat → Bool) (a : List Nat) : List Nat := (if imp a then 0 else 1) :: a

def hasSuffix (suf s : List Nat) : Bool := suf.isSuffixOf s

/-- `Render`'s filter: not `…_.gotpl`, and `….gotpl` -/
def isRoot (skipSuffix rootSuffix : List Nat) (n : List Nat) : Bool :=
  !hasSuffix skipSuffix n && hasSuffix rootSuffix n

/-- the order in which the roots are executed, given the names in the order `t.Templates()` delivered them -/
def renderOrder (c : Comparator) (imp : List Nat → Bool) (delivered : List (List Nat)) : List (List Nat) :=
  SortCmp.sortWith (less c imp) delivered

/-- the comparator with the `&& !HasSuffix(other, …)` halves of its guards dropped: two important templates each
compare less than the other -/
def weakened : Comparator := ⟨[⟨.impI, true⟩, ⟨.impJ, false⟩], .ltIJ, true⟩

end GqlgenVerif.RenderOrder
