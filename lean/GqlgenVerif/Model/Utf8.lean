/-!
# Go's UTF-8 `range` decoding over byte strings

Bytes are `Nat`s (`< 256` for every real string; nothing below depends on that bound).
`chunk` is one iteration of Go's `for i, c := range s` / `utf8.DecodeRuneInString`:
an ASCII byte, a well-formed 2–4 byte sequence (Go's `first`/`acceptRanges` tables, which are
RFC 3629's), or an offending byte, for which Go yields `RuneError` with width 1.
Mirrors: Go `unicode/utf8` (modelled, validated by the C08 correspondence run).
-/
namespace GqlgenVerif

abbrev Bytes := List Nat

inductive Chunk where
  | ascii (b : Nat)
  | multi (bs : Bytes)
  | bad (b : Nat)
deriving Repr, DecidableEq

/-- lead byte ↦ (sequence length, accepted range of the second byte) -/
def lead (b : Nat) : Option (Nat × Nat × Nat) :=
  if 0xC2 ≤ b ∧ b ≤ 0xDF then some (2, 0x80, 0xBF)
  else if b = 0xE0 then some (3, 0xA0, 0xBF)
  else if 0xE1 ≤ b ∧ b ≤ 0xEC then some (3, 0x80, 0xBF)
  else if b = 0xED then some (3, 0x80, 0x9F)
  else if 0xEE ≤ b ∧ b ≤ 0xEF then some (3, 0x80, 0xBF)
  else if b = 0xF0 then some (4, 0x90, 0xBF)
  else if 0xF1 ≤ b ∧ b ≤ 0xF3 then some (4, 0x80, 0xBF)
  else if b = 0xF4 then some (4, 0x80, 0x8F)
  else none

def isCont (b : Nat) : Bool := 0x80 ≤ b && b ≤ 0xBF

def chunk : Bytes → Option (Chunk × Bytes)
  | [] => none
  | b0 :: r =>
    if b0 < 0x80 then some (.ascii b0, r) else
    match lead b0, r with
    | some (2, lo, hi), b1 :: r' =>
      if lo ≤ b1 && b1 ≤ hi then some (.multi [b0, b1], r') else some (.bad b0, r)
    | some (3, lo, hi), b1 :: b2 :: r' =>
      if lo ≤ b1 && b1 ≤ hi && isCont b2 then some (.multi [b0, b1, b2], r') else some (.bad b0, r)
    | some (4, lo, hi), b1 :: b2 :: b3 :: r' =>
      if lo ≤ b1 && b1 ≤ hi && isCont b2 && isCont b3 then some (.multi [b0, b1, b2, b3], r')
      else some (.bad b0, r)
    | _, _ => some (.bad b0, r)

theorem chunk_length {s : Bytes} {c : Chunk} {r : Bytes} (h : chunk s = some (c, r)) :
    r.length < s.length := by
  unfold chunk at h
  split at h
  · cases h
  · split at h
    · cases h; simp
    · split at h <;> (try split at h) <;> cases h <;> simp <;> omega

/-- the bytes a chunk occupies in the source -/
def Chunk.src : Chunk → Bytes
  | .ascii b => [b]
  | .multi bs => bs
  | .bad b => [b]

theorem chunk_src {s : Bytes} {c : Chunk} {r : Bytes} (h : chunk s = some (c, r)) :
    s = c.src ++ r := by
  unfold chunk at h
  split at h
  · cases h
  · split at h
    · cases h; simp [Chunk.src]
    · split at h <;> (try split at h) <;> cases h <;> simp [Chunk.src]

/-- A byte string is valid UTF-8 iff Go's decoding never reports an offending byte. -/
def validUtf8 (s : Bytes) : Bool :=
  match h : chunk s with
  | none => true
  | some (.bad _, _) => false
  | some (_, r) => validUtf8 r
termination_by s.length
decreasing_by exact chunk_length h

/-- what a chunk contributes to the sanitised string: an offending byte becomes U+FFFD (EF BF BD) -/
def Chunk.clean : Chunk → Bytes
  | .ascii b => [b]
  | .multi bs => bs
  | .bad _ => [0xEF, 0xBF, 0xBD]

/-- The replacement the property speaks of (Go's `strings.ToValidUTF8(s, "\uFFFD")` without run
    merging, i.e. `[]rune` conversion): every offending byte becomes U+FFFD; everything else is kept. -/
def sanitize (s : Bytes) : Bytes :=
  match h : chunk s with
  | none => []
  | some (c, r) => c.clean ++ sanitize r
termination_by s.length
decreasing_by exact chunk_length h

end GqlgenVerif
