import GqlgenVerif.Model.Sched
import GqlgenVerif.Gen.WsTables

/-!
# The websocket transport as an interleaving transition system (C11)

Mirrors `/repo/graphql/handler/transport/websocket.go` at the granularity of its critical sections
(`c.mu.Lock() … c.mu.Unlock()`), for both subprotocols; the message-type tables come from
`Gen/WsTables.lean`, which is regenerated from `websocket_graphqlws.go`,
`websocket_graphql_transport_ws.go` and `websocket_subprotocol.go` on every run.

Threads and the Go code they stand for
* **reader**     `wsConnection.init` (state `awaitInit`; no other thread of the connection exists yet,
                 so the whole handling of the first message is one step) and the `for` loop of
                 `wsConnection.run` (state `running`): `recv` takes the next client message and turns
                 it into the list `todo` of critical sections that the Go code executes for it
                 (`subscribe`, the `switch m.t` arms); `sec` executes the next one.
* **operation**  the goroutine started by `subscribe` (one per registered operation): `opStep` consumes
                 one resolver event (`emit` = `sendResponse`; `finish` = the deferred function, which
                 writes the terminating frames and deletes `active[id]` in one critical section, then
                 calls `cancel`); `opCancel` = a resolver that observes `ctx.Done()` and ends.
* **tickers**    `keepAlive`, `keepAlivePongOnly`, `ping`: `tick`.
* **watcher**    `closeOnCancel`: `watch` (optional connection_error with the close reason, then close).
* **environment** `clientSend` (a client frame arrives), `deliver` (the resolver of an operation produces
                 an event), `serverCancel` (the connection context is cancelled), `initTimeout`,
                 `readErr` (NextMessage fails on the connection the server closed itself).

Shared state: `active` (`wsConnection.active`, id -> instance whose cancel function is registered),
`closed`, `closeCount` (CloseFunc invocations), per operation the `cancelled` flag of its context, and
the history `trace` (frames that were written while the socket was open, and ghost events).
A frame write (`wsConnection.write`) on a closed socket fails and leaves no trace, as do the noOp and
error arms of `fromMessage`.

Everything is a total computable function; `fire` returns `none` when the action is not enabled.
-/
namespace GqlgenVerif.Ws
open GqlgenVerif.Gen.WsTables

inductive Proto | gqlws | tws
  deriving DecidableEq, Repr, Hashable

def Proto.all : Proto → List String
  | .gqlws => gqlwsAll
  | .tws => twsAll

def Proto.toMessage : Proto → String → Option MT
  | .gqlws => gqlwsToMessage
  | .tws => twsToMessage

def Proto.fromMessage : Proto → MT → Option (Option String)
  | .gqlws => gqlwsFromMessage
  | .tws => twsFromMessage

/-- configuration of the `transport.Websocket` value and of the resolver under test -/
structure Cfg where
  proto : Proto
  /-- ticker frame types that are armed (`keepAlive`, `pong`, `ping`) -/
  ticks : List MT
  /-- the resolver ignores context cancellation -/
  stubborn : Bool
  /-- the connection context carries a close reason (`AppendCloseReason`) -/
  closeReason : Bool
  /-- `InitTimeout` is set -/
  initTimeout : Bool
  deriving Repr

/-- the payload of a client frame, as far as the transport distinguishes it -/
inductive Payload
  | none   -- no payload
  | num    -- `42`: neither an init payload nor operation parameters
  | obj    -- `{}`
  | rej    -- `{"reject":true}`: the InitFunc refuses it
  | sub    -- a valid subscription operation
  | badq   -- operation with a syntax error (protocol-kind error from CreateOperationContext)
  | pq     -- valid operation refused with a user-kind error (CreateOperationContext, non-protocol)
  deriving DecidableEq, Repr, Hashable

inductive ClientMsg
  | msg (wire : String) (id : String) (pl : Payload) (tag : Nat)
  | garbage     -- a frame that does not decode (`errInvalidMsg`)
  | eof         -- the client went away / sent a close frame: NextMessage returns an error
  deriving DecidableEq, Repr, Hashable

inductive FinKind | normal | err | panic
  deriving DecidableEq, Repr, Hashable

/-- resolver events -/
inductive Cmd
  | emit
  | adderr                 -- `AddSubscriptionError`, the resolver goes on
  | finish (k : FinKind)   -- the response handler returns nil (after an AddSubscriptionError for `err`) or panics
  deriving DecidableEq, Repr, Hashable

/-- one critical section (or lock-free action) of the reader thread -/
inductive Sec
  | send (t : MT)                          -- connection-level frame: `c.write`
  | opErr (id : String)                    -- `sendError(id, …)` in `subscribe`'s early exits
  | opData (id : String)                   -- `sendResponse(id, errors)` in `subscribe`'s early exit
  | opComplete (id : String) (afterErr : Bool)  -- `complete(id)` in `subscribe`'s early exits
  | register (id : String) (tag : Nat)     -- `c.active[id] = cancel; go func() …`
  | stop (id : String)                     -- `closer := c.active[id]; closer()`
  | close (code : Nat)                     -- `c.close(code, …)`
  | finish                                 -- `return` from `run` (deferred `cancel()`)
  deriving DecidableEq, Repr, Hashable

inductive Ev
  | frame (t : MT) (wire : String) (id : String) (info : String)
  | closeFrame (code : Nat)
  | closeFunc (code : Nat)
  | initAccepted          -- ghost: the InitFunc accepted the connection
  | accept (id : String)  -- ghost: the reader accepted a start/subscribe for `id`
  | exec (tag : Nat)      -- ghost: an operation goroutine was started (DispatchOperation will run)
  deriving DecidableEq, Repr, Hashable

structure Op where
  id : String
  tag : Nat
  inst : Nat
  done : Bool
  cancelled : Bool
  errs : Nat
  cmd : Option Cmd
  seq : Nat
  deriving DecidableEq, Repr, Hashable

inductive RPc | awaitInit | running | done
  deriving DecidableEq, Repr, Hashable

inductive WPc | idle | closing | done
  deriving DecidableEq, Repr, Hashable

structure State where
  rpc : RPc
  todo : List Sec
  inbox : List ClientMsg
  initialised : Bool
  ops : List Op
  active : List (String × Nat)
  nextInst : Nat
  closed : Bool
  closeCount : Nat
  connCancelled : Bool
  runCancelled : Bool
  wpc : WPc
  trace : List Ev
  deriving DecidableEq, Repr, Hashable

def State.initial : State :=
  { rpc := .awaitInit, todo := [], inbox := [], initialised := false, ops := [], active := [],
    nextInst := 0, closed := false, closeCount := 0, connCancelled := false, runCancelled := false,
    wpc := .idle, trace := [] }

/-- record an event that is only visible while the socket is open -/
def emit (e : Ev) (s : State) : State :=
  if s.closed then s else { s with trace := s.trace ++ [e] }

/-- record a ghost event unconditionally -/
def note (e : Ev) (s : State) : State := { s with trace := s.trace ++ [e] }

/-- `wsConnection.write` / `messageExchanger.Send` -/
def write (cfg : Cfg) (t : MT) (id info : String) (s : State) : State :=
  match cfg.proto.fromMessage t with
  | some (some w) => emit (.frame t w id info) s
  | _ => s

def isActive (s : State) (id : String) : Bool := s.active.any (fun e => e.1 == id)

/-- `for _, closer := range c.active { closer() }` -/
def cancelActive (s : State) : List Op :=
  s.ops.map fun o => if s.active.any (fun e => e.2 == o.inst) then { o with cancelled := true } else o

/-- `wsConnection.close` -/
def doClose (code : Nat) (s : State) : State :=
  if s.closed then s else
  { s with trace := s.trace ++ [.closeFrame code, .closeFunc code], ops := cancelActive s,
           closed := true, closeCount := s.closeCount + 1 }

/-- `wsConnection.init`, whole (no other thread of the connection exists yet) -/
def initHandle (cfg : Cfg) (m : ClientMsg) (s : State) : State :=
  let fail (connErr : Bool) (code : Nat) : State :=
    let s1 := if connErr then write cfg .connectionError "" "-" s else s
    { doClose code s1 with rpc := .done }
  match m with
  | .eof => fail false 1002
  | .garbage => fail true 1002
  | .msg w _ pl _ =>
    if !(cfg.proto.all.contains w) then fail true 1002 else
    match cfg.proto.toMessage w with
    | none => fail false 1002
    | some .init =>
      match pl with
      | .num => fail true 1002
      | .rej => fail true 1000
      | _ =>
        let s1 := note .initAccepted s
        let s2 := write cfg .connectionAck "" "-" s1
        let s3 := write cfg .keepAlive "" "-" s2
        { s3 with rpc := .running, initialised := true }
    | some .connectionClose => fail false 1000
    | some _ => fail true 1002

/-- the `switch m.t` of `wsConnection.run` (and the decisions of `subscribe`) for one message: the
critical sections to execute.  The duplicate-id test is the first critical section of the `start` arm;
`recv` itself touches no shared state, so evaluating that test in the same step is exact. -/
def runHandle (cfg : Cfg) (m : ClientMsg) (s : State) : State :=
  match m with
  | .eof => { s with todo := [.finish] }
  | .garbage => { s with todo := [.finish] }
  | .msg w id pl tag =>
    if !(cfg.proto.all.contains w) then { s with todo := [.finish] } else
    match cfg.proto.toMessage w with
    | none => { s with todo := [.finish] }
    | some .start =>
      if isActive s id then { s with todo := [.send .connectionError, .close 4409, .finish] }
      else
        match pl with
        | .sub => { emit (.accept id) s with todo := [.register id tag] }
        | .pq => { emit (.accept id) s with todo := [.opData id, .opComplete id false] }
        | _ => { emit (.accept id) s with todo := [.opErr id, .opComplete id true] }
    | some .stop => { s with todo := [.stop id] }
    | some .connectionClose => { s with todo := [.close 1000, .finish] }
    | some .ping => { s with todo := [.send .pong] }
    | some .pong => s
    | some _ => { s with todo := [.send .connectionError, .close 1002, .finish] }

def newOp (id : String) (tag inst : Nat) : Op :=
  { id := id, tag := tag, inst := inst, done := false, cancelled := false, errs := 0, cmd := none, seq := 0 }

/-- execute one section of the reader (the caller has already removed it from `todo`) -/
def runSec (cfg : Cfg) (sec : Sec) (s : State) : State :=
  match sec with
  | .send t => write cfg t "" "-" s
  | .opErr id => write cfg .error id "-" s
  | .opData id => write cfg .data id "-" s
  | .opComplete id _ => write cfg .complete id "-" s
  | .register id tag =>
    note (.exec tag)
      { s with ops := s.ops ++ [newOp id tag s.nextInst],
               active := (id, s.nextInst) :: s.active.filter (fun e => e.1 != id),
               nextInst := s.nextInst + 1 }
  | .stop id =>
    match s.active.find? (fun e => e.1 == id) with
    | some (_, k) => { s with ops := s.ops.map fun o => if o.inst = k then { o with cancelled := true } else o }
    | none => s
  | .close code => doClose code s
  | .finish => { s with rpc := .done, runCancelled := true }

def errInfo (o : Op) (n : Nat) : String :=
  "+".intercalate (List.replicate n s!"E{o.tag}")

/-- the frames the deferred function of the operation goroutine writes -/
def terminal (o : Op) : FinKind → List (MT × String)
  | .normal => if o.errs = 0 then [(.complete, "-")] else [(.error, errInfo o o.errs)]
  | .err => [(.error, errInfo o (o.errs + 1))]
  | .panic => [(.error, if o.errs = 0 then s!"P{o.tag}" else s!"P{o.tag}+" ++ errInfo o o.errs), (.complete, "-")]

/-- the deferred function: terminating frames and `delete(c.active, id)` in one critical section, then `cancel()` -/
def opFinish (cfg : Cfg) (o : Op) (k : FinKind) (s : State) : State :=
  let s1 := (terminal o k).foldl (fun s f => write cfg f.1 o.id f.2 s) s
  { s1 with active := s1.active.filter (fun e => e.1 != o.id),
            ops := s1.ops.map fun p =>
              if p.inst = o.inst then { p with done := true, cancelled := true, cmd := none } else p }

def updOp (inst : Nat) (f : Op → Op) (s : State) : State :=
  { s with ops := s.ops.map fun p => if p.inst = inst then f p else p }

inductive Action
  | clientSend (m : ClientMsg)
  | deliver (inst : Nat) (c : Cmd)
  | serverCancel
  | recv
  | sec
  | initTimeout
  | readErr
  | opStep (inst : Nat)
  | opCancel (inst : Nat)
  | tick (t : MT)
  | watch
  deriving DecidableEq, Repr, Hashable

/-- the frame types the three tickers write (`keepAlive`, `keepAlivePongOnly`, `ping`) -/
def isTickKind : MT → Bool
  | .keepAlive => true
  | .pong => true
  | .ping => true
  | _ => false

def findOp (s : State) (inst : Nat) : Option Op := s.ops.find? (fun o => o.inst == inst)

/-- the step function: `none` = not enabled -/
def fire (cfg : Cfg) (a : Action) (s : State) : Option State :=
  match a with
  | .clientSend m => some { s with inbox := s.inbox ++ [m] }
  | .serverCancel => some { s with connCancelled := true }
  | .deliver k c =>
    match findOp s k with
    | some o => if !o.done && o.cmd.isNone then some (updOp k (fun p => { p with cmd := some c }) s) else none
    | none => none
  | .recv =>
    match s.todo, s.inbox with
    | [], m :: rest =>
      match s.rpc with
      | .awaitInit => some (initHandle cfg m { s with inbox := rest })
      | .running => some (runHandle cfg m { s with inbox := rest })
      | .done => none
    | _, _ => none
  | .sec =>
    match s.todo with
    | x :: rest => some (runSec cfg x { s with todo := rest })
    | [] => none
  | .initTimeout =>
    if cfg.initTimeout && s.rpc == .awaitInit then some { doClose 1002 s with rpc := .done } else none
  | .readErr =>
    if s.rpc == .running && s.todo.isEmpty && s.closed then some { s with rpc := .done, runCancelled := true }
    else none
  | .opStep k =>
    match findOp s k with
    | some o =>
      if o.done then none else
      match o.cmd with
      | none => none
      | some .emit =>
        some (updOp k (fun p => { p with cmd := none, seq := p.seq + 1 })
          (write cfg .data o.id s!"{o.tag}.{o.seq}" s))
      | some .adderr => some (updOp k (fun p => { p with cmd := none, errs := p.errs + 1 }) s)
      | some (.finish fk) => some (opFinish cfg o fk s)
    | none => none
  | .opCancel k =>
    match findOp s k with
    | some o =>
      if !o.done && o.cmd.isNone && !cfg.stubborn && (o.cancelled || s.connCancelled)
      then some (opFinish cfg o .normal s) else none
    | none => none
  | .tick t =>
    if s.initialised && cfg.ticks.contains t && isTickKind t then some (write cfg t "" "-" s) else none
  | .watch =>
    if s.initialised && (s.connCancelled || s.runCancelled) then
      match s.wpc with
      | .idle =>
        if cfg.closeReason then some { write cfg .connectionError "" "-" s with wpc := .closing }
        else some { doClose 1000 s with wpc := .done }
      | .closing => some { doClose 1000 s with wpc := .done }
      | .done => none
    else none

/-- one atomic step of some thread or of the environment -/
def Step (cfg : Cfg) (s s' : State) : Prop := ∃ a, fire cfg a s = some s'

/-- every state the connection can be in: any client message sequence, any resolver behaviour,
any schedule, any length -/
def Reachable (cfg : Cfg) : State → Prop :=
  Sched.Reachable (fun s => s = State.initial) (Step cfg)

/-- the context an operation's resolver sees is cancelled -/
def Op.ctxDone (s : State) (o : Op) : Bool := o.cancelled || s.connCancelled

/-- every thread of the connection has run to completion -/
def Quiescent (s : State) : Prop :=
  s.rpc = .done ∧ s.todo = [] ∧ (s.initialised = true → s.wpc = .done) ∧ ∀ o ∈ s.ops, o.done = true

end GqlgenVerif.Ws
