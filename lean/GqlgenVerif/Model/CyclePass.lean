import GqlgenVerif.Model.Order
/-!
# CyclePass — modelgen's pointer pass over the generated structs (C18)

Mirrors `plugin/modelgen/models.go` `findAndHandleCyclicalRelationships` (run by `MutateConfig` when
`struct_fields_always_pointers: false`). For every struct A (in the order of `b.Models`) and every field `A.f` whose
type is a struct VALUE (`isStruct`: not a pointer, not a slice) of a generated struct B: every value field of B of
type A is turned into a pointer, and if there was one (and B is not A itself) `A.f` is turned into a pointer too.
A field that has become a pointer is no longer a value, so a LATER field `A.g : B` finds no cycle any more: the
result depends on the order in which the structs are visited. `MutateConfig` fills `b.Models` by ranging over the
map `cfg.Schema.Types`; it is deterministic only because it sorts `b.Models` by name BEFORE this pass
(`modelPointers`).

`val` = `isStruct(field.Type)`; names are compared as Go names (`templates.ToGo(Name)` — the identity on the
names the harness uses; assumption listed in the evidence). Core Lean only.
-/
namespace GqlgenVerif.CyclePass

abbrev Name := List Nat

structure CField where
  name : Name
  target : Name
  val : Bool
deriving Repr, DecidableEq

structure CModel where
  name : Name
  fields : List CField
deriving Repr, DecidableEq

/-- `for _, fieldB := range structB.Fields { if isStruct && type == A { cyclicalReferenceFound = true; … } }` -/
def pointsBack (aName : Name) (b : CModel) : Bool := b.fields.any (fun f => f.val && f.target == aName)

/-- `fieldB.Type = types.NewPointer(fieldB.Type)` for every value field of B of type A -/
def markBack (aName : Name) (b : CModel) : CModel :=
  { b with fields := b.fields.map (fun f => if f.val && f.target == aName then { f with val := false } else f) }

/-- `fieldA.Type = types.NewPointer(fieldA.Type)` -/
def setPtr (ms : List CModel) (ii fi : Nat) : List CModel :=
  match ms[ii]? with
  | none => ms
  | some a =>
    match a.fields[fi]? with
    | none => ms
    | some f => ms.set ii { a with fields := a.fields.set fi { f with val := false } }

/-- the body of `for _, fieldA := range structA.Fields`: the inner `for jj, structB := range b.Models` with its
`break` (second component of the fold state) -/
def visitField (ms : List CModel) (ii fi : Nat) : List CModel :=
  match ms[ii]? with
  | none => ms
  | some a =>
    match a.fields[fi]? with
    | none => ms
    | some fa =>
      if !fa.val then ms else
      ((List.range ms.length).foldl (fun (st : List CModel × Bool) jj =>
        if st.2 then st else
        match st.1[jj]? with
        | none => st
        | some b =>
          if b.name != fa.target then st else
          if pointsBack a.name b && ii != jj then (setPtr (st.1.set jj (markBack a.name b)) ii fi, true)
          else (st.1.set jj (markBack a.name b), false)) (ms, false)).1

def visitModel (ms : List CModel) (ii : Nat) : List CModel :=
  match ms[ii]? with
  | none => ms
  | some a => (List.range a.fields.length).foldl (fun st fi => visitField st ii fi) ms

/-- `findAndHandleCyclicalRelationships(b)` on `b.Models = ms` -/
def cyclePass (ms : List CModel) : List CModel := (List.range ms.length).foldl visitModel ms

/-- what `MutateConfig` does with the models it collected from the map in the order `ms`: sort by name, then the pass -/
def modelPointers (ms : List CModel) : List CModel := cyclePass (Order.sortByKey (·.name) ms)

/-- is field `f` of model `m` still a struct value? -/
def valOf (ms : List CModel) (m f : Name) : Option Bool :=
  match ms.find? (·.name == m) with
  | none => none
  | some a => (a.fields.find? (·.name == f)).map (·.val)

end GqlgenVerif.CyclePass
