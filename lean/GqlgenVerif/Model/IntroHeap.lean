/-!
# Introspection reads the server's schema, it never writes it (C07)

Mirrors `graphql/introspection/type.go`. A `*introspection.Type` wraps either a definition or an `*ast.Type` node
OF THE SERVER'S `*ast.Schema` (field types, argument types, input field types) - the structure every request of the
server is validated against and that lives as long as the server. `(*Type).OfType` of a `NON_NULL` wrapper has to
describe "the same type without the `!`": it makes a node with `NonNull = false` and wraps that.

`Heap` is the heap of `ast.Type` nodes; the first `n` nodes are the schema's. How `OfType` obtains the node it
clears `NonNull` on is regenerated from the source on every run (`Gen/IntroStores.lean`): `copy` (`cpy := *t.typ`,
a new node) or `alias` (`cpy := t.typ`, the schema's own node).
-/
namespace GqlgenVerif.IntroHeap

structure TNode where
  nonNull : Bool
  /-- element type of a list type -/
  elem : Option Nat
  named : String
  deriving DecidableEq, Repr

abbrev Heap := List TNode

inductive Unwrap where
  /-- `cpy := *t.typ; cpy.NonNull = false; return WrapTypeFromType(t.schema, &cpy)` -/
  | copy
  /-- `cpy := t.typ; cpy.NonNull = false; return WrapTypeFromType(t.schema, cpy)` -/
  | alias
  deriving DecidableEq, Repr

/-- where a store of package introspection goes: into something the function made itself, or through a pointer
into what it was given (receiver, parameter, anything reached from them) -/
inductive Root where
  | own
  | shared
  deriving DecidableEq, Repr

/-- `(*Type).Kind` for a wrapper of node `a` -/
def kind (h : Heap) (a : Nat) : String :=
  match h[a]? with
  | none => "?"
  | some n => if n.nonNull then "NON_NULL" else if n.elem.isSome then "LIST" else n.named

/-- `(*Type).OfType` for a wrapper of node `a`: the node the result wraps, and the heap afterwards -/
def ofType (u : Unwrap) (h : Heap) (a : Nat) : Option Nat × Heap :=
  match h[a]? with
  | none => (none, h)
  | some n =>
    if n.nonNull then
      match u with
      | .copy => (some h.length, h ++ [{ n with nonNull := false }])
      | .alias => (some a, h.set a { n with nonNull := false })
    else (n.elem, h)

/-- the `ofType` resolutions of any number of introspection requests, on any nodes (the schema's or nodes made
by earlier resolutions), in any order -/
def walk (u : Unwrap) (h : Heap) (calls : List Nat) : Heap := calls.foldl (fun h a => (ofType u h a).2) h

end GqlgenVerif.IntroHeap
