/-!
# Step vocabularies for the regenerated skeleton of `graphql/executor`  (C03, secondary tie)

`go/extract/pipelinesteps.go` re-reads `executor.go` / `extensions.go` on every run and writes
`Gen/PipelineSteps.lean` in these vocabularies: the gates of `CreateOperationContext` in source order,
the skeleton of `parseQuery` (with the lock regions around the rule swap and around `Validate`), the
direction of the two loops of `processExtensions` and its interceptor table. `model…` below is what
the hand-written `Model/Pipeline.lean` / `Model/SuggRace.lean` implement; `Props/C03.lean` proves the
regenerated lists equal to them and states the concurrency theorems over the regenerated skeleton.
Core Lean only.
-/
namespace GqlgenVerif.Pipeline.Steps

inductive CreateStep where
  | pmLoop | parseQuery | selectOp | variables | cmLoop | accept
  | other (src : String)
  deriving DecidableEq, Repr

inductive PqStep where
  | cacheGet | hitReturn | parse | parseErrReturn | noOperationReturn
  | disableBegin | disableEnd
  | lock | unlock | rlock | runlock
  | removeFoct | replaceWs | validate
  | invalidReturn | cacheAdd | okReturn
  | other (src : String)
  deriving DecidableEq, Repr

/-- the order `Pipeline.create` tests things in -/
def modelCreate : List CreateStep :=
  [.pmLoop, .parseQuery, .selectOp, .variables, .cmLoop, .accept]

/-- what `Pipeline.parseQuery` does (swap and Validate each inside their lock region) -/
def modelParseQuery : List PqStep :=
  [.cacheGet, .hitReturn, .parse, .parseErrReturn, .noOperationReturn,
   .disableBegin, .lock, .removeFoct, .replaceWs, .unlock, .disableEnd,
   .rlock, .validate, .runlock, .invalidReturn, .cacheAdd, .okReturn]

/-- the table `processExtensions` is modelled with -/
def modelInterceptorTable : List (String × String × String) :=
  [("OperationInterceptor", "operationMiddleware", "p.InterceptOperation"),
   ("ResponseInterceptor", "responseMiddleware", "p.InterceptResponse"),
   ("RootFieldInterceptor", "rootFieldMiddleware", "p.InterceptRootField"),
   ("FieldInterceptor", "fieldMiddleware", "p.InterceptField")]

def PqStep.isSync : PqStep → Bool
  | .lock | .unlock | .rlock | .runlock | .removeFoct | .replaceWs | .validate => true
  | .other _ => true
  | _ => false

/-- projection of a skeleton on the steps that touch the rule list or its mutex -/
def syncView (l : List PqStep) : List PqStep := l.filter PqStep.isSync

/-- `RemoveRule`+`ReplaceRule` run inside one writer-lock region and `Validate` inside a reader-lock
region of the same mutex: the swap is atomic with respect to every other swap and every Validate. -/
def swapAtomic (l : List PqStep) : Bool :=
  syncView l == [.lock, .removeFoct, .replaceWs, .unlock, .rlock, .validate, .runlock]

/-- the guard shape as three-valued datum: one writer region around both calls / one writer region per
call / anything else (`0` / `1` / `2`; `Model/SuggRace.lean` turns it into `LockShape`) -/
def lockShapeCode (l : List PqStep) : Nat :=
  if syncView l == [.lock, .removeFoct, .replaceWs, .unlock, .rlock, .validate, .runlock] then 0
  else if syncView l == [.lock, .removeFoct, .unlock, .lock, .replaceWs, .unlock, .rlock, .validate, .runlock] then 1
  else 2

/-- a document is stored only after the error return that follows `Validate` -/
def addAfterValidation : List PqStep → Bool
  | [] => true
  | .cacheAdd :: _ => false
  | .validate :: rest =>
    -- after Validate: nothing but the reader unlock may precede the error return, and the Add comes after it
    match rest.filter (fun s => s != .runlock) with
    | .invalidReturn :: _ => true
    | r => !r.contains .cacheAdd
  | _ :: rest => addAfterValidation rest

end GqlgenVerif.Pipeline.Steps
