/-!
# C10 — request histories against a server configured like production (query cache, APQ)

What one request can leave behind for the next one on the way to the executor, as an executable model
(core Lean only):

* `parseQuery`  — `(*Executor).parseQuery` (graphql/executor/executor.go): a cache hit returns the cached
  document **without validating it**; a miss parses, refuses documents that do not parse / have no operation /
  fail validation, and stores the document with `queryCache.Add`. *Where* that `Add` sits relative to the three
  refusals is the `Gate`; it is regenerated from source on every run (go/extract/parsegate.go ->
  `Gen/ParseGate.lean`). `Gate.stores c` says whether a miss on a document of class `c` has run `Add` by the
  time it leaves the function.
* `Cache`       — graphql/handler/lru (hashicorp LRU): most recent first, `Get` and `Add` move to the front,
  `Add` evicts beyond the capacity. Capacity 0 is `graphql.NoCache` (what `handler.New` has without
  `SetQueryCache`). `graphql.MapCache` is a capacity no history reaches.
* `step`        — `CreateOperationContext` up to `parseQuery`: the APQ extension
  (`AutomaticPersistedQuery.MutateOperationParameters`, graphql/handler/extension/apq.go) first - undecodable
  extension, version other than 1, hash without a query (looked up; `PersistedQueryNotFound`), hash with a
  query (must be the query's hash; registered) - then `parseQuery` on the query it ends up with. The APQ
  store is modelled without eviction (its capacity is 100 entries in `NewDefaultServer`; the harness keeps
  histories below that).

Documents are numbered (`Nat`); `cls` gives each number the class the *library* (gqlparser's parser and
validator, with the configured token limit) assigns to that query string - computed by the harness with the
library itself. Document `emptyQ` is the empty query string.
-/
namespace GqlgenVerif.ReqHist

/-- what gqlparser says about a query string -/
inductive QClass | parseErr | noOp | invalid | valid
  deriving DecidableEq, Repr

/-- where `queryCache.Add` sits in `parseQuery`: is it dominated by the early return for … -/
structure Gate where
  /-- … a document the parser refuses -/
  addAfterParse : Bool
  /-- … a document without an operation -/
  addAfterNonEmpty : Bool
  /-- … a document that fails validation -/
  addAfterValidate : Bool
  deriving DecidableEq, Repr

/-- the code as it should be: only a document that passed all three checks is stored -/
def Gate.all : Gate := ⟨true, true, true⟩

/-- has a cache miss on a document of this class run `queryCache.Add` when it leaves `parseQuery`? -/
def Gate.stores (g : Gate) : QClass → Bool
  | .parseErr => !g.addAfterParse
  | .noOp => !g.addAfterNonEmpty
  | .invalid => !g.addAfterValidate
  | .valid => true

/-- what the request gets from `CreateOperationContext` up to and including `parseQuery` -/
inductive Out
  | parseError | noOperation | validationError
  /-- the document (of this class) is handed on: operation lookup, variables, complexity, **execution** -/
  | run (c : QClass)
  | apqNotFound | apqMismatch | apqVersion | apqInvalid
  /-- the transport answered before the executor was asked (decode error, unsupported request) -/
  | notReached
  deriving DecidableEq, Repr

/-- the answer of a server that has seen nothing: parse, check, validate -/
def fresh : QClass → Out
  | .parseErr => .parseError
  | .noOp => .noOperation
  | .invalid => .validationError
  | .valid => .run .valid

abbrev Cache := List Nat

/-- `lru.Get` on a hit: the entry becomes the most recent one -/
def touch (c : Cache) (q : Nat) : Cache := q :: c.erase q

/-- `lru.Add`: most recent, older entries beyond the capacity are evicted -/
def add (cap : Nat) (c : Cache) (q : Nat) : Cache := (q :: c.erase q).take cap

/-- `(*Executor).parseQuery` -/
def parseQuery (g : Gate) (cap : Nat) (cls : Nat → QClass) (c : Cache) (q : Nat) : Out × Cache :=
  if q ∈ c then (.run (cls q), touch c q)
  else (fresh (cls q), if g.stores (cls q) then add cap c q else c)

/-- the `persistedQuery` extension of a request as the APQ extension sees it -/
inductive ApqExt
  | none | invalid | version
  /-- version 1 with this hash; hashes are numbered like the documents: hash `h` is the hash of document `h` -/
  | hash (h : Nat)
  deriving DecidableEq, Repr

inductive Step
  /-- the request never reached `CreateOperationContext` -/
  | unreached
  | op (q : Nat) (x : ApqExt)
  deriving DecidableEq, Repr

/-- the empty query string -/
def emptyQ : Nat := 0

structure St where
  cache : Cache
  apq : List (Nat × Nat)
  deriving DecidableEq, Repr

def St.init : St := ⟨[], []⟩

def viaCache (g : Gate) (cap : Nat) (cls : Nat → QClass) (s : St) (apq : List (Nat × Nat)) (q : Nat) : Out × St :=
  let r := parseQuery g cap cls s.cache q
  (r.1, ⟨r.2, apq⟩)

def step (g : Gate) (cap : Nat) (apqOn : Bool) (cls : Nat → QClass) (s : St) : Step → Out × St
  | .unreached => (.notReached, s)
  | .op q x =>
    if !apqOn then viaCache g cap cls s s.apq q else
    match x with
    | .none => viaCache g cap cls s s.apq q
    | .invalid => (.apqInvalid, s)
    | .version => (.apqVersion, s)
    | .hash h =>
      if q = emptyQ then
        match s.apq.lookup h with
        | none => (.apqNotFound, s)
        | some q' => viaCache g cap cls s s.apq q'
      else if h ≠ q then (.apqMismatch, s)
      else viaCache g cap cls s ((h, q) :: s.apq) q

def runAll (g : Gate) (cap : Nat) (apqOn : Bool) (cls : Nat → QClass) : St → List Step → List Out
  | _, [] => []
  | s, x :: xs => (step g cap apqOn cls s x).1 :: runAll g cap apqOn cls (step g cap apqOn cls s x).2 xs

/-- the Spec on one answer: gqlgen hands only validated documents on (anything else is executed with
`Field.Definition == nil`: the generated executor's `panic("unknown field")`, a nil dereference in
complexity.go - gqlgen's own panic path) -/
def Out.ok : Out → Bool
  | .run c => c == .valid
  | _ => true

end GqlgenVerif.ReqHist
