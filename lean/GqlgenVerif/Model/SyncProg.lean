/-!
# Hand-written synchronisation as control-flow skeletons (C05)

`go/extract/syncfacts.go` translates every function of gqlgen's runtime (non-test files under `graphql/`) that
unlocks a mutex by hand, or that sends on a channel outside a `select` with other arms, into a `List Stmt`: the
control flow of its body (`if` / `switch` / `select` = a choice, `for` / `range` = a loop, `return`, `break`,
`continue`) with only the operations on that ONE mutex (or channel) left in place.

`exec σ p h` is the set of ways in which one run of `p` can end when it starts with counter `h`; the
interpretation `σ` of the primitive operations decides what the counter is:

* `mutexSem`: `h` = how often the mutex is held by this run. `Lock` of a held mutex never returns and `Unlock`
  of a free one is a fatal error (`Out.stuck`). `balanced p`: every path ends with the mutex free, so the next
  caller of the function (the next error of the same response in
  `apollofederatedtracingv1.(*TreeBuilder).addProtobufError`) can take it.
* `chanSem cap`: `h` = number of values this run has put into a channel of capacity `cap` whose receiver has
  gone away (it took the timeout arm: `transport.(*wsConnection).nextMessageWithTimeout`). A send into a full
  buffer never returns (`Out.stuck`). `neverBlocks cap p`: the goroutine running `p` ends whatever the receiver does.

Loops are executed zero times or once, and the body must hand the counter back unchanged (`loopOut`); `iter`
(any number of rounds) and `exec_loop_sound` in `Props/C05Sync.lean` show that this covers every number of rounds.
-/
namespace GqlgenVerif.SyncProg

inductive Prim where
  | lock | unlock | send | other
deriving Repr, DecidableEq

inductive Stmt where
  | prim (p : Prim)
  | ret | brk | cont
  | alt (a b : List Stmt)
  | loop (body : List Stmt)
deriving Repr

/-- how a run (of a statement, a list of statements, a function body) ends -/
inductive Out where
  | fall (h : Nat) | ret (h : Nat) | brk (h : Nat) | cont (h : Nat) | stuck
deriving Repr, DecidableEq

abbrev Sem := Prim → Nat → Out

def mutexSem : Sem
  | .lock, h => if h = 0 then .fall 1 else .stuck
  | .unlock, 0 => .stuck
  | .unlock, h + 1 => .fall h
  | _, h => .fall h

def chanSem (cap : Nat) : Sem
  | .send, h => if h < cap then .fall (h + 1) else .stuck
  | _, h => .fall h

/-- what the end of one round of a loop body means for the loop that started the round with counter `h` -/
def loopOut (h : Nat) : Out → Out
  | .fall h' => if h' = h then .fall h else .stuck
  | .cont h' => if h' = h then .fall h else .stuck
  | .brk h' => .fall h'
  | .ret h' => .ret h'
  | .stuck => .stuck

/-- continue with `k` after an outcome that falls through -/
def andThen (o : Out) (k : Nat → List Out) : List Out :=
  match o with
  | .fall h => k h
  | o => [o]

mutual
def execS (σ : Sem) : Stmt → Nat → List Out
  | .prim p, h => [σ p h]
  | .ret, h => [.ret h]
  | .brk, h => [.brk h]
  | .cont, h => [.cont h]
  | .alt a b, h => execL σ a h ++ execL σ b h
  | .loop b, h => .fall h :: (execL σ b h).map (loopOut h)
def execL (σ : Sem) : List Stmt → Nat → List Out
  | [], h => [.fall h]
  | s :: r, h => (execS σ s h).flatMap (fun o => andThen o (execL σ r))
end

/-- a function body ended properly with counter 0 -/
def Out.clean : Out → Bool
  | .fall 0 => true
  | .ret 0 => true
  | _ => false

def Out.notStuck : Out → Bool
  | .stuck => false
  | _ => true

/-- every path through the body leaves the mutex free (and never locks it twice, never unlocks it free) -/
def balanced (p : List Stmt) : Bool := (execL mutexSem p 0).all Out.clean

/-- no path through the body blocks in a send although nobody receives any more -/
def neverBlocks (cap : Nat) (p : List Stmt) : Bool := (execL (chanSem cap) p 0).all Out.notStuck

/-- `n` consecutive calls of a function on the same mutex: each starts in the state the previous one left -/
def calls (p : List Stmt) : Nat → Nat → List Out
  | 0, h => [.ret h]
  | n + 1, h => (execL mutexSem p h).flatMap (fun o =>
      match o with
      | .fall h' => calls p n h'
      | .ret h' => calls p n h'
      | _ => [.stuck])

/-- `n` rounds of a loop body, honestly: every round starts with the counter the previous one ended with -/
def iter (σ : Sem) (b : List Stmt) : Nat → Nat → List Out
  | 0, h => [.fall h]
  | n + 1, h => (execL σ b h).flatMap (fun o =>
      match o with
      | .fall h' => iter σ b n h'
      | .cont h' => iter σ b n h'
      | .brk h' => [.fall h']
      | .ret h' => [.ret h']
      | .stuck => [.stuck])

/-- the body of `addProtobufError` as it is: lock; path unknown → unlock, return; marshal error → unlock,
    return; unlock -/
def addErrorFixed : List Stmt :=
  [.prim .lock, .alt [] [.prim .unlock, .ret], .alt [.prim .unlock, .ret] [], .prim .unlock]

/-- the same with the unlock of the "path not found" exit dropped -/
def addErrorDropped : List Stmt :=
  [.prim .lock, .alt [] [.ret], .alt [.prim .unlock, .ret] [], .prim .unlock]

/-- `k` sends in a row -/
def sends (k : Nat) : List Stmt := List.replicate k (.prim .send)

end GqlgenVerif.SyncProg
