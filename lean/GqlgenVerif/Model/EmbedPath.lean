import GqlgenVerif.Gen.EmbedRule
/-!
# Which schema files the generated executor embeds (C17, dimension "where the schema files live")

Mirrors the `cfg.Sources` loop of `codegen.BuildData` (codegen/data.go):

* `outputDir := cfg.Exec.Dir()` and `sourcePath := filepath.Join(wd, s.Name)` are CLEAN ABSOLUTE paths; a clean absolute
  path is its list of components (`Path`), `absText` writes it back (`/p/graph`).
* `relative := filepath.ToSlash(filepath.Rel(outputDir, sourcePath))`: `relComps` (drop the common components, one `..`
  per remaining component of the base, then the remaining components of the target; `.` when nothing remains) and
  `relText`.
* the decision itself is NOT modelled here: it is `Gen.EmbedRule.embeddable`, regenerated from the source on every
  run, applied to the three texts (`embeds`).
* Spec: `validPattern` = what `//go:embed "<pattern>"` accepts of a file pattern (`io/fs.ValidPath`: slash-separated,
  no empty / `.` / `..` element): only a file BELOW the directory of the Go file can be embedded.

Text = list of code points (`/` = 47, `.` = 46).
-/
namespace GqlgenVerif.EmbedPath
open GqlgenVerif.Gen

abbrev Comp := List Nat
abbrev Path := List Comp

def dotdot : Comp := [46, 46]

/-- components joined by `/` -/
def join : Path → List Nat
  | [] => []
  | [c] => c
  | c :: d :: cs => c ++ 47 :: join (d :: cs)

/-- the text of a clean absolute path -/
def absText (p : Path) : List Nat := 47 :: join p

/-- `filepath.Rel(base, targ)` on clean absolute paths, as components -/
def relComps : Path → Path → Path
  | [], ss => ss
  | o :: os, [] => (o :: os).map (fun _ => dotdot)
  | o :: os, s :: ss => if o = s then relComps os ss else (o :: os).map (fun _ => dotdot) ++ s :: ss

/-- … as text (`.` when base and target are the same path) -/
def relText (out src : Path) : List Nat :=
  match relComps out src with
  | [] => [46]
  | cs => join cs

/-- a path component as the file system has them: not empty, no separator, neither `.` nor `..` -/
def validComp (c : Comp) : Bool := c != [] && !c.contains 47 && c != [46] && c != dotdot

/-- Spec: a pattern `//go:embed` accepts for a single file (io/fs.ValidPath) -/
def validPattern (p : Path) : Bool := p != [] && p.all validComp

/-- the decision of BuildData for the schema file `src` and the exec output directory `out` -/
def embeds (out src : Path) (builtIn : Bool) : Bool :=
  EmbedRule.embeddable (relText out src) (absText src) (absText out) builtIn

/-- `src` lies below `out` (component-wise, not as text) -/
def below (out src : Path) : Bool := out.isPrefixOf src && out != src

/-- split a text at `/` (driver side: the harness sends whole paths) -/
def splitSlash : List Nat → Path
  | [] => [[]]
  | c :: cs =>
    match splitSlash cs with
    | [] => [[c]]
    | h :: t => if c = 47 then [] :: h :: t else (c :: h) :: t

/-- components of a clean absolute path text (`/a/b` -> [a, b], `/` -> []) -/
def ofAbs (t : List Nat) : Path := (splitSlash t).filter (· != [])

end GqlgenVerif.EmbedPath
