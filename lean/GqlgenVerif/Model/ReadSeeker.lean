/-!
# The reader gqlgen hands to user code for an uploaded file (`io.ReadSeeker`)

`graphql/handler/transport/reader.go`: `bytesReader{s *[]byte; i int64}` is the reader of every variable path of
an upload that is kept in memory (`r.ContentLength < MaxMemory`); larger requests are spilled and every path gets
its own `*os.File`. User code may do with it whatever the `io.ReadSeeker` contract allows: reads of any size, `Seek`
with any whence to any position - before the start (refused), inside, exactly at and BEHIND the end (accepted, as
for `bytes.Reader` and `os.File`), reads repeated at the end, several readers of one file used interleaved.

* `stepImpl F` mirrors `(*bytesReader).Read` / `Seek` statement by statement, generic in the `Facts` that
  `go/extract/readerfacts.go` regenerates from the source on every run (the comparison of the end-of-data test, the
  arms of `switch whence`, the test that refuses a position, whether the position is stored / advanced).
  The slice expression `(*r.s)[r.i:]` is an explicit `panic` outcome when `r.i` is outside `0..len`.
* `stepSpec k` is the Spec: the semantics of `bytes.Reader` (`k = .mem`) resp. `os.File` (`k = .file`; differs only
  in that a read into an empty buffer never reports EOF).  Written directly, not derived from the implementation.
* `run` / `runMulti` thread the position(s) through a script; a panic ends the script (user code is unwound).

Positions are `int64` in Go; `r.i + offset` wraps, `wrap64` models that (both in the implementation and in
`bytes.Reader`; the kernel refuses an overflowing file offset, which is the same observable answer).
-/
namespace GqlgenVerif.ReadSeeker

/-- comparison operator of a guard `a <op> b` -/
inductive Cmp | ge | gt | eq | ne | le | lt
  deriving DecidableEq, Repr

def Cmp.holds : Cmp → Int → Int → Bool
  | .ge, a, b => decide (b ≤ a)
  | .gt, a, b => decide (b < a)
  | .eq, a, b => decide (a = b)
  | .ne, a, b => decide (a ≠ b)
  | .le, a, b => decide (a ≤ b)
  | .lt, a, b => decide (a < b)

/-- what an arm of `switch whence` adds the offset to -/
inductive Base | zero | cur | len
  deriving DecidableEq, Repr

def Base.val : Base → Int → Int → Int
  | .zero, _, _ => 0
  | .cur, pos, _ => pos
  | .len, _, n => n

/-- regenerated from reader.go (and the one construction site in http_form_multipart.go) -/
structure Facts where
  /-- Read: `if r.i <cmp> int64(len(*r.s)) { return 0, io.EOF }` -/
  eofCmp : Cmp
  /-- Read: `r.i += int64(n)` after `n = copy(b, (*r.s)[r.i:])` -/
  advance : Bool
  /-- Seek: arms of `switch whence` as (constant, base of `abs = base + offset`); `default` returns an error -/
  whence : List (Int × Base)
  /-- Seek: `if abs <cmp> 0 { return 0, error }` in front of the store -/
  refuse : Option Cmp
  /-- Seek: `r.i = abs` -/
  store : Bool
  /-- `&bytesReader{s: &fileBytes, i: <initPos>}` -/
  initPos : Int
  /-- the construction stands inside `for _, path := range paths`: one reader per mapped path -/
  perPath : Bool
  deriving DecidableEq, Repr

/-- the reader as it has to be: `bytes.Reader` -/
def Facts.std : Facts :=
  { eofCmp := .ge, advance := true, whence := [(0, .zero), (1, .cur), (2, .len)], refuse := some .lt, store := true,
    initPos := 0, perPath := true }

def wrap64 (x : Int) : Int := (x + 9223372036854775808) % 18446744073709551616 - 9223372036854775808

inductive Op
  | read (n : Nat)                     -- `Read(make([]byte, n))`
  | seek (whence : Int) (off : Int)    -- `Seek(off, whence)`
  deriving DecidableEq, Repr

inductive Res
  | data (bs : List Nat) (eof : Bool)  -- `n = len bs`, `err = io.EOF` or nil
  | at (abs : Int)                     -- Seek returned `abs, nil`
  | refused                            -- Seek returned an error (position unchanged)
  | panic                              -- runtime error: slice bounds out of range
  deriving DecidableEq, Repr

def Facts.refuses (F : Facts) (abs : Int) : Bool :=
  match F.refuse with
  | some c => c.holds abs 0
  | none => false

/-- `(*bytesReader).Read` / `Seek` (the nil-slice guard is not modelled: the one construction site passes `&fileBytes`) -/
def stepImpl (F : Facts) (data : List Nat) (pos : Int) : Op → Res × Int
  | .read n =>
    if F.eofCmp.holds pos data.length then (.data [] true, pos)
    else if pos < 0 ∨ (data.length : Int) < pos then (.panic, pos)          -- (*r.s)[r.i:]
    else
      let bs := (data.drop pos.toNat).take n                                 -- copy(b, …)
      (.data bs false, if F.advance then pos + bs.length else pos)
  | .seek w off =>
    match F.whence.lookup w with
    | none => (.refused, pos)
    | some b =>
      let abs := wrap64 (b.val pos data.length + off)
      if F.refuses abs then (.refused, pos) else (.at abs, if F.store then abs else pos)

inductive Kind | mem | file
  deriving DecidableEq, Repr

/-- Spec: `bytes.Reader` / `os.File` over the part's bytes -/
def stepSpec (k : Kind) (data : List Nat) (pos : Int) : Op → Res × Int
  | .read n =>
    if k = .file ∧ n = 0 then (.data [] false, pos)
    else if (data.length : Int) ≤ pos then (.data [] true, pos)
    else
      let bs := (data.drop pos.toNat).take n
      (.data bs false, pos + bs.length)
  | .seek w off =>
    let base : Option Int := if w = 0 then some 0 else if w = 1 then some pos else if w = 2 then some data.length else none
    match base with
    | none => (.refused, pos)
    | some b =>
      let abs := wrap64 (b + off)
      if abs < 0 then (.refused, pos) else (.at abs, abs)

/-- a script on one reader; a panic unwinds user code -/
def run (step : Int → Op → Res × Int) : Int → List Op → List Res
  | _, [] => []
  | p, o :: os =>
    match step p o with
    | (.panic, _) => [.panic]
    | (r, p') => r :: run step p' os

def upd (st : Nat → Int) (k : Nat) (v : Int) : Nat → Int := fun j => if j = k then v else st j

/-- a script on several readers (reader `k` has its own data, kind and position) -/
def runMulti (step : Nat → Int → Op → Res × Int) : (Nat → Int) → List (Nat × Op) → List (Nat × Res)
  | _, [] => []
  | st, (k, o) :: os =>
    match step k (st k) o with
    | (.panic, _) => [(k, .panic)]
    | (r, p') => (k, r) :: runMulti step (upd st k p') os

/-- the bytes a trace delivered, in order -/
def delivered : List Res → List Nat
  | [] => []
  | .data bs _ :: rs => bs ++ delivered rs
  | _ :: rs => delivered rs

def proj {α : Type} (k : Nat) (l : List (Nat × α)) : List α :=
  l.filterMap fun x => if x.1 = k then some x.2 else none

end GqlgenVerif.ReadSeeker
