import GqlgenVerif.Model.Schema
/-! Where the schema-directive chain of a field comes from (`codegen/field.go`): `bindField` puts the directives written
    on the DEFINITION of the type the field returns in front of the field's own (`f.Directives = append(dirs,
    f.Directives...)`), `ImplDirectives` keeps the ones whose definition lists FIELD_DEFINITION, OBJECT or INPUT_OBJECT,
    and `directives.gotpl` wraps position `i+1` around position `i`: the LAST entry is the outermost wrapper, so a field's
    own directives run OUTSIDE the ones inherited from its type. `FieldDef.dirs` of the execution model is this list. -/
namespace GqlgenVerif

/-- a directive the schema declares -/
structure DirDef where
  name : String
  locs : List String
  /-- `Directive.SkipRuntime`: no implementation slot in the generated `DirectiveRoot` (built-in directives, and the ones
      a plugin configures so: federation's `@key`, `@shareable`, ...) -/
  skipRuntime : Bool := false
deriving Repr, Inhabited

/-- `ImplDirectives`: `!SkipRuntime && (IsLocation(FIELD_DEFINITION, OBJECT) || IsLocation(INPUT_OBJECT))` -/
def DirDef.runsOnFields (d : DirDef) : Bool :=
  !d.skipRuntime && d.locs.any fun l => l == "FIELD_DEFINITION" || l == "OBJECT" || l == "INPUT_OBJECT"

def runsOnFields (defs : List DirDef) (n : String) : Bool :=
  match defs.find? (·.name == n) with
  | some d => d.runsOnFields
  | none => true

/-- `bindField` + `ImplDirectives`: inherited first (innermost), own last (outermost) -/
def implDirectives (defs : List DirDef) (inherited own : List String) : List String :=
  (inherited ++ own).filter (runsOnFields defs)

end GqlgenVerif
