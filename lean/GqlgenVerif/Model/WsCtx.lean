import GqlgenVerif.Gen.WsCtx
/-!
# The context tree built by `wsConnection.subscribe` (graphql/handler/transport/websocket.go)

`Gen/WsCtx.lean` (regenerated from source on every run) lists, in source order, every statement of
`subscribe` that derives a context from another one, registers a cancel function in `c.active`, hands a
context to a consumer, or calls a cancel function.  This file replays that list symbolically:

* a context is a node of a forest; node `0` is the connection context `c.ctx` (what `InitFunc` returned);
  `ctx' := f(parent, …)` creates a fresh child of `parent`'s current node (Go: cancelling a context cancels
  exactly its descendants);
* a guard valuation `on` says which `if` conditions hold (`c.initPayload != nil`, `err != nil`, …); a
  statement runs when its guard holds; `return` ends the replay;
* `Run.opCtx` collects the contexts the operation actually runs under: what is handed to
  `c.exec.DispatchOperation` and to the response handler `responses(ctx)` inside the goroutine.

`Ws.lean` abstracts an operation's context to the flag `Op.cancelled`, set by `stop` / `close` through the
function registered in `c.active`.  That is sound only if the registered cancel function cancels an *ancestor*
of the contexts in `opCtx` - for every guard valuation, in particular with and without an init payload.
-/
namespace GqlgenVerif.WsCtx
open GqlgenVerif.Gen.WsCtx

structure Run where
  next : Nat := 1
  /-- child → parent -/
  parent : List (Nat × Nat) := []
  /-- variable → the node it currently holds -/
  env : List (String × Nat) := []
  /-- cancel-function variable → the node it cancels -/
  cancels : List (String × Nat) := []
  /-- nodes whose cancel function was stored in `c.active` before the goroutine started -/
  registered : List Nat := []
  /-- nodes cancelled by the goroutine's deferred epilogue -/
  epilogue : List Nat := []
  opCtx : List Nat := []
  spawned : Bool := false
  returned : Bool := false
  /-- a statement referred to a context / cancel variable that holds nothing -/
  dangling : Bool := false
  deriving Repr, DecidableEq

/-- pseudo-conditions the extractor adds for loops, deferred functions and switch arms: always taken -/
def isMarker (c : String) : Bool := c == "loop" || c == "deferred" || c == "case"

def holds (on : List String) (g : Guard) : Bool :=
  g.all fun (c, pol) => isMarker c || (on.contains c == pol)

def lookupCtx (r : Run) (v : String) : Option Nat :=
  if v == "c.ctx" then some 0 else r.env.lookup v

/-- the functions whose context argument is what the operation runs under -/
def isOperationConsumer (fn : String) : Bool :=
  fn == "c.exec.DispatchOperation" || fn == "responses"

def stepEv (on : List String) (r : Run) : Ev → Run
  | .derive lhs fn parent cancel g inGo =>
    if r.returned || !holds on g then r else
    match lookupCtx r parent with
    | none => { r with dangling := true }
    | some p =>
      let n := r.next
      { r with next := n + 1, parent := (n, p) :: r.parent, env := (lhs, n) :: r.env,
               cancels := (match cancel with | some cv => (cv, n) :: r.cancels | none => r.cancels),
               opCtx := if inGo && isOperationConsumer fn then p :: r.opCtx else r.opCtx }
  | .use fn arg g inGo =>
    if r.returned || !holds on g then r else
    match lookupCtx r arg with
    | none => { r with dangling := true }
    | some p => if inGo && isOperationConsumer fn then { r with opCtx := p :: r.opCtx } else r
  | .register _ cv g inGo =>
    if r.returned || !holds on g then r else
    match r.cancels.lookup cv with
    | none => { r with dangling := true }
    | some n => if inGo || r.spawned then r else { r with registered := n :: r.registered }
  | .callCancel cv g inGo =>
    if r.returned || !holds on g then r else
    match r.cancels.lookup cv with
    | none => { r with dangling := true }
    | some n => if inGo && g.any (fun c => c.1 == "deferred") then { r with epilogue := n :: r.epilogue } else r
  | .ret g _ => if r.returned || !holds on g then r else { r with returned := true }
  | .spawn => if r.returned then r else { r with spawned := true }
  | .deferred => r

def run (on : List String) (evs : List Ev) : Run := evs.foldl (stepEv on) {}

/-- `n` and its ancestors -/
def chain (parent : List (Nat × Nat)) : Nat → Nat → List Nat
  | 0, n => [n]
  | fuel + 1, n =>
    match parent.lookup n with
    | some p => n :: chain parent fuel p
    | none => [n]

/-- cancelling `a` cancels `n` -/
def descends (r : Run) (a n : Nat) : Bool := (chain r.parent r.parent.length n).contains a

def guardOf : Ev → Guard
  | .derive _ _ _ _ g _ | .use _ _ g _ | .register _ _ g _ | .callCancel _ g _ | .ret g _ => g
  | _ => []

/-- the real conditions occurring in the guards -/
def conds (evs : List Ev) : List String :=
  ((evs.flatMap guardOf).map (·.1)).filter (fun c => !isMarker c) |>.eraseDups

def subsets : List String → List (List String)
  | [] => [[]]
  | x :: xs => let r := subsets xs; r ++ r.map (x :: ·)

/-- every valuation of the `if` conditions of the event list -/
def valuations (evs : List Ev) : List (List String) := subsets (conds evs)

/-- For one valuation: if `subscribe` gets as far as starting the operation goroutine, then exactly one cancel
function was registered in `c.active` before, the operation runs under at least two recorded contexts (executor
and response handler), each of them is cancelled by the registered function and by the connection context, and
the goroutine's epilogue calls the registered function. -/
def wellCancelled (r : Run) : Bool :=
  !r.dangling &&
  (!r.spawned ||
    (r.registered.length == 1 && r.opCtx.length ≥ 2 &&
      r.registered.all (fun c => r.opCtx.all (fun n => descends r c n) && descends r 0 c &&
        r.epilogue.contains c)))

end GqlgenVerif.WsCtx
