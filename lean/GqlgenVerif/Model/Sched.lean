/-!
# Generic interleaving semantics

A concurrent system is a set of states with an initial-state predicate and a step relation in which
*one* thread performs *one* atomic action (`step s s'`); which thread moves is not constrained, so
`Reachable` covers every schedule, every environment input and every run length.

`Reachable.invariant` is the standard induction principle: a predicate that holds initially and is
preserved by every step holds in every reachable state.  `Reachable.invariant_under` is the same with
an already established invariant available as a hypothesis (to stack invariants).

`Precedes p q tr` is the usual ordering property of a history: every `q`-event is preceded by a
`p`-event; `Precedes.snoc` is the rule for histories that only grow at the end.

Core Lean only; nothing here is specific to one property (used by C11; meant for C03/C05/C06/C12/C13/C20).
-/
namespace GqlgenVerif.Sched

/-- states reachable from `init` by finitely many `step`s, in any interleaving -/
inductive Reachable {σ : Type} (init : σ → Prop) (step : σ → σ → Prop) : σ → Prop
  | init {s : σ} : init s → Reachable init step s
  | step {s s' : σ} : Reachable init step s → step s s' → Reachable init step s'

namespace Reachable
variable {σ : Type} {init : σ → Prop} {step : σ → σ → Prop}

/-- an invariant preserved by every step holds in every reachable state -/
theorem invariant (inv : σ → Prop)
    (h0 : ∀ s, init s → inv s)
    (hstep : ∀ s s', inv s → step s s' → inv s') :
    ∀ s, Reachable init step s → inv s := by
  intro s h
  induction h with
  | init hi => exact h0 _ hi
  | step _ hs ih => exact hstep _ _ ih hs

/-- the same, with a previously established invariant `base` available at every step -/
theorem invariant_under (base inv : σ → Prop)
    (hbase : ∀ s, Reachable init step s → base s)
    (h0 : ∀ s, init s → inv s)
    (hstep : ∀ s s', base s → inv s → step s s' → inv s') :
    ∀ s, Reachable init step s → inv s := by
  intro s h
  induction h with
  | init hi => exact h0 _ hi
  | step hr hs ih => exact hstep _ _ (hbase _ hr) ih hs

/-- a property of single steps taken from reachable states (for "this action has this effect" theorems) -/
theorem step_property (base : σ → Prop) (P : σ → σ → Prop)
    (hbase : ∀ s, Reachable init step s → base s)
    (h : ∀ s s', base s → step s s' → P s s') :
    ∀ s s', Reachable init step s → step s s' → P s s' :=
  fun s s' hr hs => h s s' (hbase s hr) hs

end Reachable

/-- every `q`-event of the history is preceded by some `p`-event -/
def Precedes {α : Type} (p q : α → Prop) (tr : List α) : Prop :=
  ∀ pre e post, tr = pre ++ e :: post → q e → ∃ x, x ∈ pre ∧ p x

namespace Precedes
variable {α : Type} {p q : α → Prop}

theorem nil : Precedes p q ([] : List α) := by
  intro pre e post h; cases pre <;> simp at h

/-- appending one event keeps the ordering if the event, when it is a `q`, has a `p` before it -/
theorem snoc {tr : List α} {e : α} (h : Precedes p q tr) (he : q e → ∃ x, x ∈ tr ∧ p x) :
    Precedes p q (tr ++ [e]) := by
  intro pre e' post heq hq
  rcases List.eq_nil_or_concat post with hp | ⟨post', l, hp⟩
  · subst hp
    have : pre = tr ∧ e' = e := by
      have := List.append_inj' (show tr ++ [e] = pre ++ [e'] from heq) rfl
      exact ⟨this.1.symm, by simpa using this.2.symm⟩
    obtain ⟨rfl, rfl⟩ := this
    exact he hq
  · subst hp
    have h2 : tr ++ [e] = (pre ++ e' :: post') ++ [l] := by simpa [List.concat_eq_append] using heq
    have := List.append_inj' h2 rfl
    exact h pre e' post' this.1 hq

/-- appending events that are not `q`-events keeps the ordering -/
theorem append_of_not {tr new : List α} (h : Precedes p q tr) (hn : ∀ e ∈ new, ¬ q e) :
    Precedes p q (tr ++ new) := by
  induction new generalizing tr with
  | nil => simpa using h
  | cons a rest ih =>
    have : tr ++ a :: rest = (tr ++ [a]) ++ rest := by simp
    rw [this]
    apply ih
    · exact h.snoc (fun hq => absurd hq (hn a (by simp)))
    · intro e he; exact hn e (by simp [he])

end Precedes

end GqlgenVerif.Sched
