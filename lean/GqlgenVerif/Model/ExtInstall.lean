import GqlgenVerif.Model.Complexity
/-!
# How a complexity limit gets INSTALLED: `Executor.Use` / `processExtensions` / `CreateOperationContext`

The gate of C14 is `ComplexityLimit.MutateOperationContext` (`Model/Complexity.lean` `gate`). It only protects a
server when the executor actually calls it, and the executor calls what `processExtensions` collected:

```
graphql/executor/extensions.go
  func (e *Executor) Use(ext)      switch ext.(type) { case graphql.<I>, …: e.extensions = append(e.extensions, ext)
                                                                           e.ext = processExtensions(e.extensions) }
  func processExtensions(exts)     loop 1 (backwards): if p, ok := p.(graphql.OperationInterceptor); ok { wrap previous } …
                                   loop 2 (forwards):  if p, ok := p.(graphql.OperationParameterMutator); ok { append }
                                                       if p, ok := p.(graphql.OperationContextMutator);   ok { append }
graphql/executor/executor.go
  func CreateOperationContext      for _, p := range e.ext.operationParameterMutators { if err … return }   (then parse, validate)
                                   for _, p := range e.ext.operationContextMutators   { if err … return }
```

An extension VALUE is one Go type and implements any subset of the six hook interfaces (`Hook`): the stock
`extension.ComplexityLimit` implements `ctx` only; a user type that embeds or wraps it typically implements more (it reads a
tenant in `MutateOperationParameters`, traces in `InterceptOperation`, …). `Program` is what a go/ast extractor
(`go/extract/extinstall.go` → `Gen/ExtInstall.lean`) reads off `processExtensions` on every run: the loops, their direction
and, per statement, the type assertion (`ifAssert`) or the **type switch** (`typeSwitch`: Go runs the FIRST matching clause
only) with the slot its body fills and how (`append` / `wrap previous`). `Program.slot` interprets that as Go would:
the extensions a slot holds, in the order the executor will CALL them. `Spec.slot` is the contract: a slot holds exactly
the registered extensions that implement its interface, whatever else they implement, in registration order.

`serveCfg` runs a request against a configuration (parameter mutators, then context mutators, first error wins, else
`Exec` once); `Spec.serve` is the same written directly over the registration list.
-/
namespace GqlgenVerif.ExtInstall
open GqlgenVerif.Complexity

/-- the six hook interfaces of `graphql/handler.go` -/
inductive Hook | param | ctx | op | resp | rootField | field
deriving DecidableEq, Repr

def Hook.all : List Hook := [.param, .ctx, .op, .resp, .rootField, .field]

theorem Hook.mem_all (h : Hook) : h ∈ Hook.all := by cases h <;> simp [Hook.all]

/-- `graphql.<iface>` -/
def Hook.iface : Hook → String
  | .param => "OperationParameterMutator"
  | .ctx => "OperationContextMutator"
  | .op => "OperationInterceptor"
  | .resp => "ResponseInterceptor"
  | .rootField => "RootFieldInterceptor"
  | .field => "FieldInterceptor"

inductive Dir | forward | backward
deriving DecidableEq, Repr

inductive How | append | wrap
deriving DecidableEq, Repr

/-- the body of a branch: `e.<slot> = append(e.<slot>, p)` or `previous := e.<slot>; e.<slot> = func… p.Intercept…(previous)` -/
structure Fill where
  slot : Hook
  how : How
deriving DecidableEq, Repr

inductive Stmt
  /-- `if p, ok := p.(graphql.<iface>); ok { fill }` -/
  | ifAssert (iface : Hook) (fill : Fill)
  /-- `switch p := p.(type) { case graphql.<iface>: fill … }` — the first clause whose interface the value implements -/
  | typeSwitch (cases : List (Hook × Fill))
deriving DecidableEq, Repr

structure Loop where
  dir : Dir
  body : List Stmt
deriving DecidableEq, Repr

structure Program where
  /-- `processExtensions`, in source order -/
  loops : List Loop
  /-- the interfaces `(*Executor).Use` accepts an extension for (the clause that appends and re-runs `processExtensions`) -/
  useAccepts : List Hook
  /-- the `for … range e.ext.<slot> { if err := p.Mutate…; err != nil { return … } }` loops of `CreateOperationContext` -/
  createLoops : List Hook
deriving Repr

/-! ### registration -/

/-- the branch a statement runs for a value whose type implements `hooks` -/
def Stmt.fires (hooks : List Hook) : Stmt → Option Fill
  | .ifAssert h f => if h ∈ hooks then some f else none
  | .typeSwitch cs => (cs.find? fun c => decide (c.1 ∈ hooks)).map (·.2)

/-- appended: called after everything collected so far; wrapped around `previous`: called first -/
def ins (how : How) (i : Nat) (acc : List Nat) : List Nat :=
  match how with
  | .append => acc ++ [i]
  | .wrap => i :: acc

/-- what one statement does to `e.<h>` for extension number `i` -/
def Stmt.step (h : Hook) (hooks : List Hook) (i : Nat) (acc : List Nat) (st : Stmt) : List Nat :=
  match st.fires hooks with
  | some f => if f.slot = h then ins f.how i acc else acc
  | none => acc

def visit {α : Type} : Dir → List α → List α
  | .forward, xs => xs
  | .backward, xs => xs.reverse

/-- number the registered extensions from `k` -/
def number {α : Type} : Nat → List α → List (Nat × α)
  | _, [] => []
  | k, x :: xs => (k, x) :: number (k + 1) xs

def Loop.slot (l : Loop) (h : Hook) (exts : List (Nat × List Hook)) (acc : List Nat) : List Nat :=
  (visit l.dir exts).foldl (fun acc e => l.body.foldl (Stmt.step h e.2 e.1) acc) acc

/-- `processExtensions(exts).<h>`: the numbers of the extensions the slot holds, in CALL order -/
def Program.slot (p : Program) (exts : List (List Hook)) (h : Hook) : List Nat :=
  p.loops.foldl (fun acc l => l.slot h (number 0 exts) acc) []

namespace Spec
/-- a slot holds exactly the extensions whose type implements its interface, in registration order -/
def slot (exts : List (List Hook)) (h : Hook) : List Nat :=
  ((number 0 exts).filter fun e => decide (h ∈ e.2)).map (·.1)
end Spec

/-! ### a statement-by-statement criterion -/

/-- can the statement write slot `h` at all -/
def Stmt.relevant (h : Hook) : Stmt → Bool
  | .ifAssert _ f => f.slot == h
  | .typeSwitch cs => cs.any fun c => c.2.slot == h

inductive Cls | none | appendForward | wrapBackward | bad
deriving DecidableEq, Repr

/-- a loop either never touches slot `h`, or touches it in exactly one statement, an independent
    `if p, ok := p.(graphql.<h>)` whose body fills `h` so that registration order is call order -/
def Loop.cls (h : Hook) (l : Loop) : Cls :=
  match l.body.filter (Stmt.relevant h) with
  | [] => .none
  | [.ifAssert h' f] =>
    if h' = h ∧ f.slot = h then
      match f.how, l.dir with
      | .append, .forward => .appendForward
      | .wrap, .backward => .wrapBackward
      | _, _ => .bad
    else .bad
  | _ => .bad

/-- every slot is written by exactly one statement of the whole function, of the independent form -/
def Program.Independent (p : Program) : Bool :=
  Hook.all.all fun h =>
    let cs := (p.loops.map (Loop.cls h)).filter (· != Cls.none)
    cs == [Cls.appendForward] || cs == [Cls.wrapBackward]

/-! ### a request against a configuration -/

/-- what `MutateOperationParameters` of an extension does -/
inductive PAct
  | pass
  | fail (code : String)
  /-- replaces `params.Query` (as `extension.AutomaticPersistedQuery` does) by the request's alternative document -/
  | rewrite
deriving DecidableEq, Repr

/-- what `MutateOperationContext` of an extension does -/
inductive CAct
  | pass
  | fail (code : String)
  /-- `ComplexityLimit.MutateOperationContext` with this limit (the stock value, embedded, or delegated to) -/
  | limit (l : Int)
deriving DecidableEq, Repr

/-- one registered extension value -/
structure Ext where
  /-- the hook interfaces its TYPE implements -/
  hooks : List Hook
  p : PAct := .pass
  c : CAct := .pass
deriving DecidableEq, Repr

structure Req where
  /-- complexity (by the definition) of the document sent -/
  cSent : Int
  /-- complexity of the document a `rewrite` parameter mutator substitutes -/
  cAlt : Int
deriving DecidableEq, Repr

structure St where
  /-- complexity of the document that will be executed -/
  cur : Int
  /-- `ComplexityStats` (complexity, limit) as last recorded -/
  stats : Option (Int × Int) := none
  /-- the mutator hooks called so far: (hook, number of the extension), latest first -/
  calls : List (Hook × Nat) := []
deriving DecidableEq, Repr

structure Result where
  execCalls : Nat
  rejected : Option String
  stats : Option (Int × Int)
  /-- the mutator hooks that were called, in order -/
  calls : List (Hook × Nat)
deriving DecidableEq, Repr

def pStep (req : Req) (st : St) (i : Nat) (a : PAct) : Except (String × St) St :=
  let st := { st with calls := (Hook.param, i) :: st.calls }
  match a with
  | .pass => .ok st
  | .fail code => .error (code, st)
  | .rewrite => .ok { st with cur := req.cAlt }

def cStep (st : St) (i : Nat) (a : CAct) : Except (String × St) St :=
  let st := { st with calls := (Hook.ctx, i) :: st.calls }
  match a with
  | .pass => .ok st
  | .fail code => .error (code, st)
  | .limit l =>
    let g := gate st.cur l
    let st := { st with stats := some (g.1.complexity, g.1.limit) }
    match g.2 with
    | some code => .error (code, st)
    | none => .ok st

/-- `for _, p := range … { if err := p.Mutate…; err != nil { return err } }` -/
def runM {α : Type} (f : St → Nat → α → Except (String × St) St) : List (Nat × α) → St → Except (String × St) St
  | [], st => .ok st
  | (i, a) :: r, st =>
    match f st i a with
    | .error e => .error e
    | .ok st' => runM f r st'

def finish : Except (String × St) St → Result
  | .error (code, st) => ⟨0, some code, st.stats, st.calls.reverse⟩
  | .ok st => ⟨1, none, st.stats, st.calls.reverse⟩

/-- look the numbers of a slot up in the registration list -/
def pick {α : Type} (exts : List Ext) (f : Ext → α) (idx : List Nat) : List (Nat × α) :=
  idx.filterMap fun i => (exts[i]?).map fun e => (i, f e)

/-- a transport serving one request on an executor the extensions `exts` were `Use`d on, in that order;
    `processExtensions` and `CreateOperationContext` as the regenerated `p` says -/
def serveCfg (p : Program) (exts : List Ext) (req : Req) : Result :=
  let hooks := exts.map (·.hooks)
  let ps := if Hook.param ∈ p.createLoops then pick exts (·.p) (p.slot hooks .param) else []
  let cs := if Hook.ctx ∈ p.createLoops then pick exts (·.c) (p.slot hooks .ctx) else []
  finish (match runM (pStep req) ps ⟨req.cSent, none, []⟩ with
    | .error e => .error e
    | .ok st => runM cStep cs st)

namespace Spec

/-- the extensions that implement `h`, numbered, in registration order -/
def having {α : Type} (h : Hook) (f : Ext → α) (exts : List Ext) : List (Nat × α) :=
  ((number 0 exts).filter fun e => decide (h ∈ e.2.hooks)).map fun e => (e.1, f e.2)

/-- **the contract**: every registered extension that implements `OperationParameterMutator` sees the parameters, in
    registration order; then every registered extension that implements `OperationContextMutator` — whatever else its type
    implements — sees the operation context, in registration order; the first error rejects the operation and nothing
    runs; otherwise `Exec` runs once. -/
def serve (exts : List Ext) (req : Req) : Result :=
  finish (match runM (pStep req) (having .param (·.p) exts) ⟨req.cSent, none, []⟩ with
    | .error e => .error e
    | .ok st => runM cStep (having .ctx (·.c) exts) st)

/-- the complexity of the document the request ends up executing: the alternative one when a parameter mutator rewrites -/
def effective (exts : List Ext) (req : Req) : Int :=
  if (having .param (·.p) exts).any (fun a => decide (a.2 = PAct.rewrite)) then req.cAlt else req.cSent

end Spec

end GqlgenVerif.ExtInstall
