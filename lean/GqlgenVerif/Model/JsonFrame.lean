import GqlgenVerif.Model.JsonString
import GqlgenVerif.Model.GoInt
/-!
# Framing of objects and lists: `graphql.FieldSet.MarshalGQL`, `graphql.Array.MarshalGQL`, `lit`

`JV` is the tree of marshalers a response is made of; `render` writes exactly the byte sequence the
`MarshalGQL` methods of `graphql/jsonw.go` and `graphql/fieldset.go` write (brace, quoted alias,
colon, value, commas between entries). `Parses` is the JSON grammar (RFC 8259, without insignificant
whitespace — none is written) as an inductive relation between text and decoded value.
-/
namespace GqlgenVerif

inductive JV where
  | null | tru | fls
  | str (s : Bytes)
  | int (i : Int)
  | arr (xs : List JV)
  | obj (kvs : List (Bytes × JV))

mutual
def render : JV → Bytes
  | .null => [0x6E, 0x75, 0x6C, 0x6C]
  | .tru => [0x74, 0x72, 0x75, 0x65]
  | .fls => [0x66, 0x61, 0x6C, 0x73, 0x65]
  | .str s => writeQuoted s
  | .int i => Go.intDec i
  | .arr xs => 0x5B :: (renderElems xs true ++ [0x5D])
  | .obj kvs => 0x7B :: (renderMembers kvs true ++ [0x7D])
/-- `first` = no comma before the next entry (`if i != 0 { write(comma) }`) -/
def renderElems : List JV → Bool → Bytes
  | [], _ => []
  | x :: xs, first => (if first then [] else [0x2C]) ++ render x ++ renderElems xs false
def renderMembers : List (Bytes × JV) → Bool → Bytes
  | [], _ => []
  | (k, v) :: kvs, first =>
    (if first then [] else [0x2C]) ++ writeQuoted k ++ [0x3A] ++ render v ++ renderMembers kvs false
end

/-! the value a JSON decoder is expected to produce: strings and keys sanitised -/
mutual
def clean : JV → JV
  | .str s => .str (sanitize s)
  | .arr xs => .arr (cleanList xs)
  | .obj kvs => .obj (cleanMembers kvs)
  | v => v
def cleanList : List JV → List JV
  | [] => []
  | x :: xs => clean x :: cleanList xs
def cleanMembers : List (Bytes × JV) → List (Bytes × JV)
  | [] => []
  | (k, v) :: kvs => (sanitize k, clean v) :: cleanMembers kvs
end

mutual
/-- `Parses t v`: the text `t` is a JSON value denoting `v` -/
inductive Parses : Bytes → JV → Prop
  | null : Parses [0x6E, 0x75, 0x6C, 0x6C] .null
  | tru : Parses [0x74, 0x72, 0x75, 0x65] .tru
  | fls : Parses [0x66, 0x61, 0x6C, 0x73, 0x65] .fls
  | str {t d} : decodeString t = some d → Parses t (.str d)
  | int {t i} : Go.parseJsonInt t = some i → Parses t (.int i)
  | arrEmpty : Parses [0x5B, 0x5D] (.arr [])
  | arr {t vs} : ParsesElems t vs → Parses (0x5B :: (t ++ [0x5D])) (.arr vs)
  | objEmpty : Parses [0x7B, 0x7D] (.obj [])
  | obj {t kvs} : ParsesMembers t kvs → Parses (0x7B :: (t ++ [0x7D])) (.obj kvs)
/-- one or more comma-separated values -/
inductive ParsesElems : Bytes → List JV → Prop
  | one {t v} : Parses t v → ParsesElems t [v]
  | cons {t v ts vs} : Parses t v → ParsesElems ts vs → ParsesElems (t ++ 0x2C :: ts) (v :: vs)
/-- one or more comma-separated `string : value` members -/
inductive ParsesMembers : Bytes → List (Bytes × JV) → Prop
  | one {kt k t v} : decodeString kt = some k → Parses t v →
      ParsesMembers (kt ++ 0x3A :: t) [(k, v)]
  | cons {kt k t v ts kvs} : decodeString kt = some k → Parses t v → ParsesMembers ts kvs →
      ParsesMembers (kt ++ 0x3A :: (t ++ 0x2C :: ts)) ((k, v) :: kvs)
end

end GqlgenVerif
