/-!
# The request envelope and the map its `Headers` field points at (C07, round 6)

`graphql.RawParams.Headers` has the tag `json:"headers"`; `encoding/json` decodes an object into a map that is already
there by adding / overwriting entries, and allocates a new map otherwise. A transport builds the envelope of an
operation by some sequence of: declaring it nil, building it from a literal, assigning `Headers`, decoding the payload.
Mirrors `graphql/handler/transport/websocket.go (*wsConnection).subscribe` and the `Do` methods of the HTTP transports
(regenerated: `Gen/EnvDecode.lean`).
-/
namespace GqlgenVerif.EnvDecode

abbrev Hdr := List (String × List String)

/-- where an expression assigned to `Headers` comes from -/
inductive Src
  | absent | nilv | request
  | longLived (e : String)
  | other (e : String)
  deriving Repr, DecidableEq

inductive Step
  | initNil | initLit (h : Src) | assign (h : Src) | decode
  deriving Repr, DecidableEq

/-- which map object the envelope's `Headers` refers to -/
inductive Ref | none | conn | req | own
  deriving Repr, DecidableEq

/-- `conn`: the map that outlives the operation (connection / transport object); `req`: the map of the one
    request; `own`: a map the decoder allocated for this envelope -/
structure St where
  conn : Hdr
  req : Hdr
  own : Hdr
  ref : Ref
  deriving Repr, DecidableEq

/-- encoding/json into an existing map: entries are added / overwritten -/
def mergeH (base add : Hdr) : Hdr :=
  add.foldl (fun m kv => (m.filter (fun e => e.1 != kv.1)) ++ [kv]) base

def refOf : Src → Ref
  | .absent => .none
  | .nilv => .none
  | .request => .req
  | .longLived _ => .conn
  | .other _ => .conn   -- unknown origin: worst case

/-- `payload`: the `headers` member of the operation's payload, if it has one -/
def step (payload : Option Hdr) (s : St) : Step → St
  | .initNil => { s with ref := .none }
  | .initLit h => { s with ref := refOf h }
  | .assign h => { s with ref := refOf h }
  | .decode =>
    match payload with
    | Option.none => s
    | some h =>
      match s.ref with
      | .conn => { s with conn := mergeH s.conn h }
      | .req => { s with req := mergeH s.req h }
      | .own => { s with own := mergeH s.own h }
      | .none => { s with own := mergeH [] h, ref := .own }

def run (payload : Option Hdr) : List Step → St → St
  | [], s => s
  | st :: r, s => run payload r (step payload s st)

/-- what `OperationContext.Headers` shows -/
def seen (s : St) : Hdr :=
  match s.ref with
  | .conn => s.conn
  | .req => s.req
  | .own => s.own
  | .none => []

/-- one operation on a connection whose long-lived header map is `conn`: (the map afterwards, what the operation sees) -/
def runOp (prog : List Step) (conn : Hdr) (payload : Option Hdr) : Hdr × Hdr :=
  let s := run payload prog ⟨conn, [], [], .none⟩
  (s.conn, seen s)

/-- the operations of one connection, one after the other: what each of them sees -/
def runConn (prog : List Step) : Hdr → List (Option Hdr) → List Hdr
  | _, [] => []
  | conn, p :: ps => (runOp prog conn p).2 :: runConn prog (runOp prog conn p).1 ps

def shares (h : Src) : Bool := refOf h == .conn

/-- syntactic: no `decode` while `Headers` points at the long-lived map -/
def safeFrom : Bool → List Step → Bool
  | _, [] => true
  | _, .initNil :: r => safeFrom false r
  | _, .initLit h :: r => safeFrom (shares h) r
  | _, .assign h :: r => safeFrom (shares h) r
  | sh, .decode :: r => !sh && safeFrom sh r

end GqlgenVerif.EnvDecode
