/-!
# C10 — the client-controlled input paths of the upload transport

Executable model of

* `RawParams.AddUpload` (`/repo/graphql/handler.go`): the walk of a multipart `map` path such as
  `variables.a.0.b` through the decoded variables, with every type assertion, index and map write
  as an explicit outcome. The walk is parametrised by `Guards` — which of the five run-time checks
  the source performs before indexing. `Gen/AddUploadGuards.lean` (regenerated from the source by
  `go/extract/adduploadguards.go` on every run) says which guards the code has *now*; the all-false
  instance is the code before commit `64f0014` and keeps the history visible (`…_witness` theorems).
* `MultipartForm.Do` (`/repo/graphql/handler/transport/http_form_multipart.go`): the part-sequence
  state machine (operations, map, files), `MaxUploadSize` (`ContentLength` check +
  `http.MaxBytesReader` budget), the `ContentLength < MaxMemory` choice between in-memory readers
  and a spill file, one reader per mapped path, the deferred `os.Remove` / `Close` calls.

Byte-level parsing (JSON, MIME, `strconv`) is library code: it enters as outcome classes
(`OpsClass`, `MapClass`, `Fault`) computed by the harness with the same libraries; `strconv.Atoi`
is modelled (`atoi`) because it decides between the slice and the map branch.
Core Lean only.
-/
namespace GqlgenVerif.Upload

abbrev Key := List Char

/-! ## association lists (Go maps: unique keys; `get` = first match, `set` = replace or append) -/

def assocGet {α : Type} : List (Key × α) → Key → Option α
  | [], _ => none
  | (k, v) :: r, q => if k = q then some v else assocGet r q

def assocSet {α : Type} : List (Key × α) → Key → α → List (Key × α)
  | [], q, x => [(q, x)]
  | (k, v) :: r, q, x => if k = q then (k, x) :: r else (k, v) :: assocSet r q x

def assocErase {α : Type} : List (Key × α) → Key → List (Key × α)
  | [], _ => []
  | (k, v) :: r, q => if k = q then assocErase r q else (k, v) :: assocErase r q

/-! ## decoded variables -/

/-- A value as `encoding/json` (with `UseNumber`) leaves it in `map[string]any`, plus the
`graphql.Upload` values `AddUpload` stores. -/
inductive UV where
  | null                          -- nil interface (JSON null, or a missing map entry)
  | leaf (text : List Char)       -- bool / json.Number / string: not nil, not a container
  | upload (id : Nat)             -- graphql.Upload placed by AddUpload; `id` names its reader
  | arr (xs : List UV)            -- []any
  | obj (kvs : List (Key × UV))   -- map[string]any
  | nilmap                        -- a nil map[string]any (RawParams.Variables absent / null)
  deriving Inhabited

/-! ## path syntax: `strings.HasPrefix`, `strings.Split`, `strconv.Atoi` -/

inductive Seg where
  | idx (i : Int)
  | key (k : Key)
  deriving DecidableEq, Repr

def digitVal (c : Char) : Option Nat :=
  if '0' ≤ c ∧ c ≤ '9' then some (c.toNat - 48) else none

def digitsVal : List Char → Nat → Option Nat
  | [], acc => some acc
  | c :: cs, acc =>
    match digitVal c with
    | some d => digitsVal cs (acc * 10 + d)
    | none => none

def minInt64 : Int := -9223372036854775808
def maxInt64 : Int := 9223372036854775807

def signed (neg : Bool) (ds : List Char) : Option Int :=
  match ds with
  | [] => none
  | _ =>
    match digitsVal ds 0 with
    | none => none
    | some n =>
      let v : Int := if neg then -(n : Int) else (n : Int)
      if minInt64 ≤ v ∧ v ≤ maxInt64 then some v else none

/-- `strconv.Atoi` on a 64-bit platform: optional sign, at least one ASCII digit, value in int64. -/
def atoi (s : List Char) : Option Int :=
  match s with
  | '+' :: r => signed false r
  | '-' :: r => signed true r
  | _ => signed false s

def classify (s : List Char) : Seg :=
  match atoi s with
  | some i => .idx i
  | none => .key s

/-- `strings.Split(s, ".")` -/
def splitDot : List Char → List (List Char)
  | [] => [[]]
  | c :: cs =>
    if c = '.' then [] :: splitDot cs
    else match splitDot cs with
      | [] => [[c]]
      | h :: t => (c :: h) :: t

def stripPrefix : List Char → List Char → Option (List Char)
  | [], s => some s
  | _ :: _, [] => none
  | p :: ps, c :: cs => if p = c then stripPrefix ps cs else none

def variablesDot : List Char := "variables.".toList

/-- `HasPrefix(path, "variables.")` then `Split(path, ".")[1:]`, each part classified by `Atoi`. -/
def parsePath (path : List Char) : Option (List Seg) :=
  match stripPrefix variablesDot path with
  | none => none
  | some rest => some ((splitDot rest).map classify)

/-! ## AddUpload -/

/-- Which run-time checks the source performs before indexing (see `Gen/AddUploadGuards.lean`). -/
structure Guards where
  assertArr : Bool   -- `arr, ok := ptr.([]any)` with `!ok` leading to an error return
  lower : Bool       -- `index < 0` leads to an error return
  upper : Bool       -- `index >= len(arr)` leads to an error return
  assertMap : Bool   -- `m, ok := ptr.(map[string]any)` with `!ok` leading to an error return
  nilMap : Bool      -- a write into a nil map leads to an error return
  deriving DecidableEq, Repr

def Guards.all : Guards := ⟨true, true, true, true, true⟩
/-- the code before the repair: bare `ptr.([]any)[index]` / `ptr.(map[string]any)[p]` -/
def Guards.none : Guards := ⟨false, false, false, false, false⟩

inductive Panic where
  | typeAssert | indexRange | nilMapWrite
  deriving DecidableEq, Repr

inductive AuErr where
  | noPrefix   -- "invalid operations paths for key …"
  | nilPtr     -- "path is missing "variables." prefix …" (the walk reached a nil value)
  | badPath    -- "invalid upload path …"
  deriving DecidableEq, Repr

inductive Outcome where
  | ok (v : UV)
  | err (e : AuErr)
  | panic (p : Panic)

/-- outcome without the tree (decidable equality) -/
inductive Tag where
  | ok | err (e : AuErr) | panic (p : Panic)
  deriving DecidableEq, Repr

def Outcome.tag : Outcome → Tag
  | .ok _ => .ok
  | .err e => .err e
  | .panic p => .panic p

def UV.uploadId? : UV → Option Nat
  | .upload i => some i
  | _ => none

def Outcome.isPanic : Outcome → Bool
  | .panic _ => true
  | _ => false

def Outcome.isOk : Outcome → Bool
  | .ok _ => true
  | _ => false

/-- slice branch of the loop body: `ptr.([]any)[index]` -/
def stepIdx (g : Guards) (ptr : UV) (i : Int) : Except Outcome (List UV × Nat) :=
  match ptr with
  | .arr xs =>
    if i < 0 then .error (if g.lower then .err .badPath else .panic .indexRange)
    else if xs.length ≤ i.toNat then .error (if g.upper then .err .badPath else .panic .indexRange)
    else .ok (xs, i.toNat)
  | _ => .error (if g.assertArr then .err .badPath else .panic .typeAssert)

/-- map branch of the loop body: `ptr.(map[string]any)[p]`; `none` = the nil map -/
def stepKey (g : Guards) (ptr : UV) : Except Outcome (Option (List (Key × UV))) :=
  match ptr with
  | .obj kvs => .ok (some kvs)
  | .nilmap => .ok none
  | _ => .error (if g.assertMap then .err .badPath else .panic .typeAssert)

/-- The loop of `AddUpload` over `parts[1:]`, as a function returning the updated tree
(the Go code mutates in place; decoded JSON has no aliasing). -/
def walk (g : Guards) : UV → List Seg → UV → Outcome
  | ptr, [], _ => .ok ptr
  | .null, _ :: _, _ => .err .nilPtr
  | ptr, .idx i :: rest, up =>
    match stepIdx g ptr i with
    | .error o => o
    | .ok (xs, n) =>
      match rest with
      | [] => .ok (.arr (xs.set n up))
      | _ :: _ =>
        match walk g (xs.getD n .null) rest up with
        | .ok c => .ok (.arr (xs.set n c))
        | o => o
  | ptr, .key k :: rest, up =>
    match stepKey g ptr with
    | .error o => o
    | .ok none =>
      match rest with
      | [] => if g.nilMap then .err .badPath else .panic .nilMapWrite
      | _ :: _ => .err .nilPtr          -- reading a nil map yields nil; the next iteration reports it
    | .ok (some kvs) =>
      match rest with
      | [] => .ok (.obj (assocSet kvs k up))
      | _ :: _ =>
        match walk g ((assocGet kvs k).getD .null) rest up with
        | .ok c => .ok (.obj (assocSet kvs k c))
        | o => o

def addUpload (g : Guards) (vars : UV) (path : List Char) (up : UV) : Outcome :=
  match parsePath path with
  | none => .err .noPrefix
  | some segs => walk g vars segs up

/-! ## Spec side: an independent accessor -/

def child : UV → Seg → Option UV
  | .arr xs, .idx i => if i < 0 then none else xs[i.toNat]?
  | .obj kvs, .key k => assocGet kvs k
  | _, _ => none

def lookup : UV → List Seg → Option UV
  | v, [] => some v
  | v, s :: rest =>
    match child v s with
    | some c => lookup c rest
    | none => none

/-! ## MultipartForm.Do -/

structure Cfg where
  maxUploadSize : Int
  maxMemory : Int

def defaultMax : Int := 33554432   -- 32 << 20

def Cfg.maxUp (c : Cfg) : Int := if c.maxUploadSize = 0 then defaultMax else c.maxUploadSize
def Cfg.maxMem (c : Cfg) : Int := if c.maxMemory = 0 then defaultMax else c.maxMemory
/-- `http.MaxBytesReader(w, body, n)`: at most `n` bytes can be read (negative `n` counts as 0). -/
def Cfg.budget (c : Cfg) : Nat := c.maxUp.toNat

inductive Fault where
  | none | next | read   -- MIME-level error when advancing to the part / while reading its content
  deriving DecidableEq, Repr

structure Part where
  name : Key
  filename : Key
  ctype : Key
  hdr : Nat       -- bytes between the previous content and this content (delimiter line + headers)
  size : Nat      -- content bytes
  fault : Fault

inductive Term where
  | eof | err
  deriving DecidableEq, Repr

inductive OpsClass where
  | err
  | ok (vars : UV)

abbrev UploadsMap := List (Key × List (List Char))

inductive MapClass where
  | err
  | ok (m : UploadsMap)

/-- fault plan for the file system calls (quantified over in the theorems) -/
structure FsPlan where
  createFails : Nat → Bool   -- k-th os.CreateTemp
  closeFails : Nat → Bool    -- Close of the k-th temp file after the copy
  openFails : Nat → Bool     -- k-th os.Open

structure Req where
  cfg : Cfg
  contentLength : Int   -- -1: unknown (chunked)
  dlen : Nat            -- length of "\r\n--boundary"
  tail : Nat            -- bytes after the last content (closing delimiter line)
  boundaryOk : Bool     -- r.MultipartReader() succeeds
  fs : FsPlan
  ops : OpsClass
  map : MapClass
  opsSelfDelim : Bool   -- the operations JSON value ends with `}` (no look-ahead needed to end it)
  mapSelfDelim : Bool
  parts : List Part
  term : Term

inductive Exit where
  | tooLarge | badMultipart | firstNotOps | opsDecode | secondNotMap | mapDecode | partError
  | emptyPaths | readFile | createTemp | copyTemp | closeTemp | openTemp
  | addUpload (e : AuErr) | panicked (p : Panic) | missingKey | exec
  deriving DecidableEq, Repr

inductive Defer where
  | remove (file : Nat)
  | close (handle : Nat)
  deriving DecidableEq, Repr

structure Reader where
  id : Nat
  part : Nat              -- index of the part in the request
  key : Key               -- form name of that part
  path : List Char
  file : Option Nat       -- `some f`: an *os.File opened on temp file f; `none`: a bytesReader
  deriving Repr

structure St where
  off : Nat := 0                       -- bytes of the body consumed by successful reads
  vars : UV := .nilmap
  pending : UploadsMap := []           -- uploadsMap
  creates : Nat := 0
  opens : Nat := 0
  live : List Nat := []                -- temp files that exist
  openH : List Nat := []               -- open read handles
  defers : List Defer := []            -- most recent first
  readers : List Reader := []          -- most recent first
  mem : Nat := 0                       -- bytes held in memory for uploads
  disk : Nat := 0                      -- bytes written to temp files

def applyDefer (st : St) : Defer → St
  | .remove f => { st with live := st.live.filter (· ≠ f) }
  | .close h => { st with openH := st.openH.filter (· ≠ h) }

def Exit.isPanic : Exit → Bool
  | .panicked _ => true
  | _ => false

/-- deferred calls run last-in first-out when `Do` returns -/
def runDefers (st : St) : St :=
  { st.defers.foldl applyDefer st with defers := [] }

def Outcome.toExit : Outcome → Exit
  | .ok _ => .exec
  | .err e => .addUpload e
  | .panic p => .panicked p

/-- `for _, path := range paths` of the in-memory branch: a fresh `bytesReader` per path -/
def addPathsMem (g : Guards) (idx : Nat) (key : Key) : St → List (List Char) → St × Option Exit
  | st, [] => (st, none)
  | st, p :: ps =>
    let id := st.readers.length
    let st := { st with readers := ⟨id, idx, key, p, none⟩ :: st.readers }
    match addUpload g st.vars p (.upload id) with
    | .ok v => addPathsMem g idx key { st with vars := v } ps
    | o => (st, some o.toExit)

/-- `for _, path := range paths` of the spill branch: `os.Open(tmpName)` per path, `defer Close` -/
def addPathsFile (g : Guards) (fs : FsPlan) (idx : Nat) (key : Key) (file : Nat) :
    St → List (List Char) → St × Option Exit
  | st, [] => (st, none)
  | st, p :: ps =>
    if fs.openFails st.opens then ({ st with opens := st.opens + 1 }, some .openTemp) else
    let id := st.readers.length
    let st := { st with opens := st.opens + 1, openH := id :: st.openH, defers := .close id :: st.defers,
                        readers := ⟨id, idx, key, p, some file⟩ :: st.readers }
    match addUpload g st.vars p (.upload id) with
    | .ok v => addPathsFile g fs idx key file { st with vars := v } ps
    | o => (st, some o.toExit)

/-- Can the content of part `p`, starting at offset `start`, be read up to its closing delimiter?
`mime/multipart` must see `\r\n--boundary` within the budget; a lone `-` after it followed by the
read error (closing delimiter of the last part cut between its two dashes) is taken for content. -/
def contentReadable (req : Req) (start : Nat) (p : Part) (last : Bool) : Bool :=
  p.fault != .read && start + p.size + req.dlen ≤ req.cfg.budget
    && !(last && start + p.size + req.dlen + 1 == req.cfg.budget)

/-- one iteration of the file loop for a part that `mr.NextPart()` returned -/
def filePart (g : Guards) (req : Req) (st : St) (idx : Nat) (p : Part) (last : Bool) : St × Option Exit :=
  let start := st.off + p.hdr
  let st := { st with off := start }
  match assocGet st.pending p.name with
  | none => (st, some .emptyPaths)
  | some [] => (st, some .emptyPaths)
  | some (path :: paths) =>
    let st := { st with pending := assocErase st.pending p.name }
    if req.contentLength < req.cfg.maxMem then
      if contentReadable req start p last then
        addPathsMem g idx p.name { st with off := start + p.size, mem := st.mem + p.size } (path :: paths)
      else (st, some .readFile)
    else
      if req.fs.createFails st.creates then ({ st with creates := st.creates + 1 }, some .createTemp) else
      let f := st.creates
      let st := { st with creates := st.creates + 1, live := f :: st.live, defers := .remove f :: st.defers }
      if contentReadable req start p last then
        let st := { st with off := start + p.size, disk := st.disk + p.size }
        if req.fs.closeFails f then (st, some .closeTemp) else
        addPathsFile g req.fs idx p.name f st (path :: paths)
      else (st, some .copyTemp)

/-- the `for { part, err = mr.NextPart() … }` loop and what follows it -/
def fileLoop (g : Guards) (req : Req) : St → Nat → List Part → St × Exit
  | st, _, [] =>
    if req.term = .eof ∧ st.off + req.tail ≤ req.cfg.budget then
      match st.pending with
      | [] => (st, .exec)
      | _ :: _ => (st, .missingKey)
    else (st, .partError)
  | st, idx, p :: ps =>
    if p.fault = .next ∨ ¬ (st.off + p.hdr ≤ req.cfg.budget) then (st, .partError) else
    match filePart g req st idx p ps.isEmpty with
    | (st, some e) => (st, e)
    | (st, none) => fileLoop g req st (idx + 1) ps

/-- `mr.NextPart()` for the two leading form fields -/
def nextOk (req : Req) (st : St) (p : Part) : Bool :=
  p.fault != .next && st.off + p.hdr ≤ req.cfg.budget

/-- Can `json.Decoder` finish the value of a form field whose content starts at `start`? The content
must be within the budget; a value that is not closed by `}` (the literal `null`) is only complete
when the decoder sees the end of the part, i.e. the closing delimiter is readable. -/
def fieldDecodable (req : Req) (start : Nat) (p : Part) (selfDelim last : Bool) : Bool :=
  start + p.size ≤ req.cfg.budget && (selfDelim || contentReadable req start p last)

/-- second form field: `map` -/
def mapStage (g : Guards) (req : Req) (st : St) : List Part → St × Exit
  | [] => (st, .secondNotMap)
  | p1 :: files =>
    if !(nextOk req st p1) || p1.name != "map".toList then (st, .secondNotMap) else
    let st := { st with off := st.off + p1.hdr }
    if fieldDecodable req st.off p1 req.mapSelfDelim files.isEmpty then
      match req.map with
      | .err => (st, .mapDecode)
      | .ok m => fileLoop g req { st with off := st.off + p1.size, pending := m } 2 files
    else (st, .mapDecode)

/-- first form field: `operations` -/
def opsStage (g : Guards) (req : Req) (st : St) : List Part → St × Exit
  | [] => (st, .firstNotOps)
  | p0 :: rest =>
    if !(nextOk req st p0) || p0.name != "operations".toList then (st, .firstNotOps) else
    let st := { st with off := st.off + p0.hdr }
    if fieldDecodable req st.off p0 req.opsSelfDelim rest.isEmpty then
      match req.ops with
      | .err => (st, .opsDecode)
      | .ok vars => mapStage g req { st with off := st.off + p0.size, vars := vars } rest
    else (st, .opsDecode)

/-- everything in `Do` before the deferred calls run -/
def body (g : Guards) (req : Req) : St × Exit :=
  if req.contentLength > req.cfg.maxUp then ({}, .tooLarge) else
  if !req.boundaryOk then ({}, .badMultipart) else
  opsStage g req {} req.parts

structure Res where
  exit : Exit
  during : St      -- state when the response is produced (user code runs here when `exit = exec`)
  final : St       -- after the deferred calls

def run (g : Guards) (req : Req) : Res :=
  let (st, e) := body g req
  ⟨e, st, runDefers st⟩

/-! ## Spec side of the upload delivery -/

/-- the (map path, reader id) pairs in the order the readers were created -/
def assignments (st : St) : List (List Char × Nat) :=
  st.readers.reverse.map (fun r => (r.path, r.id))

/-- placing the uploads one after the other, every placement succeeding -/
def applyPaths (g : Guards) : UV → List (List Char × Nat) → Option UV
  | v, [] => some v
  | v, (p, id) :: r =>
    match addUpload g v p (.upload id) with
    | .ok v' => applyPaths g v' r
    | _ => none

/-- two positions neither of which lies inside the other -/
def Indep (p q : List Seg) : Prop := ¬ p <+: q ∧ ¬ q <+: p

/-- HTTP status written by `Do` for each exit (`none`: decided by the executor) -/
def Exit.status : Exit → Option Nat
  | .tooLarge => some 200
  | .exec => none
  | .panicked _ => some 422    -- written by Server.ServeHTTP's recover
  | _ => some 422

/-! ## request envelopes: `jsonDecode(…, &params)` -/

inductive BodyClass where
  | null    -- the JSON value null
  | ok      -- an object that decodes into RawParams
  | err     -- anything the decoder rejects
  | plain   -- not decoded as a JSON envelope by this transport
  deriving DecidableEq, Repr

def BodyClass.all : List BodyClass := [.null, .ok, .err, .plain]

inductive Target where
  | pointer (nilChecked : Bool)   -- `&params` with `params *RawParams`: null leaves it nil
  | value                         -- `&params` with `params RawParams`: null leaves the zero value
  deriving DecidableEq, Repr

structure Site where
  name : String
  target : Target
  deriving DecidableEq, Repr

inductive EnvOut where
  | clientError | exec | panic
  deriving DecidableEq, Repr

/-- what the transport does after decoding the envelope -/
def envelope (s : Site) : BodyClass → EnvOut
  | .err => .clientError
  | .null =>
    match s.target with
    | .value => .exec
    | .pointer true => .clientError
    | .pointer false => .panic
  | _ => .exec

/-- status the transport writes on its decode-error path (0: websocket `error` frame) -/
def errStatus : String → Nat
  | "post" => 400 | "sse" => 400 | "mixed" => 400 | "get" => 400
  | "urlencoded" => 422 | "graphql" => 422 | "form" => 422
  | _ => 0

end GqlgenVerif.Upload
