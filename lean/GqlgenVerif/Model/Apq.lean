/-!
# Model of automatic persisted queries (APQ) and of the caches behind it  (property C15)

Mirrors, in /repo:

* `graphql/handler/extension/apq.go`, `AutomaticPersistedQuery.MutateOperationParameters`  →  `step`
  (the decision tree, the single `Cache.Get` / `Cache.Add` call it makes, and what it leaves in
  `rawParams.Query` for `executor.CreateOperationContext` to parse and execute);
* `graphql/cache.go`, `MapCache` → `mapCache`, `NoCache` → `noCache`;
* `graphql/handler/lru/lru.go` (a thin wrapper over hashicorp `simplelru`: `Get` moves the entry to the
  front, `Add` updates-and-moves an existing key or pushes a new entry and removes the oldest when the
  size is exceeded) → `lruCache`, a bounded recency list, most recent first;
* `graphql/executor/executor.go`, `CreateOperationContext` + `DispatchOperation`: the mutated
  `params.Query` is what gets parsed, validated and handed to `ExecutableSchema.Exec` → `observe`.

The hash function is a parameter `H : Text → Hash` (SHA-256 hex in the code; no property of it is used).
`Text` is the type of *non-empty* query texts: Go's `rawParams.Query == ""` is `query = none`.
`Ext` is the result of `mapstructure.Decode` on `extensions.persistedQuery` (library, modelled by the
harness's classification of concrete JSON shapes).
Core Lean only.
-/
namespace GqlgenVerif.Apq

/-- `rawParams.Extensions["persistedQuery"]` after `mapstructure.Decode`. -/
inductive Ext (Hash : Type) where
  /-- key missing or value `nil` (`== nil` test) -/
  | absent
  /-- `mapstructure.Decode` returned an error -/
  | malformed
  /-- decoded struct: `Version`, `Sha256` (missing keys decode to `0` / `""`) -/
  | decoded (version : Int) (sha : Hash)
  deriving DecidableEq, Repr

/-- One request as the extension sees it. `query = none` is the empty string. -/
structure Req (Text Hash : Type) where
  query : Option Text
  ext : Ext Hash
  deriving DecidableEq, Repr

/-- What `MutateOperationParameters` answers. `run q`: it returned nil and `rawParams.Query = q`
is what the executor goes on to parse/validate/execute. -/
inductive Outcome (Text : Type) where
  | run (q : Option Text)
  /-- "invalid APQ extension data" -/
  | invalidExt
  /-- "unsupported APQ version" -/
  | badVersion
  /-- "PersistedQueryNotFound", code PERSISTED_QUERY_NOT_FOUND -/
  | notFound
  /-- "provided APQ hash does not match query" -/
  | mismatch
  deriving DecidableEq, Repr

/-- A call made on `AutomaticPersistedQuery.Cache` (what an inspectable cache records). -/
inductive Op (Text Hash : Type) where
  | get (h : Hash) (r : Option Text)
  | add (h : Hash) (t : Text)
  deriving DecidableEq, Repr

/-- `graphql.Cache[string]`: `Get` may change the state (recency), `Add` has no result. -/
structure CacheImpl (σ Text Hash : Type) where
  get : σ → Hash → Option Text × σ
  add : σ → Hash → Text → σ

/-- Result of one step. -/
structure StepRes (σ Text Hash : Type) where
  state : σ
  out : Outcome Text
  ops : List (Op Text Hash)

variable {σ Text Hash : Type} [DecidableEq Hash]

/-- `MutateOperationParameters`, branch for branch. -/
def step (H : Text → Hash) (C : CacheImpl σ Text Hash) (s : σ) (r : Req Text Hash) : StepRes σ Text Hash :=
  match r.ext with
  | .absent => ⟨s, .run r.query, []⟩                               -- `== nil` → return nil
  | .malformed => ⟨s, .invalidExt, []⟩
  | .decoded v h =>
    if v ≠ 1 then ⟨s, .badVersion, []⟩
    else match r.query with
      | none =>                                                       -- rawParams.Query == ""
        match C.get s h with
        | (none, s') => ⟨s', .notFound, [.get h none]⟩
        | (some t, s') => ⟨s', .run (some t), [.get h (some t)]⟩
      | some t =>
        if H t ≠ h then ⟨s, .mismatch, []⟩
        else ⟨C.add s h t, .run (some t), [.add h t]⟩

/-- Run a history from state `s`; returns final state and the per-request results in order. -/
def runAll (H : Text → Hash) (C : CacheImpl σ Text Hash) : σ → List (Req Text Hash) → σ × List (StepRes σ Text Hash)
  | s, [] => (s, [])
  | s, r :: rs =>
    let x := step H C s r
    let (s', xs) := runAll H C x.state rs
    (s', x :: xs)

/-- State after a history. -/
def finalState (H : Text → Hash) (C : CacheImpl σ Text Hash) (s : σ) (rs : List (Req Text Hash)) : σ :=
  (runAll H C s rs).1

/-- Outcomes of a history. -/
def outcomes (H : Text → Hash) (C : CacheImpl σ Text Hash) (s : σ) (rs : List (Req Text Hash)) : List (Outcome Text) :=
  (runAll H C s rs).2.map (·.out)

/-- The text `ExecutableSchema.Exec` is invoked on for an outcome (`valid` = parses, has an operation
and validates against the schema — gqlparser, a parameter). Every error outcome executes nothing. -/
def executed (valid : Text → Bool) : Outcome Text → Option Text
  | .run (some t) => if valid t then some t else none
  | _ => none

/-- The (text, hash) pair a request *sends together* under version 1 (matching or not). -/
def sentOf (r : Req Text Hash) : List (Text × Hash) :=
  match r.query, r.ext with
  | some t, .decoded v h => if v = 1 then [(t, h)] else []
  | _, _ => []

/-- All pairs sent together by a history. -/
def sentPairs : List (Req Text Hash) → List (Text × Hash)
  | [] => []
  | r :: rs => sentOf r ++ sentPairs rs

/-! ## Lawful caches -/

/-- A cache is lawful w.r.t. an abstraction `view` (what a lookup could return) when `Get` only returns
what `view` holds and never adds bindings, and after `Add k v` key `k` holds `v` or nothing and
every other key holds what it held before or nothing — eviction may drop entries arbitrarily. -/
structure Lawful (C : CacheImpl σ Text Hash) (view : σ → Hash → Option Text) : Prop where
  get_val : ∀ s k v, (C.get s k).1 = some v → view s k = some v
  get_mono : ∀ s k k' v, view (C.get s k).2 k' = some v → view s k' = some v
  add_law : ∀ s k v k' v', view (C.add s k v) k' = some v' →
    (k' = k ∧ v' = v) ∨ (k' ≠ k ∧ view s k' = some v')

/-! ### `graphql.MapCache` — a Go map -/

def MapState (Text Hash : Type) := Hash → Option Text

def mapCache : CacheImpl (MapState Text Hash) Text Hash where
  get s k := (s k, s)
  add s k v := fun k' => if k' = k then some v else s k'

def mapEmpty : MapState Text Hash := fun _ => none
def mapView (s : MapState Text Hash) : Hash → Option Text := s

/-! ### `graphql.NoCache` -/

def noCache : CacheImpl Unit Text Hash where
  get s _ := (none, s)
  add s _ _ := s

def noView (_ : Unit) : Hash → Option Text := fun _ => none

/-! ### `lru.LRU` — bounded recency list, most recent first -/

structure Lru (Text Hash : Type) where
  cap : Nat
  items : List (Hash × Text)

def find (k : Hash) : List (Hash × Text) → Option Text
  | [] => none
  | (k', v) :: r => if k' = k then some v else find k r

def remove (k : Hash) : List (Hash × Text) → List (Hash × Text)
  | [] => []
  | (k', v) :: r => if k' = k then remove k r else (k', v) :: remove k r

/-- drop the oldest entry (`removeOldest`) -/
def dropOldest : List (Hash × Text) → List (Hash × Text)
  | [] => []
  | [_] => []
  | x :: y :: r => x :: dropOldest (y :: r)

/-- `lru.Get`: hit moves the entry to the front. -/
def lruGet (c : Lru Text Hash) (k : Hash) : Option Text × Lru Text Hash :=
  match find k c.items with
  | none => (none, c)
  | some v => (some v, { c with items := (k, v) :: remove k c.items })

/-- `lru.Add`: existing key → new value, moved to front, no eviction; new key → pushed to the front,
and the oldest entry removed if the size is now exceeded. -/
def lruAdd (c : Lru Text Hash) (k : Hash) (v : Text) : Lru Text Hash :=
  match find k c.items with
  | some _ => { c with items := (k, v) :: remove k c.items }
  | none =>
    let items := (k, v) :: c.items
    { c with items := if items.length > c.cap then dropOldest items else items }

def lruCache : CacheImpl (Lru Text Hash) Text Hash where
  get := lruGet
  add := lruAdd

def lruEmpty (n : Nat) : Lru Text Hash := ⟨n, []⟩
def lruView (c : Lru Text Hash) : Hash → Option Text := fun k => find k c.items

/-! ## Spec: the property written directly, as a checker over an observed trace

`specOk` walks a history together with what was *observed* per request (outcome and cache calls, from
the model or from the real implementation) and the final cache contents, and decides the statement of
C15: a hash-only request is answered `notFound` or runs a text that hashes to that hash and was sent
together with it earlier; a mismatching request is rejected, runs nothing and adds nothing; every `Add`
binds a hash to the text of the same request that hashes to it; the cache finally holds only such pairs. -/

structure Obs (Text Hash : Type) where
  out : Outcome Text
  /-- the text `ExecutableSchema.Exec` was invoked on, if any -/
  exec : Option Text
  ops : List (Op Text Hash)

variable [DecidableEq Text]

def addsOf : List (Op Text Hash) → List (Hash × Text)
  | [] => []
  | .add h t :: r => (h, t) :: addsOf r
  | .get _ _ :: r => addsOf r

/-- verdict for one request given the pairs sent before it -/
def specReq (H : Text → Hash) (sent : List (Text × Hash)) (r : Req Text Hash) (o : Obs Text Hash) : Bool :=
  -- every Add registers this request's own text under this request's hash, which is the text's hash
  (addsOf o.ops).all (fun p => decide (H p.2 = p.1) && decide (r.query = some p.2) && decide (r.ext = .decoded 1 p.1)) &&
  (match r.ext with
   | .decoded v h =>
     if v ≠ 1 then true else
     match r.query with
     | none =>
       -- hash only: not found, or exactly a text registered for that hash
       (match o.out with
        | .notFound => o.exec.isNone
        | .run (some t) => decide (H t = h) && decide ((t, h) ∈ sent) && (o.exec.isNone || decide (o.exec = some t))
        | _ => false)
     | some t =>
       -- text that does not hash to the hash sent with it: rejected, executes nothing, registers nothing
       if H t ≠ h then decide (o.out = .mismatch) && o.exec.isNone && (addsOf o.ops).isEmpty else true
   | _ => true)

def specTrace (H : Text → Hash) : List (Text × Hash) → List (Req Text Hash) → List (Obs Text Hash) → Bool
  | _, [], [] => true
  | sent, r :: rs, o :: os => specReq H sent r o && specTrace H (sent ++ sentOf r) rs os
  | _, _, _ => false

/-- final contents (as pairs) are all registered pairs -/
def specFinal (H : Text → Hash) (rs : List (Req Text Hash)) (contents : List (Hash × Text)) : Bool :=
  contents.all (fun (h, t) => decide (H t = h) && decide ((t, h) ∈ sentPairs rs))

def specOk (H : Text → Hash) (rs : List (Req Text Hash)) (os : List (Obs Text Hash))
    (contents : List (Hash × Text)) : Bool :=
  specTrace H [] rs os && specFinal H rs contents

end GqlgenVerif.Apq
