/-!
# Keys of the cache wrapper `graphql/handler/lru.LRU` (C07, round 6)

`LRU.Get(key)` / `LRU.Add(key, v)` hand a key to the underlying cache. The store is modelled as the list of entries
that were added and are still there (eviction removes entries, most recent first); `f` is what the wrapper does to a
key before it reaches the store (regenerated: `Gen/LruKeys.lean` says whether it is the identity).
-/
namespace GqlgenVerif.LruKeys

inductive KeyUse
  | verbatim
  | transformed (e : String)
  deriving Repr, DecidableEq

def addS {α : Type} (f : String → String) (s : List (String × α)) (k : String) (v : α) : List (String × α) :=
  (f k, v) :: s

def getS {α : Type} (f : String → String) (s : List (String × α)) (k : String) : Option α :=
  (s.find? (fun e => e.1 == f k)).map (·.2)

/-- the wrapper's key function when every method passes its key verbatim -/
def keyFn (uses : List (String × KeyUse)) : Option (String → String) :=
  if uses.all (fun u => u.2 == .verbatim) then some id else none

end GqlgenVerif.LruKeys
