import GqlgenVerif.Model.ServerState
import GqlgenVerif.Gen.PoolReset
/-! The configuration of `Model/ServerState` that the current source of /repo dictates
(`Gen/PoolReset.lean` is regenerated from `http_post.go`, `http_form_urlencoded.go`, `handler.go` on every run). -/
namespace GqlgenVerif.SS
open GqlgenVerif.Gen

def genCfg : Cfg where
  resets := PoolReset.resets
  nullMode := (nullModeOf PoolReset.decodeFunc PoolReset.decodeTarget).getD .nilPtr
  formNullMode := (nullModeOf PoolReset.formDecodeFunc PoolReset.formDecodeTarget).getD .nilPtr

end GqlgenVerif.SS
