/-!
# `(*Server).ServeHTTP` and panics that escape field execution (C04, last sentence)

A custom scalar's `MarshalGQL` runs when the response is *written* (`data.MarshalGQL(&buf)` in the
generated `Exec` closure, called by the transport), after every recover of the generated field functions
has returned. The only frames left on that goroutine's stack are the transport's `Do` and
`ServeHTTP`; what happens is decided by `ServeHTTP`'s own first statement
(`graphql/handler/server.go`), whose shape is re-extracted on every run (`Gen/ServeRecover.lean`):

```
defer func() {
    if err := recover(); err != nil {
        err := s.exec.PresentRecoveredError(r.Context(), err)   -- the user's RecoverFunc, once
        ... b, _ := json.Marshal(&graphql.Response{Errors: ...})
        w.WriteHeader(http.StatusUnprocessableEntity); w.Write(b)
```

`encoding/json` (the bytes of the error body) is trusted; the correspondence run parses the real body.
-/
namespace GqlgenVerif.Serve

/-- the extracted shape of ServeHTTP -/
structure Cfg where
  first : String        -- "defer-recover" | "recover-not-first" | "other"
  presents : Bool       -- the handler calls PresentRecoveredError
  status : String       -- the net/http constant passed to WriteHeader, "none" if there is none
  writes : Bool         -- the handler writes a body
deriving Repr, DecidableEq

/-- what the transport + executor do with one request: a response, or a panic with this value -/
inductive Ran where
  | ok (status : Nat) (body : String)
  | panic (value : String)
deriving Repr, DecidableEq

/-- what the client of one request sees -/
inductive Seen where
  | response (status : Nat) (body : String)
  | errorBody (status : String) (presented : String)   -- `{"errors":[{"message": presented}],"data":null}`
  | emptyReply                                         -- recovered, nothing written (net/http sends 200, no body)
  | connectionAborted                                  -- net/http's own per-connection recover: no response at all
deriving Repr, DecidableEq

/-- process-wide effects of serving: how often the user's recover hook ran -/
structure Eff where
  recovers : Nat := 0
deriving Repr, DecidableEq

def serveOne (cfg : Cfg) (present : String → String) (r : Ran) : Seen × Eff :=
  match r with
  | .ok s b => (.response s b, {})
  | .panic v =>
    if cfg.first == "defer-recover" then
      let msg := if cfg.presents then present v else v
      (if cfg.writes && cfg.status != "none" then .errorBody cfg.status msg else .emptyReply,
       { recovers := if cfg.presents then 1 else 0 })
    else (.connectionAborted, {})

/-- a server process answering a sequence of requests (the handler keeps no state between them; what the
    transports keep - pooled request structs, caches - is C07's model) -/
def serveAll (cfg : Cfg) (present : String → String) : List Ran → List (Seen × Eff)
  | [] => []
  | r :: rest => serveOne cfg present r :: serveAll cfg present rest

end GqlgenVerif.Serve
