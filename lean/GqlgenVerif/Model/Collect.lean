import GqlgenVerif.Model.Schema
/-!
# Field collection: `graphql.CollectFields` (Impl) and GraphQL §6.3.2 `CollectFields` (Spec)

`Impl.collect` mirrors `graphql/executable_schema.go: collectFields / getOrCreateAndAppendField /
shouldIncludeNode / deferrable` statement by statement: the `visited` map is threaded through nested
calls, a fragment's type condition is tested by membership in the `satisfies` list, children collected
from a fragment are merged into the parent's list with the (name, alias, related ObjectDefinition) rule.
When `getOrCreateAndAppendField` *creates* an entry from a child collected inside a fragment, the Go
code appends the child's selections to the copy once more, so they appear twice in `Selections`
(`dup = true`, the code as it is). Without `@defer` the repetition is unobservable (the repeated
selections merge into the slots they created); with `@defer` it is observable — when the repeated part is
re-collected one level down, a fragment's label overwrites the label a later fragment had given to a shared
field. `dup = false` is the same algorithm without the repetition; `Lemmas/Collect.lean` proves that one
equal to the Spec, and the driver compares the plans of `dup = true` and of the Spec on every case.

Recursion is by fuel (every call consumes one unit); the driver supplies far more than any document
needs and reports `out-of-fuel` instead of guessing.
-/
namespace GqlgenVerif

/-- `graphql.CollectedField`: the first `*ast.Field` (alias, name, ObjectDefinition), the merged
    selections and the deferral label -/
structure CF where
  alias : String
  name : String
  objDef : String
  sels : List Sel
  deferred : Option String := none
  /-- the executable directives (other than `@skip` / `@include` / `@defer`) of the FIRST occurrence: the generated
      `_fieldMiddleware` reads `fc.Field.Directives`, and `CollectedField.Field` is the first `*ast.Field` -/
  fdirs : List String := []
deriving Repr, Inhabited

/-- names of the executable directives a field selection carries besides the built-in ones, in document order -/
def userDirs (dirs : List Dir) : List String :=
  (dirs.map (·.name)).filter fun n => n != "skip" && n != "include" && n != "defer"

/-- `arg.Value.Value(variables)` restricted to what execution inspects -/
def ArgVal.bool? (vars : Vars) : ArgVal → Option Bool
  | .lit "true" => some true
  | .lit "false" => some false
  | .lit _ => none
  | .var n => match vars.get n with
    | some (.bool b) => some b
    | _ => none

def ArgVal.str? (vars : Vars) : ArgVal → Option String
  | .lit raw => some raw
  | .var n => match vars.get n with
    | some (.str s) => some s
    | _ => none

def dirNamed (dirs : List Dir) (n : String) : Option Dir := dirs.find? (·.name == n)

/-- `resolveIfArgument`: validation guarantees a Boolean `if`; anything else panics in Go and is
    reported as `none` here -/
def ifArg (vars : Vars) (d : Dir) : Option Bool :=
  match d.ifArg with
  | some a => a.bool? vars
  | none => none

/-- `shouldIncludeNode` -/
def shouldInclude (vars : Vars) (dirs : List Dir) : Bool :=
  let skip := match dirNamed dirs "skip" with
    | some d => (ifArg vars d).getD false
    | none => false
  let incl := match dirNamed dirs "include" with
    | some d => (ifArg vars d).getD true
    | none => true
  !skip && incl

/-- `deferrable`: (shouldDefer, label) -/
def deferrable (vars : Vars) (dirs : List Dir) : Bool × String :=
  match dirNamed dirs "defer" with
  | none => (false, "")
  | some d =>
    let sd := match d.ifArg with
      | some a => (a.bool? vars).getD false     -- `shouldDefer, _ = value.(bool)`
      | none => true
    let lb := match d.label with
      | some a => (a.str? vars).getD ""
      | none => ""
    (sd, lb)

/-- the ObjectDefinition test of `getOrCreateAndAppendField` -/
def relatedDefs (s : Schema) (a b : String) : Bool :=
  if a == b then true
  else if a == "" || b == "" then false
  else (s.interfacesOf b).contains a || (s.interfacesOf a).contains b

def findSlot (s : Schema) (acc : List CF) (name alias objDef : String) : Option Nat :=
  acc.findIdx? fun cf => cf.name == name && cf.alias == alias && relatedDefs s cf.objDef objDef

namespace Impl

/-- merge one child collected inside a fragment into the parent's list -/
def mergeChild (dup : Bool) (s : Schema) (acc : List CF) (child : CF) (defer? : Bool) (label : String) : List CF :=
  match findSlot s acc child.name child.alias child.objDef with
  | some i =>
    acc.modify i fun f =>
      { f with sels := f.sels ++ child.sels, deferred := if defer? then some label else f.deferred }
  | none =>
    -- `creator()` returns the child (with its selections); then `f.Selections = append(f.Selections, child…)`
    acc ++ [{ child with sels := if dup then child.sels ++ child.sels else child.sels,
                         deferred := if defer? then some label else child.deferred }]

def mergeChildren (dup : Bool) (s : Schema) (acc : List CF) (children : List CF) (defer? : Bool)
    (label : String) : List CF :=
  children.foldl (fun a c => mergeChild dup s a c defer? label) acc

/-- `collectFields(reqCtx, selSet, satisfies, visited)`; returns the grouped fields and the updated
    `visited` set; `none` = out of fuel -/
def collect (dup : Bool) (s : Schema) (frags : List Frag) (vars : Vars) (satisfies : List String) :
    Nat → List Sel → List CF → List String → Option (List CF × List String)
  | 0, _, _, _ => none
  | _ + 1, [], acc, vis => some (acc, vis)
  | fuel + 1, sel :: rest, acc, vis =>
    match sel with
    | .field alias name objDef dirs ss =>
      if !shouldInclude vars dirs then collect dup s frags vars satisfies fuel rest acc vis else
      let acc' := match findSlot s acc name alias objDef with
        | some i => acc.modify i fun f => { f with sels := f.sels ++ ss }
        | none => acc ++ [{ alias, name, objDef, sels := ss, fdirs := userDirs dirs }]
      collect dup s frags vars satisfies fuel rest acc' vis
    | .inline tc dirs ss =>
      if !satisfies.isEmpty && tc != "" && !satisfies.contains tc then
        collect dup s frags vars satisfies fuel rest acc vis
      else if !shouldInclude vars dirs then collect dup s frags vars satisfies fuel rest acc vis
      else
        let (df, lb) := deferrable vars dirs
        match collect dup s frags vars satisfies fuel ss [] vis with
        | none => none
        | some (children, vis') =>
          collect dup s frags vars satisfies fuel rest (mergeChildren dup s acc children df lb) vis'
    | .spread fname dirs =>
      if !shouldInclude vars dirs then collect dup s frags vars satisfies fuel rest acc vis
      else if vis.contains fname then collect dup s frags vars satisfies fuel rest acc vis
      else
        let vis1 := fname :: vis
        match frags.find? (·.name == fname) with
        | none => none      -- "missing fragment": the validator has already run
        | some fr =>
          if !satisfies.isEmpty && !satisfies.contains fr.typeCond then
            collect dup s frags vars satisfies fuel rest acc vis1
          else
            let (df, lb) := deferrable vars dirs
            match collect dup s frags vars satisfies fuel fr.sels [] vis1 with
            | none => none
            | some (children, vis') =>
              collect dup s frags vars satisfies fuel rest (mergeChildren dup s acc children df lb) vis'

end Impl

namespace Spec

/-- one field occurrence that applies to the object type, in document order -/
structure Occ where
  alias : String
  name : String
  objDef : String
  sels : List Sel
  deferred : Option String
  fdirs : List String := []
deriving Repr, Inhabited

/-- GraphQL §6.3.2 `CollectFields`, producing the ordered occurrences; `applies tc` is
    `DoesFragmentTypeApply(objectType, tc)` -/
def occurrences (frags : List Frag) (vars : Vars) (applies : String → Bool) :
    Nat → List Sel → Option String → List String → Option (List Occ × List String)
  | 0, _, _, _ => none
  | _ + 1, [], _, vis => some ([], vis)
  | fuel + 1, sel :: rest, dfr, vis =>
    match sel with
    | .field alias name objDef dirs ss =>
      if !shouldInclude vars dirs then occurrences frags vars applies fuel rest dfr vis else
      match occurrences frags vars applies fuel rest dfr vis with
      | none => none
      | some (os, vis') => some ({ alias, name, objDef, sels := ss, deferred := dfr, fdirs := userDirs dirs } :: os, vis')
    | .inline tc dirs ss =>
      if !shouldInclude vars dirs then occurrences frags vars applies fuel rest dfr vis
      else if tc != "" && !applies tc then occurrences frags vars applies fuel rest dfr vis
      else
        let (df, lb) := deferrable vars dirs
        match occurrences frags vars applies fuel ss (if dfr.isSome then dfr else if df then some lb else none) vis with
        | none => none
        | some (inner, vis') =>
          match occurrences frags vars applies fuel rest dfr vis' with
          | none => none
          | some (os, vis'') => some (inner ++ os, vis'')
    | .spread fname dirs =>
      if !shouldInclude vars dirs then occurrences frags vars applies fuel rest dfr vis
      else if vis.contains fname then occurrences frags vars applies fuel rest dfr vis
      else
        let vis1 := fname :: vis
        match frags.find? (·.name == fname) with
        | none => none
        | some fr =>
          if !applies fr.typeCond then occurrences frags vars applies fuel rest dfr vis1
          else
            let (df, lb) := deferrable vars dirs
            match occurrences frags vars applies fuel fr.sels (if dfr.isSome then dfr else if df then some lb else none) vis1 with
            | none => none
            | some (inner, vis') =>
              match occurrences frags vars applies fuel rest dfr vis' with
              | none => none
              | some (os, vis'') => some (inner ++ os, vis'')

/-- group occurrences by response key, keeping the order of first appearance; the group's
    sub-selection is the concatenation of its members' selection sets -/
def group : List Occ → List CF → List CF
  | [], acc => acc
  | o :: os, acc =>
    match acc.findIdx? (·.alias == o.alias) with
    | some i => group os (acc.modify i fun f => { f with sels := f.sels ++ o.sels })
    | none => group os (acc ++ [{ alias := o.alias, name := o.name, objDef := o.objDef, sels := o.sels,
                                   deferred := o.deferred, fdirs := o.fdirs }])

end Spec

end GqlgenVerif
