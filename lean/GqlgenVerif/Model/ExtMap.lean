/-!
# The map a response middleware writes into (C07, round 7)

Mirrors `graphql/context_response.go: GetExtensions` as used by `graphql/executor/executor.go: DispatchOperation /
DispatchError` (`resp.Extensions = graphql.GetExtensions(ctx)` just before the response middleware gets the
response): while nothing was registered the response gets a map made for it (`fresh`), or - if the function
returns a package-level map - the one map of the PROCESS (`shared`). A response middleware writes
`resp.Extensions["mut"] = v` for requests that carry a value `v` (`some v`) and nothing otherwise; the response
serialises the map as it is then. Core Lean only.
-/
namespace GqlgenVerif.ExtMap

inductive Policy
  | fresh
  | shared
  deriving DecidableEq, Repr

/-- a request: the value its own middleware writes under the key, if any -/
abbrev Req := Option String

/-- content of the package-level map (value under the one key, if any) -/
abbrev Global := Option String

/-- serve one request: (value under the key in the response's `extensions`, package-level map afterwards) -/
def serve (p : Policy) (g : Global) (r : Req) : Option String × Global :=
  match p with
  | .fresh => (r, g)
  | .shared =>
    let m := match r with
      | some v => some v
      | none => g
    (m, m)

/-- any sequence of requests of one process (any servers, any transports; an interleaving is a sequence of these steps) -/
def run (p : Policy) : Global → List Req → List (Option String)
  | _, [] => []
  | g, r :: rs => (serve p g r).1 :: run p (serve p g r).2 rs

/-- Spec: every response carries exactly what its own request's middleware wrote -/
def spec (rs : List Req) : List (Option String) := rs

/-- the policy the regenerated escape facts give `GetExtensions`: (package, variable, kind, function, how) -/
def policyOf (escapes : List (String × String × String × String × String)) : Policy :=
  if escapes.any (fun e => e.1 == "graphql" && e.2.2.2.1 == "GetExtensions") then .shared else .fresh

end GqlgenVerif.ExtMap
