import GqlgenVerif.Model.Entities
/-!
# The key-field walk of `entityResolverNameFor<T>` as a cursor program (C20)

`/repo/plugin/federation/federation.gotpl` generates, per `@key` of an entity, one `for { … }` block that walks the
representation with three variables - the cursor `m` (the object the next field is looked up in), `val` (the value
read last) and `allNull`:

```go
allNull := true
m = rep                                            -- Op.reset      (once per key COMPONENT)
val, ok = m["owner"]; if !ok { …missing…; break }  -- Op.look "owner"
if m, ok = val.(map[string]any); !ok { …; break }  -- Op.descend
val, ok = m["id"];    if !ok { …missing…; break }  -- Op.look "id"
if allNull { allNull = val == nil }                -- Op.nullCheck
m = rep
val, ok = m["sku"]; …
if allNull { …all null…; break }                   -- end of the program
return "findTByOwnerIDAndSku", nil
```

* `Op`, `runOps`      — the statements and their execution on a representation (`some e` = the block `break`s with
                        the error text `e`, `none` = it returns its resolver)
* `compilePath`, `compileKeys` — the program the template emits for a list of key-field paths
* `checkedPaths`      — the same statements executed symbolically: from which ABSOLUTE path of the representation
                        every null-checked value was read (`none`: the cursor was never set)

`Props/C20Walk.lean` proves `runOps (compileKeys paths) = tryKeys` (the model `Model/Entities.lean` uses) for all
inputs, and ties the programs regenerated from the generated code (`Gen/FedKeyWalk.lean`) to `compileKeys`.

Core Lean only.
-/
namespace GqlgenVerif.KeyWalk
open GqlgenVerif.Entities

inductive Op where
  /-- `m = rep` -/
  | reset
  /-- `val, ok = m[k]; if !ok { errs = append(errs, missing k); break }` -/
  | look (k : String)
  /-- `if m, ok = val.(map[string]any); !ok { errs = append(errs, not a map); break }` -/
  | descend
  /-- `if allNull { allNull = val == nil }` -/
  | nullCheck
  deriving DecidableEq, Repr

/-- the extractor's spelling of a statement (`go/extract/fedkeywalk.go`): 0 reset, 1 look, 2 descend, 3 null check -/
def Op.parse : Nat × String → Option Op
  | (0, _) => some .reset
  | (1, k) => some (.look k)
  | (2, _) => some .descend
  | (3, _) => some .nullCheck
  | _ => none

def parseOps : List (Nat × String) → Option (List Op)
  | [] => some []
  | x :: xs =>
    match Op.parse x, parseOps xs with
    | some o, some os => some (o :: os)
    | _, _ => none

/-- the variables of one block -/
structure WS where
  /-- the cursor; Go's nil map reads like an empty one -/
  m : Rep := []
  val : JV := .null
  /-- the field `val` was read from (the "not a map" error names it) -/
  key : String := ""
  allNull : Bool := true

def errMissing (ety seg : String) : String :=
  s!"{errTypeNotFound} due to missing Key Field \"{seg}\" for {ety}"

def errNotMap (ety seg : String) : String :=
  s!"{errTypeNotFound} due to nested Key Field \"{seg}\" value not matching map[string]any for {ety}"

def errAllNull (ety : String) : String :=
  s!"{errTypeNotFound} due to all null value KeyFields for {ety}"

/-- run the statements of a block; at their end the closing guard `if allNull { …; break }; return name, nil` -/
def runOps (ety : String) (rep : Rep) : List Op → WS → Option String
  | [], s => if s.allNull then some (errAllNull ety) else none
  | .reset :: r, s => runOps ety rep r { s with m := rep }
  | .look k :: r, s =>
    match s.m.lookup k with
    | none => some (errMissing ety k)
    | some v => runOps ety rep r { s with val := v, key := k }
  | .descend :: r, s =>
    match s.val with
    | .obj fs => runOps ety rep r { s with m := fs }
    | _ => some (errNotMap ety s.key)
  | .nullCheck :: r, s => runOps ety rep r { s with allNull := s.allNull && s.val.isNull }

/-- `{{range $i, $field := .Field}}` of one key field: look up every segment, descend below all but the last,
null-check the last -/
def compilePath : List String → List Op
  | [] => []
  | [k] => [.look k, .nullCheck]
  | k :: rest => .look k :: .descend :: compilePath rest

/-- `{{range .KeyFields}} m = rep … {{end}}`: the cursor goes back to the representation before EVERY key field -/
def compileKeys : List (List String) → List Op
  | [] => []
  | p :: ps => .reset :: (compilePath p ++ compileKeys ps)

/-- the variant with the reset hoisted out of the loop over the key fields (once per resolver) - what a
"loop-invariant" clean-up of the template would generate; `Props/C20Walk.lean` shows it is wrong -/
def compileKeysResetOnce (ps : List (List String)) : List Op :=
  .reset :: (ps.map compilePath).flatten

/-- symbolic execution: the absolute path every null-checked value was read from. `cur` = where the cursor
points (`none`: never set), `last` = where `val` was read from -/
def checkedPaths : List Op → Option (List String) → Option (List String) → List (Option (List String))
  | [], _, _ => []
  | .reset :: r, _, last => checkedPaths r (some []) last
  | .look k :: r, cur, _ => checkedPaths r cur (cur.map (· ++ [k]))
  | .descend :: r, _, last => checkedPaths r last last
  | .nullCheck :: r, cur, last => last :: checkedPaths r cur last

end GqlgenVerif.KeyWalk
