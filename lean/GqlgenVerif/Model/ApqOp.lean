import GqlgenVerif.Model.Apq
/-!
# Which OPERATION of the registered text a request executes  (property C15, operationName dimension)

`Apq.step` says which TEXT `MutateOperationParameters` leaves in `rawParams.Query`. A text may define several
operations; the request's `operationName` selects one. "A hash-only request executes exactly the text that was
sent with the hash" therefore means: it executes what a server that sees that text for the first time executes
for the same `operationName` - whatever other clients selected earlier. This file models the part of
`graphql/executor/executor.go` behind the extension:

* `Executor.parseQuery`  →  `parseQuery`: the parsed-document cache (`SetQueryCache`, a `graphql.Cache` keyed by
  the text) is asked first; on a miss the text is parsed and validated (`parse`, gqlparser, a parameter; `none`
  = rejected) and the document is added to the cache;
* `opCtx.Doc.Operations.ForName(params.OperationName)` (gqlparser `OperationList.ForName`)  →  `forName`;
* `CreateOperationContext` + `DispatchOperation` behind the mutators  →  `stepOp`.

Documents are VALUES here: nothing in the model can change a document that sits in the cache. That the source
has this form (the document obtained from `parseQuery` is stored once, only read afterwards, handed to nobody
who could write through it) is the regenerated fact `Gen/DocFlow.lean`, checked by `docFlowOk`.
The cache behind `SetQueryCache` is any `Apq.CacheImpl` (key = text, value = document), lawful in the sense of
`Apq.Lawful` (arbitrary eviction allowed). Core Lean only.
-/
namespace GqlgenVerif.ApqOp
open GqlgenVerif.Apq

/-- The operations of a parsed document in source order: (name, body). The anonymous operation has the
name `anon` (Go: `""`). -/
abbrev Doc (Name Body : Type) := List (Name × Body)

section Select
variable {Name Body : Type} [DecidableEq Name]

/-- the loop of `OperationList.ForName`: first operation with that name -/
def findName (n : Name) : Doc Name Body → Option (Name × Body)
  | [] => none
  | o :: r => if o.1 = n then some o else findName n r

/-- gqlparser `OperationList.ForName`: `name == "" && len(l) == 1` → the only operation; else the first
operation with that name; else nil ("operation … not found") -/
def forName (anon : Name) (d : Doc Name Body) (n : Name) : Option (Name × Body) :=
  match d with
  | [o] => if n = anon then some o else findName n d
  | _ => findName n d

end Select

variable {σ δ Text Hash Name Body : Type}

/-- `Executor.parseQuery`. The cache is `CacheImpl δ (Doc Name Body) Text`: key = text, value = document. -/
def parseQuery (parse : Text → Option (Doc Name Body)) (Q : CacheImpl δ (Doc Name Body) Text) (q : δ) (t : Text) :
    Option (Doc Name Body) × δ :=
  match Q.get q t with
  | (some d, q') => (some d, q')                    -- `if doc, ok := e.queryCache.Get(ctx, query); ok { return doc }`
  | (none, q') =>
    match parse t with
    | none => (none, q')                             -- parse / no-operation / validation error: nothing is cached
    | some d => (some d, Q.add q' t d)               -- `e.queryCache.Add(ctx, query, doc)`

/-- what a server that sees text `t` for the first time executes for `operationName = n` -/
def selectOf [DecidableEq Name] (parse : Text → Option (Doc Name Body)) (anon : Name) (t : Text) (n : Name) :
    Option (Name × Body) :=
  (parse t).bind (fun d => forName anon d n)

/-- A request: what the extension sees + the `operationName` (which the extension does not look at). -/
structure OReq (Text Hash Name : Type) where
  req : Req Text Hash
  opName : Name

/-- Result of one request: the extension's result, the document cache afterwards, and what
`ExecutableSchema.Exec` is invoked on (text, selected operation) if anything. -/
structure OStepRes (σ δ Text Hash Name Body : Type) where
  apq : StepRes σ Text Hash
  docs : δ
  exec : Option (Text × (Name × Body))

variable [DecidableEq Hash] [DecidableEq Name]

/-- `CreateOperationContext` behind the parameter mutators, then `DispatchOperation`, given what the extension
answered: the text is looked up / parsed, the operation selected. An empty `rawParams.Query` (`run none`) does
not parse: it executes nothing and is never added to the document cache; an error answer ends the request. -/
def execOf (parse : Text → Option (Doc Name Body)) (anon : Name) (Q : CacheImpl δ (Doc Name Body) Text) (q : δ) :
    Outcome Text → Name → Option (Text × (Name × Body)) × δ
  | .run (some t), n =>
    match parseQuery parse Q q t with
    | (some d, q') => ((forName anon d n).map (fun o => (t, o)), q')
    | (none, q') => (none, q')
  | _, _ => (none, q)

/-- one request: the extension (`Apq.step`), then the executor -/
def stepOp (H : Text → Hash) (C : CacheImpl σ Text Hash) (parse : Text → Option (Doc Name Body)) (anon : Name)
    (Q : CacheImpl δ (Doc Name Body) Text) (s : σ) (q : δ) (r : OReq Text Hash Name) :
    OStepRes σ δ Text Hash Name Body :=
  ⟨step H C s r.req, (execOf parse anon Q q (step H C s r.req).out r.opName).2,
    (execOf parse anon Q q (step H C s r.req).out r.opName).1⟩

/-- Run a history from the cache states `s` (persisted queries) and `q` (parsed documents). -/
def runAllOp (H : Text → Hash) (C : CacheImpl σ Text Hash) (parse : Text → Option (Doc Name Body)) (anon : Name)
    (Q : CacheImpl δ (Doc Name Body) Text) : σ → δ → List (OReq Text Hash Name) →
    List (OStepRes σ δ Text Hash Name Body)
  | _, _, [] => []
  | s, q, r :: rs =>
    let x := stepOp H C parse anon Q s q r
    x :: runAllOp H C parse anon Q x.apq.state x.docs rs

/-- what Exec must be invoked on, given what the extension answered: the selection a first-time server makes
in the text the extension let through; nothing for every error answer -/
def expectedExec (sel : Text → Name → Option (Name × Body)) : Outcome Text → Name → Option (Text × (Name × Body))
  | .run (some t), n => (sel t n).map (fun o => (t, o))
  | _, _ => none

/-- the document cache holds, for a text, only the document that text parses to -/
def Faithful (parse : Text → Option (Doc Name Body)) (view : δ → Text → Option (Doc Name Body)) (q : δ) : Prop :=
  ∀ t d, view q t = some d → parse t = some d

/-! ## Spec over an observed trace -/

structure OObs (Text Hash Name Body : Type) where
  out : Outcome Text
  /-- the (text, operation) `ExecutableSchema.Exec` was invoked on, if any -/
  exec : Option (Text × (Name × Body))
  ops : List (Op Text Hash)

def OObs.base (o : OObs Text Hash Name Body) : Obs Text Hash := ⟨o.out, o.exec.map (·.1), o.ops⟩

/-- the request carries a version-1 persisted-query extension (hash only, or text + hash) -/
def apqInvolved (r : Req Text Hash) : Bool :=
  match r.ext with
  | .decoded v _ => decide (v = 1)
  | _ => false

variable [DecidableEq Text] [DecidableEq Body]

/-- a persisted-query request executes exactly the first-time selection in the text the extension answered
with (the registered text for a hash-only request), or nothing when it answered with an error -/
def execReq (sel : Text → Name → Option (Name × Body)) (r : OReq Text Hash Name) (o : OObs Text Hash Name Body) : Bool :=
  !apqInvolved r.req || decide (o.exec = expectedExec sel o.out r.opName)

def execTrace (sel : Text → Name → Option (Name × Body)) :
    List (OReq Text Hash Name) → List (OObs Text Hash Name Body) → Bool
  | [], [] => true
  | r :: rs, o :: os => execReq sel r o && execTrace sel rs os
  | _, _ => false

/-- `Apq.specOk` on the projection + every persisted-query request executes the first-time selection -/
def specOkOp (sel : Text → Name → Option (Name × Body)) (H : Text → Hash) (rs : List (OReq Text Hash Name))
    (os : List (OObs Text Hash Name Body)) (contents : List (Hash × Text)) : Bool :=
  specOk H (rs.map (·.req)) (os.map (·.base)) contents && execTrace sel rs os

/-! ## The flow of the parsed document through package executor (checker for `Gen/DocFlow.lean`)

Event kinds produced by `go/extract/docflow.go` for every function of package executor that touches a
`*ast.QueryDocument`:
`def`  a variable receives a document from a call (`callee`);
`store` a field `….Doc` is assigned (`callee` = the call it comes from);
`ret`  the document is returned;  `len` `len(doc.Operations)`;
`call` a method reached through the document is called (`callee` = selector path);
`pass` the document (or something reached through it) is an argument of `callee`;
`write` an assignment through the document;  `alias` a variable receives something reached through the
document (a slice of its operations, a copy of the struct, …) - later writes through it would not be seen;
`range` a loop over something reached through the document;  `other` anything else. -/

structure DocEv where
  fn : String
  kind : String
  target : String
  callee : String
  deriving DecidableEq, Repr

/-- the events that cannot change a document another request may be handed later -/
def DocEv.readOnly (e : DocEv) : Bool :=
  match e.kind with
  | "def" => e.callee == "e.queryCache.Get" || e.callee == "parser.ParseQueryWithTokenLimit"
  | "store" => e.fn == "CreateOperationContext" && e.target == "opCtx.Doc" && e.callee == "e.parseQuery"
  | "ret" => true
  | "len" => true
  | "call" => e.callee == "opCtx.Doc.Operations.ForName"
  | "pass" => e.callee == "validate" || e.callee == "validator.Validate" || e.callee == "e.queryCache.Add"
  | _ => false

/-- every event is read-only; the document is stored into the operation context exactly once and selected from
exactly once; it enters the cache exactly once -/
def docFlowOk (evs : List DocEv) : Bool :=
  evs.all DocEv.readOnly &&
  (evs.filter (fun e => e.kind == "store")).length == 1 &&
  (evs.filter (fun e => e.kind == "call")).length == 1 &&
  (evs.filter (fun e => e.kind == "pass" && e.callee == "e.queryCache.Add")).length == 1

end GqlgenVerif.ApqOp
