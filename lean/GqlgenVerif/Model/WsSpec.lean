import GqlgenVerif.Model.Ws
/-!
# C11: the property written directly (Spec side)

`phase id tr` runs the per-id protocol monitor over a history: an operation the server accepted for
`id` (`accept id`) is answered by `data* (error | complete | error complete)`; `bad` is absorbing, so
`phase id tr ≠ .bad` says that *every prefix* of the history obeys the protocol for `id`.

`Spec.clientView` is the same language as a client can check it, without the ghost events, from the
frames it received for one id and the number of operations it started under that id (used by the
driver to classify an observed trace of the implementation).
-/
namespace GqlgenVerif.Ws
open GqlgenVerif.Gen.WsTables

/-- monitor state for one operation id -/
inductive Ph
  | idle   -- no operation open under the id: never started, or completed
  | live   -- accepted, results may follow
  | errd   -- an error frame terminated it (a complete may follow)
  | bad    -- protocol violated
  deriving DecidableEq, Repr

def phStep (id : String) (ph : Ph) (e : Ev) : Ph :=
  match e with
  | .accept id' =>
    if id' = id then (match ph with | .idle => .live | .errd => .live | _ => .bad) else ph
  | .frame .data _ id' _ =>
    if id' = id then (match ph with | .live => .live | _ => .bad) else ph
  | .frame .error _ id' _ =>
    if id' = id then (match ph with | .live => .errd | _ => .bad) else ph
  | .frame .complete _ id' _ =>
    if id' = id then (match ph with | .live => .idle | .errd => .idle | _ => .bad) else ph
  | _ => ph

def phaseFrom (id : String) (ph : Ph) (tr : List Ev) : Ph := tr.foldl (phStep id) ph

def phase (id : String) (tr : List Ev) : Ph := phaseFrom id .idle tr

def Ev.isAck : Ev → Prop
  | .frame .connectionAck _ _ _ => True
  | _ => False

def Ev.isInitAccepted : Ev → Prop
  | .initAccepted => True
  | _ => False

/-- events that belong to an operation: its start, its execution, its frames -/
def Ev.isOperation : Ev → Prop
  | .accept _ => True
  | .exec _ => True
  | .frame .data _ _ _ => True
  | .frame .error _ _ _ => True
  | .frame .complete _ _ _ => True
  | _ => False

def Ev.isCloseFunc : Ev → Bool
  | .closeFunc _ => true
  | _ => false

def Ev.isFrameFor (id : String) : Ev → Prop
  | .frame .data _ id' _ => id' = id
  | .frame .error _ id' _ => id' = id
  | .frame .complete _ id' _ => id' = id
  | _ => False

namespace Spec

/-- client-side check of the frames received for one id (`(wire type, info)`), given how many
operations the client started under that id.  Returns "ok" or what is wrong. -/
def clientView (dataW errW complW : String) (frames : List (String × String)) (nStart : Nat) : String :=
  let rec go (fs : List (String × String)) (used : Nat) (ph : Nat) (cur : String) (next : Nat) : String :=
    -- ph: 0 idle, 1 live, 2 errd
    match fs with
    | [] => if used ≤ nStart then "ok" else "more-terminated-streams-than-operations-started"
    | (w, info) :: rest =>
      if w == dataW then
        let (tag, seq) := match info.splitOn "." with
          | [t, n] => (t, n.toNat?.getD 0)
          | _ => (info, 0)
        if ph == 1 then
          if cur == tag || cur == "?" then
            (if info == "-" || seq == next then go rest used 1 tag (next + 1) else "results-out-of-order")
          else "result-of-another-operation-before-termination"
        else if info == "-" || seq == 0 then go rest (used + 1) 1 tag 1
        else (if ph == 2 then "result-after-error" else "result-after-complete")
      else if w == errW then
        if ph == 1 then go rest used 2 cur next else go rest (used + 1) 2 "?" 0
      else if w == complW then
        if ph == 1 || ph == 2 then go rest used 0 cur next else go rest (used + 1) 0 "?" 0
      else go rest used ph cur next
  go frames 0 0 "?" 0

end Spec
end GqlgenVerif.Ws
