import GqlgenVerif.Model.GoInt
import GqlgenVerif.Gen.IntCasts
import GqlgenVerif.Gen.ScalarArms
/-!
# Input coercion as gqlgen performs it (C02) — the Impl model

What a resolver receives for an argument is computed by this chain (all of it mirrored here):

* `varValues`      — gqlparser `validator.VariableValues` / `validateVarType` (module cache; *modelled,
                     not verified*): defaults of absent variables, `json.Number → int64` for top-level `Int`,
                     the single-value→typed-slice wrap (`reflect.SliceOf(val.Type())`), in-place replacement
                     of input-object fields, kind checks, "must be defined"/"cannot be null".
* `litToRaw`       — gqlparser `ast.Value.Value(vars)`; `argMap` — `ast.arg2map` (`Field.ArgumentMap`):
                     literal / variable / argument default; an `Int` literal outside int64 makes it panic.
* `fieldArgs`      — `codegen/args.gotpl` `field_*_args`: each argument, in schema order, unmarshalled under a
                     path context naming it; absent → Go zero value.
* `unm`            — `codegen/type.gotpl` unmarshal functions: the `v == nil` guard of nilable nullable types,
                     slices through `coerceList` (= `graphql.CoerceList`, arms from `Gen/ScalarArms`), pointer
                     wrapping, scalars through `scalar` (= `graphql.Unmarshal*`: numeric arms are the functions
                     of `Gen/IntCasts`, every other arm is looked up in `Gen/ScalarArms` by its source text),
                     enums through the generated `UnmarshalGQL` (`plugin/modelgen/models.gotpl`).
* `unmInput`       — `codegen/input.gotpl` `unmarshalInput*`: map copy, default injection
                     (`{{ $field.Default | dump }}`: Go `int` / `float64` / `string` / `[]any` / `map`), walk over
                     `fieldsInOrder`, `graphql.OmittableOf`, map-backed inputs (`it[k] = data`).
* `shapeArg`/`shapeField` — the Go type chosen by `codegen/config/binder.go CopyModifiersFromAst` and
                     `plugin/modelgen/models.go generateField` (pointer for nullable, `struct_fields_always_pointers`,
                     `omit_slice_element_pointers`, `nullable_input_omittable`).
* `fieldStep`      — `codegen/field.gotpl` `fieldContext_*` + `_T_f`: arguments are unmarshalled BEFORE the
                     resolver; an error is reported (`ec.Error`) at the innermost path and the field returns
                     `graphql.Null` without calling the resolver; a panic (arg2map, type assertion in
                     `unmarshalInput*`) is recovered and reported at the field's own path.
* `render`         — `go/universal.RenderArg`, the canonical rendering the universal resolver logs.

Floats are opaque decimal texts (strconv/IEEE are library code): `GoV.float t` is "the float64 nearest to t".
Recursion through input-object definitions is by fuel (`Fail.fuel` = not enough fuel, never produced by the
driver's fuel on finite inputs).
-/
namespace GqlgenVerif.Coerce
open GqlgenVerif

/-! ## syntax -/

inductive Ty where
  | named (n : String) (nn : Bool)
  | list (e : Ty) (nn : Bool)
  deriving Repr, DecidableEq, Inhabited

def Ty.nn : Ty → Bool
  | .named _ b => b
  | .list _ b => b

/-- `ast.Type.Name()`: the innermost named type -/
def Ty.base : Ty → String
  | .named n _ => n
  | .list e _ => e.base

/-- document values (`ast.Value`) -/
inductive Lit where
  | var (n : String)
  | int (n : Int)
  | float (t : String)
  | str (s : String)
  | bool (b : Bool)
  | null
  | enum (s : String)
  | list (xs : List Lit)
  | obj (fs : List (String × Lit))
  deriving Repr, Inhabited

/-- element type of a typed Go slice produced by the validator's wrap (`reflect.SliceOf(val.Type())`) -/
inductive SliceK where
  | strings | numbers | bools | maps | float64s | int64s | ints | other
  deriving Repr, DecidableEq, Inhabited

def SliceK.goType : SliceK → String
  | .strings => "[]string" | .numbers => "[]json.Number" | .bools => "[]bool" | .maps => "[]map[string]any"
  | .float64s => "[]float64" | .int64s => "[]int64" | .ints => "[]int" | .other => "[]?"

/-- dynamic Go values (`any`) flowing from the JSON decoder / gqlparser into the unmarshalers -/
inductive Raw where
  | nil
  | bool (b : Bool)
  | int (n : Int)            -- Go `int` (defaults dumped into generated code)
  | i64 (n : Int)            -- Go `int64` (Int literals, top-level Int variables)
  | f64 (t : String)         -- Go `float64`, as decimal text
  | num (t : String)         -- `json.Number`
  | str (s : String)
  | list (xs : List Raw)     -- `[]any`
  | obj (fs : List (String × Raw))   -- `map[string]any`
  | typed (k : SliceK) (xs : List Raw)  -- a typed slice `[]string`, `[]json.Number`, … (validator's wrap)
  deriving Repr, Inhabited

/-- Go values a resolver receives -/
inductive GoV where
  | nil
  | ptr (v : GoV)
  | int (n : Int)
  | float (t : String)       -- float64 parsed from decimal text t
  | fmt6 (t : String)        -- strconv.FormatFloat(t, 'f', 6, 64) as a Go string
  | fmtF (t : String)        -- strconv.FormatFloat(t, 'f', -1, 64) as a Go string
  | str (s : String)
  | bool (b : Bool)
  | nilSlice
  | slice (xs : List GoV)
  | struct (fs : List (String × GoV))
  | nilMap
  | map (kvs : List (String × GoV))
  | unset
  | set (v : GoV)
  | any (r : Raw)
  deriving Repr, Inhabited

inductive ScalarK where
  | int | int32 | int64 | uint | uint32 | uint64 | id | intID | uintID | string | float | bool | any
  deriving Repr, DecidableEq, Inhabited

structure FieldDef where
  name : String
  goName : String
  ty : Ty
  dflt : Option Lit
  dir : Bool            -- has an INPUT_FIELD_DEFINITION / ARGUMENT_DEFINITION directive
  deriving Repr, Inhabited

inductive TypeDef where
  | scalar (k : ScalarK)
  | enum (vals : List String)
  | input (isMap : Bool) (fields : List FieldDef)
  deriving Repr, Inhabited

structure Cfg where
  omittable : Bool := false     -- nullable_input_omittable
  retPtr : Bool := false        -- return_pointers_in_unmarshalinput (no observable effect)
  argDirNull : Bool := false    -- call_argument_directives_with_null
  sfap : Bool := true           -- struct_fields_always_pointers
  osep : Bool := false          -- omit_slice_element_pointers
  deriving Repr, Inhabited

structure Schema where
  types : List (String × TypeDef)
  deriving Repr, Inhabited

def lookup {α : Type} (l : List (String × α)) (k : String) : Option α :=
  match l with
  | [] => none
  | (a, v) :: r => if a = k then some v else lookup r k

def Schema.get (s : Schema) (n : String) : Option TypeDef := lookup s.types n

abbrev Path := List String

inductive Fail where
  | err (path : Path) (cls : String)   -- a coercion error reported at `path`
  | panic (what : String)              -- a Go panic (recovered by the field's recover)
  | fuel
  deriving Repr, DecidableEq, Inhabited

abbrev Res := Except Fail

/-- `Except`-valued map over a list, left to right, stopping at the first failure -/
def mapE {ε α β : Type} (f : α → Except ε β) : List α → Except ε (List β)
  | [] => .ok []
  | a :: r => match f a with
    | .error e => .error e
    | .ok b => match mapE f r with
      | .error e => .error e
      | .ok bs => .ok (b :: bs)

/-- left fold with failure -/
def foldE {ε α σ : Type} (f : σ → α → Except ε σ) : σ → List α → Except ε σ
  | st, [] => .ok st
  | st, a :: r => match f st a with
    | .error e => .error e
    | .ok st' => foldE f st' r

/-- like `mapE` with the element index -/
def mapIdxE {ε α β : Type} (f : Nat → α → Except ε β) (i : Nat) : List α → Except ε (List β)
  | [] => .ok []
  | a :: r => match f i a with
    | .error e => .error e
    | .ok b => match mapIdxE f (i + 1) r with
      | .error e => .error e
      | .ok bs => .ok (b :: bs)

/-! ## strconv (modelled) -/

def digitVal (c : Char) : Option Nat :=
  if '0' ≤ c ∧ c ≤ '9' then some (c.toNat - 48) else none

def digitsAcc (acc : Nat) : List Char → Option Nat
  | [] => some acc
  | c :: r => match digitVal c with
    | some d => digitsAcc (acc * 10 + d) r
    | none => none

/-- a non-empty string of ASCII digits -/
def parseDigits : List Char → Option Nat
  | [] => none
  | cs => digitsAcc 0 cs

inductive PErr where
  | syntax | range
  deriving Repr, DecidableEq

/-- `strconv.ParseInt(s, 10, 64)` (= `strconv.Atoi` on a 64-bit platform) -/
def parseInt64 (s : String) : Except PErr Int :=
  match s.toList with
  | '-' :: r => match parseDigits r with
    | none => .error .syntax
    | some n => if (n : Int) ≤ 9223372036854775808 then .ok (-(n : Int)) else .error .range
  | '+' :: r => match parseDigits r with
    | none => .error .syntax
    | some n => if (n : Int) ≤ Go.maxInt64 then .ok n else .error .range
  | cs => match parseDigits cs with
    | none => .error .syntax
    | some n => if (n : Int) ≤ Go.maxInt64 then .ok n else .error .range

/-- `strconv.ParseUint(s, 10, 64)` -/
def parseUint64 (s : String) : Except PErr Int :=
  match parseDigits s.toList with
  | none => .error .syntax
  | some n => if (n : Int) ≤ Go.maxUint64 then .ok n else .error .range

/-- `graphql.isSignedInteger` -/
def isSignedInteger (s : String) : Bool :=
  match s.toList with
  | '-' :: r | '+' :: r => match parseDigits r with
    | some n => decide ((n : Int) ≤ Go.maxUint64)
    | none => false
  | _ => false

/-- JSON number grammar / Go float literal subset accepted by `strconv.ParseFloat` that the generators
    use: `[+-]? digits (. digits)? ([eE] [+-]? digits)?` (library code; sampled, not proved) -/
def floatSyntax (s : String) : Bool :=
  let cs := s.toList
  let cs := match cs with | '-' :: r => r | '+' :: r => r | _ => cs
  let intPart := cs.takeWhile Char.isDigit
  let rest := cs.dropWhile Char.isDigit
  if intPart.isEmpty then false else
  let rest := match rest with
    | '.' :: r => if (r.takeWhile Char.isDigit).isEmpty then ['!'] else r.dropWhile Char.isDigit
    | r => r
  match rest with
  | [] => true
  | e :: r =>
    if e = 'e' ∨ e = 'E' then
      let r := match r with | '-' :: q => q | '+' :: q => q | _ => r
      !r.isEmpty && r.all Char.isDigit
    else false

def errCls : PErr → String
  | .syntax => "syntax"
  | .range => "range"

/-! ## scalars: `graphql.Unmarshal*` with the arms read from the source -/

def Raw.goType : Raw → String
  | .nil => "nil"
  | .bool _ => "bool"
  | .int _ => "int"
  | .i64 _ => "int64"
  | .f64 _ => "float64"
  | .num _ => "json.Number"
  | .str _ => "string"
  | .list _ => "[]any"
  | .obj _ => "map[string]any"
  | .typed k _ => k.goType

def armBody (ty : String) : List (String × String) → Option String
  | [] => none
  | (t, b) :: r => if t = ty then some b else armBody ty r

/-- the arm a function (given by its arm list) takes for a value of dynamic type `ty`: its own case, else
    `default` -/
def arm (arms : List (String × String)) (ty : String) : Option String :=
  match armBody ty arms with
  | some b => some b
  | none => armBody "default" arms

def intDecStr (n : Int) : String := toString n

def textOf : Raw → String
  | .str s => s
  | .num t => t
  | _ => ""

def numOf : Raw → Int
  | .int n => n
  | .i64 n => n
  | _ => 0

def liftCast (path : Path) (r : Except String Int) : Res GoV :=
  match r with
  | .ok n => .ok (.int n)
  | .error e => .error (.err path e)

/-- uint(v) after a successful ParseUint — `Go.conv_uint` (identity on the parsed range) -/
def uintSignErr (path : Path) (s : String) (e : PErr) : Res GoV :=
  if isSignedInteger s then .error (.err path "newUintSignError") else .error (.err path (errCls e))

/-- meaning of one arm, selected by the tag the extractor gave its source text (`go/extract/scalararms.go`
    `armTags`). A text the extractor does not know has the tag "unknown": the model fails on it (and
    `arms_expected` in Props/C02 no longer holds). -/
def armSem (fn tag : String) (v : Raw) (path : Path) : Res GoV :=
  let s := textOf v
  let n := numOf v
  match tag with
  | "parseInt64" =>
    (match parseInt64 s with
     | .ok r => .ok (.int r)
     | .error e => .error (.err path (errCls e)))
  | "parseInt64_safeCastInt32" =>
    (match parseInt64 s with
     | .ok r => liftCast path (Gen.IntCasts.safeCastInt32 r)
     | .error e => .error (.err path (errCls e)))
  | "parseUint64_sign_uint" =>
    (match parseUint64 s with
     | .ok r => .ok (.int (Go.conv_uint r))
     | .error e => uintSignErr path s e)
  | "parseUint64_sign" =>
    (match parseUint64 s with
     | .ok r => .ok (.int r)
     | .error e => uintSignErr path s e)
  | "parseUint64_sign_safeCastUint32" =>
    (match parseUint64 s with
     | .ok r => liftCast path (Gen.IntCasts.safeCastUint32 r)
     | .error e => uintSignErr path s e)
  | "parseUint64_uint" =>
    (match parseUint64 s with
     | .ok r => .ok (.int (Go.conv_uint r))
     | .error e => .error (.err path (errCls e)))
  | "zero" => .ok (if fn = "UnmarshalFloat" then .float "0" else .int 0)
  | "identity" =>
    (match v with
     | .str t => .ok (.str t)
     | .bool b => .ok (.bool b)
     | .f64 t => .ok (.float t)
     | _ => .error (.panic "unmodelled identity arm"))
  | "stringOf" => .ok (.str s)
  | "formatInt" => .ok (.str (intDecStr n))
  | "formatFloat_f_6" => (match v with | .f64 t => .ok (.fmt6 t) | _ => .error (.panic "unmodelled"))
  | "formatFloat_f_shortest" => (match v with | .f64 t => .ok (.fmtF t) | _ => .error (.panic "unmodelled"))
  | "formatBool" =>
    (match v with | .bool b => .ok (.str (if b then "true" else "false")) | _ => .error (.panic "unmodelled"))
  | "const_null" => .ok (.str "null")
  | "const_empty" => .ok (.str "")
  | "const_false" => .ok (.bool false)
  | "parseFloat" => if floatSyntax s then .ok (.float s) else .error (.err path "syntax")
  | "toFloat" => .ok (.float (intDecStr n))
  | "equalFoldTrue" => .ok (.bool (s.toLower = "true"))
  | "neq0" => .ok (.bool (n ≠ 0))
  | "typeError" => .error (.err path "type")
  | t => .error (.panic ("unmodelled arm: " ++ t))

def scalarFn : ScalarK → String
  | .int => "UnmarshalInt" | .int32 => "UnmarshalInt32" | .int64 => "UnmarshalInt64"
  | .uint => "UnmarshalUint" | .uint32 => "UnmarshalUint32" | .uint64 => "UnmarshalUint64"
  | .id => "UnmarshalID" | .intID => "UnmarshalIntID" | .uintID => "UnmarshalUintID"
  | .string => "UnmarshalString" | .float => "UnmarshalFloat" | .bool => "UnmarshalBoolean"
  | .any => "UnmarshalAny"

/-- the type switch of the scalar's unmarshal function as found in the source (`Float` is bound to
    `UnmarshalFloatContext`, which delegates to `UnmarshalFloat`: `Gen.ScalarArms.fn_UnmarshalFloatContext`) -/
def armsOf : ScalarK → List (String × String)
  | .int => Gen.ScalarArms.fn_UnmarshalInt | .int32 => Gen.ScalarArms.fn_UnmarshalInt32
  | .int64 => Gen.ScalarArms.fn_UnmarshalInt64 | .uint => Gen.ScalarArms.fn_UnmarshalUint
  | .uint32 => Gen.ScalarArms.fn_UnmarshalUint32 | .uint64 => Gen.ScalarArms.fn_UnmarshalUint64
  | .id => Gen.ScalarArms.fn_UnmarshalID | .intID => Gen.ScalarArms.fn_UnmarshalIntID
  | .uintID => Gen.ScalarArms.fn_UnmarshalUintID | .string => Gen.ScalarArms.fn_UnmarshalString
  | .float => Gen.ScalarArms.fn_UnmarshalFloat | .bool => Gen.ScalarArms.fn_UnmarshalBoolean
  | .any => []

/-- the numeric arms (`case int:` / `case int64:`) of the integer scalars are the regenerated functions of
    `Gen/IntCasts` -/
def numericArm (fn : String) (v : Raw) : Option (Except String Int) :=
  match v with
  | .int n => Gen.IntCasts.run (fn ++ "_int") n
  | .i64 n => Gen.IntCasts.run (fn ++ "_int64") n
  | _ => none

/-- `graphql.Unmarshal<K>(v)` -/
def scalar (k : ScalarK) (v : Raw) (path : Path) : Res GoV :=
  match k with
  | .any => .ok (.any v)
  | _ =>
    let fn := scalarFn k
    match arm (armsOf k) v.goType with
    | none => .error (.panic ("no arm for " ++ fn))
    | some body =>
      if body = "numeric" then
        (match numericArm fn v with
         | some r => liftCast path r
         | none => .error (.panic ("no IntCasts arm for " ++ fn)))
      else armSem fn body v path

/-- `graphql.CoerceList(v)`, arms from the source: `nil` → empty; `[]any` → itself; the typed slices listed
    there → their first element only; anything else → a one-element list -/
def coerceList (v : Raw) : List Raw :=
  match v with
  | .nil => if armBody "pre" Gen.ScalarArms.fn_CoerceList = some "nilEmpty" then [] else [v]
  | _ =>
    match arm Gen.ScalarArms.fn_CoerceList v.goType, v with
    | some "same", .list xs => xs
    | some "first", .typed _ xs => xs.take 1
    | some "first", .list xs => xs.take 1
    | _, _ => [v]

/-! ## Go type shapes -/

inductive Sh where
  | scalar (k : ScalarK)
  | enum (n : String)
  | struct (n : String)
  | mapIn (n : String)
  | ptr (s : Sh)
  | slice (s : Sh)
  | bad (why : String)
  deriving Repr, DecidableEq, Inhabited

def Sh.isStruct : Sh → Bool
  | .struct _ => true
  | _ => false

/-- `IsNilable` of the base Go type -/
def Sh.nilable : Sh → Bool
  | .ptr _ | .slice _ | .mapIn _ => true
  | .scalar .any => true
  | _ => false

def baseShape (s : Schema) (n : String) : Sh :=
  match s.get n with
  | some (.scalar k) => .scalar k
  | some (.enum _) => .enum n
  | some (.input true _) => .mapIn n
  | some (.input false _) => .struct n
  | none => .bad ("unknown type " ++ n)

/-- `Binder.CopyModifiersFromAst` (map-backed inputs: `Binder.TypeReference` returns the bare map type
    whatever the modifiers) -/
def shapeArg (s : Schema) (c : Cfg) : Ty → Sh
  | .named n nn =>
    let b := baseShape s n
    if !b.nilable && !nn then .ptr b else b
  | .list e _ =>
    let ch := shapeArg s c e
    .slice (if ch.isStruct && !c.osep then .ptr ch else ch)

/-- map-backed: `TypeReference` of a map model ignores list modifiers -/
def isMapBase (s : Schema) : Ty → Option String
  | .named n _ => (match s.get n with | some (.input true _) => some n | _ => none)
  | .list e _ => isMapBase s e

def shapeRef (s : Schema) (c : Cfg) (t : Ty) : Sh :=
  match isMapBase s t with
  | some n => .mapIn n
  | none => shapeArg s c t

/-- a field of a generated input struct (`modelgen.generateField`), without the Omittable wrapper -/
def shapeField (s : Schema) (c : Cfg) (t : Ty) : Sh :=
  let sh := shapeRef s c t
  if c.sfap && sh.isStruct then .ptr sh else sh

def fieldOmittable (c : Cfg) (t : Ty) : Bool := c.omittable && !t.nn

/-! ## defaults (`{{ $field.Default | dump }}` of `DefaultValue.Value(nil)`) -/

/-- `ast.Value.Value(vars)`; `none` = ParseInt failure (arg2map panics). `dumped` = the Go literal written
    into generated code (untyped constants become `int`). -/
def litToRawF (dumped : Bool) (vars : List (String × Raw)) : Nat → Lit → Option Raw
  | 0, _ => none
  | f + 1, l =>
    match l with
    | .var n => some ((lookup vars n).getD .nil)
    | .int n =>
      if Go.minInt64 ≤ n ∧ n ≤ Go.maxInt64 then some (if dumped then .int n else .i64 n) else none
    | .float t => some (.f64 t)
    | .str s => some (.str s)
    | .bool b => some (.bool b)
    | .null => some .nil
    | .enum s => some (.str s)
    | .list xs =>
      (xs.foldr (fun x acc => match litToRawF dumped vars f x, acc with
        | some r, some rs => some (r :: rs) | _, _ => none) (some [])).map .list
    | .obj fs =>
      (fs.foldr (fun (kv : String × Lit) acc => match litToRawF dumped vars f kv.2, acc with
        | some r, some rs => some ((kv.1, r) :: rs) | _, _ => none) (some [])).map .obj

def litDepth : Nat := 64
def litToRaw (vars : List (String × Raw)) (l : Lit) : Option Raw := litToRawF false vars litDepth l
def dumpDefault (l : Lit) : Raw := (litToRawF true [] litDepth l).getD .nil

/-! ## generated unmarshal functions -/

def zeroScalar : ScalarK → GoV
  | .id | .string => .str ""
  | .float => .float "0"
  | .bool => .bool false
  | .any => .nil
  | _ => .int 0

def setKey (m : List (String × Raw)) (k : String) (v : Raw) : List (String × Raw) :=
  match m with
  | [] => [(k, v)]
  | (a, b) :: r => if a = k then (a, v) :: r else (a, b) :: setKey r k v

/-- `asMap` after default injection -/
def injectDefaults (fields : List FieldDef) (m : List (String × Raw)) : List (String × Raw) :=
  fields.foldl (fun m f => match f.dflt with
    | some d => if (lookup m f.name).isSome then m else m ++ [(f.name, dumpDefault d)]
    | none => m) m

/-- Go zero value of a shape -/
def zero (s : Schema) (c : Cfg) : Nat → Sh → GoV
  | 0, _ => .nil
  | f + 1, sh =>
    match sh with
    | .scalar k => zeroScalar k
    | .enum _ => .str ""
    | .ptr _ => .nil
    | .slice _ => .nilSlice
    | .mapIn _ => .nilMap
    | .bad _ => .nil
    | .struct n =>
      match s.get n with
      | some (.input _ fields) =>
        .struct (fields.map fun fd =>
          (fd.goName, if fieldOmittable c fd.ty then GoV.unset else zero s c f (shapeField s c fd.ty)))
      | _ => .nil

def Raw.isNil : Raw → Bool
  | .nil => true
  | _ => false

/-- the generated enum's `UnmarshalGQL`: a Go `string` naming a value of the enum -/
def unmEnum (s : Schema) (n : String) (v : Raw) (path : Path) : Res GoV :=
  match s.get n, v with
  | some (.enum vals), .str x => if vals.contains x then .ok (.str x) else .error (.err path "enum")
  | _, _ => .error (.err path "enum")

abbrev Rec := Ty → Sh → Raw → Path → Res GoV

/-- the slice branch of type.gotpl: `CoerceList`, then every item (`item` = the item type's unmarshal
    function) under its index -/
def unmSlice (item : Raw → Path → Res GoV) (v : Raw) (path : Path) : Res GoV :=
  match mapIdxE (fun i x => item x (path ++ [toString i])) 0 (coerceList v) with
  | .ok xs => .ok (.slice xs)
  | .error e => .error e

/-- one field of a generated input struct in `unmarshalInput*` (`asMap` = the copied map after default
    injection): absent → zero value / `unset`; present → unmarshal, `OmittableOf` -/
def structField (s : Schema) (c : Cfg) (zeroOf : Sh → GoV) (rec : Rec) (asMap : List (String × Raw))
    (path : Path) (fd : FieldDef) : Res (String × GoV) :=
  let fsh := shapeField s c fd.ty
  let om := fieldOmittable c fd.ty
  match lookup asMap fd.name with
  | none => .ok (fd.goName, if om then GoV.unset else zeroOf fsh)
  | some fv =>
    match rec fd.ty fsh fv (path ++ [fd.name]) with
    | .ok g => .ok (fd.goName, if om then GoV.set g else g)
    | .error e => .error e

/-- one field of a map-backed input: only keys present in `asMap` are written (`it[k] = data`) -/
def mapField (s : Schema) (c : Cfg) (rec : Rec) (asMap : List (String × Raw)) (path : Path)
    (fd : FieldDef) : Res (Option (String × GoV)) :=
  match lookup asMap fd.name with
  | none => .ok none
  | some fv =>
    match rec fd.ty (shapeRef s c fd.ty) fv (path ++ [fd.name]) with
    | .ok g => .ok (some (fd.name, g))
    | .error e => .error e

/-- `unmarshalInput<n>` for a struct-backed input -/
def unmStruct (s : Schema) (c : Cfg) (zeroOf : Sh → GoV) (rec : Rec) (n : String) (v : Raw) (path : Path) : Res GoV :=
  match s.get n, v with
  | some (.input _ fields), .obj m =>
    (match mapE (structField s c zeroOf rec (injectDefaults fields m) path) fields with
     | .ok fs => .ok (.struct fs)
     | .error e => .error e)
  | _, _ => .error (.panic "interface conversion: not map[string]interface {}")

/-- `unmarshalInput<n>` for a map-backed input -/
def unmMap (s : Schema) (c : Cfg) (rec : Rec) (n : String) (v : Raw) (path : Path) : Res GoV :=
  match s.get n, v with
  | some (.input _ fields), .obj m =>
    (match mapE (mapField s c rec (injectDefaults fields m) path) fields with
     | .ok kvs => .ok (.map (kvs.filterMap id))
     | .error e => .error e)
  | _, _ => .error (.panic "interface conversion: not map[string]interface {}")

/-- The unmarshal function generated for (GraphQL type `t`, Go shape `sh`), up to the input objects it reaches
    (`obj n isMap` = `unmarshalInput<n>`): by recursion on the Go shape. -/
def unmSh (s : Schema) (obj : String → Bool → Raw → Path → Res GoV) : Sh → Ty → Raw → Path → Res GoV
  | sh, t, v, path =>
    -- type.gotpl: a null reaching the unmarshal function of a non-null type is a coercion error
    if v.isNil && t.nn then .error (.err path "null") else
    match sh with
    | .bad w => .error (.panic w)
    | .scalar .any => if v.isNil then .ok .nil else .ok (.any v)
    | .scalar k => scalar k v path
    | .enum n => unmEnum s n v path
    | .ptr inner =>
      if v.isNil then .ok .nil
      else (match unmSh s obj inner t v path with
        | .ok g => .ok (.ptr g)
        | .error e => .error e)
    | .slice el =>
      if v.isNil then .ok .nilSlice
      else (match t with
        | .list et _ => unmSlice (unmSh s obj el et) v path
        | _ => .error (.panic "slice shape for a named type"))
    | .mapIn n => if v.isNil then .ok .nilMap else obj n true v path
    | .struct n => obj n false v path

/-- The unmarshal function generated for (GraphQL type `t`, Go shape `sh`) applied to `v` at `path`. Fuel is
    consumed only when an input object is entered (recursive input types, defaults of defaults). -/
def unm (s : Schema) (c : Cfg) : Nat → Ty → Sh → Raw → Path → Res GoV
  | 0 => fun _ _ _ _ => .error .fuel
  | f + 1 => fun t sh v path =>
    unmSh s (fun n isMap v path =>
      if isMap then unmMap s c (unm s c f) n v path
      else unmStruct s c (zero s c f) (unm s c f) n v path) sh t v path

/-! ## arguments -/

structure ArgDef where
  name : String
  ty : Ty
  dflt : Option Lit
  dir : Bool
  deriving Repr, Inhabited

/-- `ast.arg2map` for one argument definition: `none` = not in the map; `.error` = panic -/
def argRaw (vars : List (String × Raw)) (d : ArgDef) (given : Option Lit) : Res (Option Raw) :=
  let fromDefault : Res (Option Raw) :=
    match d.dflt with
    | none => .ok none
    | some l => (match litToRaw vars l with
      | some r => .ok (some r)
      | none => .error (.panic "strconv.ParseInt: value out of range"))
  match given with
  | some (.var n) =>
    (match lookup vars n with
     | some r => .ok (some r)
     | none => fromDefault)
  | some l =>
    (match litToRaw vars l with
     | some r => .ok (some r)
     | none => .error (.panic "strconv.ParseInt: value out of range"))
  | none => fromDefault

def fuelDefault : Nat := 200

/-- `field_*_args`: every argument in schema order; result = the resolver's argument list -/
def fieldArgs (s : Schema) (c : Cfg) (vars : List (String × Raw)) (defs : List ArgDef)
    (given : List (String × Lit)) (fieldPath : Path) : Res (List GoV) :=
  -- arg2map runs first, for all arguments (a panic there precedes every unmarshal)
  match mapE (fun d => match argRaw vars d (lookup given d.name) with
      | .ok r => .ok (d, r)
      | .error e => .error e) defs with
  | .error e => .error e
  | .ok raws =>
    mapE (fun (dr : ArgDef × Option Raw) =>
      let sh := shapeRef s c dr.1.ty
      match dr.2 with
      | none => .ok (zero s c fuelDefault sh)
      | some r => unm s c fuelDefault dr.1.ty sh r (fieldPath ++ [dr.1.name])) raws

/-- what happens at one field: the resolver is called with these arguments, or an error is recorded at a path
    and the resolver is NOT called -/
inductive Step where
  | call (args : List GoV)
  | error (path : Path) (cls : String)
  deriving Repr, Inhabited

/-- `_T_f`: `fieldContext_T_f` (arguments) then, only if that succeeded, the resolver -/
def fieldStep (s : Schema) (c : Cfg) (vars : List (String × Raw)) (defs : List ArgDef)
    (given : List (String × Lit)) (fieldPath : Path) : Step :=
  match fieldArgs s c vars defs given fieldPath with
  | .ok args => .call args
  | .error (.err p cls) => .error p cls
  | .error (.panic w) => .error fieldPath ("panic: " ++ w)
  | .error .fuel => .error fieldPath "fuel"

/-! ## argument / input-field directive invocations (`directives.gotpl` `implDirectives`)

The generated code wraps the unmarshal call of an argument or input field that carries a schema directive
into the directive chain (`directive0` = the unmarshal closure), so the directive runs BEFORE the value is
unmarshalled, for every key present in the copied map (after default injection) — also for an explicit null —
and, for arguments, for an absent argument too when `call_argument_directives_with_null` is set. Processing
stops at the first failing argument / field / item. `dirLog` lists the paths at which a directive is invoked
(what the universal directive stub logs); it is compared with the implementation, not part of the theorems. -/

/-- run `step` over the items while they succeed; the failing item's own log is included -/
def logWhileOk {α : Type} (ok : α → Bool) (log : α → List String) : List α → List String
  | [] => []
  | a :: r => log a ++ (if ok a then logWhileOk ok log r else [])

def pathKey (p : Path) : String := "/".intercalate p

def dirLog (s : Schema) (c : Cfg) : Nat → Ty → Sh → Raw → Path → List String
  | 0, _, _, _, _ => []
  | f + 1, t, sh, v, path =>
    if v.isNil then [] else
    match sh with
    | .ptr inner => dirLog s c f t inner v path
    | .slice el =>
      (match t with
       | .list et _ =>
         let items := (coerceList v).zipIdx
         logWhileOk (fun (xi : Raw × Nat) => (unm s c fuelDefault et el xi.1 (path ++ [toString xi.2])).isOk)
           (fun xi => dirLog s c f et el xi.1 (path ++ [toString xi.2])) items
       | _ => [])
    | .struct n | .mapIn n =>
      (match s.get n, v with
       | some (.input isMap fields), .obj m =>
         let asMap := injectDefaults fields m
         let present := fields.filterMap fun fd => (lookup asMap fd.name).map fun fv => (fd, fv)
         logWhileOk
           (fun (p : FieldDef × Raw) =>
             let fsh := if isMap then shapeRef s c p.1.ty else shapeField s c p.1.ty
             (unm s c fuelDefault p.1.ty fsh p.2 (path ++ [p.1.name])).isOk)
           (fun p =>
             let fsh := if isMap then shapeRef s c p.1.ty else shapeField s c p.1.ty
             (if p.1.dir then [pathKey (path ++ [p.1.name])] else [])
               ++ dirLog s c f p.1.ty fsh p.2 (path ++ [p.1.name])) present
       | _, _ => [])
    | _ => []

/-- directive invocations while the arguments of one field are built -/
def fieldDirs (s : Schema) (c : Cfg) (vars : List (String × Raw)) (defs : List ArgDef)
    (given : List (String × Lit)) (fieldPath : Path) : List String :=
  match mapE (fun d => match argRaw vars d (lookup given d.name) with
      | .ok r => .ok (d, r)
      | .error e => .error e) defs with
  | .error _ => []       -- arg2map panicked before field_*_args ran
  | .ok raws =>
    logWhileOk
      (fun (dr : ArgDef × Option Raw) =>
        match dr.2 with
        | none => true
        | some r => (unm s c fuelDefault dr.1.ty (shapeRef s c dr.1.ty) r (fieldPath ++ [dr.1.name])).isOk)
      (fun dr =>
        match dr.2 with
        | none => if dr.1.dir && c.argDirNull then [pathKey (fieldPath ++ [dr.1.name])] else []
        | some r =>
          (if dr.1.dir then [pathKey (fieldPath ++ [dr.1.name])] else [])
            ++ dirLog s c fuelDefault dr.1.ty (shapeRef s c dr.1.ty) r (fieldPath ++ [dr.1.name])) raws

/-! ## gqlparser `validator.VariableValues` -/

structure VarDef where
  name : String
  ty : Ty
  dflt : Option Lit
  deriving Repr, Inhabited

inductive VFail where
  | at (path : Path) (msg : String)
  | panic (what : String)
  | fuel
  deriving Repr, DecidableEq, Inhabited

inductive RKind where
  | invalid | bool | int | float | string | slice | map
  deriving DecidableEq, Repr

/-- reflect.Kind of a dynamic value (after `Elem()` of the interface) -/
def Raw.kind : Raw → RKind
  | .nil => .invalid
  | .bool _ => .bool
  | .int _ | .i64 _ => .int
  | .f64 _ => .float
  | .num _ | .str _ => .string
  | .list _ | .typed _ _ => .slice
  | .obj _ => .map

def kindName : RKind → String
  | .invalid => "invalid" | .bool => "bool" | .int => "int64" | .float => "float64"
  | .string => "string" | .slice => "slice" | .map => "map"

/-- `reflect.SliceOf(val.Type())` -/
def sliceTypeOf : Raw → SliceK
  | .bool _ => .bools
  | .int _ => .ints
  | .i64 _ => .int64s
  | .f64 _ => .float64s
  | .num _ => .numbers
  | .str _ => .strings
  | .obj _ => .maps
  | _ => .other

def elemsOf : Raw → List Raw
  | .list xs => xs
  | .typed _ xs => xs
  | _ => []

def withElems (v : Raw) (xs : List Raw) : Raw :=
  match v with
  | .list _ => .list xs
  | .typed k _ => .typed k xs
  | v => v

/-- `strings.EqualFold` on ASCII enum names -/
def equalFold (a b : String) : Bool := a.toLower = b.toLower

/-- `validateVarType(typ, val)`: the value after validation — with input-object fields replaced by their
    validated values (`SetMapIndex`, visible through the shared map) and a non-slice value at a list type
    wrapped into a one-element typed slice; list elements are validated in place (only map mutations of an
    element survive, its own wrap is discarded) -/
def validateVar (s : Schema) : Nat → Ty → Raw → Path → Except VFail Raw
  | 0, _, _, _ => .error .fuel
  | f + 1, t, v, path =>
    match t with
    | .list et _ =>
      (match v with
       | .nil => .error (.panic "reflect: call of reflect.Value.Type on zero Value")
       | _ =>
        let wrapped := v.kind != .slice
        let xs := if wrapped then [v] else elemsOf v
        match mapIdxE (fun i x =>
            let p := path ++ [toString i]
            let isNilElem := match x with | .nil => true | _ => false
            -- []any elements are interfaces: a nil element of a non-null element type is refused here
            if isNilElem && et.nn then .error (VFail.at p "cannot be null")
            else
              match validateVar s f et x p with
              | .error e => .error e
              -- the element's returned value is discarded; only in-place map mutation is visible
              | .ok x' => .ok (match x with | .obj _ => x' | _ => x)) 0 xs with
        | .error e => .error e
        | .ok xs' => .ok (if wrapped then .typed (sliceTypeOf v) xs' else withElems v xs'))
    | .named n nn =>
      (match v with
       | .nil => if !nn then .ok v else
          (match s.get n with
           | some (.input _ _) => .error (.at path ("must be a " ++ n ++ ", not a invalid"))
           | _ => .error (.panic "reflect: call of reflect.Value.Type on zero Value"))
       | _ =>
        match s.get n with
        | none => .error (.panic ("missing def for " ++ n))
        | some (.enum vals) =>
          let k := v.kind
          if k != .int && k != .string then .error (.at path "enums must be ints or strings")
          else
            -- reflect.Value.String() of an int kind is "<int64 Value>"
            let str := match v with | .str x => x | .num x => x | _ => "<int Value>"
            if vals.any (fun e => equalFold str e) then .ok v
            else .error (.at path (str ++ " is not a valid " ++ n))
        | some (.scalar _) =>
          let k := v.kind
          let okKind : Bool :=
            match n with
            | "Int" => k == .int || k == .float || (k == .string && (match parseInt64 (textOf v) with | .ok _ => true | _ => false))
            | "Float" => k == .float || k == .int || (k == .string && floatSyntax (textOf v))
            | "String" => k == .string
            | "Boolean" => k == .bool
            | "ID" => k == .int || k == .string
            | _ => true
          if okKind then .ok v else .error (.at path ("cannot use " ++ kindName k ++ " as " ++ n))
        | some (.input _ fields) =>
          (match v with
           | .obj m =>
             -- unknown fields first
             match m.find? (fun kv => kv.1 != "__typename" && (fields.find? (fun fd => fd.name = kv.1)).isNone) with
             | some kv => .error (.at (path ++ [kv.1]) "unknown field")
             | none =>
               match foldE (fun (m : List (String × Raw)) (fd : FieldDef) =>
                   let p := path ++ [fd.name]
                   match lookup m fd.name with
                   | none =>
                     if fd.ty.nn && fd.dflt.isNone then .error (VFail.at p "must be defined") else .ok m
                   | some .nil =>
                     if fd.ty.nn then .error (VFail.at p "cannot be null") else .ok m
                   | some fv =>
                     match validateVar s f fd.ty fv p with
                     | .error e => .error e
                     | .ok fv' => .ok (setKey m fd.name fv')) m fields with
               | .error e => .error e
               | .ok m' => .ok (.obj m')
           | _ => .error (.at path ("must be a " ++ n ++ ", not a " ++ kindName v.kind))))

/-- `VariableValues`: coerced variables, or the first error -/
def varValues (s : Schema) (defs : List VarDef) (input : List (String × Raw)) :
    Except VFail (List (String × Raw)) :=
  let rec go (acc : List (String × Raw)) : List VarDef → Except VFail (List (String × Raw))
    | [] => .ok acc
    | d :: r =>
      let path := ["variable", d.name]
      let given : Option Raw :=
        match lookup input d.name with
        | some v => some v
        | none => d.dflt.bind (litToRaw [])
      match lookup input d.name, d.dflt, given with
      | none, none, _ => if d.ty.nn then .error (.at path "must be defined") else go acc r
      | _, _, none => .error (.at path "default value out of range")
      | _, _, some .nil => if d.ty.nn then .error (.at path "cannot be null") else go (acc ++ [(d.name, .nil)]) r
      | _, _, some v =>
        -- json.Number for a top-level named Int / Float
        let conv : Except VFail Raw :=
          match v, d.ty with
          | .num t, .named "Int" _ =>
            (match parseInt64 t with
             | .ok n => .ok (.i64 n)
             | .error _ => .error (.at path "cannot use value as Int"))
          | .num t, .named "Float" _ => if floatSyntax t then .ok (.f64 t) else .error (.at path "cannot use value as Float")
          | v, _ => .ok v
        match conv with
        | .error e => .error e
        | .ok v =>
          match validateVar s fuelDefault d.ty v path with
          | .error e => .error e
          | .ok v' => go (acc ++ [(d.name, v')]) r
  go [] defs


/-! ## document validation (gqlparser rules that decide whether an operation is executed at all) -/

/-- `ast.Type.IsCompatible` -/
def compatible : Ty → Ty → Bool
  | .named a ann, .named b bnn => a == b && (if bnn then ann else true)
  | .list e enn, .list o onn => compatible e o && (if onn then enn else true)
  | _, _ => false

def builtinScalar (n : String) : Bool := n = "Int" ∨ n = "Float" ∨ n = "String" ∨ n = "Boolean" ∨ n = "ID"

def inInt64 (n : Int) : Bool := Go.minInt64 ≤ n ∧ n ≤ Go.maxInt64

/-- `ValuesOfCorrectType` + `VariablesInAllowedPosition` on a value expected to have type `t`
    (`vdefs`: variable name ↦ (type, has a non-null default)) -/
def litOK (s : Schema) (vdefs : List (String × Ty × Bool)) : Nat → Ty → Lit → Bool
  | 0, _, _ => false
  | f + 1, t, l =>
    let custom := match s.get t.base with
      | some (.scalar _) => !builtinScalar t.base
      | _ => false
    match l with
    | .var n =>
      (match lookup vdefs n with
       | none => false
       | some (vt, hasDflt) =>
         let loc := if hasDflt && t.nn then (match t with | .named a _ => Ty.named a false | .list e _ => Ty.list e false) else t
         compatible vt loc)
    | .null => !t.nn
    | .list xs =>
      (match t with
       | .list et _ => xs.all (litOK s vdefs f et)
       | .named _ _ => custom)
    | _ =>
      if custom then true else
      match s.get t.base, l with
      | none, _ => true
      | some (.scalar _), .int n => inInt64 n && (t.base = "Int" ∨ t.base = "Float" ∨ t.base = "ID")
      | some (.scalar _), .float _ => t.base = "Float"
      | some (.scalar _), .str _ => t.base = "String" ∨ t.base = "ID"
      | some (.scalar _), .bool _ => t.base = "Boolean"
      | some (.scalar _), .obj fs => fs.isEmpty
      | some (.scalar _), _ => false
      | some (.enum vals), .enum x => vals.contains x
      | some (.enum _), .obj fs => fs.isEmpty
      | some (.enum _), _ => false
      | some (.input _ fields), .obj fs =>
        fields.all (fun fd => !(fd.ty.nn && fd.dflt.isNone && (lookup fs fd.name).isNone))
        && fs.all (fun kv => match fields.find? (fun fd => fd.name = kv.1) with
            | none => false
            | some fd => litOK s vdefs f fd.ty kv.2)
      | some (.input _ _), _ => false

structure FieldUse where
  path : Path
  defs : List ArgDef
  given : List (String × Lit)
  deriving Repr, Inhabited

/-- the operation passes the value-level validation rules -/
def docOK (s : Schema) (vars : List VarDef) (fields : List FieldUse) : Bool :=
  let vdefs := vars.map fun v => (v.name, v.ty, match v.dflt with | some .null => false | some _ => true | none => false)
  vars.all (fun v => match v.dflt with | some d => litOK s [] litDepth v.ty d | none => true)
  && fields.all (fun fu =>
      fu.defs.all (fun d => !(d.ty.nn && d.dflt.isNone && (lookup fu.given d.name).isNone))
      && fu.given.all (fun kv => match fu.defs.find? (fun d => d.name = kv.1) with
          | none => false
          | some d => litOK s vdefs litDepth d.ty kv.2))

/-- one operation: rejected before execution, or one `Step` per field use -/
inductive Outcome where
  | gateValidation
  | gateVar (path : Path) (msg : String)
  | gatePanic (what : String)
  | ran (steps : List (Path × Step))
  deriving Repr, Inhabited

def runOp (s : Schema) (c : Cfg) (vars : List VarDef) (input : List (String × Raw)) (fields : List FieldUse) : Outcome :=
  if !docOK s vars fields then .gateValidation else
  match varValues s vars input with
  | .error (.at p m) => .gateVar p m
  | .error (.panic w) => .gatePanic w
  | .error .fuel => .gatePanic "fuel"
  | .ok cv => .ran (fields.map fun fu => (fu.path, fieldStep s c cv fu.defs fu.given fu.path))

/-! ## canonical rendering (`universal.RenderArg`) -/

def quoteGo (s : String) : String :=
  "\"" ++ String.join (s.toList.map fun c =>
    if c = '"' then "\\\"" else if c = '\\' then "\\\\" else if c = '\n' then "\\n" else if c = '\t' then "\\t"
    else String.singleton c) ++ "\""

def insertSorted (kv : String × String) : List (String × String) → List (String × String)
  | [] => [kv]
  | a :: r => if kv.1 < a.1 then kv :: a :: r else a :: insertSorted kv r

def sortKV (l : List (String × String)) : List (String × String) := l.foldr insertSorted []

def renderRawF : Nat → Raw → String
  | 0, _ => "?"
  | f + 1, r =>
    match r with
    | .nil => "nil"
    | .bool b => if b then "true" else "false"
    | .int n | .i64 n => toString n
    | .f64 t => "F(" ++ t ++ ")"
    | .num t => quoteGo t
    | .str s => quoteGo s
    | .list xs => "[" ++ ",".intercalate (xs.map (renderRawF f)) ++ "]"
    | .typed _ xs => "[" ++ ",".intercalate (xs.map (renderRawF f)) ++ "]"
    | .obj fs => "map{" ++ ",".intercalate ((sortKV (fs.map fun kv => (kv.1, renderRawF f kv.2))).map fun kv => kv.1 ++ ":" ++ kv.2) ++ "}"

def renderF : Nat → GoV → String
  | 0, _ => "?"
  | f + 1, g =>
    match g with
    | .nil => "nil"
    | .ptr v => "&" ++ renderF f v
    | .int n => toString n
    | .float t => "F(" ++ t ++ ")"
    | .fmt6 t => "FMT6(" ++ t ++ ")"
    | .fmtF t => "FMTF(" ++ t ++ ")"
    | .str s => quoteGo s
    | .bool b => if b then "true" else "false"
    | .nilSlice => "nil[]"
    | .slice xs => "[" ++ ",".intercalate (xs.map (renderF f)) ++ "]"
    | .struct fs => "{" ++ ",".intercalate (fs.map fun kv => kv.1 ++ ":" ++ renderF f kv.2) ++ "}"
    | .nilMap => "nilmap"
    | .map kvs => "map{" ++ ",".intercalate ((sortKV (kvs.map fun kv => (kv.1, renderF f kv.2))).map fun kv => kv.1 ++ ":" ++ kv.2) ++ "}"
    | .unset => "unset"
    | .set v => "set(" ++ renderF f v ++ ")"
    | .any r => renderRawF 100 r

def render (g : GoV) : String := renderF 200 g

def renderShape : Sh → String
  | .scalar k => (match k with
    | .int => "int" | .int32 => "int32" | .int64 => "int64" | .uint => "uint" | .uint32 => "uint32"
    | .uint64 => "uint64" | .id => "string" | .intID => "int" | .uintID => "uint" | .string => "string"
    | .float => "float64" | .bool => "bool" | .any => "any")
  | .enum n => "enum:" ++ n
  | .struct n => "struct:" ++ n
  | .mapIn _ => "map"
  | .ptr s => "ptr(" ++ renderShape s ++ ")"
  | .slice s => "slice(" ++ renderShape s ++ ")"
  | .bad w => "bad:" ++ w

end GqlgenVerif.Coerce
