import GqlgenVerif.Model.Naming
import GqlgenVerif.Gen.PkgNameRules
/-!
# The package name gqlgen DERIVES for a generated file when `package:` is left out of gqlgen.yml (C17)

Mirrors `internal/code/util.go` `SanitizePackageName` and `internal/code/imports.go` `NameForDir`, which the
`Check()` methods of the exec / model / resolver sections (`codegen/config/{exec,package,resolver}.go`) and
`plugin/stubgen` call with the output directory. The DECISIONS of both functions are regenerated from the source
(`Gen/PkgNameRules.lean`, `go/extract/pkgnamerules.go`): which expression each of NameForDir's four returns yields
(over `sanitize`, the directory's base name and the package clause that was read), the replaced character class and
its replacement, the repair guard of SanitizePackageName and the repaired name. Text = list of code points.

The file system is an explicit input: `Dir` says what NameForDir finds at the output directory.
-/
namespace GqlgenVerif.PkgName
open GqlgenVerif GqlgenVerif.Naming GqlgenVerif.Gen

/-- the character class `\W` of Go's regexp (RE2, ASCII only): everything except `[0-9A-Za-z_]` -/
def isNonWord (c : Nat) : Bool := !isIdentChar c

/-- `invalidPackageNameChar.ReplaceAllLiteralString(base, repl)` for the class `\W` -/
def replaceNonWord (n : Name) : Name := n.flatMap fun c => if isNonWord c then PkgNameRules.replacement else [c]

def startsWithDigit : Name → Bool
  | [] => false
  | c :: _ => isDigit c

/-- `SanitizePackageName` on a base name (`filepath.Base` is the identity on it) -/
def sanitizePkg (base : Name) : Name :=
  let s := replaceNonWord base
  if PkgNameRules.sanitizeGuard (s == [95]) (goKeywords.contains s) (startsWithDigit s) (s == []) then PkgNameRules.guardFix s else s

/-- a directory entry: its name and, when it parses as a Go file up to the package clause, the package name -/
structure Entry where
  name : Name
  clause : Option Name
deriving Repr

/-- what NameForDir finds at the directory -/
inductive Dir
  /-- `filepath.Abs` fails (no working directory) -/
  | absFails
  /-- `os.ReadDir` fails: the directory does not exist yet (or is not readable) -/
  | unreadable
  /-- the entries of the directory in `os.ReadDir` order (sorted by name) -/
  | entries (es : List Entry)
deriving Repr

def hasSuffix (s suf : Name) : Bool := suf.length ≤ s.length && s.drop (s.length - suf.length) == suf

/-- the suffix filter of the loop: `strings.HasSuffix(strings.ToLower(file.Name()), ".go")` -/
def isGoFile (n : Name) : Bool :=
  hasSuffix (if PkgNameRules.suffixLowered then lower n else n) PkgNameRules.goSuffix

/-- the loop: the package clause of the first entry with the suffix that parses -/
def firstClause : List Entry → Option Name
  | [] => none
  | e :: r => if isGoFile e.name then (match e.clause with | some c => some c | none => firstClause r) else firstClause r

/-- `code.NameForDir(dir)` with `base = filepath.Base(abs dir)` -/
def nameForDir (base : Name) : Dir → Name
  | .absFails => PkgNameRules.retAbsError sanitizePkg base []
  | .unreadable => PkgNameRules.retReadDirError sanitizePkg base []
  | .entries es =>
    match firstClause es with
    | some c => PkgNameRules.retPackageClause sanitizePkg base c
    | none => PkgNameRules.retNoGoFile sanitizePkg base []

/-- what a section's `Check()` leaves in `Package`: the configured name, else the regenerated derivation -/
def sectionPackage (how : String) (configured base : Name) (d : Dir) : Name :=
  if configured != [] then configured
  else if how == "nameForDir(Dir)" then nameForDir base d
  else if how == "sanitize(base(Dir))" then sanitizePkg base
  else base

/-! ## Spec -/
/-- a name a Go file can carry in its package clause: an identifier, not a keyword, not the blank identifier -/
def validPkgName (n : Name) : Bool := validIdent n && !goKeywords.contains n && n != [95]

/-- does NameForDir read the name from Go files that are already there -/
def readsClause : Dir → Bool
  | .entries es => (firstClause es).isSome
  | _ => false

end GqlgenVerif.PkgName
