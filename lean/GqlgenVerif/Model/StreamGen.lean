import GqlgenVerif.Model.Stream
import GqlgenVerif.Gen.StreamFmt
/-!
The byte strings `sse.go` / `http_multipart_mixed.go` write *now* (regenerated on every run by
`go/extract/streamfmt.go`), packed into the format structures of `Model/Stream.lean`.
-/
namespace GqlgenVerif.Stream
open GqlgenVerif.Gen

def genSse : SseFmt where
  header := StreamFmt.sseHeader
  ping := StreamFmt.ssePing
  nextPre := StreamFmt.sseNextPre
  nextSuf := StreamFmt.sseNextSuf
  complete := StreamFmt.sseComplete

def genMp : MpFmt where
  delimPre := StreamFmt.mpDelimPre
  delimSuf := StreamFmt.mpDelimSuf
  closePre := StreamFmt.mpClosePre
  closeSuf := StreamFmt.mpCloseSuf
  partHeader := StreamFmt.mpPartHeader
  sep := StreamFmt.mpSep
  incKey := StreamFmt.mpIncKey
  hasNextKey := StreamFmt.mpHasNextKey

end GqlgenVerif.Stream
