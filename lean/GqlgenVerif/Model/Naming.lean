import GqlgenVerif.Gen.Keywords
import GqlgenVerif.Model.Order
/-!
# Naming — the identifier functions of `codegen/templates/templates.go`

Executable model (core Lean only) of the functions gqlgen uses to turn GraphQL names into Go identifiers.
Text is a list of Unicode code points (`Nat`); the case/class predicates are those of Go's `unicode`
package restricted to ASCII (GraphQL names are `[_A-Za-z][_0-9A-Za-z]*`), which is the domain on which the
model is tied to the implementation (the harness feeds ASCII only).

| model                 | mirrors (codegen/templates/templates.go)                                   |
|-----------------------|-----------------------------------------------------------------------------|
| `isDelim`             | `isDelimiter`                                                              |
| `walkAux` / `walk`    | `wordWalker` (the in-place deletion of delimiter runs becomes `skipRun`)   |
| `xform`               | the closure returned by `wordWalkerFunc`                                   |
| `toGo`, `toGoPrivate` | `ToGo`, `ToGoPrivate`                                                      |
| `sanitize`            | `sanitizeKeywords` (list and suffix regenerated: `Gen/Keywords.lean`)      |
| `goModelName`         | `goModelName` with the process-global `modelNames` map as an explicit `Reg`|
| `typeIdentifier`      | `TypeIdentifier` + `pkgReplacer`                                           |
| `emitted`             | the identifiers `plugin/modelgen/models.gotpl` declares + resolver method  |
|                       | and argument names (`codegen/field.go`, `codegen/args.go`)                  |
-/
namespace GqlgenVerif.Naming
open GqlgenVerif.Gen

/-- text = list of code points -/
abbrev Name := List Nat

def str (s : String) : Name := s.toList.map Char.toNat

/-! ## character classes (Go `unicode.IsLower/IsUpper/IsDigit/IsSpace`, ASCII range) -/
def isLower (c : Nat) : Bool := 97 ≤ c && c ≤ 122
def isUpper (c : Nat) : Bool := 65 ≤ c && c ≤ 90
def isDigit (c : Nat) : Bool := 48 ≤ c && c ≤ 57
def isLetter (c : Nat) : Bool := isLower c || isUpper c
def isSpace (c : Nat) : Bool := c == 32 || (9 ≤ c && c ≤ 13)
/-- `isDelimiter`: '-', '_' or white space -/
def isDelim (c : Nat) : Bool := c == 45 || c == 95 || isSpace c
/-- a character allowed in a Go identifier (ASCII part): letter, digit, underscore -/
def isIdentChar (c : Nat) : Bool := isLetter c || isDigit c || c == 95

def upC (c : Nat) : Nat := if isLower c then c - 32 else c
def loC (c : Nat) : Nat := if isUpper c then c + 32 else c
/-- `strings.ToUpper` / `strings.ToLower` -/
def upper (w : Name) : Name := w.map upC
def lower (w : Name) : Name := w.map loC
/-- `UcFirst` / `LcFirst` -/
def ucFirst : Name → Name
  | [] => []
  | c :: r => upC c :: r
def lcFirst : Name → Name
  | [] => []
  | c :: r => loC c :: r

/-- `strings.TrimFunc(str, isDelimiter)` -/
def trim (s : Name) : Name := ((s.dropWhile isDelim).reverse.dropWhile isDelim).reverse

/-! ## tables regenerated from the source -/
def inits : List Name := Keywords.commonInitialisms.map str
def shorts : List Name := Keywords.shortInitialisms.map str
def kws : List Name := Keywords.keywords.map str
def suffix : Name := str Keywords.sanitizeSuffix

/-- the 25 keywords of the Go specification (the reference the property speaks about) -/
def goKeywords : List Name := ["break", "default", "func", "interface", "select", "case", "defer", "go", "map",
  "struct", "chan", "else", "goto", "package", "switch", "const", "fallthrough", "if", "range", "type",
  "continue", "for", "import", "return", "var"].map str

/-! ## wordWalker -/
structure WordInfo where
  wordOffset : Nat
  word : Name
  matchCI : Bool
  hasCI : Bool
deriving Repr, DecidableEq

/-- skip a run of delimiters; returns the last delimiter skipped and what follows the run -/
def skipRun (last : Nat) : List Nat → Nat × List Nat
  | [] => (last, [])
  | d :: r => if isDelim d then skipRun d r else (last, d :: r)

/-- what `wordWalker` does when it looks past `runes[i] = c` at `runes[i+1:] = rest`:
returns (end-of-word?, the text after position i once delimiter runs are deleted).
A run of delimiters between two digits keeps its last delimiter. -/
def lookAhead (c : Nat) (rest : List Nat) : Bool × List Nat :=
  match rest with
  | [] => (true, [])
  | d :: r =>
    if isDelim d then
      match skipRun d r with
      | (_, []) => (true, [])
      | (last, e :: r') => if isDigit c && isDigit e then (true, last :: e :: r') else (true, e :: r')
    else if isLower c && !isLower d then (true, rest)
    else (false, rest)

/-- the ID / IP special case: `word == remaining[:2] && len(remaining) > 3 && IsUpper(remaining[3])` -/
def idipSkip (word rest : List Nat) : Bool :=
  let rem := word ++ rest
  rem.take 2 == word && (match rem.drop 3 with | x :: _ => isUpper x | [] => false)

/-- `!unicode.IsLower(runes[i])` for the rune after the current word (true at the end of the text) -/
def headNotLower : List Nat → Bool
  | [] => true
  | x :: _ => !isLower x

/-- outcome of one iteration of the `wordWalker` loop -/
inductive StepRes where
  /-- `continue`: the word goes on (new hasCommonInitial, runes[w:i], runes[i:]) -/
  | cont (hci : Bool) (word : List Nat) (rest : List Nat)
  /-- `f(&wordInfo{…})` is called; the next word starts at runes[i:] -/
  | emit (info : WordInfo) (rest : List Nat)

/-- one iteration of the loop of `wordWalker`; `cur` = runes[w:i], `c :: rest` = runes[i:] -/
def stepWord (wo : Nat) (hci : Bool) (cur : List Nat) (c : Nat) (rest : List Nat) : StepRes :=
  let la := lookAhead c rest
  let eow := la.1
  let rest' := la.2
  let word := cur ++ [c]
  let isInit := inits.contains word
  let nextNotLower := headNotLower rest'
  if !eow && !(isInit && nextNotLower) then
    .cont (hci || isInit) word rest'
  else
    let up := upper word
    if inits.contains up then
      if shorts.contains up && !eow && idipSkip word rest' then
        .cont hci word rest'
      else
        .emit ⟨wo, word, true, true⟩ rest'
    else
      .emit ⟨wo, word, false, hci⟩ rest'

/-- the loop of `wordWalker`; one iteration per unit of fuel -/
def walkAux : Nat → Nat → Bool → List Nat → List Nat → List WordInfo
  | 0, _, _, _, _ => []
  | _, _, _, _, [] => []
  | fuel + 1, wo, hci, cur, c :: rest =>
    match stepWord wo hci cur c rest with
    | .cont hci' word rest' => walkAux fuel wo hci' word rest'
    | .emit info rest' => info :: walkAux fuel (wo + 1) false [] rest'

def walk (s : Name) : List WordInfo :=
  let t := trim s
  walkAux (t.length + 1) 0 false [] t

/-- the closure of `wordWalkerFunc(private, …)`: the text appended for one word -/
def xform (priv : Bool) (i : WordInfo) : Name :=
  let w := i.word
  if priv && i.wordOffset == 0 then
    if upper w == w || lower w == w then lower w else lcFirst w
  else if i.matchCI then upper w
  else if !i.hasCI && (upper w == w || lower w == w) then ucFirst (lower w)
  else w

def underscore : Name := [95]

/-- `ToGo` -/
def toGo (name : Name) : Name :=
  if name == underscore then underscore else (walk name).flatMap (xform false)

/-- `sanitizeKeywords` -/
def sanitize (n : Name) : Name := if kws.contains n then n ++ suffix else n

/-- `ToGoPrivate` -/
def toGoPrivate (name : Name) : Name :=
  if name == underscore then underscore else sanitize ((walk name).flatMap (xform true))

/-! ## Go identifiers -/
/-- a valid (ASCII) Go identifier: letter or underscore, then letters, digits, underscores -/
def validIdent : Name → Bool
  | [] => false
  | c :: r => (isLetter c || c == 95) && r.all isIdentChar

/-- exported identifier -/
def exported : Name → Bool
  | [] => false
  | c :: _ => isUpper c

/-! ## ToGoModelName and its registry -/
/-- `modelNames`: key ↦ allocated Go name (insertion order) -/
abbrev Reg := List (Name × Name)

def Reg.lookup (r : Reg) (k : Name) : Option Name :=
  match r with
  | [] => none
  | (k', v) :: t => if k' == k then some v else Reg.lookup t k

/-- `nameExists` -/
def Reg.nameExists (r : Reg) (n : Name) : Bool := r.any (fun kv => kv.2 == n)

def joinWith (sep : Nat) : List Name → Name
  | [] => []
  | [p] => p
  | p :: ps => p ++ sep :: joinWith sep ps

/-- `buildGoModelNameKey` = strings.Join(parts, ":") -/
def modelKey (parts : List Name) : Name := joinWith 58 parts

/-- `applyToGoFunc` -/
def applyToGo (primary : Name → Name) : List Name → Name
  | [] => []
  | p :: ps => primary p ++ ps.flatMap toGo

/-- `replaceInvalidCharacters` (goNameRe = `[^a-zA-Z0-9_]`) -/
def replaceInvalid (s : Name) : Name := s.map fun c => if isLetter c || isDigit c || c == 95 then c else 95

/-- `applyValidGoName` -/
def applyValid (parts : List Name) : Name := parts.flatMap replaceInvalid

/-- `%d` -/
def decimal (n : Nat) : Name := str (toString n)

/-- `for i := 0; ; i++ { tmp := base+i; if !nameExists(tmp) {…} }` with a fuel bound -/
def firstFree (r : Reg) (base : Name) : Nat → Nat → Option Name
  | 0, _ => none
  | fuel + 1, i =>
    let tmp := base ++ decimal i
    if r.nameExists tmp then firstFree r base fuel (i + 1) else some tmp

/-- `for i := partLen-1; i >= 1; i-- { tmp := applyToGoFunc(parts[0:i]) + applyValidGoName(parts[i:]) … }` -/
def pretty (r : Reg) (primary : Name → Name) (parts : List Name) : Nat → Option Name
  | 0 => none
  | i + 1 =>
    let tmp := applyToGo primary (parts.take (i + 1)) ++ applyValid (parts.drop (i + 1))
    if r.nameExists tmp then pretty r primary parts i else some tmp

/-- `goModelName`: the name returned (none = the model's fuel ran out, which `firstFree_total` excludes)
and the registry afterwards -/
def goModelName (primary : Name → Name) (r : Reg) (parts : List Name) : Option Name × Reg :=
  let key := modelKey parts
  match r.lookup key with
  | some n => (some n, r)
  | none =>
    let first := applyToGo primary parts
    if !r.nameExists first then (some first, r ++ [(key, first)])
    else
      let numbered := firstFree r first (r.length + 1) 0
      let res := if parts.length == 1 then numbered
                 else match pretty r primary parts (parts.length - 1) with
                      | some n => some n
                      | none => numbered
      match res with
      | some n => (some n, r ++ [(key, n)])
      | none => (none, r)

/-- a sequence of `ToGoModelName` calls from a given registry -/
def runCalls (primary : Name → Name) : Reg → List (List Name) → List (Option Name) × Reg
  | r, [] => ([], r)
  | r, p :: ps =>
    let (n, r1) := goModelName primary r p
    let (ns, r2) := runCalls primary r1 ps
    (n :: ns, r2)

/-! ## TypeIdentifier -/
inductive GoType where
  | pointer (t : GoType)
  | slice (t : GoType)
  | named (pkgPath : Name) (name : Name)
  | basic (name : Name)
  | map
  | iface
deriving Repr, DecidableEq

/-- `pkgReplacer` -/
def pkgReplace (p : Name) : Name := p.map fun c =>
  if c == 47 then 0x168B else if c == 46 then 0x1697 else if c == 45 then 0x1691 else if c == 126 then 0x5D0 else c

def typeIdentifier : GoType → Name
  | .pointer t => 0x1696 :: typeIdentifier t
  | .slice t => 0x1695 :: typeIdentifier t
  | .named p n => pkgReplace p ++ 0x1690 :: n
  | .basic n => n
  | .map => str "map"
  | .iface => str "interface"

/-! ## identifiers declared by the generated model file and resolver interfaces -/
/-- `sort.Slice(…, Name <)` (shared with C18: `Model/Order.lean`); names are distinct so stability does not matter -/
def sortBy {α} (key : α → Name) (l : List α) : List α := Order.sortByKey key l

inductive Kind where
  | iface   -- interface or union
  | model   -- object or input object
  | enum
  | root    -- Query / Mutation / Subscription: resolver interface only (their model struct has no fields)
deriving Repr, DecidableEq

structure FieldDecl where
  name : Name
  args : List Name := []
deriving Repr, DecidableEq

structure TypeDecl where
  kind : Kind
  name : Name
  /-- modelgen's `Implements` list of the type -/
  impls : List Name := []
  fields : List FieldDecl := []
  /-- enum values -/
  values : List Name := []
deriving Repr, DecidableEq

/-- the `goModelName` calls `models.gotpl` makes, in template order, up to the point where every name is
allocated (later calls only look names up) -/
def modelCalls (ifaces models enums : List TypeDecl) : List (List Name) :=
  ifaces.flatMap (fun t => [t.name] :: t.impls.map (fun i => [i]) ++ [[t.name]])
  ++ models.flatMap (fun t => [t.name] :: t.impls.flatMap (fun i => [[t.name], [i]]))
  ++ enums.flatMap (fun t => [t.name] :: t.values.flatMap (fun v => [[t.name, v], [t.name]]))

inductive Scope where
  | pkg
  | struct (goName : Name)
  | resolver (typeName : Name)
  | args (typeName goMethod : Name)
deriving Repr, DecidableEq

def nameOf (r : Reg) (parts : List Name) : Name := (r.lookup (modelKey parts)).getD []

/-- modelgen's three sorted declaration lists, and the registry after the calls of `models.gotpl` -/
def ifacesOf (ts : List TypeDecl) : List TypeDecl := sortBy (·.name) (ts.filter (·.kind == .iface))
def modelsOf (ts : List TypeDecl) : List TypeDecl := sortBy (·.name) (ts.filter (·.kind == .model))
def enumsOf (ts : List TypeDecl) : List TypeDecl := sortBy (·.name) (ts.filter (·.kind == .enum))
def registryOf (ts : List TypeDecl) : Reg :=
  (runCalls toGo [] (modelCalls (ifacesOf ts) (modelsOf ts) (enumsOf ts))).2

/-- identifiers declared by `models_gen.go` for the schema `ts`, by scope, in template order -/
def emittedModels (ts : List TypeDecl) : List (Scope × Name) × Reg :=
  let r := registryOf ts
  ((ifacesOf ts).map (fun t => (Scope.pkg, nameOf r [t.name]))
   ++ (modelsOf ts).flatMap (fun t => (Scope.pkg, nameOf r [t.name]) ::
        t.fields.map (fun f => (Scope.struct (nameOf r [t.name]), toGo f.name)))
   ++ (enumsOf ts).flatMap (fun t => (Scope.pkg, nameOf r [t.name]) ::
        t.values.map (fun v => (Scope.pkg, nameOf r [t.name, v])) ++ [(Scope.pkg, str "All" ++ nameOf r [t.name])]),
   r)

/-- method and parameter names of the generated `<T>Resolver` interfaces (`codegen/field.go`:
`GoFieldName = ToGo(field)`, `codegen/args.go`: `VarName = ToGoPrivate(arg)`) -/
def emittedResolvers (ts : List TypeDecl) : List (Scope × Name) :=
  (ts.filter (fun t => t.kind == .model || t.kind == .root)).flatMap fun t =>
    t.fields.flatMap fun f =>
      (Scope.resolver t.name, toGo f.name) :: f.args.map (fun a => (Scope.args t.name (toGo f.name), toGoPrivate a))

def emitted (ts : List TypeDecl) : List (Scope × Name) := (emittedModels ts).1 ++ emittedResolvers ts

/-- the identifiers of one scope -/
def inScope (s : Scope) (l : List (Scope × Name)) : List Name := (l.filter (·.1 == s)).map (·.2)

end GqlgenVerif.Naming
