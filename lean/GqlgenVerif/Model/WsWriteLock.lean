/-!
# Who may write to a websocket connection at the same time

gorilla/websocket allows ONE concurrent writer per connection and panics ("concurrent write to websocket
connection") when a second one enters while the first is inside. In graphql/handler/transport/websocket.go the
writers are goroutines: the read loop (`run`: answers, `close`), one goroutine per operation (`subscribe`: data
frames and the terminating frames in its defer), the keep-alive tickers, `closeOnCancel`. `wsConnection.mu`
serialises them - provided every write site stands between `c.mu.Lock()` and `c.mu.Unlock()`.

`go/extract/wswritelock.go` regenerates the list of write sites with that fact (`locked`). Here: goroutines as
threads that each perform a list of writes, a write through a locked site being `acquire; enter; exit+release`,
through an unlocked site `enter; exit`; any interleaving is a schedule (a list of thread indices; a blocked
thread's step is a no-op).
-/
namespace GqlgenVerif.WsWriteLock

/-- a frame write in the source: enclosing method, the call, whether `c.mu` is held around it -/
structure WriteSite where
  fn : String
  call : String
  locked : Bool
  deriving DecidableEq, Repr

inductive Phase
  | idle                      -- between writes
  | holding                   -- has `c.mu`, not yet inside gorilla's write
  | writing (locked : Bool)   -- inside gorilla's write (with or without `c.mu`)
  deriving DecidableEq, Repr

structure Thread where
  phase : Phase
  /-- the writes still to do: the `locked` fact of the site each goes through -/
  todo : List Bool
  deriving DecidableEq, Repr

def Thread.holds (t : Thread) : Bool :=
  match t.phase with
  | .holding => true
  | .writing true => true
  | _ => false

def Thread.isWriting (t : Thread) : Bool :=
  match t.phase with
  | .writing _ => true
  | _ => false

abbrev State := List Thread

def mutexFree (s : State) : Bool := s.all fun t => !t.holds

/-- what thread `t` does next (`none`: blocked on the mutex, or finished) -/
def next (s : State) (t : Thread) : Option Thread :=
  match t.phase, t.todo with
  | .idle, true :: _ => if mutexFree s then some { t with phase := .holding } else none
  | .idle, false :: _ => some { t with phase := .writing false }
  | .idle, [] => none
  | .holding, _ => some { t with phase := .writing true }
  | .writing _, todo => some { phase := .idle, todo := todo.tail }

def step (s : State) (i : Nat) : State :=
  match s[i]? with
  | none => s
  | some t =>
    match next s t with
    | none => s
    | some t' => s.set i t'

def exec (s : State) : List Nat → State
  | [] => s
  | i :: is => exec (step s i) is

/-- gorilla's panic condition: two goroutines inside a write -/
def concurrentWrite (s : State) : Prop :=
  ∃ (i j : Nat) (ti tj : Thread), i ≠ j ∧ s[i]? = some ti ∧ s[j]? = some tj ∧ ti.isWriting = true ∧ tj.isWriting = true

/-- the goroutines of a connection before anything is written: thread `k` will write through the sites `prog k` -/
def start (progs : List (List Bool)) : State := progs.map fun p => { phase := .idle, todo := p }

end GqlgenVerif.WsWriteLock
