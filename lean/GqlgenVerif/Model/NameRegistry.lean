/-!
# The process-global model-name registry (C18, round 6 b)

`templates.ToGoModelName(name)` (codegen/templates/templates.go `goModelName`, single-part form) makes Go names unique:
the first GraphQL name that normalises to `FooBar` gets `FooBar`, the next one `FooBar0`, then `FooBar1`, ...; a name
that was asked for before gets the same answer again. The registry is a process-global map from the GraphQL name to the
Go name handed out; here it is the list of its entries in allocation order.
-/
namespace GqlgenVerif.NameRegistry

abbrev Reg := List (String × String)

def taken (r : Reg) (n : String) : Bool := r.any (fun e => e.2 == n)

/-- `for i := 0; ; i++ { tmp := base + i; if !nameExists(tmp) { return tmp } }` with fuel (|r| + 1 candidates suffice) -/
def firstFree (r : Reg) (base : String) : Nat → Nat → String
  | 0, i => base ++ toString i
  | f + 1, i => if taken r (base ++ toString i) then firstFree r base f (i + 1) else base ++ toString i

def lookup (r : Reg) (key : String) : Option String := (r.find? (fun e => e.1 == key)).map (·.2)

/-- one request: the registry afterwards and the answer. `norm` is templates.ToGo. -/
def request (norm : String → String) (r : Reg) (key : String) : Reg × String :=
  match lookup r key with
  | some g => (r, g)
  | none =>
    let g := norm key
    let n := if taken r g then firstFree r g r.length 0 else g
    (r ++ [(key, n)], n)

/-- the registry after a sequence of requests, from an empty registry -/
def requests (norm : String → String) (keys : List String) (r : Reg := []) : Reg :=
  keys.foldl (fun r k => (request norm r k).1) r

/-- the Go name a GraphQL name ends up with -/
def nameOf (norm : String → String) (keys : List String) (key : String) : Option String :=
  lookup (requests norm keys) key

end GqlgenVerif.NameRegistry
