import GqlgenVerif.Gen.ExecLayoutTwins
/-!
# The executor's top-level declarations per exec layout (C17, dimension "input objects with field resolvers")

gqlgen writes `Config`, `ResolverRoot`, `DirectiveRoot`, `ComplexityRoot`, `executableSchema`, the `sources` table …
from one of two templates: the `if eq .Config.Exec.Layout "single-file"` blocks of `codegen/generated!.gotpl`, or
`codegen/root_.gotpl` (rendered to `root_.generated.go` under `follow-schema`). Both are regenerated as token lists
(`Gen/ExecLayoutTwins.lean`).

* `twin` - what `root_.gotpl` has to be, given the single-file blocks and the block `generated!.gotpl` renders between
  them for both layouts.
* `declared layout s` - the methods `type ResolverRoot interface` lists under a layout for a schema `s` (objects /
  input objects with a name and "has a resolver field"), read off the regenerated `range`s; `called s` - the methods
  the templates that write `ec.resolvers.<T>()` call, read off the collections those templates iterate.
* `methodEntry` - the ResolverRoot entry that belongs to a `type <N>Resolver interface {` header.
-/
namespace GqlgenVerif.ExecLayout
open GqlgenVerif.Gen

/-- root_.gotpl as the single-file blocks demand it: the blocks in order, with the part of generated!.gotpl that both
layouts render exactly once (the built-in directive implementations) between them -/
def twin (blocks : List (List Nat)) (shared : List Nat) : List Nat :=
  match blocks with
  | [a, b] => a ++ shared ++ b
  | _ => []

/-- first position at which two token lists differ: (index, token of the first, token of the second) -/
def firstDiff : List Nat → List Nat → Nat → Option (Nat × Option Nat × Option Nat)
  | [], [], _ => none
  | a :: _, [], i => some (i, some a, none)
  | [], b :: _, i => some (i, none, some b)
  | a :: as, b :: bs, i => if a = b then firstDiff as bs (i + 1) else some (i, some a, some b)

/-- a GraphQL object / input object as the templates see it -/
structure Ty where
  name : String
  hasResolvers : Bool
deriving Repr, DecidableEq

structure Sch where
  objects : List Ty
  inputs : List Ty

/-- the collection of `codegen.Data` a template `range`s over -/
def coll (s : Sch) (c : String) : List Ty :=
  if c = ".Objects" then s.objects else if c = ".Inputs" then s.inputs else []

/-- the `range`s inside `type ResolverRoot interface` under a layout -/
def entriesOf (layout : String) : List (String × String × List String) :=
  match ExecLayoutTwins.resolverRoot.find? (·.1 == layout) with
  | some e => e.2
  | none => []

/-- the only guard the model understands; any other guard lists nothing -/
def guardHolds (g : String) (t : Ty) : Bool := g == "$object.HasResolvers" && t.hasResolvers

/-- methods `ResolverRoot` declares (by GraphQL type name) -/
def declared (layout : String) (s : Sch) : List String :=
  (entriesOf layout).flatMap fun e => ((coll s e.1).filter (guardHolds e.2.1)).map (·.name)

/-- methods the generated code calls through `ec.resolvers` (a template calls it for the types of the collection it
iterates that have a resolver field) -/
def called (s : Sch) : List String :=
  ExecLayoutTwins.resolverCallers.flatMap fun c => ((coll s c.2).filter (·.hasResolvers)).map (·.name)

/-- the ResolverRoot entry of an interface declared as `type <N>Resolver interface {` -/
def methodEntry : List String → List String
  | ["type", n, "Resolver", "interface", "{"] => [n, "(", ")", n, "Resolver"]
  | _ => []

def layouts : List String := ["single-file", "follow-schema"]

end GqlgenVerif.ExecLayout
