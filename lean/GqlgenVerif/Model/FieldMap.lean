/-!
# What the complexity templates read from `codegen.Object` / `codegen.Field` (property C14)

Base types for `Gen/UniqueFields.lean` (regenerated from `/repo/codegen/complexity.go` on every run) and
for `Model/ComplexitySwitch.lean`.

* `GField` — the three things `codegen/generated!.gotpl` and `codegen/root_.gotpl` read from a
  `*codegen.Field` when they emit `ComplexityRoot` and the `switch typeName + "." + field` of
  `executableSchema.Complexity`: `Field.Name` (the GraphQL name), `Field.GoFieldName` (the Go method /
  struct field the schema field is bound to: `@goField(name:)`, `models.<T>.fields.<f>.fieldName`, or
  `templates.ToGo(name)`) and `Field.IsReserved` (`__`-prefixed).
* `GoMap` — a Go `map[string][]*Field` as an association list with at most one pair per key. Go's
  `m[k]` on a missing key is the nil slice (`GoMap.get` returns `[]`), `m[k] = v` replaces
  (`GoMap.set`). The order of the pairs is irrelevant to everything stated about it (text/template
  ranges over maps in key order; a `switch` with distinct labels does not depend on clause order).
-/
namespace GqlgenVerif.FieldMap

structure GField where
  /-- `Field.Name` -/
  name : String
  /-- `Field.GoFieldName` -/
  goName : String
  /-- `Field.IsReserved` -/
  reserved : Bool := false
  deriving DecidableEq, Repr

abbrev GoMap := List (String × List GField)

/-- `m[k]` (nil for a missing key) -/
def GoMap.get (m : GoMap) (k : String) : List GField :=
  match m.find? (fun p => decide (p.1 = k)) with
  | some p => p.2
  | none => []

/-- `m[k] = v` -/
def GoMap.set (m : GoMap) (k : String) (v : List GField) : GoMap :=
  (k, v) :: m.filter (fun p => decide (p.1 ≠ k))

end GqlgenVerif.FieldMap
