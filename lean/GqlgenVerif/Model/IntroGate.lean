import GqlgenVerif.Model.ExecSpec
/-!
# The introspection gate on the execution model

`codegen/data.go: injectIntrospectionRoots` appends `__type(name: String!): __Type` and
`__schema: __Schema` (both nullable, no directives) to the root query object; `codegen/field.go` binds
them (and the federation plugin's `_service: _Service!`) to methods of the execution context:

```
func (ec *executionContext) introspectSchema() (*introspection.Schema, error) {
	if ec.DisableIntrospection { return nil, errors.New("introspection disabled") } …
func (ec *executionContext) introspectType(name string) (*introspection.Type, error) { same gate }
func (ec *executionContext) __resolve__service(ctx) (fedruntime.Service, error) {
	if ec.DisableIntrospection { return fedruntime.Service{}, errors.New("federated introspection disabled") } …
```
(`codegen/generated!.gotpl`, `codegen/root_.gotpl`, `plugin/federation/federation.gotpl`);
`OperationContext.DisableIntrospection` is `true` unless an `OperationContextMutator` (the
`extension.Introspection`) cleared it (`graphql/executor/executor.go`).

In the execution model (`Model/Exec.lean`) user code and bound methods are an oracle keyed by response
path. The gate is an oracle transformer: at the response path of every collected *root* field whose
field name is gated, the outcome is the gate's error, whatever the underlying oracle says. Everything
else — field collection through aliases, fragments, inline fragments, `@skip/@include` with variables
(`Model/Collect.lean`), null bubbling (`_service` is non-null) — is the C01 model unchanged.
-/
namespace GqlgenVerif.IntroGate
open GqlgenVerif

def gatedNames : List String := ["__schema", "__type", "_service"]

def isGated (name : String) : Bool := gatedNames.contains name

def gateMsg (name : String) : String :=
  if name == "_service" then "federated introspection disabled" else "introspection disabled"

/-- `injectIntrospectionRoots`: the two fields appended to the root query object. gqlparser's loader has
    already put its own `__schema: __Schema!` / `__type` on the query definition; `codegen/object.go`
    skips every `__`-prefixed field of the schema, so only gqlgen's (nullable) definitions are executable. -/
def injectRoots (s : GqlgenVerif.Schema) : GqlgenVerif.Schema :=
  { s with types := s.types.map fun t =>
      if t.name == s.query then
        { t with fields := (t.fields.filter fun f => !f.name.startsWith "__") ++
            [{ name := "__type", type := .named "__Type" false },
             { name := "__schema", type := .named "__Schema" false }] }
      else t }

/-- the gated root field collected under response key `k`, if any -/
def gatedAt (fields : List (FInfo × Shape)) (k : String) : Option FInfo :=
  (fields.find? fun f => f.1.alias == k && isGated f.1.name).map (·.1)

/-- execution with `DisableIntrospection = true` -/
def gateOracle (fields : List (FInfo × Shape)) (o : Oracle) : Oracle :=
  { o with res := fun p =>
      match p with
      | [.key k] =>
        match gatedAt fields k with
        | some fi => .err (gateMsg fi.name)
        | none => o.res p
      | _ => o.res p }

/-- the gated collected root fields: (response key, field name, non-null) -/
def gatedKeys (fields : List (FInfo × Shape)) : List (String × String × Bool) :=
  (fields.filter fun f => isGated f.1.name).map fun f => (f.1.alias, f.1.name, f.2.nn)

/-- gated fields carry no schema directives and are bound to methods of the execution context, not read
    from a struct field (hypothesis of the theorems; evaluated by the driver) -/
def gatedNoDirs (fields : List (FInfo × Shape)) : Bool :=
  fields.all fun f => !isGated f.1.name || (f.1.dirs.isEmpty && !f.1.plain)

end GqlgenVerif.IntroGate
