import GqlgenVerif.Gen.FuncSyntaxArms
/-!
# The two flavours of the executor templates (C17)

`use_function_syntax_for_execution_context` selects, at every place where `codegen/*.gotpl` declares or calls a
generated helper, one of two arms of an `{{ if $useFunctionSyntaxForExecutionContext }} … {{ else }} … {{ end }}`:

* method flavour   `func (ec *executionContext) NAME(P0, …)`   `ec.NAME(A0, …)`    `ec.NAME`
* function flavour `func NAME(P0, ec *executionContext, …)`    `NAME(A0, ec, …)`   `NAME`
  (`&ec` instead of `ec` inside `Exec` / `Complexity`, where `ec` is a value)

Go resolves a call only against a declaration of the same flavour (a free function is not in the method set of
`*executionContext` and vice versa), and the function flavour has exactly one more parameter, `ec`, in second
position. `toFn` is that translation on the token level, over the segments the extractor parsed out of the METHOD
arm (`Gen/FuncSyntaxArms.lean`, regenerated from the templates on every run). `Props/C17.lean` proves that for every
pair of the table the translation of the method arm IS the function arm that stands in the template, so a stale
copy of the method arm in the function arm (seeded change C17-change4), a forgotten `ec` argument, `ec` for `&ec`,
or a receiver left on a declaration stops the proof.
-/
namespace GqlgenVerif.Flavour
open GqlgenVerif.Gen.FuncSyntaxArms

/-- a segment of a method arm: (kind, name, first argument); kind 0 text, 1 declaration, 2 call, 3 reference -/
abbrev Seg := Nat × List Nat × List Nat

/-- how the function flavour names the execution context at a call site -/
def ecArg (valueScope : Bool) : List Nat := if valueScope then [tAmp, tEc] else [tEc]

/-- the method flavour of a segment (what the extractor read) -/
def segMeth : Seg → List Nat
  | (1, n, p0) => [tFunc, tLParen, tEc, tStar, tExecCtx, tRParen] ++ n ++ [tLParen] ++ p0
  | (2, n, a0) => [tEc, tDot] ++ n ++ [tLParen] ++ a0
  | (3, n, _) => [tEc, tDot] ++ n
  | (_, n, _) => n

/-- the function flavour of a segment: no receiver; `ec` second -/
def segFn (valueScope : Bool) : Seg → List Nat
  | (1, n, p0) => [tFunc] ++ n ++ [tLParen] ++ p0 ++ [tComma, tEc, tStar, tExecCtx]
  | (2, n, a0) => n ++ [tLParen] ++ a0 ++ [tComma] ++ ecArg valueScope
  | (3, n, _) => n
  | (_, n, _) => n

def methTokens (segs : List Seg) : List Nat := segs.flatMap segMeth
def toFn (valueScope : Bool) (segs : List Seg) : List Nat := segs.flatMap (segFn valueScope)

def isSite (s : Seg) : Bool := s.1 == 1 || s.1 == 2 || s.1 == 3

/-- `ec . helper` somewhere in a token list: a generated helper reached through the receiver (exported members of
the embedded runtime context, `ec.Variables`, exist in both flavours and do not count) -/
def usesReceiver : List Nat → Bool
  | a :: b :: c :: r => (a == tEc && b == tDot && !exportedMembers.contains c) || usesReceiver (b :: c :: r)
  | _ => false

/-- `func ( ec * executionContext )`: a declaration with the receiver -/
def declaresMethod : List Nat → Bool
  | a :: b :: c :: r => (a == tFunc && b == tLParen && c == tEc) || declaresMethod (b :: c :: r)
  | _ => false

/-- `, ec` or `, & ec`: the execution context passed / taken as an explicit parameter -/
def passesEc : List Nat → Bool
  | a :: b :: r => (a == tComma && (b == tEc || (b == tAmp && r.head? == some tEc))) || passesEc (b :: r)
  | _ => false

/-- the pairs of the regenerated table on which the function arm is NOT the translation of the method arm
(driver op `flav`; empty on a consistent tree) -/
def disagreeing : List Pair :=
  pairs.filter fun (_, _, vs, segs, meth, fn) => !(methTokens segs == meth && toFn vs segs == fn)

def render (ts : List Nat) : String :=
  " ".intercalate (ts.map fun t => tokens.getD t "?")

end GqlgenVerif.Flavour
