import GqlgenVerif.Model.Order
/-!
# ExtraFields — the order of a generated model's extra struct fields (C18)

`plugin/modelgen/models.go getExtraFields`: the named extra fields of a model (`models.<Type>.extraFields` and
`@goExtraField(name: …)`, a Go MAP keyed by field name) are appended in map-iteration order, the embedded ones
(`embedExtraFields` / `@goExtraField` without name, a slice) after them, and the whole slice is sorted by

```go
func(i, j int) bool {
    if x[i].Name == "" && x[j].Name == "" { return x[i].Type.String() < x[j].Type.String() }
    if x[i].Name == "" { return false }
    if x[j].Name == "" { return true }
    return x[i].Name < x[j].Name
}
```

i.e. by the key `(embedded?, name | type string)`: named fields alphabetically, embedded fields last by type.
`xkey` encodes that pair as one byte string (`0 :: name` / `1 :: type`), so the comparator is `xkey a < xkey b`
and the sort is `Order.sortByKey xkey`. Core Lean only.
-/
namespace GqlgenVerif.ExtraFields
open GqlgenVerif.Order

structure XField where
  /-- Go field name; `[]` = embedded -/
  name : List Nat
  /-- `Type.String()` -/
  typ : List Nat
deriving DecidableEq, Repr

def XField.embedded (f : XField) : Bool := f.name.isEmpty

def xkey (f : XField) : List Nat := if f.name.isEmpty then 1 :: f.typ else 0 :: f.name

/-- the comparator literal of `getExtraFields`, branch by branch -/
def less (a b : XField) : Bool :=
  if a.name.isEmpty && b.name.isEmpty then decide (a.typ < b.typ)
  else if a.name.isEmpty then false
  else if b.name.isEmpty then true
  else decide (a.name < b.name)

/-- `getExtraFields`: named fields as the map delivered them, then the embedded ones, then the sort -/
def extraFields (named embedded : List XField) : List XField := sortByKey xkey (named ++ embedded)

/-- the same WITHOUT the final sort (what an early return before `sort.Slice` leaves) -/
def extraFieldsUnsorted (named embedded : List XField) : List XField := named ++ embedded

end GqlgenVerif.ExtraFields
