/-!
# The error values failing requests are answered with (C07)

Mirrors `graphql/recovery.go` (`DefaultRecover`), `graphql/error.go` (`ErrorOnPath`, `DefaultErrorPresenter`),
`graphql/context_operation.go` (`(*OperationContext).Recover`), `graphql/context_response.go` (`AddError`,
`GetErrors`) and the recover of `handler.Server.ServeHTTP` (`Executor.PresentRecoveredError`).

A `*gqlerror.Error` is an object on the heap. The library ANNOTATES the object it is handed:
`ErrorOnPath(ctx, err)` stores the response path of the failing field into `err.Path` - guarded by
`if gqlErr.Path == nil` - and `DefaultErrorPresenter` hands the same object on (presenters built on it edit its
extensions in place); `AddError` keeps the POINTER in the response context of the request, and the response is
built from the objects as they are when `GetErrors` copies them. So the heap is what requests may share: an object
that outlives a request (a package-level variable) carries the first annotation into every later response - of any
request, on any server of the process, on any transport.

* `Heap` = the error objects of the PROCESS (not of a server: `init` is what the package initialisers left).
* `Source` = where a function's returned error comes from; regenerated for `DefaultRecover` and
  `DefaultErrorPresenter` (`Gen/ErrValues.lean`): `fresh` (allocated by the call), `shared` (a package-level
  variable), `arg`, `nilv`, `other`.
* `Guard` = under which condition `ErrorOnPath` stores the path (regenerated).
* `Ev`: request `r` recovers a panic of a resolver under the field context with response path `p`
  (`ec.Error(ctx, ec.Recover(ctx, v))`); a panic escapes to the server-level recover (answered at once, no path
  context exists there); the response of `r` is built. Requests are interleaved arbitrarily: a list of events of any
  requests IS a history (sequential) or a schedule (in flight beside each other).

A nil path is `[]` (`GetPath` of a context without a field is nil; a nil path is omitted from the response).
-/
namespace GqlgenVerif.ErrHeap

abbrev Path := List String

structure ErrObj where
  msg : String
  path : Path
  deriving DecidableEq, Repr

abbrev Heap := List ErrObj

inductive Source where
  /-- a new object per call: `gqlerror.Errorf(…)`, `&gqlerror.Error{…}`, `fmt.Errorf(…)` evaluated by the `return` -/
  | fresh (ctor : String)
  /-- a package-level variable: ONE object for the life of the process -/
  | shared (var : String)
  /-- the error the function was given (or the `*gqlerror.Error` `errors.As` found in it) -/
  | arg
  | nilv
  | other (what : String)
  deriving DecidableEq, Repr

def Source.isFresh : Source → Bool
  | .fresh _ => true
  | _ => false

/-- a presenter may hand on what it was given, or make something new -/
def Source.isOwn : Source → Bool
  | .fresh _ | .arg | .nilv => true
  | _ => false

inductive Guard where
  /-- `if e.Path == nil { e.Path = GetPath(ctx) }` -/
  | ifNil
  | always
  | other
  deriving DecidableEq, Repr

inductive Ev where
  | fieldPanic (r : Nat) (p : Path)
  | serverPanic (r : Nat)
  | respond (r : Nat)
  deriving DecidableEq, Repr

structure St where
  heap : Heap
  /-- `responseContext.errors` of every request in flight: (request, address), in the order of `AddError` -/
  held : List (Nat × Nat)
  deriving Repr

def msg0 : String := "internal system error"

/-- the process after package initialisation: a package-level error value exists before the first request -/
def init : Source → St
  | .fresh _ => ⟨[], []⟩
  | _ => ⟨[⟨msg0, []⟩], []⟩

/-- the recover func: the address of the error it returns -/
def recoverOnce : Source → St → Nat × St
  | .fresh _, st => (st.heap.length, { st with heap := st.heap ++ [⟨msg0, []⟩] })
  | _, st => (0, st)

/-- `ErrorOnPath(ctx, err)` for the object at `a`, `GetPath(ctx) = p` -/
def errorOnPath (g : Guard) (a : Nat) (p : Path) (h : Heap) : Heap :=
  match h[a]? with
  | none => h
  | some o =>
    match g with
    | .ifNil => if o.path = [] then h.set a { o with path := p } else h
    | .always => h.set a { o with path := p }
    | .other => h

def pathAt (h : Heap) (a : Nat) : Path := ((h[a]?).map (·.path)).getD []

/-- the paths on the errors of request `r`, as the objects are now (`GetErrors` copies them now) -/
def pathsOf (st : St) (r : Nat) : List Path :=
  (st.held.filter fun x => x.1 == r).map fun x => pathAt st.heap x.2

/-- one event; the output is (request, paths of the errors of the response written by this event) -/
def step (src : Source) (g : Guard) (st : St) : Ev → St × List (Nat × List Path)
  | .fieldPanic r p =>
    let ra := recoverOnce src st
    (⟨errorOnPath g ra.1 p ra.2.heap, ra.2.held ++ [(r, ra.1)]⟩, [])
  | .serverPanic r =>
    let ra := recoverOnce src st
    (ra.2, [(r, [pathAt ra.2.heap ra.1])])
  | .respond r => (st, [(r, pathsOf st r)])

def runFrom (src : Source) (g : Guard) : St → List Ev → List (Nat × List Path)
  | _, [] => []
  | st, e :: es => (step src g st e).2 ++ runFrom src g (step src g st e).1 es

/-- every response written during a history / schedule, in order -/
def run (src : Source) (g : Guard) (evs : List Ev) : List (Nat × List Path) := runFrom src g (init src) evs

/-! ### Spec: what the request's own failures give -/

/-- the response paths at which resolvers of request `r` failed, in order -/
def own (r : Nat) : List Ev → List Path
  | [] => []
  | .fieldPanic r' p :: es => if r' == r then p :: own r es else own r es
  | _ :: es => own r es

/-- a response lists the request's OWN failures, each at its own path; the server-level recover has no path -/
def specFrom (before : List Ev) : List Ev → List (Nat × List Path)
  | [] => []
  | .respond r :: es => (r, own r before) :: specFrom (before ++ [.respond r]) es
  | .serverPanic r :: es => (r, [[]]) :: specFrom (before ++ [.serverPanic r]) es
  | .fieldPanic r p :: es => specFrom (before ++ [.fieldPanic r p]) es

def spec (evs : List Ev) : List (Nat × List Path) := specFrom [] evs

end GqlgenVerif.ErrHeap
