import GqlgenVerif.Model.IntroGate
/-!
# How a server is configured around the introspection gate

`OperationContext.DisableIntrospection` is what the generated gate reads (`Model/IntroGate.lean`). Its value
for one request is decided by the handler extensions the server registered, in the order of `srv.Use(…)`:

```
graphql/executor/extensions.go
  func (e *Executor) Use(ext)            e.extensions = append(e.extensions, ext); e.ext = processExtensions(e.extensions)
  func processExtensions(exts)           loop 1 (BACKWARDS): every Operation/Response/RootField/Field-Interceptor wraps
                                           `previous` (so the first registered is the outermost and runs first)
                                         loop 2 (forwards): OperationParameterMutator / OperationContextMutator are
                                           APPENDED to e.operationParameterMutators / e.operationContextMutators
graphql/executor/executor.go
  func CreateOperationContext            opCtx := &OperationContext{DisableIntrospection: true, …}
                                         for _, p := range e.ext.operationParameterMutators { if err … return }
                                         parse, select operation, coerce variables
                                         for _, p := range e.ext.operationContextMutators   { if err … return }
  func DispatchOperation                 e.ext.operationMiddleware(ctx, func(ctx) { … e.es.Exec(ctx) … })
graphql/handler/extension/introspection.go
  func (Introspection) MutateOperationContext   opCtx.DisableIntrospection = false
```

`Facts` is what a go/ast extractor (`go/extract/extorder.go` → `Gen/ExtOrder.lean`) reads off these functions on
every run: per hook slot of `processExtensions` whether it is appended or wrapped and in which direction its loop
visits the extensions, the literal `DisableIntrospection` starts with, the loops of `CreateOperationContext` over
the collected slices in source order, and what `extension.Introspection` assigns. `Impl.effective` interprets
those facts as the code would run; `Spec.effective` is the contract written directly: parameter mutators, then
context mutators, then operation middleware, each kind **in registration order**, starting from "disabled".

Extensions are modelled by what they can do to the gate. A hook is guarded by a per-request condition (the
role the request carries in `extensions.role`, possibly rewritten by an earlier parameter mutator, and the
requested operation name) and then keeps / sets / flips the flag or fails the request.
-/
namespace GqlgenVerif.IntroGate.Cfg

inductive Dir | forward | backward
deriving DecidableEq, Repr

inductive How | append | wrap
deriving DecidableEq, Repr

/-- one `if p, ok := p.(graphql.<iface>); ok { … e.<field> … }` of `processExtensions` -/
structure Slot where
  iface : String
  field : String
  how : How
  dir : Dir
deriving DecidableEq, Repr

structure Facts where
  /-- `processExtensions`, in source order -/
  slots : List Slot
  /-- `DisableIntrospection: <literal>` of the `OperationContext` literal in `CreateOperationContext`
      (the Go zero value `false` when the key is absent) -/
  initialDisable : Bool
  /-- the `for … range e.ext.<field>` loops of `CreateOperationContext`, in source order -/
  createLoops : List (String × Dir)
  /-- the constants `extension.Introspection.MutateOperationContext` assigns to `DisableIntrospection`,
      in source order -/
  introspectionExt : List Bool
deriving Repr

/-! ### what an extension does -/

inductive Cond
  | always
  | roleIs (r : String)
  | roleIsNot (r : String)
  | opIs (n : String)
  | opIsNot (n : String)
deriving DecidableEq, Repr

def Cond.holds (c : Cond) (role op : String) : Bool :=
  match c with
  | .always => true
  | .roleIs r => role == r
  | .roleIsNot r => role != r
  | .opIs n => op == n
  | .opIsNot n => op != n

/-- on the flag (context mutators, operation middleware) -/
inductive Act
  | keep
  | set (b : Bool)
  | flip
  | fail (msg : String)
deriving DecidableEq, Repr

/-- on the request parameters (parameter mutators): the role later hooks decide on -/
inductive PAct
  | keep
  | setRole (r : String)
  | fail (msg : String)
deriving DecidableEq, Repr

inductive CtxHook
  /-- the real `extension.Introspection{}` -/
  | introspection
  | user (c : Cond) (a : Act)
deriving DecidableEq, Repr

/-- one registered `graphql.HandlerExtension`: the hooks its type implements -/
structure Ext where
  param : Option (Cond × PAct) := none
  ctx : Option CtxHook := none
  around : Option (Cond × Act) := none
deriving DecidableEq, Repr

structure Req where
  role : String
  op : String
deriving DecidableEq, Repr

/-- the part of the request state the hooks read and write -/
structure St where
  role : String
  disable : Bool
deriving DecidableEq, Repr

inductive Outcome
  /-- a mutator returned an error: `CreateOperationContext` fails with exactly that error, nothing runs -/
  | rejected (msg : String)
  /-- an operation middleware answered itself without calling `next` -/
  | denied (msg : String)
  /-- the operation is executed with this `DisableIntrospection` -/
  | run (disable : Bool)
  /-- the facts describe code this model has no reading for -/
  | unmodelled
deriving DecidableEq, Repr

/-- `for _, p := range hooks { if err := p.Mutate…; err != nil { return err } }` -/
def runM {α : Type} (f : St → α → Except String St) : List α → St → Except String St
  | [], st => .ok st
  | x :: xs, st =>
    match f st x with
    | .error m => .error m
    | .ok st' => runM f xs st'

def pStep (op : String) (st : St) (h : Cond × PAct) : Except String St :=
  if h.1.holds st.role op then
    match h.2 with
    | .keep => .ok st
    | .setRole r => .ok { st with role := r }
    | .fail m => .error m
  else .ok st

def actStep (op : String) (st : St) (c : Cond) (a : Act) : Except String St :=
  if c.holds st.role op then
    match a with
    | .keep => .ok st
    | .set b => .ok { st with disable := b }
    | .flip => .ok { st with disable := !st.disable }
    | .fail m => .error m
  else .ok st

/-- a context mutator; `intro` is the list of constants `extension.Introspection` assigns -/
def cStep (intro : List Bool) (op : String) (st : St) : CtxHook → Except String St
  | .introspection => .ok (intro.foldl (fun s b => { s with disable := b }) st)
  | .user c a => actStep op st c a

abbrev Handler := St → Outcome

/-- `InterceptOperation(ctx, next)`: the hook acts on the operation context, then calls `next`; a failing
    one returns its own error response -/
def mwOf (op : String) (h : Cond × Act) (next : Handler) : Handler := fun st =>
  match actStep op st h.1 h.2 with
  | .error m => .denied m
  | .ok st' => next st'

/-! ### the contract -/

namespace Spec

def around (op : String) : List (Cond × Act) → Handler → Handler
  | [], next => next
  | h :: hs, next => mwOf op h (around op hs next)

/-- **The effective `DisableIntrospection` of a request**: start disabled; the parameter mutators in
    registration order; the context mutators in registration order (`extension.Introspection` clears the
    flag at its position); the operation middleware in registration order. -/
def effective (exts : List Ext) (req : Req) : Outcome :=
  match runM (pStep req.op) (exts.filterMap (·.param)) ⟨req.role, true⟩ with
  | .error m => .rejected m
  | .ok st =>
    match runM (cStep [false] req.op) (exts.filterMap (·.ctx)) st with
    | .error m => .rejected m
    | .ok st => around req.op (exts.filterMap (·.around)) (fun st => .run st.disable) st

end Spec

/-! ### the code, read through the regenerated facts -/

namespace Impl

/-- the order a loop of `processExtensions` visits the registered extensions in -/
def visit {α : Type} : Dir → List α → List α
  | .forward, xs => xs
  | .backward, xs => xs.reverse

/-- `e.<field> = append(e.<field>, p)` for every visited extension -/
def collect {α : Type} (d : Dir) (xs : List α) : List α :=
  (visit d xs).foldl (fun acc x => acc ++ [x]) []

/-- `previous := e.<field>; e.<field> = func(ctx, next) { return p.Intercept…(ctx, func(ctx) { return previous(ctx, next) }) }`
    for every visited extension, starting from `func(ctx, next) { return next(ctx) }` -/
def wrapAll (op : String) (d : Dir) (xs : List (Cond × Act)) : Handler → Handler :=
  (visit d xs).foldl (fun previous h => fun next => mwOf op h (previous next)) (fun next => next)

def dirOf (slots : List Slot) (field : String) (how : How) : Option Dir :=
  (slots.find? fun s => s.field == field && s.how == how).map (·.dir)

/-- the loops of `CreateOperationContext` over the collected slices -/
def create (f : Facts) (exts : List Ext) (op : String) : List (String × Dir) → St → Option (Except String St)
  | [], st => some (.ok st)
  | (field, d) :: rest, st =>
    let r : Option (Except String St) :=
      if field == "operationParameterMutators" then
        (dirOf f.slots field .append).map fun cd =>
          runM (pStep op) (visit d (collect cd (exts.filterMap (·.param)))) st
      else if field == "operationContextMutators" then
        (dirOf f.slots field .append).map fun cd =>
          runM (cStep f.introspectionExt op) (visit d (collect cd (exts.filterMap (·.ctx)))) st
      else none
    match r with
    | none => none
    | some (.error m) => some (.error m)
    | some (.ok st') => create f exts op rest st'

def effective (f : Facts) (exts : List Ext) (req : Req) : Outcome :=
  match create f exts req.op f.createLoops ⟨req.role, f.initialDisable⟩,
      dirOf f.slots "operationMiddleware" .wrap with
  | some (.error m), some _ => .rejected m
  | some (.ok st), some d => wrapAll req.op d (exts.filterMap (·.around)) (fun st => .run st.disable) st
  | _, _ => .unmodelled

end Impl

/-- the facts under which the code keeps the contract (decidable; the theorem of `Props/C16.lean` shows it
    suffices, the regenerated facts are checked against it by evaluation) -/
def Facts.ok (f : Facts) : Bool :=
  Impl.dirOf f.slots "operationParameterMutators" .append == some .forward &&
  Impl.dirOf f.slots "operationContextMutators" .append == some .forward &&
  Impl.dirOf f.slots "operationMiddleware" .wrap == some .backward &&
  f.initialDisable &&
  f.createLoops == [("operationParameterMutators", .forward), ("operationContextMutators", .forward)] &&
  f.introspectionExt.getLast? == some false

/-! ### the whole request: configuration, then the gated execution -/

/-- what the server answers: `none` when the operation is never executed (rejected / denied), else the
    execution model's result — with the gate closed iff the effective flag is set -/
def respond (out : Outcome) (o : Oracle) (rootTy : String) (fields : List (FInfo × Shape)) :
    Option (Out × GqlgenVerif.St) :=
  match out with
  | .run true => some (GqlgenVerif.Impl.execRoot (gateOracle fields o) rootTy fields)
  | .run false => some (GqlgenVerif.Impl.execRoot o rootTy fields)
  | _ => none

end GqlgenVerif.IntroGate.Cfg
