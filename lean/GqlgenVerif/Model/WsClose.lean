import GqlgenVerif.Model.Utf8
/-!
# Close frames of the websocket transport (C10: "... or a protocol close")

A websocket close frame is a control frame: its payload is at most 125 bytes, two of which are the
status code (RFC 6455 section 5.5), and the reason text has to be valid UTF-8 (section 5.5.1).
gorilla/websocket refuses to write a larger control frame (`errInvalidControlFrame`);
`wsConnection.close` (graphql/handler/transport/websocket.go) ignores that error and closes the TCP
connection, so the client sees a dropped socket instead of the protocol close. A gorilla (or browser)
client that receives a close frame whose reason is not UTF-8 fails the connection.

Mirrors:
* `Trunc`, `applyTrunc`, `backoff` — the statements between `reason := fmt.Sprintf(..)` and
  `c.close(code, reason)` in `(*wsConnection).run`:
  `if len(reason) > G { reason = reason[:C] }` (`bytes G C`) or
  `if len(reason) > G { n := C; for n > 0 && !utf8.RuneStart(reason[n]) { n-- }; reason = reason[:n] }`
  (`runes G C`). A slice bound / index past the end is Go's run-time panic (`none`).
* `wire` — `wsConnection.close` + gorilla's `WriteMessage(CloseMessage, FormatCloseMessage(code, reason))`
  (library code; the 125-byte rule is validated on every run by the harness rows `cf`).
The close sites themselves (`CloseSite`) are regenerated from the source: `Gen/WsCloseReasons.lean`.
-/
namespace GqlgenVerif.WsClose
open GqlgenVerif

/-- maximal payload of a control frame (gorilla `maxControlFramePayloadSize`, RFC 6455 5.5) -/
def controlMax : Nat := 125
/-- bytes of the payload taken by the status code -/
def codeBytes : Nat := 2

inductive Trunc where
  | none
  | bytes (guard cut : Nat)
  | runes (guard cut : Nat)
deriving Repr, DecidableEq

/-- where the echoed string comes from: bytes the client sent on this connection, or the server's
own configuration (the negotiated subprotocol is one of `Upgrader.Subprotocols`) -/
inductive Src where
  | client
  | config
deriving Repr, DecidableEq

inductive Reason where
  | lit (text : Bytes)
  | echo (pre suf : Bytes) (src : Src) (t : Trunc)
deriving Repr, DecidableEq

structure CloseSite where
  fn : String
  code : Nat
  reason : Reason
deriving Repr, DecidableEq

/-- Go's `for n > 0 && !utf8.RuneStart(r[n]) { n-- }` (`RuneStart b = b&0xC0 != 0x80`; an index
past the end does not occur where this is used and reads as a non-continuation byte) -/
def backoff (r : Bytes) : Nat → Nat
  | 0 => 0
  | n + 1 => if isCont (r.getD (n + 1) 0) then backoff r n else n + 1

def applyTrunc : Trunc → Bytes → Option Bytes
  | .none, r => some r
  | .bytes g c, r => if r.length > g then (if c ≤ r.length then some (r.take c) else none) else some r
  | .runes g c, r =>
    if r.length > g then
      (if c = 0 then some [] else if c < r.length then some (r.take (backoff r c)) else none)
    else some r

/-- the full text before any cut -/
def Reason.full : Reason → Bytes → Bytes
  | .lit t, _ => t
  | .echo pre suf _ _, s => pre ++ s ++ suf

def Reason.trunc : Reason → Trunc
  | .lit _ => .none
  | .echo _ _ _ t => t

def Reason.src : Reason → Src
  | .lit _ => .client
  | .echo _ _ s _ => s

/-- the reason handed to `c.close` for the echoed string `s` -/
def Reason.text (r : Reason) (s : Bytes) : Option Bytes := applyTrunc r.trunc (r.full s)

inductive Wire where
  /-- the client receives this close frame -/
  | close (code : Nat) (reason : Bytes)
  /-- the frame was refused; the connection is dropped without a close frame (client: 1006) -/
  | dropped
  /-- run-time panic of the transport's own code -/
  | panic
deriving Repr, DecidableEq

def frame (code : Nat) (reason : Bytes) : Wire :=
  if codeBytes + reason.length ≤ controlMax then .close code reason else .dropped

def wire (site : CloseSite) (s : Bytes) : Wire :=
  match site.reason.text s with
  | none => .panic
  | some r => frame site.code r

/-- Spec: what the property asks of a close — a close frame with the site's code whose reason is
valid UTF-8 and a prefix of the full text (the whole text when that fits). -/
def specOk (site : CloseSite) (s : Bytes) (w : Wire) : Bool :=
  match w with
  | .close c r =>
    c == site.code && validUtf8 r && r.isPrefixOf (site.reason.full s)
      && (!(decide ((site.reason.full s).length + codeBytes ≤ controlMax)) || r == site.reason.full s)
  | _ => false

/-! ### Static checks of a site (decided on the regenerated list; the theorems of `Props/C10Close`
show that they imply the semantic statements for every client string) -/

def allAscii (l : Bytes) : Bool := l.all (fun b => decide (b < 0x80))

/-- the cut never leaves more than fits beside the status code and never slices past the end -/
def Trunc.capOk : Trunc → Bool
  | .none => false
  | .bytes g c => decide (c ≤ g) && decide (g + codeBytes ≤ controlMax)
  | .runes g c => decide (c ≤ g) && decide (g + codeBytes ≤ controlMax)

def CloseSite.fitsOk (site : CloseSite) : Bool :=
  match site.reason with
  | .lit t => decide (t.length + codeBytes ≤ controlMax)
  | .echo _ _ .client t => t.capOk
  | .echo _ _ .config _ => true

/-- fits, cuts on a rune boundary, cuts only what does not fit, literal parts are ASCII -/
def CloseSite.wellFormedOk (site : CloseSite) : Bool :=
  match site.reason with
  | .lit t => allAscii t && decide (t.length + codeBytes ≤ controlMax)
  | .echo pre suf .client (.runes g c) => allAscii pre && allAscii suf && decide (c = g) && decide (g + codeBytes = controlMax)
  | .echo _ _ .client _ => false
  | .echo _ _ .config _ => true

/-- a configuration string is echoed uncut -/
def CloseSite.configOk (site : CloseSite) : Bool :=
  match site.reason with
  | .echo _ _ .config .none => true
  | .echo _ _ .config _ => false
  | _ => true

/-- longest configured subprotocol name for which the "unsupported negotiated subprotocol" close fits -/
def CloseSite.configRoom (site : CloseSite) : Nat :=
  match site.reason with
  | .echo pre suf .config .none => controlMax - codeBytes - pre.length - suf.length
  | _ => 0

/-- the 4409 "Subscriber for <id> already exists" site as a function of its cut (for the witnesses
of earlier versions of the code) -/
def subscriberSite (t : Trunc) : CloseSite :=
  ⟨"run", 4409, .echo [83, 117, 98, 115, 99, 114, 105, 98, 101, 114, 32, 102, 111, 114, 32]
    [32, 97, 108, 114, 101, 97, 100, 121, 32, 101, 120, 105, 115, 116, 115] .client t⟩

end GqlgenVerif.WsClose
