import GqlgenVerif.Model.Utf8
/-!
# Streamed HTTP responses: `transport.SSE` and `transport.MultipartMixed` (C12)

Mirrors `/repo/graphql/handler/transport/sse.go` and `http_multipart_mixed.go` as they are (after
the repair that takes `sseConnection.mu` around every write + flush).

* **Formats.** `SseFmt` / `MpFmt` hold the literal byte strings the code writes. The values the code
  has *now* are regenerated into `Gen/StreamFmt.lean` on every run (`Model/StreamGen.lean` packs them
  into these structures); `canonSse` / `canonMp` are the values the framing lemmas are proved for,
  and `Props/C12.lean` proves the regenerated ones equal to them.
* **SSE** (`SSE.Do`, `sseConnection.keepAlive/write/close`, `writeJsonWithSSE`): two goroutines
  take `sseConnection.mu`; each critical section is one whole `Write` (a `Chunk`) followed by a flush.
  `SseSt.step` is one critical section: `.main` = the next step of `Do` (next event, or
  `event: complete` which also sets `closed`), `.tick` = the keep-alive goroutine (writes the ping
  unless `closed`). A schedule is any list of such steps; `sseFinish` lets `Do` run to its end.
* **multipart/mixed** (`multipartResponseAggregator.Add/flush/Done`): `Agg` is the aggregator state
  under `a.mu`; `flush` appends one `Group` (what one flush writes); `Group.bytes` is the byte
  sequence of the writes of `flush` in source order. `.main` = the next `Add` of `Do`'s loop, or
  `Done`; `.tick` = the ticker goroutine's `flush`.
* **Independent parsers** (the Spec side): `parseSSE` (LF-terminated lines, blocks ended by an empty
  line, comment lines, `event`/`data` fields; anything else is `junk`) and `parseMP` (CRLF lines,
  RFC 2046 delimiter lines `--B` / `--B--`, strict: no preamble, no epilogue).
-/
namespace GqlgenVerif.Stream

def LF : Nat := 0x0A
def CR : Nat := 0x0D

/-! ## formats -/

structure SseFmt where
  header : Bytes      -- `fmt.Fprint(w, ":\n\n")`
  ping : Bytes        -- `fmt.Fprintf(w, ": ping\n\n")`
  nextPre : Bytes     -- `"event: next\ndata: %s\n\n"` before the verb
  nextSuf : Bytes     --                               after the verb
  complete : Bytes    -- `fmt.Fprint(w, "event: complete\n\n")`
deriving DecidableEq, Repr

structure MpFmt where
  delimPre : Bytes    -- `"--%s\r\n"`
  delimSuf : Bytes
  closePre : Bytes    -- `"--%s--\r\n"`
  closeSuf : Bytes
  partHeader : Bytes  -- `"Content-Type: application/json\r\n\r\n"`
  sep : Bytes         -- `"\r\n"`
  incKey : Bytes      -- json tags of the wrapper struct of `writeIncrementalJson`
  hasNextKey : Bytes
deriving DecidableEq, Repr

def evName : Bytes := [0x65, 0x76, 0x65, 0x6E, 0x74]                          -- event
def dataName : Bytes := [0x64, 0x61, 0x74, 0x61]                              -- data
def nextName : Bytes := [0x6E, 0x65, 0x78, 0x74]                              -- next
def completeName : Bytes := [0x63, 0x6F, 0x6D, 0x70, 0x6C, 0x65, 0x74, 0x65]  -- complete
def pingText : Bytes := [0x20, 0x70, 0x69, 0x6E, 0x67]                        -- " ping"
/-- `Content-Type: application/json` -/
def ctLine : Bytes := [0x43, 0x6F, 0x6E, 0x74, 0x65, 0x6E, 0x74, 0x2D, 0x54, 0x79, 0x70, 0x65, 0x3A, 0x20,
  0x61, 0x70, 0x70, 0x6C, 0x69, 0x63, 0x61, 0x74, 0x69, 0x6F, 0x6E, 0x2F, 0x6A, 0x73, 0x6F, 0x6E]
def dashes : Bytes := [0x2D, 0x2D]
def crlf : Bytes := [CR, LF]

def canonSse : SseFmt where
  header := [0x3A, LF, LF]
  ping := 0x3A :: (pingText ++ [LF, LF])
  nextPre := evName ++ [0x3A, 0x20] ++ nextName ++ [LF] ++ dataName ++ [0x3A, 0x20]
  nextSuf := [LF, LF]
  complete := evName ++ [0x3A, 0x20] ++ completeName ++ [LF, LF]

def canonMp : MpFmt where
  delimPre := dashes
  delimSuf := crlf
  closePre := dashes
  closeSuf := dashes ++ crlf
  partHeader := ctLine ++ crlf ++ crlf
  sep := crlf
  incKey := [0x69, 0x6E, 0x63, 0x72, 0x65, 0x6D, 0x65, 0x6E, 0x74, 0x61, 0x6C]
  hasNextKey := [0x68, 0x61, 0x73, 0x4E, 0x65, 0x78, 0x74]

/-- which goroutine enters its critical section next -/
inductive Step where
  | main | tick
deriving DecidableEq, Repr

/-! ## SSE: implementation model -/

/-- one whole `Write` on the `http.ResponseWriter` -/
inductive Chunk where
  | header | ping | next (p : Bytes) | complete
deriving DecidableEq, Repr

def Chunk.bytes (f : SseFmt) : Chunk → Bytes
  | .header => f.header
  | .ping => f.ping
  | .next p => f.nextPre ++ p ++ f.nextSuf
  | .complete => f.complete

structure SseSt where
  todo : List Bytes     -- json.Marshal of the responses the operation has yet to produce
  ka : Bool             -- `KeepAlivePingInterval > 0`: the keep-alive goroutine exists
  closed : Bool         -- `sseConnection.closed`
  out : List Chunk      -- the Writes so far, oldest first
deriving Repr

/-- `Do` up to and including `fmt.Fprint(w, ":\n\n"); c.flush()` — before `go c.keepAlive(w)` -/
def sseInit (ka : Bool) (ps : List Bytes) : SseSt := { todo := ps, ka := ka, closed := false, out := [.header] }

/-- one critical section of `sseConnection.write` -/
def SseSt.step (s : SseSt) : Step → SseSt
  | .main =>
    match s.todo with
    | p :: ps => { s with todo := ps, out := s.out ++ [.next p] }
    | [] => if s.closed then s else { s with closed := true, out := s.out ++ [.complete] }
  | .tick => if s.ka && !s.closed then { s with out := s.out ++ [.ping] } else s

def sseRun (s : SseSt) (sched : List Step) : SseSt := sched.foldl SseSt.step s

/-- `Do` runs to its end whatever the schedule did -/
def sseFinish (s : SseSt) : SseSt := sseRun s (List.replicate (s.todo.length + 1) .main)

def sseChunks (ka : Bool) (ps : List Bytes) (sched : List Step) : List Chunk :=
  (sseFinish (sseRun (sseInit ka ps) sched)).out

def chunksBytes (f : SseFmt) (cs : List Chunk) : Bytes := (cs.map (Chunk.bytes f)).flatten

def sseStream (f : SseFmt) (ka : Bool) (ps : List Bytes) (sched : List Step) : Bytes :=
  chunksBytes f (sseChunks ka ps sched)

/-! ## SSE: independent parser -/

inductive Item where
  | comment (text : Bytes)
  | event (typ : Option Bytes) (data : Option Bytes)
  | junk (line : Bytes)
deriving DecidableEq, Repr

/-- prepend a byte to the first (still open) line -/
def pushByte (b : Nat) (r : List Bytes × Bytes) : List Bytes × Bytes :=
  match r.1 with
  | [] => ([], b :: r.2)
  | l :: ls => ((b :: l) :: ls, r.2)

/-- LF-terminated lines (without the LF) and the unterminated tail -/
def splitLines : Bytes → List Bytes × Bytes
  | [] => ([], [])
  | b :: bs =>
    if b = LF then ([] :: (splitLines bs).1, (splitLines bs).2) else pushByte b (splitLines bs)

/-- field name (up to the first colon) and value (`none`: no colon) -/
def splitColon : Bytes → Bytes × Option Bytes
  | [] => ([], none)
  | b :: bs => if b = 0x3A then ([], some bs) else ((b :: (splitColon bs).1), (splitColon bs).2)

def stripSpace : Bytes → Bytes
  | [] => []
  | b :: v => if b = 0x20 then v else b :: v

/-- the event under construction: (event field, data field) -/
abbrev Cur := Option (Option Bytes × Option Bytes)

def fieldStep (cur : Cur) (l : Bytes) : Cur × List Item :=
  let nv := splitColon l
  let val := stripSpace (nv.2.getD [])
  if nv.1 = evName then
    match cur with
    | none => (some (some val, none), [])
    | some (none, d) => (some (some val, d), [])
    | some (some _, _) => (cur, [.junk l])
  else if nv.1 = dataName then
    match cur with
    | none => (some (none, some val), [])
    | some (t, none) => (some (t, some val), [])
    | some (t, some d) => (some (t, some (d ++ LF :: val)), [])
  else (cur, [.junk l])

def lineStep (cur : Cur) (l : Bytes) : Cur × List Item :=
  if CR ∈ l then (cur, [.junk l]) else
  match l with
  | [] =>
    match cur with
    | some (t, d) => (none, [.event t d])
    | none => (none, [])
  | b :: t =>
    if b = 0x3A then
      match cur with
      | none => (none, [.comment t])
      | some _ => (cur, [.junk l])
    else fieldStep cur l

def parseLines (cur : Cur) : List Bytes → List Item × Cur
  | [] => ([], cur)
  | l :: ls =>
    let r := lineStep cur l
    let rest := parseLines r.1 ls
    (r.2 ++ rest.1, rest.2)

/-- items, and whether an incomplete tail (unterminated line / event without its blank line) remains -/
def parseSSE (raw : Bytes) : List Item × Bool :=
  let sl := splitLines raw
  let r := parseLines none sl.1
  (r.1, !sl.2.isEmpty || r.2.isSome)

/-! ## SSE: the property, written directly -/

def hdrItem : Item := .comment []
def pingItem : Item := .comment pingText
def nextItem (p : Bytes) : Item := .event (some nextName) (some p)
def completeItem : Item := .event (some completeName) none

def Chunk.item : Chunk → Item
  | .header => hdrItem
  | .ping => pingItem
  | .next p => nextItem p
  | .complete => completeItem

def sseExpected (ps : List Bytes) : List Item := hdrItem :: (ps.map nextItem ++ [completeItem])

def notPing (i : Item) : Bool := i != pingItem

/-- a complete stream: the opening comment first, `complete` last, and - pings aside - exactly one
    `next` per payload, in order, with the payload as its data -/
def sseSpec (ps : List Bytes) (r : List Item × Bool) : Bool :=
  !r.2 && r.1.head? == some hdrItem && r.1.getLast? == some completeItem &&
    r.1.filter notPing == sseExpected ps

/-- what a client that disconnected has seen: a prefix of a good stream -/
def sseSpecPrefix (ps : List Bytes) (r : List Item × Bool) : Bool :=
  (r.1.filter notPing).isPrefixOf (sseExpected ps) &&
    (r.1.head? == some hdrItem || r.1.isEmpty) &&
    (r.1.getLast? == some completeItem || !(r.1.contains completeItem))

/-- a payload that is one line of text (what `json.Marshal` returns) -/
def OneLine (p : Bytes) : Prop := LF ∉ p ∧ CR ∉ p

/-! ## multipart/mixed: implementation model -/

structure Resp where
  body : Bytes        -- json.Marshal(response)
  hasNext : Bool      -- `response.HasNext != nil && *response.HasNext`
deriving DecidableEq, Repr

/-- what one call of `flush` that got past the early return writes -/
structure Group where
  initial : Option Resp
  batch : List Resp
  hasNext : Bool
deriving DecidableEq, Repr

structure Agg where
  initial : Option Resp       -- `a.initialResponse`
  defers : List Resp          -- `a.deferResponses`
  out : List Group
deriving Repr

def Agg.add (a : Agg) (r : Resp) (isInitial : Bool) : Agg :=
  if isInitial then { a with initial := some r } else { a with defers := a.defers ++ [r] }

def Agg.flush (a : Agg) : Agg :=
  if a.initial.isNone && a.defers.isEmpty then a else
  let h0 := match a.initial with
    | some r => r.hasNext
    | none => false
  let h := match a.defers.getLast? with
    | some r => r.hasNext
    | none => h0
  { initial := none, defers := [], out := a.out ++ [⟨a.initial, a.defers, h⟩] }

def delim (f : MpFmt) (boundary : Bytes) (final : Bool) : Bytes :=
  if final then f.closePre ++ boundary ++ f.closeSuf else f.delimPre ++ boundary ++ f.delimSuf

def joinComma : List Bytes → Bytes
  | [] => []
  | [x] => x
  | x :: y :: r => x ++ 0x2C :: joinComma (y :: r)

def boolText (b : Bool) : Bytes := if b then [0x74, 0x72, 0x75, 0x65] else [0x66, 0x61, 0x6C, 0x73, 0x65]

/-- `"k"` for a key without characters that need escaping -/
def quoteKey (k : Bytes) : Bytes := 0x22 :: (k ++ [0x22])

/-- `writeIncrementalJson`: `{"incremental":[b₁,…,bₖ],"hasNext":h}` -/
def incJson (f : MpFmt) (batch : List Resp) (h : Bool) : Bytes :=
  0x7B :: ((quoteKey f.incKey ++ 0x3A :: ((0x5B :: (joinComma (batch.map Resp.body) ++ [0x5D])) ++
    0x2C :: (quoteKey f.hasNextKey ++ 0x3A :: boolText h))) ++ [0x7D])

/-- the writes of `flush`, in source order -/
def Group.bytes (f : MpFmt) (boundary : Bytes) (g : Group) : Bytes :=
  (match g.initial with
   | some r => delim f boundary false ++ f.partHeader ++ r.body ++
       (if g.batch.isEmpty then [] else f.sep ++ delim f boundary false)
   | none => []) ++
  (if g.batch.isEmpty then [] else f.partHeader ++ incJson f g.batch g.hasNext) ++
  f.sep ++ delim f boundary (!g.hasNext)

structure MpSt where
  first : Bool          -- `initialResponse` of `Do`'s loop
  todo : List Resp
  done : Bool           -- `a.Done(w)` has run
  agg : Agg
deriving Repr

def mpInit (ps : List Resp) : MpSt := { first := true, todo := ps, done := false, agg := ⟨none, [], []⟩ }

def MpSt.step (s : MpSt) : Step → MpSt
  | .main =>
    match s.todo with
    | p :: ps => { s with first := false, todo := ps, agg := s.agg.add p s.first }
    | [] => if s.done then s else { s with done := true, agg := s.agg.flush }
  | .tick => { s with agg := s.agg.flush }

def mpRun (s : MpSt) (sched : List Step) : MpSt := sched.foldl MpSt.step s
def mpFinish (s : MpSt) : MpSt := mpRun s (List.replicate (s.todo.length + 1) .main)

def mpGroups (ps : List Resp) (sched : List Step) : List Group :=
  (mpFinish (mpRun (mpInit ps) sched)).agg.out

def groupsBytes (f : MpFmt) (boundary : Bytes) (gs : List Group) : Bytes :=
  (gs.map (Group.bytes f boundary)).flatten

def mpStream (f : MpFmt) (boundary : Bytes) (ps : List Resp) (sched : List Step) : Bytes :=
  groupsBytes f boundary (mpGroups ps sched)

/-! ## multipart/mixed: independent parser (RFC 2046 body, strict) -/

inductive MItem where
  | part (headers : List Bytes) (body : Bytes)
  | close
  | junk (line : Bytes)
deriving DecidableEq, Repr

inductive MState where
  | start
  | headers (hs : List Bytes)
  | body (hs : List Bytes) (lines : List Bytes)
  | closed
deriving DecidableEq, Repr

/-- CRLF-terminated lines (without the CRLF) and the unterminated tail -/
def splitCRLF : Bytes → List Bytes × Bytes
  | [] => ([], [])
  | [b] => ([], [b])
  | a :: b :: rest =>
    if a = CR ∧ b = LF then ([] :: (splitCRLF rest).1, (splitCRLF rest).2)
    else pushByte a (splitCRLF (b :: rest))

def joinCRLF : List Bytes → Bytes
  | [] => []
  | [x] => x
  | x :: y :: r => x ++ crlf ++ joinCRLF (y :: r)

def mpLine (boundary : Bytes) (st : MState) (l : Bytes) : MState × List MItem :=
  match st with
  | .start => if l = dashes ++ boundary then (.headers [], []) else (.start, [.junk l])
  | .headers hs => if l.isEmpty then (.body hs [], []) else (.headers (hs ++ [l]), [])
  | .body hs ls =>
    if l = dashes ++ boundary then (.headers [], [.part hs (joinCRLF ls)])
    else if l = dashes ++ boundary ++ dashes then (.closed, [.part hs (joinCRLF ls), .close])
    else (.body hs (ls ++ [l]), [])
  | .closed => (.closed, [.junk l])

def mpLines (boundary : Bytes) (st : MState) : List Bytes → List MItem × MState
  | [] => ([], st)
  | l :: ls =>
    let r := mpLine boundary st l
    let rest := mpLines boundary r.1 ls
    (r.2 ++ rest.1, rest.2)

/-- items, and whether the stream is incomplete (unterminated line, or no closing delimiter yet) -/
def parseMP (boundary : Bytes) (raw : Bytes) : List MItem × Bool :=
  let sl := splitCRLF raw
  let r := mpLines boundary .start sl.1
  (r.1, !sl.2.isEmpty || r.2 != .closed)

/-! ## multipart/mixed: the property, written directly -/

def partItem (body : Bytes) : MItem := .part [ctLine] body

/-- the parts that deliver `batches` after the initial payload: each wrapper says `hasNext` exactly
    when another part follows -/
def incParts (f : MpFmt) : List (List Resp) → List MItem
  | [] => []
  | b :: bs => partItem (incJson f b (!bs.isEmpty)) :: incParts f bs

def mpExpected (f : MpFmt) (p0 : Resp) (batches : List (List Resp)) : List MItem :=
  partItem p0.body :: (incParts f batches ++ [.close])

/-- the items after the initial part against the payloads still to be delivered: each incremental
    part must be the wrapper of the next k ≥ 1 payloads (for some k), saying `hasNext` exactly when
    payloads remain after it; the closing delimiter comes when none remain -/
def mpSpecParts (f : MpFmt) : List Resp → List MItem → Bool
  | rest, [] => rest.isEmpty
  | rest, [.close] => rest.isEmpty
  | rest, .part hs body :: is =>
    hs == [ctLine] && (List.range rest.length).any fun k =>
      incJson f (rest.take (k + 1)) (!(rest.drop (k + 1)).isEmpty) == body && mpSpecParts f (rest.drop (k + 1)) is
  | _, _ => false

/-- complete stream: initial payload first, then wrappers delivering every other payload exactly
    once in order, the closing delimiter exactly once and last, nothing else -/
def mpSpec (f : MpFmt) (ps : List Resp) (r : List MItem × Bool) : Bool :=
  !r.2 && r.1.getLast? == some .close && r.1.count .close == 1 &&
  match ps, r.1 with
  | p0 :: rest, .part hs body :: is => hs == [ctLine] && body == p0.body && mpSpecParts f rest is
  | _, _ => false

/-- what a client that disconnected has seen: whole parts that are a prefix of a good stream
    (wrappers cannot be checked for `hasNext` against what was never received, so only the bodies'
    payload sequence is checked) -/
def mpSpecPrefix (f : MpFmt) (ps : List Resp) (r : List MItem × Bool) : Bool :=
  match ps, r.1 with
  | _, [] => true
  | p0 :: rest, .part hs body :: is =>
    hs == [ctLine] && body == p0.body && !(is.any fun i => match i with | .junk _ => true | _ => false) &&
      prefixParts f rest is
  | _, _ => false
where
  prefixParts (f : MpFmt) : List Resp → List MItem → Bool
    | _, [] => true
    | rest, [.close] => rest.isEmpty
    | rest, .part hs body :: is =>
      hs == [ctLine] && (List.range rest.length).any fun k =>
        -- the last batch before the client left may say hasNext=true although nothing follows in `rest`
        (incJson f (rest.take (k + 1)) (!(rest.drop (k + 1)).isEmpty) == body ||
          (is.isEmpty && incJson f (rest.take (k + 1)) true == body)) &&
        prefixParts f (rest.drop (k + 1)) is
    | _, _ => false

/-- hasNext is true on every payload but the last, false on the last -/
def HasNextShape (ps : List Resp) : Prop :=
  ∃ init last, ps = init ++ [last] ∧ (∀ r ∈ init, r.hasNext = true) ∧ last.hasNext = false

/-- a payload body as `json.Marshal` of a struct returns it: one line, starting with `{` -/
def BodyOK (b : Bytes) : Prop := LF ∉ b ∧ CR ∉ b ∧ b.head? = some 0x7B

end GqlgenVerif.Stream
