import GqlgenVerif.Model.Stream
/-!
# Who owns the bytes of a held response (C12)

`Model/Stream.lean` treats the payloads the multipart aggregator holds between two flush ticks as
VALUES. The implementation holds POINTERS: `multipartResponseAggregator.{initialResponse, deferResponses}`
are `*graphql.Response` whose `Data` is `buf.Bytes()` of the `bytes.Buffer` the GENERATED `Exec` marshalled
into, and `MultipartMixed.Do` asks the operation for the next response right after `a.Add`. This file
models that: a heap of marshal buffers, a held response = (buffer, length) + the bytes it had when it was
produced, a flush reads through the pointers.

`fresh = true`: the response handler declares `var buf bytes.Buffer` inside itself (a new buffer per
response). `fresh = false`: the buffer is declared outside the handler and `buf.Reset()` precedes every
marshal, so the next response overwrites the array the held ones point into (`bytes.Buffer.Reset` keeps
the array; a write longer than its capacity would move to a new array - not modelled, the witness does
not need it). `go/extract/execbuf.go` reads `fresh` off the generated code for every arm of `Exec`
(`Gen/ExecBuf.lean`). Core Lean only.
-/
namespace GqlgenVerif.StreamAlias
open GqlgenVerif.Stream

/-- one arm of the generated `executableSchema.Exec` -/
structure ExecArm where
  pkg : String
  arm : String              -- Query | Mutation | Subscription
  fresh : Bool              -- the marshal buffer is declared inside the response handler
  freshResp : Bool          -- the `*graphql.Response` returned is a new object per call (the same argument one
                            -- level up: a shared struct is a shared array of length one)
  setsHasNext : Bool        -- the handler sets `HasNext`: the arm produces incremental payloads
deriving DecidableEq, Repr

/-- a held `*graphql.Response`: `Data` = `array[idx][0:len]`; `produced` = the bytes it had when the
    executor returned it (ghost) -/
structure Ref where
  idx : Nat
  len : Nat
  produced : Bytes
deriving DecidableEq, Repr

/-- writing `new` from offset 0 into an array that held `arr` -/
def overlay (new arr : Bytes) : Bytes := new ++ arr.drop new.length

def readRef (heap : List Bytes) (r : Ref) : Bytes := (heap.getD r.idx []).take r.len

structure ASt where
  heap : List Bytes                     -- the arrays of the buffers allocated so far
  held : List Ref                       -- what the aggregator holds (added, not yet flushed)
  todo : List Bytes                     -- `Data` of the responses the operation has yet to produce
  out : List (List (Bytes × Bytes))     -- per flush: (bytes read through the pointer, bytes produced)
deriving Repr

/-- `.main` = the transport loop takes the next response and `Add`s it; `.tick` = a flush -/
def ASt.step (fresh : Bool) (s : ASt) : Step → ASt
  | .main =>
    match s.todo with
    | [] => s
    | p :: ps =>
      if fresh then
        { s with heap := s.heap ++ [p], held := s.held ++ [⟨s.heap.length, p.length, p⟩], todo := ps }
      else
        match s.heap with
        | [] => { s with heap := [p], held := s.held ++ [⟨0, p.length, p⟩], todo := ps }
        | a :: rest => { s with heap := overlay p a :: rest, held := s.held ++ [⟨0, p.length, p⟩], todo := ps }
  | .tick => { s with held := [], out := s.out ++ [s.held.map fun r => (readRef s.heap r, r.produced)] }

def aInit (ps : List Bytes) : ASt := ⟨[], [], ps, []⟩

/-- any schedule, then the loop runs to its end and `Done` flushes -/
def aliasRun (fresh : Bool) (ps : List Bytes) (sched : List Step) : ASt :=
  (sched ++ List.replicate ps.length Step.main ++ [Step.tick]).foldl (ASt.step fresh) (aInit ps)

/-! ## what can be demanded of a stream OUTSIDE the hasNext shape

A subscription over multipart/mixed (no payload says `hasNext:true`) gets a closing delimiter after every
flush (`multipart_noshape_witness`), so delimiters cannot be judged; its CONTENT can: the lines of the body
that hold JSON are the initial payload and then wrappers of the remaining payloads, each exactly once, in
order. Executable Spec (driver op `mpcontent`); no parse theorem outside the shape - such streams are also
compared byte for byte with the model. -/

/-- the lines (CRLF-terminated, or the tail) that start with `{` -/
def jsonLines (raw : Bytes) : List Bytes :=
  ((splitCRLF raw).1 ++ [(splitCRLF raw).2]).filter fun l => l.head? == some 0x7B

/-- the `k` for which wrapper `w` is the incremental wrapper of the next `k ≥ 1` payloads -/
def wrapperOf (f : MpFmt) (rest : List Resp) (w : Bytes) : Option Nat :=
  ((List.range rest.length).find? fun i =>
    incJson f (rest.take (i + 1)) (((rest.take (i + 1)).getLast?.map (·.hasNext)).getD false) == w).map (· + 1)

def matchWrappers (f : MpFmt) : List Bytes → List Resp → Bool
  | [], rest => rest.isEmpty
  | w :: ws, rest =>
    match wrapperOf f rest w with
    | some k => matchWrappers f ws (rest.drop k)
    | none => false

def mpContentSpec (f : MpFmt) (ps : List Resp) (raw : Bytes) : Bool :=
  match ps, jsonLines raw with
  | [], [] => true
  | p0 :: rest, b0 :: ws => b0 == p0.body && matchWrappers f ws rest
  | _, _ => false

end GqlgenVerif.StreamAlias
