import GqlgenVerif.Model.Stream
/-!
# The response loops of the streaming transports, and `nextResponse` (C12)

Which responses reach the stream writer. Mirrors, in a small statement vocabulary that
`go/extract/streamloop.go` regenerates from source on every run (`Gen/StreamLoop.lean`):

* `transport/util.go`, `nextResponse`: `return next(ctx), false`, and the deferred `recover()` that
  turns a panic raised while a response is being built (e.g. a custom scalar's `MarshalGQL`) into
  `resp, panicked = &graphql.Response{Errors: …}, true` (`NextFacts`).
* `transport/http_multipart_mixed.go`, `MultipartMixed.Do` and `transport/sse.go`, `SSE.Do`: the body
  of `for { response, panicked := nextResponse(ctx, rc, responses); … }` as a `List Stmt`:
  `if <cond> { break }`, the statement that hands `response` to the writer (`a.Add(response,
  initialResponse)` / `c.write(func() { writeJsonWithSSE(w, response) })`), `initialResponse = false`,
  anything that does not touch the response (`c.resetTicker(…)`).

An operation is a `good` list of responses its handler returns, after which the handler either
returns nil (`fin = none`) or panics (`fin = some e`, `e` = the error response the recover builds).
`runLoop` is the loop run on such an operation: what was delivered (with the `initialResponse`
flag it was delivered under) and how the loop ended. Asking the handler again after it has ended or
panicked (`runaway`) and handing a nil response to the writer (`nilDeref`) are explicit outcomes.
Core Lean only.
-/
namespace GqlgenVerif.StreamLoop
open GqlgenVerif.Stream

/-- condition of an `if … { break }` over the two results of `nextResponse` -/
inductive Cond where
  | respNil                 -- `response == nil`
  | panicked                -- `panicked`
  | not (c : Cond)
  | or (a b : Cond)
  | and (a b : Cond)
deriving DecidableEq, Repr

inductive Stmt where
  | brk (c : Cond)          -- `if c { break }`
  | deliver                 -- `a.Add(response, initialResponse)` / `c.write(func() { writeJsonWithSSE(w, response) })`
  | clearInitial            -- `initialResponse = false`
  | other                   -- a statement that neither touches the response nor leaves the loop
deriving DecidableEq, Repr

/-- the literals of `nextResponse` -/
structure NextFacts where
  normalPanicked : Bool     -- second result of `return next(ctx), …`
  recoverPanicked : Bool    -- `panicked` assigned in the recover branch
  recoverResp : Bool        -- the recover branch assigns a non-nil `&graphql.Response{Errors: …}`
deriving DecidableEq, Repr

def Cond.eval (isNil panicked : Bool) : Cond → Bool
  | .respNil => isNil
  | .panicked => panicked
  | .not c => !(c.eval isNil panicked)
  | .or a b => a.eval isNil panicked || b.eval isNil panicked
  | .and a b => a.eval isNil panicked && b.eval isNil panicked

structure LoopSt (α : Type) where
  first : Bool              -- `initialResponse`
  out : List (α × Bool)     -- responses handed to the writer, with the flag they were handed over with

inductive BodyEnd where
  | fallthrough | broke | nilDeref
deriving DecidableEq, Repr

/-- one iteration of the loop body after `response, panicked := nextResponse(…)` -/
def runBody {α : Type} (resp : Option α) (panicked : Bool) : List Stmt → LoopSt α → LoopSt α × BodyEnd
  | [], s => (s, .fallthrough)
  | .brk c :: r, s => if c.eval resp.isNone panicked then (s, .broke) else runBody resp panicked r s
  | .deliver :: r, s =>
    match resp with
    | none => (s, .nilDeref)
    | some p => runBody resp panicked r { s with out := s.out ++ [(p, s.first)] }
  | .clearInitial :: r, s => runBody resp panicked r { s with first := false }
  | .other :: r, s => runBody resp panicked r s

inductive End where
  | done          -- the loop was left by a `break`
  | nilDeref      -- a nil response was handed to the writer
  | runaway       -- the loop asked the handler again after it had returned nil / panicked
deriving DecidableEq, Repr

/-- what `nextResponse` returns once the good responses are used up -/
def pullFin {α : Type} (nf : NextFacts) : Option α → Option α × Bool
  | none => (none, nf.normalPanicked)
  | some e => (if nf.recoverResp then some e else none, nf.recoverPanicked)

def runLoop {α : Type} (nf : NextFacts) (prog : List Stmt) : List α → Option α → LoopSt α → LoopSt α × End
  | p :: ps, fin, s =>
    match runBody (some p) nf.normalPanicked prog s with
    | (s', .fallthrough) => runLoop nf prog ps fin s'
    | (s', .broke) => (s', .done)
    | (s', .nilDeref) => (s', .nilDeref)
  | [], fin, s =>
    match runBody (pullFin nf fin).1 (pullFin nf fin).2 prog s with
    | (s', .fallthrough) => (s', .runaway)
    | (s', .broke) => (s', .done)
    | (s', .nilDeref) => (s', .nilDeref)

/-- the responses handed to the writer, in order -/
def delivered {α : Type} (nf : NextFacts) (prog : List Stmt) (firstInit : Bool) (good : List α) (fin : Option α) : List α :=
  (runLoop nf prog good fin ⟨firstInit, []⟩).1.out.map Prod.fst

/-- the flags `MpSt.step` of `Model/Stream.lean` hands to `Agg.add`: the first response is the
    initial one, no other is -/
def markFirst {α : Type} (b : Bool) : List α → List (α × Bool)
  | [] => []
  | p :: r => (p, b) :: r.map fun q => (q, false)

/-- what must be delivered: every good response, then the error response of a panic -/
def wanted {α : Type} (good : List α) (fin : Option α) : List α := good ++ fin.toList

/-- the loops as they are meant to be (the negative witnesses in `Props/C12.lean` use variations) -/
def canonNext : NextFacts := ⟨false, true, true⟩
def canonMpLoop : List Stmt := [.brk .respNil, .deliver, .clearInitial, .brk .panicked]
def canonSseLoop : List Stmt := [.brk .respNil, .deliver, .brk .panicked, .other]

end GqlgenVerif.StreamLoop
