/-!
# The websocket read loop and the message a running operation refers to (C07)

Mirrors `graphql/handler/transport/websocket.go`:

* `(*wsConnection).run` reads one client message per iteration into a variable `m` and, for a start / subscribe
  message, calls `c.subscribe(start, &m)`;
* `(*wsConnection).subscribe` starts the operation's goroutine, which keeps the POINTER `msg`: every frame it sends
  (`next`/`data`, `error`, `complete`) is labelled `msg.id`, read when the frame is sent, and `delete(c.active, msg.id)`
  releases the id when the operation ends.

`Cells` is the one thing that matters about `m`: with `m, err := c.me.NextMessage()` inside the loop body every
iteration has its own variable (`ownCell`: a new cell per message); declared once outside the loop there is one
cell that every later message overwrites (`sharedCell`). Which one the source has is regenerated into
`Gen/WsLoop.lean` on every run.

The model keeps only what the labelling depends on: for every client message its `id` and whether it starts an
operation; events are "a message arrives" and "the k-th started operation sends a frame", in any order.
-/
namespace GqlgenVerif.WsLoop

inductive Cells where
  | ownCell
  | sharedCell
  deriving DecidableEq, Repr

/-- a client message: its id ("" for ping / pong / connection-level messages) and whether it starts an operation -/
structure Msg where
  id : String
  starts : Bool
  deriving DecidableEq, Repr

inductive Ev where
  /-- the read loop reads the next client message -/
  | recv (m : Msg)
  /-- the `k`-th operation started on this connection (0-based) sends a frame -/
  | emit (k : Nat)
  deriving DecidableEq, Repr

structure St where
  /-- the message variables that exist (Go keeps a variable alive as long as a goroutine points to it) -/
  cells : List Msg := []
  /-- per started operation: the cell its `msg` pointer refers to -/
  ops : List Nat := []
  /-- frames sent so far: (operation, the id on the frame); `none` = the pointer refers to no cell (cannot happen) -/
  out : List (Nat × Option String) := []
  deriving Repr

def step (c : Cells) (s : St) : Ev → St
  | .recv m =>
    match c with
    | .ownCell =>
      { s with cells := s.cells ++ [m], ops := if m.starts then s.ops ++ [s.cells.length] else s.ops }
    | .sharedCell =>
      { s with cells := [m], ops := if m.starts then s.ops ++ [0] else s.ops }
  | .emit k =>
    match s.ops[k]? with
    | none => s   -- no such operation: nothing is sent
    | some cell => { s with out := s.out ++ [(k, (s.cells[cell]?).map (·.id))] }

def run (c : Cells) (s : St) (evs : List Ev) : St := evs.foldl (step c) s

/-- the messages that started an operation, in order: operation `k` was started by `(startMsgs evs)[k]` -/
def startMsgs (evs : List Ev) : List Msg :=
  evs.filterMap fun | .recv m => if m.starts then some m else none | .emit _ => none

end GqlgenVerif.WsLoop
