import GqlgenVerif.Gen.SafeAdd
/-!
# Query complexity and the complexity limit (property C14)

Executable model of `/repo/complexity/complexity.go` and of the gate in
`/repo/graphql/handler/extension/complexity.go` + `/repo/graphql/executor/executor.go`.

* `safeAdd`, `maxInt` are **not** written here: they are `Gen/SafeAdd.lean`, re-translated from the
  source by `go/extract/safeadd.go` on every run.
* `Sel` is a validated operation as gqlparser hands it to the walker: a field carries the name of the
  type it is selected on (`s.ObjectDefinition.Name`), its name, the *named* type of its result
  (`s.Definition.Type.Name()`), its arguments, and its selection set; a fragment spread carries the
  selection set of its definition (`s.Definition.SelectionSet`; validated documents have no spread
  cycles, so the AST the walker follows is a finite tree); an inline fragment carries its selections.
  Directives (`@skip`, `@include`, …) are **not** part of the model because the walker never looks
  at them: a skipped field costs what it costs unskipped.
* `resolveArgs` mirrors gqlparser's `arg2map` (`Field.ArgumentMap`): variables are looked up in the
  variable map, a missing value falls back to the argument definition's default, an absent value
  is absent from the map.
* `selCost` / `selsC` mirror `complexityWalker.selectionSetComplexity` (left fold with `safeAdd`,
  `continue` on fields of type `__Schema`, children only for Object/Interface/Union results),
  `fieldComplexity` and `interfaceFieldComplexity` mirror the functions of the same names.
* `Spec.*` is the documented definition written directly over unbounded integers with one
  saturation `sat` at the places where a machine integer is handed on.
* `gate`, `createOperationContext`, `serve` mirror `ComplexityLimit.MutateOperationContext`, the
  mutator loop at the end of `Executor.CreateOperationContext`, and what every transport does with
  its result (`DispatchError` on errors, else `DispatchOperation`, which is the only caller of
  `ExecutableSchema.Exec`).
-/
namespace GqlgenVerif.Complexity
open GqlgenVerif.Gen.SafeAdd

/-- `ast.DefinitionKind`, as far as the walker distinguishes it -/
inductive Kind where
  | object | interface | union | other
  deriving DecidableEq, Repr

def Kind.composite : Kind → Bool
  | .object | .interface | .union => true
  | .other => false

/-- what the walker reads from `*ast.Schema`: `Types[name].Kind` and `PossibleTypes[name]` (in order) -/
structure Schema where
  kind : String → Kind
  possible : String → List String

/-- a resolved argument value, as far as the cost functions of the shared expression language look:
    an `int64`, `nil`, or anything else -/
inductive ArgV where
  | int (v : Int) | null | other
  deriving DecidableEq, Repr

/-- how an argument is written in the operation -/
inductive ArgSrc where
  | absent | lit (v : ArgV) | var (name : String)
  deriving DecidableEq, Repr

/-- one entry of `f.Definition.Arguments` together with the matching entry of `f.Arguments` -/
structure Arg where
  name : String
  src : ArgSrc
  dflt : Option ArgV
  deriving DecidableEq, Repr

abbrev Args := List (String × ArgV)
abbrev Vars := List (String × ArgV)

/-- one iteration of `arg2map` -/
def resolveArg (vars : Vars) (a : Arg) : Option (String × ArgV) :=
  let v : Option ArgV := match a.src with
    | .absent => none
    | .lit v => some v
    | .var n => vars.lookup n
  match v with
  | some v => some (a.name, v)
  | none => a.dflt.map fun d => (a.name, d)

/-- `ast.Field.ArgumentMap(vars)` -/
def resolveArgs (vars : Vars) (as : List Arg) : Args := as.filterMap (resolveArg vars)

/-- a validated operation's selections, as the walker sees them -/
inductive Sel where
  | field (parent name ret : String) (args : List Arg) (sels : List Sel)
  | spread (frag : String) (sels : List Sel)
  | inline (cond : String) (sels : List Sel)
  deriving Repr

/-- `ExecutableSchema.Complexity(ctx, typeName, field, childComplexity, args) (int, bool)`;
    `none` is `(_, false)` ("no custom function") -/
abbrev Custom := String → String → Int → Args → Option Int

/-- the result of a Go function of result type `int` -/
def Custom.InRange (cf : Custom) : Prop :=
  ∀ t f c a v, cf t f c a = some v → Go.inInt64 v

/-- `complexityWalker.fieldComplexity` -/
def fieldComplexity (cf : Custom) (object field : String) (child : Int) (args : Args) : Int :=
  match cf object field child args with
  | some c => if c ≥ child then c else safeAdd 1 child
  | none => safeAdd 1 child

/-- `complexityWalker.interfaceFieldComplexity`, given `schema.GetPossibleTypes(def)` -/
def interfaceFieldComplexity (cf : Custom) (impls : List String) (field : String) (child : Int) (args : Args) : Int :=
  impls.foldl (fun m t =>
    let fc := fieldComplexity cf t field child args
    if fc > m then fc else m) 0

/-- the `*ast.Field` arm after the children were computed -/
def fieldCost (S : Schema) (cf : Custom) (vars : Vars) (parent name ret : String) (args : List Arg) (sub : Int) : Int :=
  let child := if (S.kind ret).composite then sub else 0
  let a := resolveArgs vars args
  if S.kind parent = .interface then interfaceFieldComplexity cf (S.possible parent) name child a
  else fieldComplexity cf parent name child a

mutual
/-- what one selection adds (`none`: the `continue` for `__Schema`) -/
def selCost (S : Schema) (cf : Custom) (vars : Vars) : Sel → Option Int
  | .field parent name ret args sels =>
    let sub := selsC S cf vars 0 sels
    if ret = "__Schema" then none else some (fieldCost S cf vars parent name ret args sub)
  | .spread _ sels => some (selsC S cf vars 0 sels)
  | .inline _ sels => some (selsC S cf vars 0 sels)
/-- `complexityWalker.selectionSetComplexity`: the loop, with the running `complexity` as accumulator -/
def selsC (S : Schema) (cf : Custom) (vars : Vars) (acc : Int) : List Sel → Int
  | [] => acc
  | s :: r =>
    selsC S cf vars (match selCost S cf vars s with
      | none => acc
      | some c => safeAdd acc c) r
end

/-- `complexity.Calculate` -/
def calculate (S : Schema) (cf : Custom) (vars : Vars) (op : List Sel) : Int := selsC S cf vars 0 op

/-! ## the documented definition, over unbounded integers -/
namespace Spec

/-- saturation of a non-negative unbounded value into a machine `int` -/
def sat (x : Int) : Int := min maxInt x

/-- one concrete type: the custom value when present and not below the children, else one plus children -/
def one (cf : Custom) (t field : String) (child : Int) (args : Args) : Int :=
  match cf t field child args with
  | some c => if child ≤ c then c else sat (1 + child)
  | none => sat (1 + child)

def maxList : List Int → Int
  | [] => 0
  | x :: r => max x (maxList r)

/-- a field on `parent`: interfaces cost their most expensive implementor -/
def field (S : Schema) (cf : Custom) (parent name : String) (child : Int) (args : Args) : Int :=
  if S.kind parent = .interface then maxList ((S.possible parent).map fun t => one cf t name child args)
  else one cf parent name child args

mutual
def sel (S : Schema) (cf : Custom) (vars : Vars) : Sel → Int
  | .field parent name ret args sels =>
    let sub := sels' S cf vars sels
    if ret = "__Schema" then 0
    else field S cf parent name (if (S.kind ret).composite then sat sub else 0) (resolveArgs vars args)
  | .spread _ ss => sels' S cf vars ss
  | .inline _ ss => sels' S cf vars ss
/-- the (unbounded) sum over a selection set; fragments contribute their selections -/
def sels' (S : Schema) (cf : Custom) (vars : Vars) : List Sel → Int
  | [] => 0
  | s :: r => sel S cf vars s + sels' S cf vars r
end

/-- the documented complexity of an operation -/
def complexity (S : Schema) (cf : Custom) (vars : Vars) (op : List Sel) : Int := sat (sels' S cf vars op)

end Spec

/-! ## adding selections -/

/-- `Ins a b`: `b` is `a` with one selection inserted, anywhere (in the set itself, inside a fragment,
    or inside the selection set of a field at any depth) -/
inductive Ins : List Sel → List Sel → Prop where
  | here (s : Sel) (l : List Sel) : Ins l (s :: l)
  | skip (x : Sel) {a b : List Sel} : Ins a b → Ins (x :: a) (x :: b)
  | inField (parent name ret : String) (args : List Arg) {a b : List Sel} (r : List Sel) :
      Ins a b → Ins (.field parent name ret args a :: r) (.field parent name ret args b :: r)
  | inSpread (f : String) {a b : List Sel} (r : List Sel) : Ins a b → Ins (.spread f a :: r) (.spread f b :: r)
  | inInline (c : String) {a b : List Sel} (r : List Sel) : Ins a b → Ins (.inline c a :: r) (.inline c b :: r)

/-- the same, never descending into a field: the insertion is at the operation's top level
    (possibly inside nested fragments) -/
inductive InsTop : List Sel → List Sel → Prop where
  | here (s : Sel) (l : List Sel) : InsTop l (s :: l)
  | skip (x : Sel) {a b : List Sel} : InsTop a b → InsTop (x :: a) (x :: b)
  | inSpread (f : String) {a b : List Sel} (r : List Sel) : InsTop a b → InsTop (.spread f a :: r) (.spread f b :: r)
  | inInline (c : String) {a b : List Sel} (r : List Sel) : InsTop a b → InsTop (.inline c a :: r) (.inline c b :: r)

/-- zero or more insertions -/
inductive InsStar : List Sel → List Sel → Prop where
  | refl (a : List Sel) : InsStar a a
  | step {a b c : List Sel} : Ins a b → InsStar b c → InsStar a c

/-- a custom cost function that never goes down (nor disappears) when the children get more expensive -/
def Custom.Monotone (cf : Custom) : Prop :=
  ∀ t f a c c' v, c ≤ c' → cf t f c a = some v → ∃ v', cf t f c' a = some v' ∧ v ≤ v'

/-! ## the cost-function language shared with the Go harness

The harness's hand-built `ExecutableSchema.Complexity` evaluates the same expressions with Go `int`
arithmetic; here the wrap-around is explicit. -/

inductive Expr where
  /-- `return c, true` -/
  | const (c : Int)
  /-- `return a*childComplexity + b, true` -/
  | lin (a b : Int)
  /-- `n, ok := args[name].(int64); if !ok { n = 1 }; return int(n)*childComplexity + b, true` -/
  | arg (name : String) (b : Int)
  deriving DecidableEq, Repr

def Expr.eval : Expr → Int → Args → Int
  | .const c, _, _ => c
  | .lin a b, child, _ => Go.conv_int (Go.conv_int (a * child) + b)
  | .arg n b, child, args =>
    let k := match args.lookup n with
      | some (.int v) => v
      | _ => 1
    Go.conv_int (Go.conv_int (k * child) + b)

/-- a table `(typeName, field) ↦ expression`; no entry = `(0, false)` -/
def tableCustom (tbl : List ((String × String) × Expr)) : Custom :=
  fun t f child args => (tbl.lookup (t, f)).map fun e => e.eval child args

/-! ## the gate -/

structure Stats where
  complexity : Int
  limit : Int
  deriving DecidableEq, Repr

/-- `ComplexityLimit.MutateOperationContext`: the stats it records and the error it returns -/
def gate (complexity limit : Int) : Stats × Option String :=
  (⟨complexity, limit⟩, if complexity > limit then some "COMPLEXITY_LIMIT_EXCEEDED" else none)

/-- an `OperationContextMutator` of the executor: `none` = no error -/
abbrev Mutator := Option String

/-- the loop over `e.ext.operationContextMutators` at the end of `CreateOperationContext`:
    the first error is returned -/
def createOperationContext : List Mutator → Option String
  | [] => none
  | none :: r => createOperationContext r
  | some e :: _ => some e

/-- what a served operation looks like from outside -/
structure Served where
  /-- calls of `ExecutableSchema.Exec` (the only entry to resolvers) -/
  execCalls : Nat
  /-- error code of the response, if it is a `DispatchError` response -/
  rejected : Option String
  deriving DecidableEq, Repr

/-- a transport: `CreateOperationContext`, then `DispatchError` or `DispatchOperation` (which calls `Exec` once) -/
def serve (mutators : List Mutator) : Served :=
  match createOperationContext mutators with
  | some e => ⟨0, some e⟩
  | none => ⟨1, none⟩

/-- a server whose mutators are `before ++ [ComplexityLimit] ++ after` -/
def serveWithLimit (before after : List Mutator) (S : Schema) (cf : Custom) (vars : Vars) (op : List Sel) (limit : Int) : Served :=
  serve (before ++ (gate (calculate S cf vars op) limit).2 :: after)

end GqlgenVerif.Complexity
