/-!
# The websocket transport's per-operation error holder (C07)

Mirrors `graphql/handler/transport/websocket.go` and `websocket_resolver_error.go`:

* `withSubscriptionErrorContext(ctx)` puts a NEW `*subscriptionError` (a list of errors) on a context;
* `transport.AddSubscriptionError(ctx, err)` appends to the holder found on the context it is given - a resolver
  calls it with the context of its operation;
* `(*wsConnection).subscribe` starts one goroutine per operation; when the operation's stream ends its deferred
  function sends `error` with all errors of the holder found on the operation's context, or `complete` if there are
  none.

Which holder an operation's context carries is decided by two places of the source, both regenerated into
`Gen/WsHolder.lean` on every run (`Policy`): whether the CONNECTION context (`wsConnection.ctx`, parent of every
operation's context) already carries a holder, and whether `subscribe` installs a holder of its own always, only if
none is present, or never. Holders are heap objects (Go pointers): `St.holders` is the heap, an operation keeps the
index of the holder its context resolves to.
-/
namespace GqlgenVerif.WsHolder

/-- what the goroutine of `subscribe` does before it dispatches the operation -/
inductive Install where
  /-- `ctx = withSubscriptionErrorContext(ctx)`, unconditionally -/
  | always
  /-- only `if getSubscriptionErrorStruct(ctx) == nil` (or under any other condition) -/
  | ifAbsent
  /-- no holder is installed per operation -/
  | never
  deriving DecidableEq, Repr

structure Policy where
  /-- the context the connection is built with (`wsConnection.ctx`) carries a holder -/
  connHolder : Bool
  install : Install
  deriving DecidableEq, Repr

inductive Ev where
  /-- operation `op` is started on the connection -/
  | start (op : Nat)
  /-- a resolver of operation `op` calls `transport.AddSubscriptionError(ctx, e)` -/
  | addErr (op : Nat) (e : String)
  /-- the stream of operation `op` ends: its terminating frame is sent -/
  | finish (op : Nat)
  deriving DecidableEq, Repr

def Ev.op : Ev → Nat
  | .start o => o
  | .addErr o _ => o
  | .finish o => o

structure St where
  /-- the heap of holders -/
  holders : List (List String)
  /-- operation ↦ the holder its context resolves to (`none`: not started, or no holder on its context) -/
  ops : Nat → Option Nat
  /-- terminating frames sent so far: (operation, errors on the frame); `some []` is `complete`, `none` = there
  was no holder to read (the transport dereferences nil) -/
  out : List (Nat × Option (List String))

/-- a new connection: the holder of the connection context, if the source installs one, is object 0 -/
def init (p : Policy) : St := ⟨if p.connHolder then [[]] else [], fun _ => none, []⟩

def bind (ops : Nat → Option Nat) (o : Nat) (h : Option Nat) : Nat → Option Nat :=
  fun j => if j = o then h else ops j

def step (p : Policy) (s : St) : Ev → St
  | .start o =>
    match p.install, p.connHolder with
    | .always, _ | .ifAbsent, false =>
      { s with holders := s.holders ++ [[]], ops := bind s.ops o (some s.holders.length) }
    | .ifAbsent, true | .never, true => { s with ops := bind s.ops o (some 0) }
    | .never, false => { s with ops := bind s.ops o none }
  | .addErr o e =>
    match s.ops o with
    | none => s
    | some h => { s with holders := s.holders.set h ((s.holders.getD h []) ++ [e]) }
  | .finish o =>
    { s with out := s.out ++ [(o, (s.ops o).bind fun h => s.holders[h]?)] }

def runFrom (p : Policy) (s : St) (evs : List Ev) : St := evs.foldl (step p) s

def run (p : Policy) (evs : List Ev) : St := runFrom p (init p) evs

/-- what reaches the holder of operation `o` (the errors on its next terminating frame) -/
def held (s : St) (o : Nat) : Option (List String) := (s.ops o).bind fun h => s.holders[h]?

/-- the events of operation `o` alone -/
def only (o : Nat) (evs : List Ev) : List Ev := evs.filter fun e => e.op == o

/-- the terminating frames of operation `o` -/
def framesOf (o : Nat) (out : List (Nat × Option (List String))) : List (Nat × Option (List String)) :=
  out.filter fun f => f.1 == o

end GqlgenVerif.WsHolder
