/-!
# Schemas and validated documents (as gqlparser hands them to gqlgen)

Shared by the execution models (C01, C04, C06, C13). The models start from a *validated* document:
gqlparser's parser and validator are modelled-not-verified; the harness serialises the
`ast.QueryDocument` the real executor obtained, and the schema the generated server reports.
-/
namespace GqlgenVerif

/-- a GraphQL type reference with its nullability at every level -/
inductive TRef where
  | named (name : String) (nn : Bool)
  | list (elem : TRef) (nn : Bool)
deriving Repr, BEq, Inhabited

def TRef.nn : TRef → Bool
  | .named _ b => b
  | .list _ b => b

def TRef.base : TRef → String
  | .named n _ => n
  | .list e _ => e.base

structure FieldDef where
  name : String
  type : TRef
  /-- schema directives on the field definition, in source order (`ImplDirectives`) -/
  dirs : List String := []
  /-- bound as a plain struct field of the parent's Go model: no resolver is invoked -/
  plain : Bool := false
deriving Repr, Inhabited

inductive Kind where
  | object | interface | union | scalar | enum | input
deriving Repr, BEq, DecidableEq, Inhabited

structure TypeDef where
  name : String
  kind : Kind
  fields : List FieldDef := []
  interfaces : List String := []
  /-- concrete object types of an abstract type -/
  possible : List String := []
  /-- for objects: the generated `<type>Implementors` list (itself, its interfaces, unions it is in) -/
  implementors : List String := []
deriving Repr, Inhabited

structure Schema where
  query : String
  mutation : String := ""
  types : List TypeDef
deriving Repr, Inhabited

def Schema.type? (s : Schema) (n : String) : Option TypeDef := s.types.find? (·.name == n)

def Schema.interfacesOf (s : Schema) (n : String) : List String :=
  match s.type? n with
  | some t => t.interfaces
  | none => []

def TypeDef.field? (t : TypeDef) (n : String) : Option FieldDef := t.fields.find? (·.name == n)

/-- a directive argument value: a variable reference or a literal (raw text) -/
inductive ArgVal where
  | var (name : String)
  | lit (raw : String)
deriving Repr, BEq, Inhabited

structure Dir where
  name : String
  ifArg : Option ArgVal := none
  label : Option ArgVal := none
deriving Repr, Inhabited

inductive Sel where
  | field (alias name objDef : String) (dirs : List Dir) (sels : List Sel)
  | inline (typeCond : String) (dirs : List Dir) (sels : List Sel)
  | spread (name : String) (dirs : List Dir)
deriving Repr, Inhabited

structure Frag where
  name : String
  typeCond : String
  sels : List Sel
deriving Repr, Inhabited

inductive OpKind where
  | query | mutation | subscription
deriving Repr, BEq, DecidableEq, Inhabited

structure Doc where
  opKind : OpKind
  sels : List Sel
  frags : List Frag
deriving Repr, Inhabited

/-- coerced variable values that execution itself looks at: booleans (`@skip/@include/@defer(if:)`)
    and strings (`@defer(label:)`); `none` = variable absent/null -/
inductive VarVal where
  | bool (b : Bool)
  | str (s : String)
  | other
deriving Repr, BEq, Inhabited

abbrev Vars := List (String × VarVal)

def Vars.get (vs : Vars) (n : String) : Option VarVal := (vs.find? (·.1 == n)).map (·.2)

/-- one step of a response path: a response key or a list index (`ast.PathName` / `ast.PathIndex`) -/
inductive Seg where
  | key (s : String)
  | idx (i : Nat)
deriving Repr, DecidableEq, Inhabited

def Seg.str : Seg → String
  | .key s => s
  | .idx i => toString i

abbrev Path := List Seg

def pathStr (p : Path) : String := "/".intercalate (p.map Seg.str)

end GqlgenVerif
