import GqlgenVerif.Model.Introspect
/-!
# C16 — WHICH schema introspection describes (the `Config.Schema` runtime override)

A generated package compiles its schema in (`var parsedSchema = gqlparser.MustLoadSchema(sources...)`), and
`NewExecutableSchema(Config{Schema: s, …})` may be given another `*ast.Schema` to serve (a public subset, a
superset assembled at start-up, …). The executor validates every operation and coerces variables against
`es.Schema()` (`graphql/executor/executor.go`): **the executable schema of the server is `Config.Schema` when
given, the compiled-in schema otherwise** (`Spec.served`). C16 says introspection describes exactly that schema.

The code, per exec layout (`codegen/generated!.gotpl` = single-file, `codegen/root_.gotpl` = follow-schema), read
through facts regenerated on every run (`go/extract/introsrc.go` → `Gen/IntroSrc.lean`):

* `NewExecutableSchema`: `&executableSchema{schema: cfg.Schema, …}` — `Layout.storesOverride`
* `func (e *executableSchema) Schema()`: `if e.schema != nil { return e.schema }; return parsedSchema` — `Layout.schemaMethod`
  (a list of `Arm`s: guarded or plain `return` of the field or of the compiled-in variable)
* `introspectSchema`: `if ec.DisableIntrospection { return nil, err }; return introspection.WrapSchema(X), nil`
* `introspectType`: the same guard; `return introspection.WrapTypeFromDef(X, Y.Types[name]), nil`

with `X`, `Y` one of `ec.Schema()` (`Src.method`), `ec.schema` (`Src.field`), `parsedSchema` (`Src.compiled`).
A nil `*ast.Schema` reaching `WrapSchema` / `.Types` is the explicit outcome `Answer.nilDeref`.
-/
namespace GqlgenVerif.Introspect.Served
open GqlgenVerif.Introspect

/-- a schema expression of the generated code -/
inductive Src where
  | method    -- `ec.Schema()`: executableSchema.Schema()
  | field     -- `ec.schema`: what NewExecutableSchema stored
  | compiled  -- `parsedSchema`: loaded from the compiled-in sources
  deriving DecidableEq, Repr

/-- one statement of `executableSchema.Schema()`: `if e.schema != nil { return ret }` (`ifFieldSet`) or `return ret` -/
structure Arm where
  ifFieldSet : Bool
  ret : Src
  deriving DecidableEq, Repr

structure Layout where
  name : String
  template : String := ""
  storesOverride : Bool
  schemaMethod : List Arm
  schemaGuard : Bool
  schemaSrc : Src
  typeGuard : Bool
  typeWrapSrc : Src
  typeLookupSrc : Src
  deriving Repr

/-- a running server: the schema compiled in and the `Config.Schema` it was constructed with -/
structure Server where
  compiled : Schema
  override : Option Schema := none

/-- one of the two `*ast.Schema` values that exist in the process -/
inductive Which where
  | override | compiled
  deriving DecidableEq, Repr

def Server.get (sv : Server) : Which → Option Schema
  | .override => sv.override
  | .compiled => some sv.compiled

/-- what a bound introspection method returns -/
inductive Answer (α : Type) where
  | gateError          -- `nil, errors.New("introspection disabled")`
  | nilDeref           -- a nil `*ast.Schema` is dereferenced (panic)
  | value (a : α)

namespace Spec

/-- the executable schema: `Config.Schema` when given, the compiled-in one otherwise -/
def which (overrideSet : Bool) : Which := if overrideSet then .override else .compiled

def served (sv : Server) : Schema := sv.override.getD sv.compiled

def introspectSchema (sv : Server) (disabled : Bool) : Answer ITree :=
  if disabled then .gateError else .value (introspect (served sv))

def introspectType (sv : Server) (disabled : Bool) (n : String) : Answer (Option IType) :=
  if disabled then .gateError else .value (introTypeByName (served sv) n)

end Spec

namespace Impl

/-- the `schema` field of `executableSchema` (`none` = nil pointer) -/
def fieldW (l : Layout) (overrideSet : Bool) : Option Which :=
  if l.storesOverride && overrideSet then some .override else none

/-- the statements of `Schema()` in order -/
def arms (fld : Option Which) : List Arm → Option Which
  | [] => none
  | a :: rest =>
    if a.ifFieldSet && fld.isNone then arms fld rest
    else match a.ret with
      | .field => fld
      | .compiled => some .compiled
      | .method => none

/-- which `*ast.Schema` a schema expression evaluates to (`none` = nil) -/
def pick (l : Layout) (overrideSet : Bool) : Src → Option Which
  | .method => arms (fieldW l overrideSet) l.schemaMethod
  | .field => fieldW l overrideSet
  | .compiled => some .compiled

def src (l : Layout) (sv : Server) (s : Src) : Option Schema :=
  (pick l sv.override.isSome s).bind sv.get

def introspectSchema (l : Layout) (sv : Server) (disabled : Bool) : Answer ITree :=
  if l.schemaGuard && disabled then .gateError else
  match src l sv l.schemaSrc with
  | some s => .value (introspect s)
  | none => .nilDeref

/-- `WrapTypeFromDef(X, Y.Types[name])`: nil when the definition is nil -/
def introspectType (l : Layout) (sv : Server) (disabled : Bool) (n : String) : Answer (Option IType) :=
  if l.typeGuard && disabled then .gateError else
  match src l sv l.typeWrapSrc, src l sv l.typeLookupSrc with
  | some w, some lk => .value ((lk.lookup n).map (introType w))
  | _, _ => .nilDeref

end Impl

/-- decidable: both guards are there, and with and without an override every schema expression of the two entry
    points evaluates to the executable schema -/
def Layout.ok (l : Layout) : Bool :=
  l.schemaGuard && l.typeGuard &&
  [true, false].all fun b =>
    Impl.pick l b l.schemaSrc == some (Spec.which b) &&
    Impl.pick l b l.typeWrapSrc == some (Spec.which b) &&
    Impl.pick l b l.typeLookupSrc == some (Spec.which b)

end GqlgenVerif.Introspect.Served
