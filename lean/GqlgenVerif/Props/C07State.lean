import GqlgenVerif.Lemmas.WsHolder
import GqlgenVerif.Lemmas.IntroHeap
import GqlgenVerif.Gen.WsHolder
import GqlgenVerif.Gen.IntroStores
/-!
# C07, parts F and G — per-operation side channels, and long-lived structures that requests only read

Property theorems only (models: `Model/WsHolder.lean`, `Model/IntroHeap.lean`; helper lemmas in `Lemmas/`).

* Part F: `transport.AddSubscriptionError` lets a resolver report an error through the websocket transport; the
  operation's terminating frame (`error` with the reported errors, or `complete`) is built from a holder found on
  the operation's context. `Gen/WsHolder.lean` is regenerated from `transport/websocket.go` and
  `transport/websocket_resolver_error.go` on every run: where holders are installed. The theorem is stated over the
  regenerated policy and quantifies over all sequences of starts / reports / stream ends of any operations.
* Part G: introspection answers `__schema` / `__type` from wrappers around the server's `*ast.Schema`.
  `Gen/IntroStores.lean` is regenerated from package `graphql/introspection`: how `(*Type).OfType` obtains the node
  it clears `NonNull` on, and every store / mutating call of the package with where it goes.
-/
namespace GqlgenVerif.C07
open GqlgenVerif GqlgenVerif.Gen

/-! ## F. Every websocket operation has an error holder of its own -/
section F
open GqlgenVerif.WsHolder

/-- `withSubscriptionErrorContext` allocates: two installs never yield the same holder -/
theorem holder_is_allocated_per_install : WsHolder.ctorAllocatesNewHolder = true := by decide

/-- `AddSubscriptionError(ctx, e)` appends to the holder found on `ctx`, nothing else -/
theorem add_error_appends_to_its_context_holder : WsHolder.addAppendsToHolderOfItsContext = true := by decide

/-- `(*wsConnection).subscribe` installs a holder for every operation, unconditionally, on the variable … -/
theorem every_operation_installs_its_own_holder :
    WsHolder.policy.install = Install.always ∧ ("subscribe", true, "opCtx:ctx") ∈ WsHolder.installSites := by decide

/-- … from which the terminating frame is built when the operation's stream ends -/
theorem termination_reads_the_installed_holder : WsHolder.terminationReads = ["ctx"] := by decide

/-- **The terminating frames of a websocket operation depend on that operation's own events only.** For the
policy as regenerated from the source, for ALL sequences `evs` of starts, `AddSubscriptionError` calls and
stream ends of any operations on one connection, and every operation `o`: the terminating frames `o` receives
(`complete`, or `error` with which errors, in order) are those it receives on a new connection on which only its
own events happen. -/
theorem ws_termination_depends_on_own_operation_only (evs : List Ev) (o : Nat) :
    framesOf o (run WsHolder.policy evs).out = (run WsHolder.policy (only o evs)).out := by
  have hp := every_operation_installs_its_own_holder.1
  have h := run_only WsHolder.policy hp o evs (init WsHolder.policy) (init WsHolder.policy)
    (wf_init _) (wf_init _) rfl rfl
  have hall : ∀ f ∈ (run WsHolder.policy (only o evs)).out, f.1 = o := by
    apply out_only WsHolder.policy o (only o evs) (init WsHolder.policy)
    · intro f hf; simp [init] at hf
    · intro e he
      simp only [only, List.mem_filter] at he
      simpa using he.2
  have hself : framesOf o (run WsHolder.policy (only o evs)).out = (run WsHolder.policy (only o evs)).out := by
    simp only [framesOf]
    rw [List.filter_eq_self]
    intro f hf
    simpa using hall f hf
  unfold run at h hself ⊢
  rw [h, hself]

/-- … in particular an error one operation reports never ends another operation: an operation that reports
nothing ends with `complete`, whatever the rest of the connection reported -/
theorem ws_other_operations_errors_never_end_an_operation (evs : List Ev) (o : Nat)
    (hquiet : ∀ e ∈ evs, ∀ x, e ≠ Ev.addErr o x) (hstarted : ∃ pre post, evs = pre ++ Ev.start o :: post ∧ ∀ e ∈ pre, e.op ≠ o) :
    ∀ f ∈ framesOf o (run WsHolder.policy evs).out, f.2 = some [] := by
  rw [ws_termination_depends_on_own_operation_only]
  obtain ⟨pre, post, rfl, hpre⟩ := hstarted
  have hp := every_operation_installs_its_own_holder.1
  -- the events of `o` alone: a start, then starts and stream ends only
  have hon : only o (pre ++ Ev.start o :: post) = Ev.start o :: only o post := by
    have hpre' : only o pre = [] := by
      simp only [only, List.filter_eq_nil_iff]
      intro e he; simpa using hpre e he
    have happ : only o (pre ++ Ev.start o :: post) = only o pre ++ only o (Ev.start o :: post) := by
      simp [only, List.filter_append]
    rw [happ, hpre']
    simp [only, Ev.op]
  rw [hon]
  -- invariant: the holder of `o` is empty, every frame so far is `complete`
  have key : ∀ (l : List Ev) (s : St), WF s → held s o = some [] → (∀ f ∈ s.out, f.2 = some []) →
      (∀ e ∈ l, e.op = o ∧ ∀ x, e ≠ Ev.addErr o x) → ∀ f ∈ (runFrom WsHolder.policy s l).out, f.2 = some [] := by
    intro l
    induction l with
    | nil => intro s _ _ h _; simpa [runFrom] using h
    | cons e l ih =>
      intro s hs hh ho hl
      obtain ⟨ws, _, hs', outs⟩ := step_always WsHolder.policy hp s hs e
      have heo := (hl e (List.mem_cons_self ..)).1
      simp only [runFrom, List.foldl_cons]
      apply ih _ ws
      · rw [← heo, hs']
        cases e with
        | start _ => rfl
        | addErr o' x =>
          simp only [Ev.op] at heo; subst heo
          exact absurd rfl ((hl _ (List.mem_cons_self ..)).2 x)
        | finish _ => simp only [Ev.op] at heo ⊢; subst heo; exact hh
      · rw [outs]
        cases e with
        | start _ => exact ho
        | addErr _ _ => exact ho
        | finish o' =>
          simp only [Ev.op] at heo; subst heo
          intro f hf
          rcases List.mem_append.mp hf with hf | hf
          · exact ho f hf
          · simp only [List.mem_singleton] at hf; subst hf; exact hh
      · intro e' he'; exact hl e' (List.mem_cons_of_mem _ he')
  obtain ⟨w0, _, h0, out0⟩ := step_always WsHolder.policy hp (init WsHolder.policy) (wf_init _) (Ev.start o)
  have := key (only o post) (step WsHolder.policy (init WsHolder.policy) (Ev.start o)) w0 h0
    (by rw [out0]; intro f hf; simp [init] at hf)
    (by
      intro e he
      simp only [only, List.mem_filter] at he
      refine ⟨by simpa using he.2, fun x hx => ?_⟩
      exact hquiet e (by simp [he.1]) x hx)
  simpa [run, runFrom] using this

/-- the hypotheses are met and the run is not trivial: operation 0 reports while 1 runs, 1 ends with `complete`,
0 with its own error -/
example : (run WsHolder.policy [.start 0, .start 1, .addErr 0 "gone", .finish 1, .finish 0]).out
    = [(1, some []), (0, some ["gone"])] := by decide

/-- **the theorem really rests on the regenerated policy**: a holder on the connection context that `subscribe`
keeps when it finds one is shared by all operations of the connection and never emptied - operation 1, which
reports nothing, ends with operation 0's error … -/
theorem shared_holder_leaks_witness :
    (run ⟨true, .ifAbsent⟩ [.start 0, .addErr 0 "gone", .finish 0, .start 1, .finish 1]).out
      = [(0, some ["gone"]), (1, some ["gone"])] ∧
    (run ⟨true, .ifAbsent⟩ (only 1 [.start 0, .addErr 0 "gone", .finish 0, .start 1, .finish 1])).out
      = [(1, some [])] := by decide

/-- … while either half of that change alone is harmless: a connection holder that every operation overrides, or
a conditional install that never finds one -/
theorem either_half_alone_is_harmless_witness :
    (run ⟨true, .always⟩ [.start 0, .addErr 0 "gone", .finish 0, .start 1, .finish 1]).out
      = [(0, some ["gone"]), (1, some [])] ∧
    (run ⟨false, .ifAbsent⟩ [.start 0, .addErr 0 "gone", .finish 0, .start 1, .finish 1]).out
      = [(0, some ["gone"]), (1, some [])] := by decide

end F

/-! ## G. Introspection never writes the schema it describes -/
section G
open GqlgenVerif.IntroHeap

/-- `(*Type).OfType` clears `NonNull` on a COPY of the schema's type node -/
theorem of_type_unwraps_a_copy : IntroStores.ofTypeUnwrap = Unwrap.copy := by decide

/-- every store of package introspection goes into a value / slice / map the function made itself -/
theorem no_store_reaches_the_schema : ∀ s ∈ IntroStores.stores, s.2.2 = Root.own := by decide

/-- no append / copy / delete / clear / sort of the package works on anything but such a container -/
theorem no_mutating_call_on_the_schema : IntroStores.mutatingCallsOnShared = [] := by decide

/-- **Whatever introspection requests were served, the schema's type nodes are what they were.** For the `OfType`
as regenerated from the source, for ALL heaps `h0` (any schema) and ALL sequences of `ofType` resolutions (any
requests, any nodes - the schema's or nodes earlier resolutions made -, any order): every node of the schema is
unchanged … -/
theorem introspection_leaves_the_schema_unchanged (h0 : Heap) (calls : List Nat) (a : Nat) (ha : a < h0.length) :
    (walk IntroStores.ofTypeUnwrap h0 calls)[a]? = h0[a]? := by
  rw [of_type_unwraps_a_copy]
  obtain ⟨t, ht⟩ := walk_copy_prefix calls h0
  rw [ht, List.getElem?_append_left ha]

/-- … so what a later request is told about (and validated against) a type position does not depend on the
introspection requests served before it -/
theorem type_kind_is_history_independent (h0 : Heap) (calls : List Nat) (a : Nat) (ha : a < h0.length) :
    kind (walk IntroStores.ofTypeUnwrap h0 calls) a = kind h0 a := by
  simp only [kind, introspection_leaves_the_schema_unchanged h0 calls a ha]

/-- non-vacuity: `[Int!]!` as three nodes; resolving `ofType` all the way down allocates, the schema stays -/
example : walk .copy [⟨true, some 1, ""⟩, ⟨true, none, "Int"⟩] [0, 2, 1] =
    [⟨true, some 1, ""⟩, ⟨true, none, "Int"⟩, ⟨false, some 1, ""⟩, ⟨false, none, "Int"⟩] ∧
    kind [⟨true, some 1, ""⟩, ⟨true, none, "Int"⟩] 0 = "NON_NULL" := by decide

/-- **the theorem really rests on the regenerated arm**: clear `NonNull` on the schema's own node (`cpy := t.typ`)
and after one request that resolved `ofType` of an `Int!` position that position is `Int` for every later request -/
theorem alias_unwrap_rewrites_the_schema_witness :
    kind [⟨true, none, "Int"⟩] 0 = "NON_NULL" ∧ kind (walk .alias [⟨true, none, "Int"⟩] [0]) 0 = "Int" := by decide

end G
end GqlgenVerif.C07
