import GqlgenVerif.Lemmas.Pipeline
import GqlgenVerif.Lemmas.PipelineCache
import GqlgenVerif.Model.PipelineGuards
import GqlgenVerif.Gen.ParseGuards
/-!
# C03, round 4: the cache key is the query text; every error of the parser is a refusal

Theorems over the regenerated facts of `Gen/ParseGuards.lean` (`go/extract/parseguards.go`), see
`Model/PipelineGuards.lean`. Together with `Props/C03.lean` (`run_satisfies_spec` holds for every
`World` and every lawful cache) they extend "nothing executes unless the operation passed every gate" to
* a query cache whose implementation derives the stored key from the text (lawful iff the derivation is
  injective; the witness shows a collapsing key executing a text that does not parse), and
* an executor with `SetParserTokenLimit`: a text over the limit is refused before validation and nothing
  runs (the witness shows what the branch shape before /repo 8553b25 did).
-/
namespace GqlgenVerif.Props.C03Guards
open GqlgenVerif GqlgenVerif.Pipeline GqlgenVerif.Pipeline.Guards GqlgenVerif.Apq

variable {σ : Type}

/-! ## regenerated facts -/

/-- `parseQuery` looks up, parses and stores one and the same variable, and every cache of the code base
passes its key parameter unchanged to its store (`NoCache` ignores it). -/
theorem gen_cache_key_is_the_query_text :
    Gen.ParseGuards.keyFacts = modelKeyFacts := by decide

/-- the `if err != nil` after the parser call returns `nil, <errors>` on every path -/
theorem gen_every_parser_error_is_refused :
    Gen.ParseGuards.errBranch = .always := by decide

/-- the parser is called with the field the two setters write; unset = 0 = gqlparser's "no limit" -/
theorem gen_token_limit_wiring :
    Gen.ParseGuards.limitWiring = modelLimitWiring := by decide

/-! ## cache keys -/

/-- a cache that uses the key as it is, is the cache -/
theorem keyed_id (C : CacheImpl σ Doc Nat) : keyed id C = C := rfl

/-- **keyed_injective_lawful.** Filing entries under an injective function of the text keeps a lawful
cache lawful (w.r.t. the view through that function). -/
theorem keyed_injective_lawful (f : Nat → Nat) (hf : ∀ a b, f a = f b → a = b)
    {C : CacheImpl σ Doc Nat} {view : σ → Nat → Option Doc} (law : Lawful C view) :
    Lawful (keyed f C) (fun s k => view s (f k)) where
  get_val := fun s k v h => law.get_val s (f k) v h
  get_mono := fun s k k' v h => law.get_mono s (f k) (f k') v h
  add_law := fun s k v k' v' h => by
    rcases law.add_law s (f k) v (f k') v' h with ⟨hk, hv⟩ | ⟨hk, hv⟩
    · exact Or.inl ⟨hf _ _ hk, hv⟩
    · exact Or.inr ⟨fun e => hk (by rw [e]), hv⟩

/-- non-vacuity: the identity is injective, and so is any renaming of texts -/
example : ∀ a b : Nat, (fun k => 2 * k + 1) a = (fun k => 2 * k + 1) b → a = b := by
  intro a b h; simp only at h; omega

/-- **keyed_run_satisfies_spec.** With an injective key function the pipeline still satisfies the Spec
and accepts exactly the requests that pass every gate. -/
theorem keyed_run_satisfies_spec (W : World) (f : Nat → Nat) (hf : ∀ a b, f a = f b → a = b)
    {C : CacheImpl σ Doc Nat} {view : σ → Nat → Option Doc} (law : Lawful C view)
    (cfg : Cfg) (s : St σ) (r : Req)
    (hinv : Inv W (fun s k => view s (f k)) s.cache) (hc : Complete s.rules) :
    Spec.ok W cfg.exts r (run W (keyed f C) cfg s r).1.log (run W (keyed f C) cfg s r).1.resps = true ∧
    ((run W (keyed f C) cfg s r).1.gate = none ↔ (Spec.accepts W cfg.exts r).isSome = true) :=
  let h := run_spec W (keyed_injective_lawful f hf law) cfg s r hinv hc
  ⟨h.1, h.2.1⟩

/-- **Why the key must not identify texts** (the shape of a cache that collapses white space in its
keys): text 0 (`{ name # c⏎}`) is a valid document, text 1 (`{ name # c }`) does not parse, and the
cache files both under one key. On a cold cache text 1 is refused; once text 0 was served, text 1 hits
its entry, is accepted and executed (operation and field interceptors, `Exec`, directive, resolver,
data answer) — the Spec rejects that observation. With the identity key the same history is fine.
Holds for the map and for the LRU (any capacity ≥ 1; here 2). -/
theorem collapsed_key_executes_unparsed_witness :
    let good : Doc := { id := 0, ops := [⟨"", false, [0]⟩], nField := 0, nOther := 0, sugg := false }
    let W : World := { parse := fun k => if k = 0 then some good else none }
    let f : Nat → Nat := fun k => if k = 1 then 0 else k
    let cfg : Cfg := { exts := [{ id := 0, op := true, field := true }] }
    let cold (g : Nat → Nat) := (run W (keyed g lruCache) cfg ⟨lruEmpty 2, initRules⟩ { q := 1 }).1
    let warm (g : Nat → Nat) :=
      (run W (keyed g lruCache) cfg (run W (keyed g lruCache) cfg ⟨lruEmpty 2, initRules⟩ { q := 0 }).2 { q := 1 }).1
    let warmMap (g : Nat → Nat) :=
      (run W (keyed g mapCache) cfg (run W (keyed g mapCache) cfg ⟨mapEmpty, initRules⟩ { q := 0 }).2 { q := 1 }).1
    f 0 = f 1 ∧
    (cold f).gate = some .parse ∧
    (warm f).gate = none ∧ (warm f).log.any (·.isExecution) = true ∧
    Spec.ok W cfg.exts { q := 1 } (warm f).log (warm f).resps = false ∧
    (warmMap f).gate = none ∧ Spec.ok W cfg.exts { q := 1 } (warmMap f).log (warmMap f).resps = false ∧
    (warm id).gate = some .parse ∧ Spec.ok W cfg.exts { q := 1 } (warm id).log (warm id).resps = true := by
  decide

/-! ## the parser's errors and the token limit -/

/-- with the regenerated branch shape the pipeline sees exactly the property's "parses under the limit" -/
theorem gen_impl_world_is_withLimit (W : World) (ntok : Nat → Nat) (trunc : Nat → Option Doc) (limit : Nat) :
    implWorld Gen.ParseGuards.errBranch W ntok trunc limit = W.withLimit ntok limit := by
  rw [gen_every_parser_error_is_refused]
  unfold implWorld World.withLimit parserResult
  congr 1
  funext q
  by_cases h : overLimit limit (ntok q) = true
  · simp [h, afterErrBranch]
  · simp only [h]
    cases hp : W.parse q <;> simp [afterErrBranch]

/-- a text over the limit passes no gate, whatever else is true of the request -/
theorem over_limit_not_accepted (W : World) (ntok : Nat → Nat) (limit : Nat) (exts : List Ext) (r : Req)
    (hover : overLimit limit (ntok (Spec.finalQuery r exts r.q)) = true) :
    Spec.accepts (W.withLimit ntok limit) exts r = none := by
  unfold Spec.accepts
  split
  · rfl
  · simp [World.withLimit, hover]

/-- **over_limit_is_refused.** An executor with `SetParserTokenLimit(limit)` (stated over the regenerated
error branch), any lawful cache, any state reachable with that limit: a request whose final query text
needs more tokens than the limit is refused — `CreateOperationContext` returns errors, no operation /
root-field / field interceptor, no `Exec`, no directive and no resolver runs, every answer is errors-only
— and the cache still holds only validated documents that fit the limit. -/
theorem over_limit_is_refused (W : World) (ntok : Nat → Nat) (trunc : Nat → Option Doc) (limit : Nat)
    {C : CacheImpl σ Doc Nat} {view : σ → Nat → Option Doc} (law : Lawful C view)
    (cfg : Cfg) (s : St σ) (r : Req)
    (hinv : Inv (W.withLimit ntok limit) view s.cache) (hc : Complete s.rules)
    (hover : overLimit limit (ntok (Spec.finalQuery r cfg.exts r.q)) = true) :
    let o := run (implWorld Gen.ParseGuards.errBranch W ntok trunc limit) C cfg s r
    o.1.gate ≠ none ∧ o.1.log.all (fun e => !e.isExecution) = true ∧
    o.1.resps.all Spec.errorsOnly = true ∧ Inv (W.withLimit ntok limit) view o.2.cache := by
  rw [gen_impl_world_is_withLimit]
  have h := run_spec (W.withLimit ntok limit) law cfg s r hinv hc
  have hacc := over_limit_not_accepted W ntok limit cfg.exts r hover
  refine ⟨?_, ?_, ?_, h.2.2.1⟩
  · intro hg
    have := h.2.1.mp hg
    rw [hacc] at this
    simp at this
  · have h1 := h.1
    unfold Spec.ok at h1
    rw [hacc] at h1
    simp only [Bool.and_eq_true] at h1
    exact h1.1.1
  · have h1 := h.1
    unfold Spec.ok at h1
    rw [hacc] at h1
    simp only [Bool.and_eq_true] at h1
    exact h1.1.2

/-- non-vacuity: limit 3, a text of 5 tokens -/
example : overLimit 3 ((fun _ => 5) (Spec.finalQuery { q := 0 } [] 0)) = true := by decide

/-- a cache entry that fits the limit is never over it: the limit gate and the cache cannot disagree -/
theorem cached_fits_limit (W : World) (ntok : Nat → Nat) (limit : Nat)
    {view : σ → Nat → Option Doc} (c : σ) (hinv : Inv (W.withLimit ntok limit) view c)
    (k : Nat) (d : Doc) (h : view c k = some d) : overLimit limit (ntok k) = false := by
  have := (hinv k d h).1
  unfold World.withLimit at this
  simp only at this
  by_cases ho : overLimit limit (ntok k) = true
  · simp [ho] at this
  · simpa using ho

/-- **Why every error must be refused** (the branch shape before /repo 8553b25: only a
`*gqlerror.Error` returned): limit 3, text 0 = `{ name nope_unknown }` needs 5 tokens, its prefix that
fits parses to the valid document `{ name }`. The request is accepted and the prefix executed, which
the Spec (no document under the limit) rejects; with the `always` shape it is refused. -/
theorem plain_error_fallthrough_executes_witness :
    let pre : Doc := { id := 0, ops := [⟨"", false, [0]⟩], nField := 0, nOther := 0, sugg := false }
    let full : Doc := { id := 0, ops := [⟨"", false, [0, 0]⟩], nField := 1, nOther := 0, sugg := false }
    let W : World := { parse := fun _ => some full }
    let ntok : Nat → Nat := fun _ => 5
    let trunc : Nat → Option Doc := fun _ => some pre
    let cfg : Cfg := { exts := [{ id := 0, op := true, field := true }] }
    let o (b : ErrBranch) := (run (implWorld b W ntok trunc 3) lruCache cfg ⟨lruEmpty 2, initRules⟩ { q := 0 }).1
    (o .onlyGqlError).gate = none ∧ (o .onlyGqlError).log.any (·.isExecution) = true ∧
    Spec.ok (W.withLimit ntok 3) cfg.exts { q := 0 } (o .onlyGqlError).log (o .onlyGqlError).resps = false ∧
    (o .always).gate = some .parse ∧
    Spec.ok (W.withLimit ntok 3) cfg.exts { q := 0 } (o .always).log (o .always).resps = true ∧
    -- without a limit the full text is judged: refused by validation under either shape
    (run (implWorld .onlyGqlError W ntok trunc 0) lruCache cfg ⟨lruEmpty 2, initRules⟩ { q := 0 }).1.gate
      = some .validation := by
  decide

end GqlgenVerif.Props.C03Guards
