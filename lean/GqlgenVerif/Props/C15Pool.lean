import GqlgenVerif.Model.ApqPool
import GqlgenVerif.Gen.PostPool
/-!
# C15 — two requests in flight never share the `RawParams` the APQ extension reads and writes

C15 speaks about histories of requests; on a server they overlap. `Apq.step` (and every theorem of
`Props/C15.lean`) describes what ONE request does to ITS `rawParams`. That is a statement about the real
server only if the transport gives every request in flight its own object. `POST.Do` recycles the objects
through a `sync.Pool`; the theorems below say when that is safe (for every interleaving of any number of
requests, whatever `sync.Pool` chooses to hand out or drop) and that the source, as regenerated on this run,
is of that form on every return path.
-/
namespace GqlgenVerif.Props.C15Pool
open GqlgenVerif.ApqPool

/-- the invariant: every allocated object has at most one reference in total (pool + holders) -/
def Inv (s : St) : Prop := ∀ o, s.inPool o + s.holders o ≤ 1 ∧ (s.next ≤ o → s.inPool o = 0 ∧ s.holders o = 0)

theorem inv_init : Inv init := by
  intro o; simp [init]

theorem inv_step (s s' : St) (a : Act) (hd : a.isDisciplined = true) (hi : Inv s) (hs : step s a = some s') :
    Inv s' := by
  intro o
  have h := hi o
  cases a with
  | getNew =>
    simp [step] at hs; subst hs
    have hn := hi s.next
    simp [bump]
    by_cases ho : o = s.next
    · subst ho; simp; omega
    · simp [ho]; omega
  | getPooled p =>
    simp [step] at hs
    obtain ⟨hp, rfl⟩ := hs
    simp [bump, drop]
    by_cases ho : o = p
    · subst ho; simp; omega
    · simp [ho]; omega
  | put p =>
    simp [step] at hs
    obtain ⟨hp, rfl⟩ := hs
    simp [bump, drop]
    by_cases ho : o = p
    · subst ho; simp; omega
    · simp [ho]; omega
  | putKeep p => simp [Act.isDisciplined] at hd

theorem inv_run (acts : List Act) : ∀ (s s' : St), (∀ a ∈ acts, a.isDisciplined = true) → Inv s →
    run s acts = some s' → Inv s' := by
  induction acts with
  | nil => intro s s' _ hi hr; simp [run] at hr; subst hr; exact hi
  | cons a as ih =>
    intro s s' hd hi hr
    simp only [run] at hr
    cases hst : step s a with
    | none => simp [hst] at hr
    | some s1 =>
      simp [hst] at hr
      exact ih s1 s' (fun b hb => hd b (List.mem_cons_of_mem a hb))
        (inv_step s s1 a (hd a (List.mem_cons_self)) hi hst) hr

/-- **Exclusive ownership.** Whatever the interleaving of `Get`s and disciplined `Put`s of any number of
requests, and whichever object `sync.Pool` hands out or forgets, no object is ever held by two requests in
flight, and no object a request holds is at the same time on offer in the pool. -/
theorem pool_exclusive (acts : List Act) (s : St) (hd : ∀ a ∈ acts, a.isDisciplined = true)
    (hr : run init acts = some s) (o : Nat) :
    s.holders o ≤ 1 ∧ (s.holders o = 1 → s.inPool o = 0) := by
  have h := (inv_run acts init s hd inv_init hr o).1
  omega

/-- a disciplined path contributes only disciplined actions -/
theorem disciplined_path_acts (o : Nat) (p : List Ev) (h : disciplined p = true) :
    ∀ a ∈ actsOfPath o p, a.isDisciplined = true := by
  have tail : ∀ q : List Ev, disciplinedTail q = true → ∀ a ∈ actsOfPath o q, a.isDisciplined = true := by
    intro q
    induction q with
    | nil => intro h; simp [disciplinedTail] at h
    | cons e r ih =>
      intro h a ha
      cases e with
      | get => simp [disciplinedTail] at h
      | use => simp [disciplinedTail] at h; simp [actsOfPath] at ha; exact ih h a ha
      | put =>
        cases r with
        | nil => simp [actsOfPath] at ha; subst ha; rfl
        | cons e' r' => simp [disciplinedTail] at h
  cases p with
  | nil => simp [disciplined] at h
  | cons e r =>
    cases e with
    | get => simp [disciplined] at h; intro a ha; simp [actsOfPath] at ha; exact tail r h a ha
    | use => simp [disciplined] at h
    | put => simp [disciplined] at h

-- non-vacuity: a disciplined run in which the pool really recycles an object between two requests
example : (run init [.getNew, .put 0, .getPooled 0, .getNew, .put 1, .put 0]).isSome = true := by decide

/-- **Why the discipline is needed** (negation on a concrete witness): one path that `Put`s the object it got
twice — an early `Put` on an error path plus the deferred one — and afterwards two requests in flight hold the
same object: the second one's decode overwrites the `Query` / `Extensions` the first one's APQ step reads. -/
theorem double_put_shares_witness :
    actsOfPath 0 [.get, .use, .put, .use, .put] = [.putKeep 0, .put 0] ∧
    ∃ s, run init ([.getNew] ++ actsOfPath 0 [.get, .use, .put, .use, .put] ++ [.getPooled 0, .getPooled 0]) = some s ∧
      s.holders 0 = 2 := by
  refine ⟨by decide, ?_⟩
  refine ⟨_, rfl, ?_⟩
  decide

/-- **The source today** (regenerated on every run from package `graphql/handler/transport`): every function
that takes an object from a package-level `sync.Pool` is `get use* put` on EVERY return path (deferred calls
placed where they run), there is at least one such function (`POST.Do`), and no `Get`/`Put` call sits anywhere
the path enumeration does not see. With `disciplined_path_acts` and `pool_exclusive`: no two requests in flight
share a `RawParams`. -/
theorem gen_pool_paths_disciplined :
    GqlgenVerif.Gen.PostPool.funcs.all (fun f => !f.2.isEmpty && f.2.all disciplined) = true ∧
    (GqlgenVerif.Gen.PostPool.funcs.map (·.1)).contains "POST.Do" = true ∧
    GqlgenVerif.Gen.PostPool.stray = 0 := by
  decide

end GqlgenVerif.Props.C15Pool
