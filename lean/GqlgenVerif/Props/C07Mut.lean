import GqlgenVerif.Model.ExtMap
import GqlgenVerif.Gen.EscGlobals
/-!
# C07, part K — what gqlgen hands to user code to write into belongs to one request (round 7)

Property theorems only (model: `Model/ExtMap.lean`). `Gen/EscGlobals.lean` is regenerated on every run from the
packages a request passes through: the package-level variables of map / slice / pointer type and every place where
one is returned, stored into a literal or assigned (handed out as an object). An object handed out from a
package-level variable is one object for the process: a response middleware's `resp.Extensions["k"] = v` made for
one request would be serialised into every later response.
-/
namespace GqlgenVerif.C07
open GqlgenVerif GqlgenVerif.ExtMap

section K

/-- the package-level objects that may be handed out: `graphql.Null` (a `*lit` whose only field is unexported and
    whose interface, `Marshaler`, offers no way to write) -/
def acceptedEscapes : List (String × String) := [("graphql", "Null")]

/-- regenerated: no package-level map / slice / pointer is handed out, except the accepted ones -/
theorem no_mutable_global_is_handed_out :
    Gen.EscGlobals.escapes.all (fun e => acceptedEscapes.contains (e.1, e.2.1)) = true := by decide

/-- regenerated: in particular no package-level MAP or SLICE is handed out at all -/
theorem no_global_map_or_slice_is_handed_out :
    Gen.EscGlobals.escapes.all (fun e => e.2.2.1 == "pointer") = true := by decide

/-- regenerated: `graphql.GetExtensions` makes the map it returns -/
theorem get_extensions_allocates : policyOf Gen.EscGlobals.escapes = .fresh := by decide

/-- with a map per response, for ALL sequences of requests of a process and whatever the package-level state:
    every response carries exactly its own request's write -/
theorem fresh_extensions_are_own (g : Global) (rs : List Req) : run .fresh g rs = spec rs := by
  induction rs generalizing g with
  | nil => rfl
  | cons r rs ih => simp [run, serve, spec, ih] at *

/-- the same for the regenerated source -/
theorem extensions_depend_on_own_request_only (g : Global) (rs : List Req) :
    run (policyOf Gen.EscGlobals.escapes) g rs = spec rs := by
  rw [get_extensions_allocates]; exact fresh_extensions_are_own g rs

/-- a response's extensions do not depend on the requests before it -/
theorem extensions_history_independent (g g' : Global) (before before' : List Req) (r : Req) :
    (run (policyOf Gen.EscGlobals.escapes) g (before ++ [r])).getLast? =
    (run (policyOf Gen.EscGlobals.escapes) g' (before' ++ [r])).getLast? := by
  simp [extensions_depend_on_own_request_only, spec]

/-- change13's semantics: one package-level map - the second request, which writes nothing, carries the first one's value -/
theorem shared_extensions_map_leaks_witness :
    run .shared none [some "alice-7", none] = [some "alice-7", some "alice-7"] ∧
    run .shared none [some "alice-7", none] ≠ spec [some "alice-7", none] := by decide

/-- ... and a single request, or the same request twice, shows nothing -/
theorem shared_extensions_map_is_silent_on_repeats_witness :
    run .shared none [some "a"] = spec [some "a"] ∧ run .shared none [some "a", some "a"] = spec [some "a", some "a"] ∧
    run .shared none [none, none] = spec [none, none] := by decide

/-- a source that returns a package-level map from GetExtensions is classified `shared` -/
example : policyOf [("graphql", "noExtensions", "map", "GetExtensions", "return")] = .shared := by decide

end K
end GqlgenVerif.C07
