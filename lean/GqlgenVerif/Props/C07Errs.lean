import GqlgenVerif.Lemmas.ErrHeap
import GqlgenVerif.Gen.ErrValues
/-!
# C07, part H — failure outcomes do not carry anything from one request to another

Property theorems only (model: `Model/ErrHeap.lean`; helper lemmas in `Lemmas/ErrHeap.lean`).

A request whose resolver panics is answered with an error object that the library annotates for THAT request
(`ErrorOnPath` stores the response path of the failing field - only where none is set yet). `Gen/ErrValues.lean` is
regenerated from `graphql/recovery.go`, `graphql/error.go` and the packages a response's errors come from on every
run: where the error `DefaultRecover` / `DefaultErrorPresenter` return comes from (allocated by the call, or a
package-level variable), what `ErrorOnPath` stores into the error it is given and under which guard, and every
package-level variable that holds a `*gqlerror.Error`. The theorem is stated over the regenerated facts and
quantifies over all histories AND schedules (any interleaving of the failures and responses of any requests) - of
the whole PROCESS: the heap of error objects is not per server.
-/
namespace GqlgenVerif.C07
open GqlgenVerif GqlgenVerif.Gen

/-! ## H. Every failure is reported by an error object of its own -/
section H
open GqlgenVerif.ErrHeap

/-- every `return` of `graphql.DefaultRecover` evaluates a constructor: a new error object per recovered panic -/
theorem default_recover_allocates_per_panic :
    ErrValues.defaultRecoverReturns ≠ [] ∧ ErrValues.defaultRecoverReturns.all Source.isFresh = true := by decide

/-- `graphql.DefaultErrorPresenter` hands on the error it was given (or the `*gqlerror.Error` inside it), or makes a
new one - never a value that outlives the request -/
theorem default_presenter_hands_on_or_allocates : ErrValues.defaultPresenterReturns.all Source.isOwn = true := by decide

/-- the one thing `ErrorOnPath` stores into the error it is given is a path where none is set yet - which is why
an object that was annotated once keeps its first path for good -/
theorem error_on_path_only_fills_a_missing_path : ErrValues.errorOnPathWrites = [("Path", Guard.ifNil)] := by decide

/-- no package of the request path keeps a `*gqlerror.Error` / `gqlerror.List` in a package-level variable -/
theorem no_package_level_gqlerror : ErrValues.pkgLevelGqlErrors = [] := by decide

/-- **Whatever failed before or fails beside it, a response lists the request's own failures at their own paths.**
For the recover func and the `ErrorOnPath` guard as regenerated from the source, for ALL lists of events - resolver
panics of any requests at any response paths, panics that reach the server-level recover, responses being built;
in any order, i.e. every history and every interleaving of requests in flight, on any servers of the process -:
every response carries exactly the paths at which resolvers of ITS request failed, in order, and the server-level
recover reports no path. -/
theorem failures_report_their_own_paths (s : Source) (hs : s ∈ ErrValues.defaultRecoverReturns) (evs : List Ev) :
    run s ErrValues.errorOnPathGuard evs = spec evs := by
  have hf : s.isFresh = true := List.all_eq_true.mp default_recover_allocates_per_panic.2 s hs
  have hg : ErrValues.errorOnPathGuard.fills = true := by decide
  cases s with
  | fresh c => exact runFrom_fresh c _ hg evs _ _ (inv_init c)
  | shared v => simp [Source.isFresh] at hf
  | arg => simp [Source.isFresh] at hf
  | nilv => simp [Source.isFresh] at hf
  | other w => simp [Source.isFresh] at hf

/-- the same for any recover func that allocates and either guard that fills a missing path (custom recover funcs
of the `rf-gql` kind in the harness) -/
theorem allocating_recover_reports_own_paths (c : String) (g : Guard) (hg : g.fills = true) (evs : List Ev) :
    run (.fresh c) g evs = spec evs := runFrom_fresh c g hg evs _ _ (inv_init c)

/-- … in particular the second of two consecutive requests that fail at different places reports its own place,
and what is reported for a request does not depend on the events of other requests at all -/
theorem response_paths_depend_on_own_failures_only (s : Source) (hs : s ∈ ErrValues.defaultRecoverReturns)
    (before₁ before₂ : List Ev) (r : Nat) (h : own r before₁ = own r before₂) :
    (run s ErrValues.errorOnPathGuard (before₁ ++ [.respond r])).getLast? =
    (run s ErrValues.errorOnPathGuard (before₂ ++ [.respond r])).getLast? := by
  rw [failures_report_their_own_paths s hs, failures_report_their_own_paths s hs, spec, spec, specFrom_getLast, specFrom_getLast]
  simp [h]

/-- non-vacuity: two requests fail at different places one after the other, a third one's panic reaches the
server-level recover; every response has its own paths -/
example : run (.fresh "gqlerror.Errorf") .ifNil
      [.fieldPanic 1 ["a"], .respond 1, .fieldPanic 2 ["nodes", "2", "fail"], .fieldPanic 2 ["b"], .serverPanic 3, .respond 2] =
    [(1, [["a"]]), (3, [[]]), (2, [["nodes", "2", "fail"], ["b"]])] := by decide

/-- **the theorem really rests on the regenerated source**: let the recover func return ONE package-level value and
the path of the first recovered panic of the process sticks - the second request (any server, any transport) is
answered with the first request's path, and even the server-level recover, which has no path, reports it -/
theorem shared_error_value_remembers_first_path_witness :
    run (.shared "errInternalSystemError") .ifNil [.fieldPanic 1 ["a"], .respond 1, .fieldPanic 2 ["b"], .respond 2, .serverPanic 3] =
      [(1, [["a"]]), (2, [["a"]]), (3, [["a"]])] ∧
    spec [.fieldPanic 1 ["a"], .respond 1, .fieldPanic 2 ["b"], .respond 2, .serverPanic 3] =
      [(1, [["a"]]), (2, [["b"]]), (3, [[]])] := by decide

/-- a single request, or the same request again, shows nothing: the shared value needs two failures at DIFFERENT
paths (why every test that sends one failing request passes) -/
theorem shared_error_value_is_silent_on_repeats_witness :
    run (.shared "e") .ifNil [.fieldPanic 1 ["a"], .respond 1, .fieldPanic 2 ["a"], .respond 2] =
    spec [.fieldPanic 1 ["a"], .respond 1, .fieldPanic 2 ["a"], .respond 2] := by decide

/-- it is the source, not the guard: with an unconditional store a shared value is right in sequential histories
and wrong for requests in flight beside each other -/
theorem shared_error_value_with_unconditional_store_witness :
    run (.shared "e") .always [.fieldPanic 1 ["a"], .respond 1, .fieldPanic 2 ["b"], .respond 2] =
      spec [.fieldPanic 1 ["a"], .respond 1, .fieldPanic 2 ["b"], .respond 2] ∧
    run (.shared "e") .always [.fieldPanic 1 ["a"], .fieldPanic 2 ["b"], .respond 1] = [(1, [["b"]])] := by decide

end H
end GqlgenVerif.C07
