import GqlgenVerif.Lemmas.Apq
import GqlgenVerif.Gen.ApqProg
/-!
# C15 — the regenerated source of `MutateOperationParameters` is the model `Apq.step`

`Gen/ApqProg.lean` is re-translated from /repo's graphql/handler/extension/apq.go on every run. The
theorem below is re-checked against it, so the history theorems of `Props/C15.lean` (stated over `step`)
are theorems about the function body as it stands in the source; an edit that changes the decision
tree (dropping or weakening the hash comparison, registering before comparing, looking the hash up when
a text is present, another version number, …) makes this proof fail.
-/
namespace GqlgenVerif.Props.C15Gen
open GqlgenVerif.Apq

set_option linter.unusedSimpArgs false

variable {σ Text Hash : Type} [DecidableEq Hash]

/-- For every request, cache implementation, cache state and hash function, the regenerated body
computes exactly `step`: same outcome, same cache calls in the same order, same final state. -/
theorem gen_prog_is_step (H : Text → Hash) (H0 h0 : Hash) (C : CacheImpl σ Text Hash) (s : σ) (r : Req Text Hash) :
    runProg H H0 h0 C GqlgenVerif.Gen.ApqProg.prog s r = some (step H C s r) := by
  obtain ⟨q, e⟩ := r
  cases e with
  | absent => simp [runProg, GqlgenVerif.Gen.ApqProg.prog, interp, evalCond, step_absent]
  | malformed =>
    simp [runProg, GqlgenVerif.Gen.ApqProg.prog, interp, evalCond, step_malformed, classify]
  | decoded v h =>
    by_cases hv : v = 1
    · subst hv
      cases q with
      | none =>
        cases hg : (C.get s h).1 with
        | none =>
          rw [step_miss H C s h hg]
          simp [runProg, GqlgenVerif.Gen.ApqProg.prog, interp, evalCond, extVersion, extSha, classify, hg]
        | some t =>
          rw [step_hit H C s h t hg]
          simp [runProg, GqlgenVerif.Gen.ApqProg.prog, interp, evalCond, extVersion, extSha, classify, hg]
      | some t =>
        by_cases hh : H t = h
        · rw [step_register H C s h t hh]
          simp [runProg, GqlgenVerif.Gen.ApqProg.prog, interp, evalCond, extVersion, extSha, classify, hh]
        · rw [step_mismatch H C s h t hh]
          simp [runProg, GqlgenVerif.Gen.ApqProg.prog, interp, evalCond, extVersion, extSha, classify, hh]
    · rw [step_badVersion H C s q v h hv]
      simp [runProg, GqlgenVerif.Gen.ApqProg.prog, interp, evalCond, extVersion, classify, hv]

/-- The regenerated body never reaches `Cache.Add` with an empty `rawParams.Query` (it never registers `hash ↦ ""`,
in particular not on a lookup miss) and never returns an error the classification does not know: `interp` is
defined (`some`) on every request, cache and state. -/
theorem gen_never_registers_empty_text (H : Text → Hash) (H0 h0 : Hash) (C : CacheImpl σ Text Hash) (s : σ)
    (r : Req Text Hash) : (runProg H H0 h0 C GqlgenVerif.Gen.ApqProg.prog s r).isSome = true := by
  rw [gen_prog_is_step]; rfl

/-- A hash-only request makes the regenerated body call `Cache.Get` exactly once and `Cache.Add` never; answered
PersistedQueryNotFound, the cache is in the state that `Get` left (nothing was written back). -/
theorem gen_hash_only_registers_nothing (H : Text → Hash) (H0 h0 : Hash) (C : CacheImpl σ Text Hash) (s : σ)
    (v : Int) (h : Hash) (x : StepRes σ Text Hash)
    (hx : runProg H H0 h0 C GqlgenVerif.Gen.ApqProg.prog s ⟨none, .decoded v h⟩ = some x) :
    addsOf x.ops = [] ∧ (x.out = .notFound → x.state = (C.get s h).2 ∧ x.ops = [.get h none]) := by
  rw [gen_prog_is_step] at hx
  injection hx with hx
  subst hx
  by_cases hv : v = 1
  · subst hv
    cases hg : (C.get s h).1 with
    | none => rw [step_miss H C s h hg]; simp [addsOf]
    | some t => rw [step_hit H C s h t hg]; simp [addsOf]
  · rw [step_badVersion H C s none v h hv]; simp [addsOf]

/-- why `interp` must not treat `Add` with an empty query as "no call": a body that writes the looked-up entry back
BEFORE the `!ok` guard has no meaning in the model on a miss (it registers the empty text) -/
example : runProg (fun t : Nat => t % 10) 0 0 mapCache
    (.ite .queryEmpty (.get (.add (.ite .cacheMiss (.ret (.err "PersistedQueryNotFound" (some "PERSISTED_QUERY_NOT_FOUND")))
      (.ret .pass)))) (.ret .pass)) mapEmpty ⟨none, .decoded 1 3⟩ = none := by decide

-- non-vacuity: the regenerated body run on a registration followed by a lookup, against MapCache
example : (runProg (fun t : Nat => t % 10) 0 0 mapCache GqlgenVerif.Gen.ApqProg.prog mapEmpty
    ⟨some 13, .decoded 1 3⟩).map (·.out) = some (.run (some 13)) := by decide

/-! The source facts the hand-written models rely on, pinned to the text they were written against. -/

/-- the extension key and the mapstructure tags/types of the decoded struct -/
theorem gen_extension_decoding_pinned :
    GqlgenVerif.Gen.ApqProg.extKey = "persistedQuery" ∧
    GqlgenVerif.Gen.ApqProg.shaField = "mapstructure:\"sha256Hash\" string" ∧
    GqlgenVerif.Gen.ApqProg.versionField = "mapstructure:\"version\" int64" := by
  decide

/-- `computeQueryHash` is the lower-case hex of the SHA-256 of the query bytes (what the harness sends as
the correct hash, and what `H` is instantiated with in the driver) -/
theorem gen_hash_is_sha256_hex :
    GqlgenVerif.Gen.ApqProg.hashBody = "b := sha256.Sum256([]byte(query)); return hex.EncodeToString(b[:])" := by
  decide

/-- `lru.LRU` is plain delegation to hashicorp's `lru.Cache` `Get` / `Add` (modelled by `lruCache`) -/
theorem gen_lru_delegates :
    GqlgenVerif.Gen.ApqProg.lruNew = "cache, err := lru.New[string, T](size)" ∧
    GqlgenVerif.Gen.ApqProg.lruGet = "return l.lru.Get(key)" ∧
    GqlgenVerif.Gen.ApqProg.lruAdd = "l.lru.Add(key, value)" := by
  decide

/-- `MapCache` is a Go map read and written directly (modelled by `mapCache`) -/
theorem gen_mapcache_is_go_map :
    GqlgenVerif.Gen.ApqProg.mapCacheGet = "v, ok := m[key]; return v, ok" ∧
    GqlgenVerif.Gen.ApqProg.mapCacheAdd = "m[key] = value" := by
  decide

/-- `NoCache` never finds anything and stores nothing (modelled by `noCache`) -/
theorem gen_nocache_is_empty :
    GqlgenVerif.Gen.ApqProg.noCacheGet = "var val T; return val, false" ∧
    GqlgenVerif.Gen.ApqProg.noCacheAdd = "" := by
  decide

end GqlgenVerif.Props.C15Gen
