import GqlgenVerif.Lemmas.UploadForm
import GqlgenVerif.Gen.AddUploadGuards
import GqlgenVerif.Gen.DecodeSites
/-!
# C10 — malformed client input never reaches gqlgen's own panic path

All theorems quantify over **all** variable trees, **all** path strings, **all** part sequences,
configurations and file-system fault plans (no size or depth bound).

`G` and `Gen.DecodeSites.sites` are regenerated from /repo's source on every run: the theorems about
them are re-proved against what the code says now. The state machine of `MultipartForm.Do` is a
hand-written model tied to the code by the correspondence run of `checks/c10.py`.
-/
namespace GqlgenVerif.C10
open GqlgenVerif GqlgenVerif.Upload

/-- the run-time checks `RawParams.AddUpload` has today (graphql/handler.go, via go/extract) -/
abbrev G : Guards := Gen.AddUploadGuards.guards

/-! ## RawParams.AddUpload -/

/-- `add_upload_total`: for every variables tree, every path string and every upload value the walk
ends in `ok` or in an error value — never in a type-assertion, index or nil-map panic. -/
theorem add_upload_total (v : UV) (path : List Char) (up : UV) : (addUpload G v path up).isPanic = false :=
  addUpload_total G rfl rfl rfl rfl rfl v path up

/-- Totality holds **exactly** when all five checks are present: dropping any one of them from the
source re-opens a panic (so the regenerated `G` cannot silently lose one). -/
theorem add_upload_total_iff_all_guards (g : Guards) :
    (∀ v segs up, (walk g v segs up).isPanic = false) ↔ g = Guards.all := by
  constructor
  · intro h
    have a := h (.leaf []) [.idx 0] .null
    have b := h (.arr []) [.idx (-1)] .null
    have c := h (.arr []) [.idx 0] .null
    have d := h (.leaf []) [.key []] .null
    have e := h .nilmap [.key []] .null
    obtain ⟨g1, g2, g3, g4, g5⟩ := g
    cases g1 <;> cases g2 <;> cases g3 <;> cases g4 <;> cases g5 <;>
      first | rfl | (exfalso; revert a b c d e; decide)
  · intro h v segs up
    subst h
    exact walk_total _ rfl rfl rfl rfl rfl segs v up

/-- the code before commit 64f0014 (bare `ptr.([]any)[index]`, `ptr.(map[string]any)[p]`): the
reproduced defects, kept as witnesses. `{"a":[null,null],"s":"x"}` with `variables.a.5`,
`variables.a.-1`, `variables.s.x`; and absent variables with `variables.file`. -/
theorem add_upload_unchecked_witness :
    (addUpload Guards.none Fixture.vars "variables.a.5".toList (.upload 0)).tag = .panic .indexRange
    ∧ (addUpload Guards.none Fixture.vars "variables.a.-1".toList (.upload 0)).tag = .panic .indexRange
    ∧ (addUpload Guards.none Fixture.vars "variables.s.x".toList (.upload 0)).tag = .panic .typeAssert
    ∧ (addUpload Guards.none Fixture.vars "variables.s.0".toList (.upload 0)).tag = .panic .typeAssert
    ∧ (addUpload Guards.none .nilmap "variables.file".toList (.upload 0)).tag = .panic .nilMapWrite := by
  decide

/-- the same inputs today: client errors -/
example :
    (addUpload G Fixture.vars "variables.a.5".toList (.upload 0)).tag = .err .badPath
    ∧ (addUpload G Fixture.vars "variables.a.-1".toList (.upload 0)).tag = .err .badPath
    ∧ (addUpload G Fixture.vars "variables.s.x".toList (.upload 0)).tag = .err .badPath
    ∧ (addUpload G .nilmap "variables.file".toList (.upload 0)).tag = .err .badPath
    ∧ (addUpload G Fixture.vars "file".toList (.upload 0)).tag = .err .noPrefix
    ∧ (addUpload G Fixture.vars "variables.zz.y".toList (.upload 0)).tag = .err .nilPtr := by
  decide

/-- `add_upload_sets_exactly_path`: a successful `AddUpload` puts the upload at the addressed
position and changes the value at no position that is not inside / above it. Holds for any guards
(it speaks of `ok` outcomes only). -/
theorem add_upload_sets_exactly_path (g : Guards) (v : UV) (path : List Char) (up v' : UV)
    (h : addUpload g v path up = .ok v') :
    ∃ segs, parsePath path = some segs ∧ lookup v' segs = some up ∧
      ∀ q, Indep segs q → lookup v' q = lookup v q := by
  obtain ⟨segs, hs, hne, hw⟩ := addUpload_ok h
  obtain ⟨h1, h2⟩ := walk_ok_frame g segs v up v' hne hw
  exact ⟨segs, hs, h1, fun q hq => h2 q hq.1 hq.2⟩

/-- non-vacuity: a success exists, and index spellings `+1` / `01` address the same element -/
example :
    (addUpload G (.obj [("files".toList, .arr [.null, .null])]) "variables.files.+1".toList (.upload 7)).isOk = true
    ∧ parsePath "variables.files.01".toList = some [.key "files".toList, .idx 1]
    ∧ parsePath "variables.files.9223372036854775808".toList = some [.key "files".toList, .key "9223372036854775808".toList] := by
  decide

/-! ## request envelopes -/

/-- `null_body_is_client_error`: at every site where a transport decodes a request envelope, no
body class (null / object / undecodable) leads to a panic, and where the target is a pointer the
JSON value `null` is answered on the transport's decode-error path. -/
theorem null_body_is_client_error :
    (∀ s ∈ Gen.DecodeSites.sites, ∀ b, envelope s b ≠ .panic)
    ∧ (∀ s ∈ Gen.DecodeSites.sites, s.target ≠ .value → envelope s .null = .clientError) := by
  have h : (∀ s ∈ Gen.DecodeSites.sites, ∀ b ∈ BodyClass.all, envelope s b ≠ .panic)
      ∧ (∀ s ∈ Gen.DecodeSites.sites, s.target ≠ .value → envelope s .null = .clientError) := by decide
  exact ⟨fun s hs b => h.1 s hs b (BodyClass.mem_all b), h.2⟩

/-- the five pointer-target decode sites of the design are all still covered by the extractor -/
theorem decode_sites_cover :
    ∀ n ∈ ["post", "sse", "mixed", "urlencoded", "ws", "form"], n ∈ Gen.DecodeSites.sites.map (·.name) := by
  decide

/-- the code before commit ff49996 (`jsonDecode(r, &params)` with `params *RawParams`, no nil check) -/
theorem null_body_unchecked_witness : envelope ⟨"post", .pointer false⟩ .null = .panic := by
  decide

/-! ## MultipartForm.Do -/

/-- with today's guards no request makes `Do` take the exit through `Server.ServeHTTP`'s recover -/
theorem upload_form_never_panics (req : Req) : (run G req).exit.isPanic = false := by
  have := body_noPanic G (addUpload_total G rfl rfl rfl rfl rfl) req
  simpa [run] using this

/-- before 64f0014 a single mapped path did it: `{"0":["variables.a.5"]}` over `{"a":[null]}` -/
theorem upload_form_unchecked_witness :
    (run Guards.none Fixture.badIndexReq).exit = .panicked .indexRange := by
  decide

/-- today the same request is a client error -/
example : (run G Fixture.badIndexReq).exit = .addUpload .badPath := by decide

/-- `tempfiles_removed_on_every_exit`: whatever the request, the configuration and the failures of
CreateTemp / Close / Open, after the deferred calls no spill file exists and no handle is open. -/
theorem tempfiles_removed_on_every_exit (g : Guards) (req : Req) :
    (run g req).final.live = [] ∧ (run g req).final.openH = [] := by
  have := runDefers_clean (body g req).1 (body_acct g req).tidy
  simpa [run] using this

/-- `size_limit_enforced` (1): a declared length above MaxUploadSize is refused before anything is
read, stored or created. -/
theorem size_limit_enforced_declared (g : Guards) (req : Req) (h : req.contentLength > req.cfg.maxUp) :
    (run g req).exit = .tooLarge ∧ (run g req).during.off = 0 ∧ (run g req).during.mem = 0
      ∧ (run g req).during.disk = 0 ∧ (run g req).during.creates = 0 ∧ (run g req).during.readers = [] := by
  simp [run, body, h]

/-- `size_limit_enforced` (2): on every run, declared length or not, the bytes kept for uploads (in
memory and on disk) are at most the bytes read, which are at most MaxUploadSize. -/
theorem size_limit_enforced (g : Guards) (req : Req) :
    (run g req).during.mem + (run g req).during.disk ≤ (run g req).during.off
      ∧ (run g req).during.off ≤ req.cfg.budget := by
  have h := body_acct g req
  exact ⟨by simpa [run] using h.stored, by simpa [run] using h.budget⟩

/-- `size_limit_enforced` (3): MaxMemory decides where uploads go — bytes are held in memory only
when the declared length is below MaxMemory, and spilled only otherwise. (An unknown length, -1,
counts as below: then everything up to MaxUploadSize is held in memory.) -/
theorem max_memory_decides (g : Guards) (req : Req) :
    (0 < (run g req).during.mem → req.contentLength < req.cfg.maxMem)
      ∧ (0 < (run g req).during.disk → ¬ req.contentLength < req.cfg.maxMem) := by
  have h := body_acct g req
  exact ⟨by simpa [run] using h.memOnly, by simpa [run] using h.diskOnly⟩

/-- `every_path_gets_own_reader`: when the request reaches the executor, (1) the readers have
pairwise different identities (`0,1,2,…` in creation order — one reader per mapped path, never a
shared one), (2) the variables user code sees are exactly the decoded variables with the uploads
placed one after the other, (3) every path of every entry of the `map` field has a reader created
for it, (4) each reader serves the part whose form name is the map key, (5) a reader is an
in-memory one iff the declared length is below MaxMemory, otherwise it is a handle on a spill file
that exists while user code runs; and nothing of the map is left over. -/
theorem every_path_gets_own_reader (g : Guards) (req : Req) (h : (run g req).exit = .exec) :
    ∃ vars0 m, req.ops = .ok vars0 ∧ req.map = .ok m ∧
      let st := (run g req).during
      st.readers.reverse.map (·.id) = List.range st.readers.length
      ∧ applyPaths g vars0 (assignments st) = some st.vars
      ∧ (∀ k ps, assocGet m k = some ps → ∀ path ∈ ps, ∃ r ∈ st.readers, r.key = k ∧ r.path = path)
      ∧ (∀ r ∈ st.readers, ∃ p, req.parts[r.part]? = some p ∧ p.name = r.key)
      ∧ (∀ r ∈ st.readers, (r.file = none ↔ req.contentLength < req.cfg.maxMem) ∧ ∀ f, r.file = some f → f ∈ st.live)
      ∧ st.pending = [] := by
  have he : body g req = ((run g req).during, .exec) := by
    have : (run g req).exit = (body g req).2 := rfl
    rw [this] at h
    show body g req = ((body g req).1, Exit.exec)
    rw [← h]
  obtain ⟨vars0, m, ho, hm, s0, sc, sp⟩ := body_exec g req _ he
  refine ⟨vars0, m, ho, hm, ?_, s0.applied, ?_, s0.named, s0.kind, sp⟩
  · rw [List.map_reverse, s0.ids, List.reverse_reverse]
  · intro k ps hk
    rcases sc k ps hk with hl | hr
    · rw [sp] at hl; cases hl
    · exact hr

/-- `delivered_at_every_path`: for a well-formed upload — the mapped positions pairwise not inside
one another — every mapped path holds, in the variables user code sees, the upload of its own
reader. -/
theorem delivered_at_every_path (g : Guards) (req : Req) (h : (run g req).exit = .exec)
    (hind : (assignments (run g req).during).Pairwise
      (fun a b => ∀ sa sb, parsePath a.1 = some sa → parsePath b.1 = some sb → Indep sa sb)) :
    ∀ r ∈ (run g req).during.readers, ∃ segs, parsePath r.path = some segs ∧
      lookup (run g req).during.vars segs = some (.upload r.id) := by
  obtain ⟨vars0, m, _, _, _, happ, _⟩ := every_path_gets_own_reader g req h
  intro r hr
  have hmem : (r.path, r.id) ∈ assignments (run g req).during := by
    unfold assignments
    exact List.mem_map.mpr ⟨r, List.mem_reverse.mpr hr, rfl⟩
  exact applyPaths_lookup g _ vars0 _ happ hind (r.path, r.id) hmem

/-- non-vacuity of the hypotheses above: one file mapped to two variables, spilled to disk; the run
reaches the executor with two distinct file readers on one spill file, both positions filled, and
the file is removed afterwards. -/
example :
    (run G Fixture.twoPathsSpillReq).exit = .exec
    ∧ (run G Fixture.twoPathsSpillReq).during.readers.map (fun r => (r.id, r.part, r.file)) = [(1, 2, some 0), (0, 2, some 0)]
    ∧ (run G Fixture.twoPathsSpillReq).during.live = [0] ∧ (run G Fixture.twoPathsSpillReq).final.live = []
    ∧ (lookup (run G Fixture.twoPathsSpillReq).during.vars [.key "b".toList]).bind UV.uploadId? = some 1
    ∧ (lookup (run G Fixture.twoPathsSpillReq).during.vars [.key "file".toList]).bind UV.uploadId? = some 0 := by
  decide

/-- non-vacuity of `size_limit_enforced_declared` and of the budget: a 363-byte request against
MaxUploadSize 300 is refused when it declares its length; chunked (length unknown) it fails while
reading. -/
example :
    (run G (Fixture.limitedReq 363)).exit = .tooLarge ∧ (run G (Fixture.limitedReq (-1))).exit = .partError := by
  decide

end GqlgenVerif.C10
