import GqlgenVerif.Model.PkgName
/-!
# C17 — the package name derived for a generated file is a valid Go package name (project-layout dimension)

`package:` is optional in the exec / model / resolver sections of gqlgen.yml; gqlgen then derives the name from the
output directory (`code.NameForDir`). C17 demands that generation succeeds and the result compiles for every
accepted configuration, so the derived name must be usable in a package clause WHATEVER the directory is called
(`graph-api`, `my.pkg`, `1st`, `type`) and WHATEVER state it is in (absent, empty, holding only the schema, holding Go
files). The theorems are stated over the definitions regenerated from `internal/code/imports.go` /
`internal/code/util.go` / `codegen/config/*.go` (`Gen/PkgNameRules.lean`): when one of NameForDir's returns stops
sanitising, when the repair guard of SanitizePackageName loses a case, or when a section stops calling NameForDir,
they stop closing.
-/
namespace GqlgenVerif.Props.C17Pkg
open GqlgenVerif GqlgenVerif.Naming GqlgenVerif.PkgName GqlgenVerif.Gen

/-! ## the regenerated facts are the ones the model understands -/

/-- the replaced class is `\W`, replaced by `_`; Go files are recognised by a case-insensitive `.go` suffix -/
theorem pkg_rules_expected :
    PkgNameRules.invalidCharRegex = "\\W" ∧ PkgNameRules.replacement = [95] ∧
    PkgNameRules.goSuffix = str ".go" ∧ PkgNameRules.suffixLowered = true := by decide

/-- every section with an omitted `package:` derives it with NameForDir of its own directory -/
theorem every_section_derives_with_nameForDir :
    PkgNameRules.derivedPackage.map (·.1) = ["exec", "model", "resolver"] ∧
    ∀ p ∈ PkgNameRules.derivedPackage, p.2 = "nameForDir(Dir)" := by decide

/-- the repair guard of SanitizePackageName covers the three ways a word can fail to be a package name -/
theorem sanitize_guard_covers (e : Bool) :
    PkgNameRules.sanitizeGuard true false false e = true ∧ PkgNameRules.sanitizeGuard false true false e = true ∧
    PkgNameRules.sanitizeGuard false false true e = true ∧ PkgNameRules.sanitizeGuard false false false e = false := by
  cases e <;> decide

/-- the repaired name starts with an underscore and keeps the word -/
theorem guardFix_prepends_underscore (n : Name) : PkgNameRules.guardFix n = 95 :: n := rfl

/-! ## SanitizePackageName -/

theorem replaceNonWord_all_ident (n : Name) : (replaceNonWord n).all isIdentChar = true := by
  induction n with
  | nil => rfl
  | cons c r ih =>
    simp only [replaceNonWord, List.flatMap_cons, List.all_append] at ih ⊢
    rw [Bool.and_eq_true]
    refine ⟨?_, ih⟩
    by_cases h : isNonWord c = true
    · simp [h, PkgNameRules.replacement, isIdentChar]
    · have : isIdentChar c = true := by simpa [isNonWord] using h
      simp [h, this]

theorem replaceNonWord_ne_nil (n : Name) (h : n ≠ []) : replaceNonWord n ≠ [] := by
  cases n with
  | nil => exact absurd rfl h
  | cons c r =>
    simp only [replaceNonWord, List.flatMap_cons]
    by_cases hc : isNonWord c = true <;> simp [hc, PkgNameRules.replacement]

theorem keywords_start_with_a_letter : ∀ k ∈ goKeywords, k.head? ≠ some 95 := by decide

/-- a word (identifier characters only, not empty) that does not start with a digit is an identifier -/
theorem word_validIdent (s : Name) (hne : s ≠ []) (hall : s.all isIdentChar = true) (hd : startsWithDigit s = false) :
    validIdent s = true := by
  cases s with
  | nil => exact absurd rfl hne
  | cons c r =>
    simp only [List.all_cons, Bool.and_eq_true] at hall
    simp only [startsWithDigit] at hd
    simp only [validIdent, Bool.and_eq_true]
    refine ⟨?_, hall.2⟩
    have h1 := hall.1
    simp only [isIdentChar, Bool.or_eq_true] at h1
    rcases h1 with (h1 | h1) | h1
    · simp [h1]
    · simp [hd] at h1
    · simp [h1]

/-- **for every non-empty base name** (any code points: hyphens, dots, blanks, leading digits, keywords, non-ASCII)
`SanitizePackageName` returns a name that can stand in a package clause. `filepath.Base` never returns the empty
string (`""` ↦ `"."`), which is the hypothesis. -/
theorem sanitizePkg_valid (base : Name) (h : base ≠ []) : validPkgName (sanitizePkg base) = true := by
  have hall := replaceNonWord_all_ident base
  have hne := replaceNonWord_ne_nil base h
  unfold sanitizePkg
  generalize replaceNonWord base = s at hall hne
  simp only
  by_cases hb : s = [95]
  · subst hb; decide
  by_cases hk : goKeywords.contains s = true
  · -- a keyword: repaired to `_keyword`
    have hg : PkgNameRules.sanitizeGuard (s == [95]) (goKeywords.contains s) (startsWithDigit s) (s == []) = true := by
      have hkm : s ∈ goKeywords := by simpa using hk
      simp [PkgNameRules.sanitizeGuard, hkm]
    rw [if_pos hg, guardFix_prepends_underscore]
    simp only [validPkgName, validIdent, Bool.and_eq_true, Bool.not_eq_true', bne_iff_ne, ne_eq]
    refine ⟨⟨by simpa using hall, ?_⟩, ?_⟩
    · cases hc : goKeywords.contains (95 :: s) with
      | false => rfl
      | true =>
        have hm : (95 :: s) ∈ goKeywords := by simpa using hc
        exact absurd rfl (keywords_start_with_a_letter _ hm)
    · simpa using hne
  by_cases hd : startsWithDigit s = true
  · have hg : PkgNameRules.sanitizeGuard (s == [95]) (goKeywords.contains s) (startsWithDigit s) (s == []) = true := by
      simp [PkgNameRules.sanitizeGuard, hd]
    rw [if_pos hg, guardFix_prepends_underscore]
    simp only [validPkgName, validIdent, Bool.and_eq_true, Bool.not_eq_true', bne_iff_ne, ne_eq]
    refine ⟨⟨by simpa using hall, ?_⟩, ?_⟩
    · cases hc : goKeywords.contains (95 :: s) with
      | false => rfl
      | true =>
        have hm : (95 :: s) ∈ goKeywords := by simpa using hc
        exact absurd rfl (keywords_start_with_a_letter _ hm)
    · simpa using hne
  · have hk' : goKeywords.contains s = false := by simpa using hk
    have hd' : startsWithDigit s = false := by simpa using hd
    have hg : PkgNameRules.sanitizeGuard (s == [95]) (goKeywords.contains s) (startsWithDigit s) (s == []) = false := by
      have hkm : ¬ s ∈ goKeywords := by simpa using hk'
      simp [PkgNameRules.sanitizeGuard, hkm, hd', hb]
    rw [hg]
    simp only [Bool.false_eq_true, if_false, validPkgName, Bool.and_eq_true, Bool.not_eq_true', bne_iff_ne, ne_eq]
    exact ⟨⟨word_validIdent s hne hall hd', hk'⟩, hb⟩

/-- a directory whose name already is a package name keeps it (existing projects see no change) -/
theorem sanitizePkg_id_on_valid (base : Name) (h : validPkgName base = true) : sanitizePkg base = base := by
  simp only [validPkgName, Bool.and_eq_true, Bool.not_eq_true', bne_iff_ne, ne_eq] at h
  obtain ⟨⟨hv, hk⟩, hb⟩ := h
  have hall : base.all isIdentChar = true := by
    cases base with
    | nil => simp [validIdent] at hv
    | cons c r =>
      simp only [validIdent, Bool.and_eq_true] at hv
      simp only [List.all_cons, Bool.and_eq_true]
      refine ⟨?_, hv.2⟩
      have := hv.1
      simp only [Bool.or_eq_true] at this
      rcases this with h1 | h1 <;> simp [isIdentChar, h1]
  have hrep : replaceNonWord base = base := by
    clear hv hk hb
    induction base with
    | nil => rfl
    | cons c r ih =>
      simp only [List.all_cons, Bool.and_eq_true] at hall
      simp only [replaceNonWord, List.flatMap_cons] at ih ⊢
      rw [ih hall.2]
      simp [isNonWord, hall.1]
  have hd : startsWithDigit base = false := by
    cases base with
    | nil => rfl
    | cons c r =>
      simp only [validIdent, Bool.and_eq_true, Bool.or_eq_true] at hv
      simp only [startsWithDigit]
      rcases hv.1 with h1 | h1
      · simp only [isLetter, isLower, isUpper, Bool.or_eq_true, Bool.and_eq_true, decide_eq_true_eq] at h1
        simp only [isDigit, Bool.and_eq_false_iff, decide_eq_false_iff_not]
        omega
      · have : c = 95 := by simpa using h1
        subst this; decide
  unfold sanitizePkg
  simp only [hrep]
  have hg : PkgNameRules.sanitizeGuard (base == [95]) (goKeywords.contains base) (startsWithDigit base) (base == []) = false := by
    have hkm : ¬ base ∈ goKeywords := by simpa using hk
    simp [PkgNameRules.sanitizeGuard, hkm, hd, hb]
  rw [hg]; rfl

/-! ## NameForDir -/

/-- Go files that are already in the directory decide: the generated files join THEIR package -/
theorem nameForDir_keeps_existing_package (base c : Name) (es : List Entry) (h : firstClause es = some c) :
    nameForDir base (.entries es) = c := by
  simp [nameForDir, h, PkgNameRules.retPackageClause]

/-- **whatever the directory is called and whatever state it is in** - `filepath.Abs` fails, the directory does not
exist yet, it exists and is empty, it exists and holds only files that are not Go files (the schema), or Go files
none of which parses - the derived name can stand in a package clause -/
theorem nameForDir_valid_when_derived (base : Name) (h : base ≠ []) (d : Dir) (hd : readsClause d = false) :
    validPkgName (nameForDir base d) = true := by
  cases d with
  | absFails => exact sanitizePkg_valid base h
  | unreadable => exact sanitizePkg_valid base h
  | entries es =>
    have : firstClause es = none := by simpa [readsClause] using hd
    simp only [nameForDir, this]
    exact sanitizePkg_valid base h

/-- the derived name does not depend on the state of a directory without Go files: the FIRST generation into an
existing directory names the package as a generation into a fresh directory does -/
theorem nameForDir_state_independent (base : Name) (d d' : Dir) (hd : readsClause d = false) (hd' : readsClause d' = false) :
    nameForDir base d = nameForDir base d' := by
  have key : ∀ x : Dir, readsClause x = false → nameForDir base x = sanitizePkg base := by
    intro x hx
    cases x with
    | absFails => rfl
    | unreadable => rfl
    | entries es =>
      have : firstClause es = none := by simpa [readsClause] using hx
      simp only [nameForDir, this]; rfl
  rw [key d hd, key d' hd']

/-- what `Check()` leaves in a section's `Package` is a package name for every directory name and state, given that
a configured name and the package clauses of Go files already present are package names (the user's own input) -/
theorem sectionPackage_valid (how : String) (hhow : how ∈ PkgNameRules.derivedPackage.map (·.2))
    (configured base : Name) (d : Dir) (hbase : base ≠ [])
    (hcfg : configured ≠ [] → validPkgName configured = true)
    (hclause : ∀ es c, d = .entries es → firstClause es = some c → validPkgName c = true) :
    validPkgName (sectionPackage how configured base d) = true := by
  have hh : how = "nameForDir(Dir)" := by
    have := every_section_derives_with_nameForDir.2
    simp only [List.mem_map] at hhow
    obtain ⟨p, hp, rfl⟩ := hhow
    exact this p hp
  subst hh
  unfold sectionPackage
  by_cases hc : configured = []
  · subst hc
    simp only [bne_self_eq_false, Bool.false_eq_true, if_false]
    cases hr : readsClause d with
    | false => exact nameForDir_valid_when_derived base hbase d hr
    | true =>
      cases d with
      | absFails => simp [readsClause] at hr
      | unreadable => simp [readsClause] at hr
      | entries es =>
        simp only [readsClause, Option.isSome_iff_exists] at hr
        obtain ⟨c, hc⟩ := hr
        rw [nameForDir_keeps_existing_package base c es hc]
        exact hclause es c rfl hc
  · have : (configured != []) = true := by simpa using hc
    simp only [this, if_true]
    exact hcfg hc

/-! ## non-vacuity and the named shapes -/
example : sanitizePkg (str "graph-api") = str "graph_api" := by decide
example : sanitizePkg (str "my.pkg") = str "my_pkg" := by decide
example : sanitizePkg (str "1st") = str "_1st" := by decide
example : sanitizePkg (str "type") = str "_type" := by decide
example : sanitizePkg (str "-") = str "__" := by decide
example : sanitizePkg (str "Graph") = str "Graph" := by decide
example : validPkgName (str "graph-api") = false := by decide
/-- a directory that exists and holds only the schema (the state of the seeded change C17-change6) -/
example : nameForDir (str "graph-api") (.entries [⟨str "schema.graphqls", none⟩]) = str "graph_api" := by decide
example : readsClause (.entries [⟨str "schema.graphqls", none⟩, ⟨str "x.go", none⟩]) = false := by decide
example : nameForDir (str "graph-api") (.entries [⟨str "a.txt", some (str "no")⟩, ⟨str "doc.GO", some (str "custompkg")⟩]) = str "custompkg" := by decide
example : ∃ how, how ∈ PkgNameRules.derivedPackage.map (·.2) := ⟨"nameForDir(Dir)", by decide⟩

end GqlgenVerif.Props.C17Pkg
