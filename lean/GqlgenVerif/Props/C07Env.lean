import GqlgenVerif.Model.EnvDecode
import GqlgenVerif.Gen.EnvDecode
import GqlgenVerif.Model.LruKeys
import GqlgenVerif.Gen.LruKeys
/-!
# C07, part I — the request envelope never writes what outlives the operation (round 6)

Property theorems only (model: `Model/EnvDecode.lean`). `Gen/EnvDecode.lean` is regenerated from package
`graphql/handler/transport` on every run: for every function that builds or decodes a `*graphql.RawParams`, the
source order of "declared nil / built from a literal with Headers from … / Headers assigned from … / payload decoded".
`RawParams.Headers` is a JSON member (`json:"headers"`) and `encoding/json` MERGES an object into a map that is already
there - so decoding while `Headers` points at the websocket connection's header map lets one operation's payload write
into what every later operation of the connection sees.
-/
namespace GqlgenVerif.C07
open GqlgenVerif GqlgenVerif.EnvDecode

section I

/-- regenerated: in every function of package transport, no payload is decoded while the envelope's `Headers` points
    at a map that outlives the operation (a field of the receiver, or anything of unknown origin) -/
theorem no_envelope_decoded_into_long_lived_headers :
    Gen.EnvDecode.programs.all (fun p => safeFrom false p.2) = true := by decide

/-- regenerated: `(*wsConnection).subscribe` is one of them -/
theorem ws_subscribe_is_safe : safeFrom false Gen.EnvDecode.wsSubscribe = true := by decide

theorem step_ref_shared (payload : Option Hdr) (s : St) (h : Src) :
    ((step payload s (.initLit h)).ref == Ref.conn) = shares h ∧ ((step payload s (.assign h)).ref == Ref.conn) = shares h := by
  simp [step, shares]

theorem safe_program_aux (payload : Option Hdr) (prog : List Step) :
    ∀ (s : St) (sh : Bool), (s.ref == Ref.conn) = sh → safeFrom sh prog = true → (run payload prog s).conn = s.conn := by
  induction prog with
  | nil => intro s sh _ _; rfl
  | cons st r ih =>
    intro s sh hs h
    cases st with
    | initNil =>
      have := ih (step payload s .initNil) false (by simp [step]) (by simpa [safeFrom] using h)
      simpa [run, step] using this
    | initLit src =>
      have := ih (step payload s (.initLit src)) (shares src) (step_ref_shared payload s src).1 (by simpa [safeFrom] using h)
      simpa [run, step] using this
    | assign src =>
      have := ih (step payload s (.assign src)) (shares src) (step_ref_shared payload s src).2 (by simpa [safeFrom] using h)
      simpa [run, step] using this
    | decode =>
      simp only [safeFrom, Bool.and_eq_true, Bool.not_eq_true'] at h
      obtain ⟨hsh, hr⟩ := h
      subst hsh
      cases payload with
      | none =>
        have := ih s false hs hr
        simpa [run, step] using this
      | some hd =>
        cases href : s.ref with
        | conn => rw [href] at hs; exact absurd hs (by decide)
        | none =>
          have := ih (step (some hd) s .decode) false (by simp [step, href]) hr
          simpa [run, step, href] using this
        | req =>
          have := ih (step (some hd) s .decode) false (by simp [step, href]) hr
          simpa [run, step, href] using this
        | own =>
          have := ih (step (some hd) s .decode) false (by simp [step, href]) hr
          simpa [run, step, href] using this

/-- for ALL programs that pass the syntactic check, all connection / request header maps and all payloads: the map
    that outlives the operation is never written -/
theorem safe_program_never_writes_long_lived (prog : List Step) (h : safeFrom false prog = true)
    (conn : Hdr) (payload : Option Hdr) : (runOp prog conn payload).1 = conn := by
  simpa [runOp] using safe_program_aux payload prog ⟨conn, [], [], .none⟩ false rfl h

/-- the regenerated `subscribe`: whatever the connection's headers and whatever `headers` member the payload
    carries, the connection's map is unchanged and the operation sees exactly the connection's headers -/
theorem ws_operation_headers_are_the_connections (conn : Hdr) (payload : Option Hdr) :
    runOp Gen.EnvDecode.wsSubscribe conn payload = (conn, conn) := by
  cases payload <;> rfl

/-- ... hence for ALL sequences of operations on one connection, with any `headers` members in their payloads, every
    operation sees the headers of the upgrade request - nothing of an earlier operation's payload -/
theorem ws_headers_independent_of_earlier_operations (conn : Hdr) (payloads : List (Option Hdr)) :
    ∀ h ∈ runConn Gen.EnvDecode.wsSubscribe conn payloads, h = conn := by
  induction payloads with
  | nil => intro h hm; simp [runConn] at hm
  | cons p ps ih =>
    intro h hm
    simp only [runConn, ws_operation_headers_are_the_connections, List.mem_cons] at hm
    rcases hm with rfl | hm
    · rfl
    · exact ih h hm

example : runConn Gen.EnvDecode.wsSubscribe [("Origin", ["o"])] [some [("X-Tenant", ["acme"])], none]
    = [[("Origin", ["o"])], [("Origin", ["o"])]] := by decide

/-- seeded change12's order (`&RawParams{Headers: c.headers}` before the decode, no assignment after it): the
    syntactic check fails and the second operation of a connection sees the first one's `headers` member -/
theorem shared_headers_before_decode_leaks_witness :
    safeFrom false [.initLit (.longLived "c.headers"), .decode] = false ∧
    runConn [.initLit (.longLived "c.headers"), .decode] [] [some [("X-Tenant", ["acme"])], none]
      = [[("X-Tenant", ["acme"])], [("X-Tenant", ["acme"])]] := by decide

end I

/-! ## J. The shipped cache returns what was added under exactly the key it is asked for

`lru.LRU` backs the persisted-query registry AND the query-document cache (key = raw query text). GraphQL is case
sensitive: a wrapper that folds its keys answers a request from the document of another request's text. -/
section J
open GqlgenVerif.LruKeys

/-- regenerated: `LRU.Get` and `LRU.Add` hand their own `key` parameter, unchanged, to the underlying cache -/
theorem lru_passes_keys_verbatim :
    Gen.LruKeys.keyUses.length = 2 ∧ Gen.LruKeys.keyUses.all (fun u => u.2 == KeyUse.verbatim) = true := by decide

/-- for ANY key function: a hit returns a value that is in the store under the TRANSFORMED key -/
theorem hit_returns_entry_of_transformed_key {α : Type} (f : String → String) (s : List (String × α)) (k : String) (v : α)
    (h : getS f s k = some v) : (f k, v) ∈ s := by
  simp only [getS, Option.map_eq_some_iff] at h
  obtain ⟨e, he, hv⟩ := h
  have hm := List.mem_of_find?_eq_some he
  have hk := List.find?_some he
  simp at hk
  cases e with
  | mk a b => simp at hv hk; subst hv; subst hk; exact hm

/-- the regenerated wrapper, all stores (whatever was added and evicted), all keys: a hit on `k` returns a value that
    was added under exactly `k` - a cached document is the document of the request's own query text -/
theorem lru_hit_returns_what_was_added_under_that_key {α : Type} (f : String → String)
    (hf : keyFn Gen.LruKeys.keyUses = some f) (s : List (String × α)) (k : String) (v : α)
    (h : getS f s k = some v) : (k, v) ∈ s := by
  have : f = id := by
    have h2 : keyFn Gen.LruKeys.keyUses = some id := by unfold keyFn; rw [if_pos lru_passes_keys_verbatim.2]
    rw [h2] at hf; exact (Option.some.inj hf).symm
  subst this
  exact hit_returns_entry_of_transformed_key id s k v h

example : keyFn Gen.LruKeys.keyUses = some id := by unfold keyFn; rw [if_pos lru_passes_keys_verbatim.2]

/-- seeded change11's semantics: a key function that identifies two keys lets a hit on one return what was added
    under the other (for ALL such functions, keys and values) -/
theorem folded_keys_share_a_slot_witness {α : Type} (f : String → String) (k1 k2 : String) (hk : f k1 = f k2) (v : α) :
    getS f (addS f [] k1 v) k2 = some v := by
  simp [getS, addS, hk]

example : ∃ f : String → String, ∃ k1 k2 : String, k1 ≠ k2 ∧ f k1 = f k2 :=
  ⟨fun _ => "", "{ N: op }", "{ n: op }", by decide, rfl⟩

end J
end GqlgenVerif.C07
