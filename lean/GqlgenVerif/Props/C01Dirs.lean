import GqlgenVerif.Model.Exec
import GqlgenVerif.Model.FieldDirs
import GqlgenVerif.Gen.FieldDirFacts
/-! C01: a field's schema-directive chain. The model's `implDirectives` (what `Driver/ExecIO` puts into `FieldDef.dirs`)
    is `codegen/field.go` as it is (regenerated facts `Gen/FieldDirFacts`), and under the model's chain runner the field's
    own directives are outside the ones inherited from the definition of its return type. -/
namespace GqlgenVerif.Props.C01Dirs
open GqlgenVerif

/-- `bindField` as extracted: `f.Directives = append(dirs, f.Directives...)` - inherited in front of own. Stops closing
    when the operands are swapped (`seeded/C01-change13`). -/
theorem bindField_puts_inherited_first : Gen.FieldDirFacts.bindFieldAppend = ["inherited", "own"] := by decide

/-- the model's list is the extracted operand order applied to the two sources -/
theorem implDirectives_is_bindField (defs : List DirDef) (inh own : List String) :
    implDirectives defs inh own =
      ((Gen.FieldDirFacts.bindFieldAppend.map fun r => if r == "inherited" then inh else own).flatten).filter (runsOnFields defs) := by
  simp [implDirectives, Gen.FieldDirFacts.bindFieldAppend]

/-- the model's filter is the extracted `ImplDirectives` filter: not `SkipRuntime` (when the source has that guard) and
    one of the extracted locations -/
theorem runsOnFields_is_ImplDirectives (d : DirDef) :
    d.runsOnFields = (!(Gen.FieldDirFacts.implSkipsSkipRuntime && d.skipRuntime) &&
      d.locs.any (fun l => Gen.FieldDirFacts.implLocations.contains l)) := by
  unfold DirDef.runsOnFields
  simp only [Gen.FieldDirFacts.implSkipsSkipRuntime, Bool.true_and]
  congr 2
  funext l
  simp only [Gen.FieldDirFacts.implLocations, List.contains_cons, List.contains_nil, Bool.or_false, Bool.or_assoc]

/-- a `skip_runtime` directive (built-in, or configured so by a plugin: federation's `@shareable`, `@key`, ...) never
    runs around a field, whatever its locations -/
theorem skip_runtime_directive_never_runs (n : String) (locs : List String) (inh own : List String) :
    implDirectives [{ name := n, locs := locs, skipRuntime := true }] (n :: inh) own =
      implDirectives [{ name := n, locs := locs, skipRuntime := true }] inh own := by
  simp [implDirectives, runsOnFields, DirDef.runsOnFields]

theorem implDirectives_append (defs : List DirDef) (inh own : List String) :
    implDirectives defs inh own = implDirectives defs inh [] ++ implDirectives defs [] own := by
  simp [implDirectives]

/-- when every directive involved may run on fields, nothing is dropped and the order is inherited ++ own -/
theorem implDirectives_all (defs : List DirDef) (inh own : List String)
    (h : ∀ n ∈ inh ++ own, runsOnFields defs n = true) : implDirectives defs inh own = inh ++ own := by
  unfold implDirectives
  exact List.filter_eq_self.mpr h

/-- a directive declared only for locations `ImplDirectives` does not accept (e.g. `on INTERFACE`) never runs -/
theorem interface_only_directive_never_runs (inh own : List String) :
    implDirectives [{ name := "it", locs := ["INTERFACE"] }] ("it" :: inh) own =
      implDirectives [{ name := "it", locs := ["INTERFACE"] }] inh own := by
  simp [implDirectives, runsOnFields, DirDef.runsOnFields]

/-- the field's own directive is the OUTERMOST wrapper: when it refuses, no inherited directive is invoked and the
    refusal is the own directive's (for every oracle, path, state and inherited list) -/
theorem own_directive_refusal_hides_inherited (o : Oracle) (p : Path) (st : St) (inh : List String) (f m : String)
    (hf : o.dir p f = .err m) :
    Impl.runDirs o p (inh ++ [f]).reverse st = (.err m, st.invoked p ("directive:" ++ f)) := by
  simp [Impl.runDirs, hf]

/-- … and an inherited directive only gets to refuse after the own one has passed -/
theorem inherited_refusal_after_own_passed (o : Oracle) (p : Path) (st : St) (f t m : String)
    (hf : o.dir p f = .pass) (ht : o.dir p t = .err m) :
    Impl.runDirs o p ([t] ++ [f]).reverse st =
      (.err m, (st.invoked p ("directive:" ++ f)).invoked p ("directive:" ++ t)) := by
  simp [Impl.runDirs, hf, ht]

end GqlgenVerif.Props.C01Dirs
