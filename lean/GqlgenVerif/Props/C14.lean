import GqlgenVerif.Lemmas.Complexity
/-!
# C14 — the complexity limit is a sound gate: over-limit operations execute nothing

All theorems quantify over every schema view `S`, every custom cost function `cf` (a total function into
Go `int`s: `cf.InRange`), every variable map, every operation `op : List Sel` (any nesting of fields,
fragment spreads and inline fragments), every limit. `safeAdd` and `maxInt` are the definitions
regenerated from `/repo/complexity/complexity.go` on every run (`Gen/SafeAdd.lean`).
-/
namespace GqlgenVerif.Props.C14
open GqlgenVerif GqlgenVerif.Complexity GqlgenVerif.Gen.SafeAdd
open GqlgenVerif.Lemmas.Complexity

/-! ## arithmetic -/

/-- the regenerated constant `int(^uint(0) >> 1)` is the largest `int` -/
theorem maxInt_is_max_int64 : maxInt = Go.maxInt64 := maxInt_eq

/-- `safeAdd`, as the source says it today, for **every** pair of machine integers: the saturating sum
    of the non-negative parts (and `1` when both are negative) -/
theorem safeAdd_spec (a b : Int) (ha : Go.inInt64 a) (hb : Go.inInt64 b) :
    safeAdd a b = if a < 0 ∧ b < 0 then 1 else min maxInt (max a 0 + max b 0) :=
  Lemmas.Complexity.safeAdd_spec a b ha hb

example : Go.inInt64 maxInt ∧ Go.inInt64 (-5) := by
  rw [maxInt_eq]; unfold Go.inInt64 Go.minInt64 Go.maxInt64; omega

/-- never overflows: the result of `safeAdd` is a machine integer, and it is non-negative -/
theorem safeAdd_no_overflow (a b : Int) (ha : Go.inInt64 a) (hb : Go.inInt64 b) :
    0 ≤ safeAdd a b ∧ safeAdd a b ≤ maxInt := by
  rw [safeAdd_spec a b ha hb]
  have := maxInt_eq
  split <;> omega

/-! ## the walker computes the documented definition -/

/-- `complexity.Calculate` (machine integers, left fold with `safeAdd`) equals the documented definition:
    the unbounded sum over the selection set — each field its custom value when that is not below its
    children's cost, else one plus its children; interface fields the maximum over the implementors;
    fragments their selections — saturated at `maxInt` -/
theorem complexity_eq_definition (S : Schema) (cf : Custom) (hcf : cf.InRange) (vars : Vars) (op : List Sel) :
    calculate S cf vars op = Spec.complexity S cf vars op := by
  have h := (selsC_spec (S := S) vars hcf op).2 0 (by omega) (by rw [maxInt_eq]; omega)
  simpa [calculate, Spec.complexity] using h

example : Custom.InRange (fun _ _ _ _ => none) := by intro t f c a v h; simp at h
example : Custom.InRange (fun _ _ _ _ => some 5) := by
  intro t f c a v h
  simp only [Option.some.injEq] at h
  subst h; unfold Go.inInt64 Go.minInt64 Go.maxInt64; omega

/-- the complexity is never negative and never overflows: it is in `[0, maxInt]` -/
theorem complexity_nonneg (S : Schema) (cf : Custom) (hcf : cf.InRange) (vars : Vars) (op : List Sel) :
    0 ≤ calculate S cf vars op ∧ calculate S cf vars op ≤ maxInt := by
  rw [complexity_eq_definition S cf hcf vars op]
  exact sat_range (specSels_nonneg vars cf op)

/-- the unbounded definition is never below the computed value, and equals it whenever it fits:
    saturation only ever rounds *down to `maxInt`*, so an attacker cannot wrap the sum to a small number -/
theorem saturation_only_at_max (S : Schema) (cf : Custom) (hcf : cf.InRange) (vars : Vars) (op : List Sel) :
    calculate S cf vars op ≤ Spec.sels' S cf vars op ∧
    (Spec.sels' S cf vars op ≤ maxInt → calculate S cf vars op = Spec.sels' S cf vars op) ∧
    (maxInt ≤ Spec.sels' S cf vars op → calculate S cf vars op = maxInt) := by
  rw [complexity_eq_definition S cf hcf vars op]
  have := specSels_nonneg (S := S) vars cf op
  unfold Spec.complexity Spec.sat
  omega

/-! ## negative custom costs are ignored -/

/-- a field whose custom function returns a negative value costs exactly what it costs without a custom function -/
theorem negative_custom_ignored_field (cf : Custom) (t f : String) (child : Int) (a : Args) (c : Int)
    (h0 : 0 ≤ child) (hc : cf t f child a = some c) (hneg : c < 0) :
    fieldComplexity cf t f child a = fieldComplexity (fun _ _ _ _ => none) t f child a := by
  unfold fieldComplexity
  rw [hc]
  have : ¬ c ≥ child := by omega
  simp [this]

example : (fun _ _ _ _ => some (-3) : Custom) "T" "f" 0 [] = some (-3) ∧ (-3 : Int) < 0 := by simp

/-- for whole operations: the complexity is the one obtained after deleting every negative result of the
    custom functions (`dropNegative cf` answers "no custom function" wherever `cf` answers a negative number) -/
theorem negative_custom_ignored (S : Schema) (cf : Custom) (hcf : cf.InRange) (vars : Vars) (op : List Sel) :
    calculate S cf vars op = calculate S (dropNegative cf) vars op := by
  have hdr : (dropNegative cf).InRange := by
    intro t f c a v h
    unfold dropNegative at h
    cases hx : cf t f c a with
    | none => simp [hx] at h
    | some w =>
      rw [hx] at h
      simp only [Option.filter] at h
      split at h
      · simp only [Option.some.injEq] at h; subst h; exact hcf _ _ _ _ _ hx
      · simp at h
  rw [complexity_eq_definition S cf hcf, complexity_eq_definition S _ hdr]
  unfold Spec.complexity
  rw [specSels_congr vars (dropNegative_agree cf) op]

/-! ## adding selections never decreases the complexity -/

/-- Full statement wanted (`monotone_add_selection`):
    `∀ cf, cf.InRange → Ins a b → calculate S cf vars a ≤ calculate S cf vars b`.
    That is false for the *definition itself* (see `monotone_add_selection_witness`), so it is proved
    (1) at the top level of the operation — through any nesting of fragments — for all custom functions, and
    (2) at any depth for custom functions that are monotone in `childComplexity`. -/
theorem monotone_add_selection_top (S : Schema) (cf : Custom) (hcf : cf.InRange) (vars : Vars) {a b : List Sel}
    (h : InsTop a b) : calculate S cf vars a ≤ calculate S cf vars b := by
  rw [complexity_eq_definition S cf hcf, complexity_eq_definition S cf hcf]
  exact sat_mono (spec_mono_insTop cf vars h)

example : InsTop [Sel.spread "F" []] [Sel.spread "F" [Sel.field "Q" "x" "Int" [] []]] :=
  .inSpread "F" [] (.here _ _)

theorem monotone_add_selection_partial (S : Schema) (cf : Custom) (hcf : cf.InRange) (hm : cf.Monotone) (vars : Vars)
    {a b : List Sel} (h : Ins a b) : calculate S cf vars a ≤ calculate S cf vars b := by
  rw [complexity_eq_definition S cf hcf, complexity_eq_definition S cf hcf]
  exact sat_mono (spec_mono_ins hm vars h)

example : Custom.Monotone (fun _ _ _ _ => some 5) ∧ Custom.InRange (fun _ _ _ _ => some 5) := by
  refine ⟨?_, ?_⟩
  · intro t f a c c' v _ h; exact ⟨5, rfl, by simp only [Option.some.injEq] at h; omega⟩
  · intro t f c a v h
    simp only [Option.some.injEq] at h
    subst h; unfold Go.inInt64 Go.minInt64 Go.maxInt64; omega
example : Custom.Monotone (fun _ _ _ _ => none) := by intro t f a c c' v _ h; simp at h
example : Ins [Sel.field "Q" "me" "User" [] []] [Sel.field "Q" "me" "User" [] [Sel.field "User" "id" "ID" [] []]] :=
  .inField "Q" "me" "User" [] [] (.here _ _)

/-- any number of insertions -/
theorem monotone_add_selections_partial (S : Schema) (cf : Custom) (hcf : cf.InRange) (hm : cf.Monotone) (vars : Vars)
    {a b : List Sel} (h : InsStar a b) : calculate S cf vars a ≤ calculate S cf vars b := by
  induction h with
  | refl a => omega
  | step h1 _ ih => exact Int.le_trans (monotone_add_selection_partial S cf hcf hm vars h1) ih

example : InsStar [] [Sel.field "Q" "a" "Int" [] [], Sel.field "Q" "b" "Int" [] []] :=
  .step (.here (Sel.field "Q" "b" "Int" [] []) []) (.step (.here _ _) (.refl _))

/-! ### the hypothesis of `monotone_add_selection_partial` is needed
(DESIGN.md calls this witness `nonmonotone_custom_witness`) -/

def witnessSchema : Schema :=
  { kind := fun n => if n = "Query" ∨ n = "Item" then .object else .other, possible := fun _ => [] }
/-- `Query.items` costs `10 - childComplexity` -/
def witnessCustom : Custom := tableCustom [(("Query", "items"), .lin (-1) 10)]
def witnessA : List Sel := [.field "Query" "items" "Item" [] [.field "Item" "id" "ID" [] []]]
def witnessB : List Sel := [.field "Query" "items" "Item" [] [.field "Item" "name" "String" [] [], .field "Item" "id" "ID" [] []]]

/-- With the non-monotone custom function `10 - child`, `{ items { id } }` costs 9 and
    `{ items { name id } }` costs 8: the *documented definition itself* goes down, so this is not a defect
    of the walker; the walker agrees with the definition on both. -/
theorem monotone_add_selection_witness :
    Ins witnessA witnessB ∧
    calculate witnessSchema witnessCustom [] witnessA = 9 ∧ calculate witnessSchema witnessCustom [] witnessB = 8 ∧
    Spec.complexity witnessSchema witnessCustom [] witnessA = 9 ∧ Spec.complexity witnessSchema witnessCustom [] witnessB = 8 ∧
    ¬ calculate witnessSchema witnessCustom [] witnessA ≤ calculate witnessSchema witnessCustom [] witnessB := by
  refine ⟨.inField "Query" "items" "Item" [] [] (.here _ _), ?_, ?_, ?_, ?_, ?_⟩ <;> decide

/-! ## the gate -/

/-- `ComplexityLimit.MutateOperationContext` returns an error exactly when the complexity exceeds the limit -/
theorem gate_rejects_iff (c limit : Int) : ((gate c limit).2 = some "COMPLEXITY_LIMIT_EXCEEDED" ↔ c > limit) ∧
    ((gate c limit).2 = none ↔ c ≤ limit) ∧ (gate c limit).1 = ⟨c, limit⟩ := by
  unfold gate
  by_cases h : c > limit
  · simp [h]
  · simp [h]; omega

/-- With a limit configured (the extension anywhere among the server's operation-context mutators), an
    operation whose complexity — by the documented definition — exceeds the limit never reaches
    `ExecutableSchema.Exec` (no resolver runs) and is answered with an error; when no earlier mutator
    has already refused it, the error is `COMPLEXITY_LIMIT_EXCEEDED`. -/
theorem over_limit_runs_nothing (before after : List Mutator) (S : Schema) (cf : Custom) (hcf : cf.InRange)
    (vars : Vars) (op : List Sel) (limit : Int) (hover : Spec.complexity S cf vars op > limit) :
    (serveWithLimit before after S cf vars op limit).execCalls = 0 ∧
    (serveWithLimit before after S cf vars op limit).rejected ≠ none ∧
    ((∀ m ∈ before, m = none) →
      (serveWithLimit before after S cf vars op limit).rejected = some "COMPLEXITY_LIMIT_EXCEEDED") := by
  unfold serveWithLimit
  rw [complexity_eq_definition S cf hcf]
  have hg : (gate (Spec.complexity S cf vars op) limit).2 = some "COMPLEXITY_LIMIT_EXCEEDED" :=
    (gate_rejects_iff _ _).1.mpr hover
  rw [hg]
  induction before with
  | nil => simp [serve, createOperationContext]
  | cons m r ih =>
    cases m with
    | none =>
      have : serve ((none :: r) ++ some "COMPLEXITY_LIMIT_EXCEEDED" :: after) = serve (r ++ some "COMPLEXITY_LIMIT_EXCEEDED" :: after) := by
        simp [serve, createOperationContext]
      rw [this]
      refine ⟨ih.1, ih.2.1, ?_⟩
      intro hall
      exact ih.2.2 (fun m hm => hall m (List.mem_cons_of_mem _ hm))
    | some e =>
      refine ⟨by simp [serve, createOperationContext], by simp [serve, createOperationContext], ?_⟩
      intro hall
      have := hall (some e) (by simp)
      simp at this

example : Spec.complexity witnessSchema witnessCustom [] witnessA > 8 := by decide

/-- no overflow bypass: if the *unbounded* cost of an operation exceeds the limit, nothing runs — for every
    limit below `maxInt` (a limit of exactly `maxInt` rejects nothing at all, see `extreme_limits`: the
    saturated value cannot exceed it) -/
theorem over_limit_unbounded_runs_nothing (before after : List Mutator) (S : Schema) (cf : Custom) (hcf : cf.InRange)
    (vars : Vars) (op : List Sel) (limit : Int) (hl : limit < maxInt) (hover : Spec.sels' S cf vars op > limit) :
    (serveWithLimit before after S cf vars op limit).execCalls = 0 :=
  (over_limit_runs_nothing before after S cf hcf vars op limit (by unfold Spec.complexity Spec.sat; rw [Int.min_def]; split <;> omega)).1

example : (8 : Int) < maxInt ∧ Spec.sels' witnessSchema witnessCustom [] witnessA > 8 := by decide

/-- an operation at or below the limit is not rejected for complexity: the extension returns no error and
    the server behaves exactly as without it; with no other mutator `Exec` runs (once) -/
theorem at_limit_not_rejected (before after : List Mutator) (S : Schema) (cf : Custom) (hcf : cf.InRange)
    (vars : Vars) (op : List Sel) (limit : Int) (hle : Spec.complexity S cf vars op ≤ limit) :
    (gate (calculate S cf vars op) limit).2 = none ∧
    serveWithLimit before after S cf vars op limit = serve (before ++ after) ∧
    serveWithLimit [] [] S cf vars op limit = ⟨1, none⟩ := by
  have hg : (gate (calculate S cf vars op) limit).2 = none := by
    rw [complexity_eq_definition S cf hcf]; exact (gate_rejects_iff _ _).2.1.mpr hle
  refine ⟨hg, ?_, ?_⟩
  · unfold serveWithLimit
    rw [hg]
    induction before with
    | nil => simp [serve, createOperationContext]
    | cons m r ih =>
      cases m with
      | none => simpa [serve, createOperationContext] using ih
      | some e => simp [serve, createOperationContext]
  · unfold serveWithLimit
    rw [hg]; simp [serve, createOperationContext]

example : Spec.complexity witnessSchema witnessCustom [] witnessA ≤ 9 := by decide

/-- a limit of `maxInt` rejects nothing; a negative limit rejects everything -/
theorem extreme_limits (S : Schema) (cf : Custom) (hcf : cf.InRange) (vars : Vars) (op : List Sel) :
    (gate (calculate S cf vars op) maxInt).2 = none ∧
    ∀ limit, limit < 0 → (gate (calculate S cf vars op) limit).2 = some "COMPLEXITY_LIMIT_EXCEEDED" := by
  have h := complexity_nonneg S cf hcf vars op
  refine ⟨(gate_rejects_iff _ _).2.1.mpr h.2, ?_⟩
  intro limit hl
  exact (gate_rejects_iff _ _).1.mpr (by omega)

end GqlgenVerif.Props.C14
