import GqlgenVerif.Model.EmbedPath
/-!
# C17 — the generated executor only embeds schema files that lie below it (dimension "where the schema files live")

For every schema file `codegen.BuildData` decides whether the generated executor pulls it in with
`//go:embed "<path relative to the executor>"` or inlines its text. A `go:embed` pattern cannot leave the package
directory (no `..` element), so C17 - generation succeeds and the result compiles for every accepted project -
demands: a file is embedded ONLY IF it lies below the exec output directory, wherever else it lives (a sibling
directory whose NAME merely starts with the output directory's name, the parent, a cousin). The theorems are stated
over `Gen.EmbedRule.embeddable`, the decision regenerated from codegen/data.go on every run, for ALL clean absolute
paths (lists of components); when the decision stops looking at the relative path - e.g. compares the two absolute
paths as strings - they stop closing.
-/
namespace GqlgenVerif.Props.C17Embed
open GqlgenVerif GqlgenVerif.EmbedPath GqlgenVerif.Gen

/-! ## the regenerated facts are the ones the model understands -/

/-- the three strings of the decision are computed as the model assumes: the exec directory, the schema file under
the working directory, and the slash form of `filepath.Rel` between them; the literal records them unchanged -/
theorem embed_rule_inputs_expected :
    EmbedRule.outputDirExprs = ["cfg.Exec.Dir()"] ∧ EmbedRule.sourcePathExprs = ["filepath.Join(wd, s.Name)"] ∧
    EmbedRule.relativeExprs = ["filepath.Rel(outputDir, sourcePath)", "filepath.ToSlash(relative)"] ∧
    EmbedRule.wdExprs = ["os.Getwd()"] ∧
    ("RelativePath", "relative") ∈ EmbedRule.literalFields ∧ ("Embeddable", "embeddable") ∈ EmbedRule.literalFields := by
  decide

/-! ## filepath.Rel on clean absolute paths -/

theorem join_cons_prefix (c : Comp) (cs : Path) : c <+: join (c :: cs) := by
  cases cs with
  | nil => simp [join]
  | cons d ds => simp [join]

/-- either the target lies at or below the base and the relative path is the remainder, or the relative path starts
with a `..` element -/
theorem relComps_cases (out src : Path) :
    (∃ rest, src = out ++ rest ∧ relComps out src = rest) ∨ (∃ t, relComps out src = dotdot :: t) := by
  induction out generalizing src with
  | nil => exact Or.inl ⟨src, rfl, by simp [relComps]⟩
  | cons o os ih =>
    cases src with
    | nil => exact Or.inr ⟨os.map (fun _ => dotdot), by simp [relComps]⟩
    | cons s ss =>
      by_cases h : o = s
      · subst h
        rcases ih ss with ⟨rest, h1, h2⟩ | ⟨t, h2⟩
        · exact Or.inl ⟨rest, by simp [h1], by simp [relComps, h2]⟩
        · exact Or.inr ⟨t, by simp [relComps, h2]⟩
      · exact Or.inr ⟨os.map (fun _ => dotdot) ++ s :: ss, by simp [relComps, h]⟩

/-- a file below the base: the relative path is exactly the remainder -/
theorem relComps_below (out rest : Path) : relComps out (out ++ rest) = rest := by
  induction out with
  | nil => simp [relComps]
  | cons o os ih => simp [relComps, ih]

/-- a relative path that starts with a `..` element is written with a leading `..` -/
theorem relText_dotdot (out src : Path) (t : Path) (h : relComps out src = dotdot :: t) :
    [46, 46] <+: relText out src := by
  unfold relText
  rw [h]
  exact join_cons_prefix dotdot t

/-! ## the decision -/

/-- **embedded_only_below_output_dir**: whatever the two directories are called, a schema file that BuildData marks
embeddable lies below the exec output directory (component-wise), and is not a built-in source. Hypothesis: the schema
file is not the output directory itself (a file is not a directory). -/
theorem embedded_only_below_output_dir (out src : Path) (b : Bool) (hne : src ≠ out)
    (h : embeds out src b = true) : below out src = true ∧ b = false := by
  rcases relComps_cases out src with ⟨rest, h1, _⟩ | ⟨t, h2⟩
  · constructor
    · have hr : rest ≠ [] := by
        intro hr; apply hne; simp [h1, hr]
      simp [below, h1, hr]
    · cases b
      · rfl
      · simp [embeds, EmbedRule.embeddable] at h
  · exfalso
    have hp := relText_dotdot out src t h2
    have hp' : List.isPrefixOf [46, 46] (relText out src) = true := by
      simpa using hp
    simp [embeds, EmbedRule.embeddable, hp'] at h

/-- **embedded_pattern_valid**: the pattern written after `//go:embed` for an embeddable file - its relative path - is
one the Go compiler accepts (no empty, `.` or `..` element): it is the remainder of the file's path below the output
directory. Hypothesis: the components of the schema file's path are file-system names. -/
theorem embedded_pattern_valid (out src : Path) (b : Bool) (hne : src ≠ out)
    (hv : ∀ c ∈ src, validComp c = true) (h : embeds out src b = true) :
    validPattern (relComps out src) = true ∧ out ++ relComps out src = src := by
  rcases relComps_cases out src with ⟨rest, h1, h2⟩ | ⟨t, h2⟩
  · have hr : rest ≠ [] := by
      intro hr; apply hne; simp [h1, hr]
    refine ⟨?_, by rw [h2, h1]⟩
    rw [h2]
    simp only [validPattern, Bool.and_eq_true, List.all_eq_true]
    refine ⟨by simpa using hr, ?_⟩
    intro c hc
    exact hv c (by simp [h1, hc])
  · exfalso
    have hp := relText_dotdot out src t h2
    have hp' : List.isPrefixOf [46, 46] (relText out src) = true := by
      simpa using hp
    simp [embeds, EmbedRule.embeddable, hp'] at h

/-- a file OUTSIDE the output directory is never embedded - in particular not one in a sibling directory whose name
starts with the output directory's name -/
theorem outside_never_embedded (out src : Path) (b : Bool) (hne : src ≠ out) (h : below out src = false) :
    embeds out src b = false := by
  cases hd : embeds out src b
  · rfl
  · have := (embedded_only_below_output_dir out src b hne hd).1
    simp [h] at this

/-- built-in sources (the prelude, federation's injected schema) have no file and are never embedded -/
theorem builtin_never_embedded (out src : Path) : embeds out src true = false := by
  simp [embeds, EmbedRule.embeddable]

theorem dotdot_prefix_of_comp (c : Comp) (tail : List Nat) (h : [46, 46] <+: c ++ 47 :: tail) : [46, 46] <+: c := by
  match c, h with
  | [], h => simp at h
  | [x], h => simp at h
  | x :: y :: r, h =>
    simp only [List.cons_append, List.cons_prefix_cons] at h
    obtain ⟨h1, h2, _⟩ := h
    subst h1; subst h2
    simp

/-- the decision does not forget to embed: a user's schema file below the output directory whose first directory below
it does not start with two dots (gqlgen's default `graph/schema.graphqls`) is embedded -/
theorem below_is_embedded (out : Path) (c : Comp) (rest : Path) (hc : ¬ [46, 46] <+: c) :
    embeds out (out ++ c :: rest) false = true := by
  have hj : ¬ [46, 46] <+: join (c :: rest) := by
    cases rest with
    | nil => simpa [join] using hc
    | cons d ds =>
      intro hp
      exact hc (dotdot_prefix_of_comp c (join (d :: ds)) (by simpa [join] using hp))
  have hj' : List.isPrefixOf [46, 46] (join (c :: rest)) = false := by
    cases hq : List.isPrefixOf [46, 46] (join (c :: rest))
    · rfl
    · exact absurd (by simpa using hq) hj
  simp [embeds, EmbedRule.embeddable, relText, relComps_below, hj']

/-! ## non-vacuity and the shapes the sweep generates -/

/-- gqlgen's default layout: `graph/schema.graphqls` beside `graph/generated.go` is embedded as `schema.graphqls` -/
example : embeds [[112], [103, 114, 97, 112, 104]] [[112], [103, 114, 97, 112, 104], [115]] false = true ∧
    relComps [[112], [103, 114, 97, 112, 104]] [[112], [103, 114, 97, 112, 104], [115]] = [[115]] := by decide

/-- `/p/graph` is a prefix of `/p/graphql/s` as TEXT but `graphql/` is a sibling of `graph/`: not embedded -/
example : (absText [[112], [103, 114, 97, 112, 104]]).isPrefixOf (absText [[112], [103, 114, 97, 112, 104, 113, 108], [115]]) = true ∧
    below [[112], [103, 114, 97, 112, 104]] [[112], [103, 114, 97, 112, 104, 113, 108], [115]] = false ∧
    embeds [[112], [103, 114, 97, 112, 104]] [[112], [103, 114, 97, 112, 104, 113, 108], [115]] false = false := by decide

/-- the hypotheses of embedded_pattern_valid are satisfiable with an embeddable file -/
example : ∃ out src, src ≠ out ∧ (∀ c ∈ src, validComp c = true) ∧ embeds out src false = true :=
  ⟨[[112]], [[112], [115]], by decide, by decide, by decide⟩

end GqlgenVerif.Props.C17Embed
