import GqlgenVerif.Lemmas.GoFmt
import GqlgenVerif.Model.Stream
import GqlgenVerif.Gen.StreamBytes
/-!
# C12 — a payload is written VERBATIM, whatever it contains

The framing theorems of `Props/C12.lean` take the bytes of a `next` event to be
`nextPre ++ payload ++ nextSuf` (`Stream.Chunk.bytes`) and the body of a multipart part to be the payload.
Here that is proved from the expressions the transports hand to `fmt.Fprintf` / `w.Write`, regenerated from
source by `go/extract/streambytes.go` (`Gen/StreamBytes.lean`), for **all** payload contents: a payload is an
operand of `%s`, never part of a format.
-/
namespace GqlgenVerif.Props.C12Bytes
open GqlgenVerif GqlgenVerif.GoFmt GqlgenVerif.Gen.StreamBytes

/-- `fmt.Fprintf(w, pre ++ "%s" ++ suf, x)` with no `%` in `pre`, `suf` writes `pre ++ x ++ suf` for every `x`
    (in particular for an `x` full of `%`) -/
theorem fprintf_operand_verbatim (pre suf x : Bytes) (h1 : 0x25 ∉ pre) (h2 : 0x25 ∉ suf) :
    goFmt (pre ++ 0x25 :: 0x73 :: suf) [x] = pre ++ x ++ suf :=
  goFmt_one_verb pre suf x h1 h2

example : (0x25 : Nat) ∉ ([0x61, 0x3A] : Bytes) ∧ (0x25 : Nat) ∉ ([0x0A] : Bytes) := by decide

/-- **sse_next_verbatim** — `writeJsonWithSSE` as it is in the source now writes, for every payload `p`
    (any bytes), exactly the `next` chunk the framing theorems are about: `event: next\ndata: ` ++ p ++ `\n\n` -/
theorem sse_next_verbatim (p : Bytes) :
    renderFn sseNext p = some (Stream.Chunk.bytes Stream.canonSse (.next p)) := by
  have hf : sseNext = ⟨true, [.printf (.lit (Stream.canonSse.nextPre ++ 0x25 :: 0x73 :: Stream.canonSse.nextSuf)) [.payload]]⟩ := by
    decide
  have h1 : (0x25 : Nat) ∉ Stream.canonSse.nextPre := by decide
  have h2 : (0x25 : Nat) ∉ Stream.canonSse.nextSuf := by decide
  rw [hf]
  simp only [renderFn, renderAll, render, BExpr.eval, evalAll, if_true]
  rw [goFmt_one_verb _ _ p h1 h2]
  simp [Stream.Chunk.bytes]

/-- `writeJson` (the initial part of a multipart/mixed response, and every non-stream answer) writes the
    marshalled payload and nothing else -/
theorem mp_json_verbatim (p : Bytes) : renderFn mpJson p = some p := by
  have hf : mpJson = ⟨true, [.write .payload]⟩ := by decide
  rw [hf]; simp [renderFn, renderAll, render, BExpr.eval]

/-- `writeIncrementalJson` writes the marshalled wrapper and nothing else -/
theorem mp_incremental_verbatim (p : Bytes) : renderFn mpIncremental p = some p := by
  have hf : mpIncremental = ⟨true, [.write .payload]⟩ := by decide
  rw [hf]; simp [renderFn, renderAll, render, BExpr.eval]

/-- every printf-family call of the transport package has a literal format whose verbs are matched by its
    operands, or hands its own `format, args...` on: no data reaches a format string -/
theorem transport_formats_constant : fmtSites.all FmtSite.ok = true := by decide

/-- the site that writes the SSE event is among them (the table is not empty where it matters) -/
theorem sse_next_site_listed : fmtSites.any (fun s => s.file == "sse.go" && s.constFormat && s.verbs == 1 && s.nargs == 1) = true := by
  decide

/-- why it matters: with the payload concatenated INTO the format
    (`fmt.Fprintf(w, "event: next\ndata: "+string(b)+"\n\n")`) the payload `{"x":"100%"}` comes out as
    `{"x":"100%!"(MISSING)}` - the quote that closed the string is eaten as a verb: not the payload, not JSON -/
theorem format_concat_witness :
    renderFn ⟨true, [.printf (.cat (.cat (.lit Stream.canonSse.nextPre) (.conv .payload)) (.lit Stream.canonSse.nextSuf)) []]⟩
        [0x7B, 0x22, 0x78, 0x22, 0x3A, 0x22, 0x31, 0x30, 0x30, 0x25, 0x22, 0x7D]
      = some (Stream.canonSse.nextPre ++
          [0x7B, 0x22, 0x78, 0x22, 0x3A, 0x22, 0x31, 0x30, 0x30, 0x25, 0x21, 0x22, 0x28, 0x4D, 0x49, 0x53, 0x53, 0x49, 0x4E, 0x47, 0x29, 0x7D]
          ++ Stream.canonSse.nextSuf) := by
  decide

/-- … while a payload without `%` would pass unnoticed through the same call (what every smoke test sends) -/
theorem format_concat_plain (p : Bytes) (h : 0x25 ∉ p) :
    renderFn ⟨true, [.printf (.cat (.cat (.lit Stream.canonSse.nextPre) (.conv .payload)) (.lit Stream.canonSse.nextSuf)) []]⟩ p
      = some (Stream.Chunk.bytes Stream.canonSse (.next p)) := by
  have h1 : (0x25 : Nat) ∉ Stream.canonSse.nextPre := by decide
  have h2 : (0x25 : Nat) ∉ Stream.canonSse.nextSuf := by decide
  have hall : (0x25 : Nat) ∉ Stream.canonSse.nextPre ++ p ++ Stream.canonSse.nextSuf := by
    simp only [List.mem_append, not_or]; exact ⟨⟨h1, h⟩, h2⟩
  simp only [renderFn, renderAll, render, BExpr.eval, evalAll, if_true]
  rw [goFmt_plain _ hall]
  simp [Stream.Chunk.bytes]

example : (0x25 : Nat) ∉ ([0x7B, 0x7D] : Bytes) := by decide

/-- `fmt.Fprint(w, b)` with the `[]byte` itself is not a way to write a payload (it prints `[123 34 …]`): the
    model refuses it, so a source rewritten that way no longer satisfies `sse_next_verbatim` -/
theorem fprint_bytes_refused (p : Bytes) : renderFn ⟨true, [.print [.payload]]⟩ p = none := by
  simp [renderFn, renderAll, render, BExpr.isString]

end GqlgenVerif.Props.C12Bytes
