import GqlgenVerif.Model.Order
import GqlgenVerif.Model.SortCmp
import GqlgenVerif.Model.PerSchema
import GqlgenVerif.Model.ExtraFields
import GqlgenVerif.Gen.PerSchemaSteps
import GqlgenVerif.Props.C18
/-!
# C18, round 4 — per-schema-file builds of the follow-schema executor, and a model's extra fields

* `generatePerSchema` (codegen/generate.go) creates one build per OUTPUT file name and pins it to the schema source of
  the element that creates it; which directive functions a generated file holds follows from that pin. Two of the
  four passes range over Go maps. **`generatePerSchema_pins_independent`**: with the passes in the order regenerated
  from the source (`Gen/PerSchemaSteps.lean`; `perSchema_slices_first`: the passes over sorted slices run first) the
  pins - hence `argFuncs`, the `dir_<name>_args` functions per file - do not depend on the order in which the maps are
  delivered, PROVIDED every output file that several sources share holds an object or input type (`Covered`).
  `map_pass_first_order_sensitive_witness`: with a map pass in front, two delivery orders pin `schema.generated.go` of
  `users/schema.graphql` + `orders/schema.graphql` to different sources although both files hold objects.
  `uncovered_group_order_sensitive_witness` (open finding F18b): on the UNCHANGED order, two same-named schema files
  that hold only enums / scalars / interfaces / unions - the hypothesis `Covered` is necessary.
* `getExtraFields` (plugin/modelgen/models.go): **`extraFields_perm_invariant`** - the extra struct fields of a model
  come out in one order whatever order the `extraFields` map is delivered in, because the slice is sorted by the key
  `(embedded?, name | type)` (`extraFields_comparator_is_key_sort` ties the comparator literal, branch by branch, to
  that key); `extraFields_unsorted_order_sensitive_witness`: returning before the sort lets the map order through.
-/
namespace GqlgenVerif.Props.C18Layout
open GqlgenVerif GqlgenVerif.Order GqlgenVerif.PerSchema List

/-! ## the pinned source of a build = the source of the FIRST delivered element of that output file -/

theorem foldl_ensure (l : List Elem) (b : Builds) (f : String) :
    l.foldl ensure b f = (b f).or ((l.find? (fun e => e.file == f)).map (·.src)) := by
  induction l generalizing b with
  | nil => simp
  | cons e t ih =>
    rw [List.foldl_cons, ih, List.find?_cons]
    by_cases h : e.file = f
    · subst h
      simp only [ensure, beq_self_eq_true, if_true, Option.map_some]
      cases b e.file <;> simp
    · have h' : (e.file == f) = false := by simpa using h
      have hf : ¬ f = e.file := fun x => h x.symm
      simp only [ensure, h', hf, if_false]

theorem pins_eq_first (l : List Elem) (f : String) :
    pins l f = (l.find? (fun e => e.file == f)).map (·.src) := by
  unfold pins
  rw [foldl_ensure]
  simp

/-- the first element satisfying `p`, seen through `g`, does not depend on the order when all candidates agree on `g` -/
theorem find?_map_perm {α β} (p : α → Bool) (g : α → β) (M M' : List α) (hp : M.Perm M')
    (h : ∀ a ∈ M, ∀ b ∈ M, p a = true → p b = true → g a = g b) : (M.find? p).map g = (M'.find? p).map g := by
  cases h1 : M.find? p with
  | none =>
    have hn : ∀ x ∈ M, ¬ p x = true := List.find?_eq_none.mp h1
    have h2 : M'.find? p = none := List.find?_eq_none.mpr (fun x hx => hn x (hp.mem_iff.mpr hx))
    simp [h2]
  | some a =>
    have ha : a ∈ M := List.mem_of_find?_eq_some h1
    have hpa : p a = true := List.find?_some h1
    cases h2 : M'.find? p with
    | none => exact absurd hpa (List.find?_eq_none.mp h2 a (hp.mem_iff.mp ha))
    | some b =>
      have hb : b ∈ M := hp.mem_iff.mpr (List.mem_of_find?_eq_some h2)
      simp [h a ha b hb hpa (List.find?_some h2)]

/-- **pins_perm_invariant**: slice-pass elements `S` first (fixed order), then map-pass elements in ANY order -/
theorem pins_perm_invariant (S M M' : List Elem) (hp : M.Perm M') (hc : Covered S M) :
    pins (S ++ M) = pins (S ++ M') := by
  funext f
  rw [pins_eq_first, pins_eq_first, List.find?_append, List.find?_append]
  cases hS : S.find? (fun e => e.file == f) with
  | some s => simp
  | none =>
    simp only [Option.none_or]
    apply find?_map_perm _ _ _ _ hp
    intro a ha b hb hpa hpb
    have hfa : a.file = f := by simpa using hpa
    have hfb : b.file = f := by simpa using hpb
    rcases hc a ha with ⟨s, hs, hsf⟩ | hall
    · exfalso
      have := List.find?_eq_none.mp hS s hs
      simp [hsf, hfa] at this
    · exact (hall b hb (hfb.trans hfa.symm)).symm

/-! ## runs: passes in some order, map passes delivered in any order -/

theorem delivered_of_all_map (r : Run) (h : (r.map (·.1)).all (· == .map) = true) :
    slicePart r = [] ∧ delivered r = mapPart r := by
  induction r with
  | nil => simp [slicePart, delivered, mapPart]
  | cons x t ih =>
    obtain ⟨k, l⟩ := x
    simp only [List.map_cons, List.all_cons, Bool.and_eq_true, beq_iff_eq] at h
    obtain ⟨hk, ht⟩ := h
    subst hk
    obtain ⟨h1, h2⟩ := ih ht
    simp [slicePart, delivered, mapPart, h1, h2]

theorem delivered_split (r : Run) (h : slicesFirst (r.map (·.1)) = true) :
    delivered r = slicePart r ++ mapPart r := by
  induction r with
  | nil => simp [slicePart, delivered, mapPart]
  | cons x t ih =>
    obtain ⟨k, l⟩ := x
    cases k with
    | slice =>
      simp only [List.map_cons, slicesFirst] at h
      simp [slicePart, delivered, mapPart, ih h]
    | map =>
      simp only [List.map_cons, slicesFirst] at h
      obtain ⟨h1, h2⟩ := delivered_of_all_map t h
      simp [slicePart, delivered, mapPart, h1, h2]

theorem reordered_kinds {r r' : Run} (h : Reordered r r') : r.map (·.1) = r'.map (·.1) := by
  induction h with
  | nil => rfl
  | slice l _ ih => simp [ih]
  | map _ _ ih => simp [ih]

theorem reordered_slicePart {r r' : Run} (h : Reordered r r') : slicePart r = slicePart r' := by
  induction h with
  | nil => rfl
  | slice l _ ih => simp [slicePart, ih]
  | map _ _ ih => simp [slicePart, ih]

theorem reordered_mapPart {r r' : Run} (h : Reordered r r') : (mapPart r).Perm (mapPart r') := by
  induction h with
  | nil => exact Perm.refl _
  | slice l _ ih => simpa [mapPart] using ih
  | map hp _ ih => simpa [mapPart] using hp.append ih

/-- whatever the passes are: if no slice pass runs after a map pass, the pins are independent of the map order -/
theorem slicesFirst_pins_independent (r r' : Run) (hs : slicesFirst (r.map (·.1)) = true) (h : Reordered r r')
    (hc : Covered (slicePart r) (mapPart r)) : pins (delivered r) = pins (delivered r') := by
  rw [delivered_split r hs, delivered_split r' (reordered_kinds h ▸ hs), ← reordered_slicePart h]
  exact pins_perm_invariant _ _ _ (reordered_mapPart h) hc

/-! ## the regenerated order of `generatePerSchema`'s passes -/

open GqlgenVerif.Gen.PerSchemaSteps in
/-- **perSchema_slices_first**: in `generatePerSchema` as it stands, the passes over the sorted slices
(`data.Objects`, `data.Inputs`) run before the passes over the maps (`data.Interfaces`, `data.ReferencedTypes`) -/
theorem perSchema_slices_first : slicesFirst (passes.map (·.kind)) = true := by decide

open GqlgenVerif.Gen.PerSchemaSteps in
/-- every pass creates a missing build itself (the `ensure` of the model), and `addBuild` pins the creator's source -/
theorem perSchema_passes_ensure : (∀ p ∈ passes, p.ensures = true) ∧ addBuildPinsCreatorSource = true := by decide

open GqlgenVerif.Gen.PerSchemaSteps in
/-- **generatePerSchema_pins_independent**: a run whose passes are the regenerated ones, and the same run with every
map delivered in another order, pin every build to the same source. -/
theorem generatePerSchema_pins_independent (r r' : Run) (hk : r.map (·.1) = passes.map (·.kind)) (h : Reordered r r')
    (hc : Covered (slicePart r) (mapPart r)) : pins (delivered r) = pins (delivered r') :=
  slicesFirst_pins_independent r r' (hk ▸ perSchema_slices_first) h hc

open GqlgenVerif.Gen.PerSchemaSteps in
/-- … hence the same `dir_<name>_args` functions in every generated file -/
theorem generatePerSchema_argFuncs_independent (dirs : List ArgDirective) (r r' : Run)
    (hk : r.map (·.1) = passes.map (·.kind)) (h : Reordered r r') (hc : Covered (slicePart r) (mapPart r)) (f : String) :
    argFuncs dirs (pins (delivered r)) f = argFuncs dirs (pins (delivered r')) f := by
  rw [generatePerSchema_pins_independent r r' hk h hc]

/-- non-vacuity: `users/schema.graphql` (Query, User) and `orders/schema.graphql` (Order, enum Kind, `@hasRole(role:)`)
under the regenerated order: hypotheses hold, and the file gets the directive's argument function in both orders -/
example :
    let o : Elem := ⟨"schema.generated.go", "orders/schema.graphql"⟩
    let u : Elem := ⟨"schema.generated.go", "users/schema.graphql"⟩
    let r : Run := [(.slice, [o, u, u]), (.slice, []), (.map, []), (.map, [o, u, o, u])]
    let r' : Run := [(.slice, [o, u, u]), (.slice, []), (.map, []), (.map, [u, o, u, o])]
    r.map (·.1) = Gen.PerSchemaSteps.passes.map (·.kind) ∧ coveredB (slicePart r) (mapPart r) = true
      ∧ argFuncs [⟨"hasRole", "orders/schema.graphql"⟩] (pins (delivered r)) "schema.generated.go" = ["hasRole"]
      ∧ argFuncs [⟨"hasRole", "orders/schema.graphql"⟩] (pins (delivered r')) "schema.generated.go" = ["hasRole"] := by decide

/-- **map_pass_first_order_sensitive_witness**: the same project with the map passes in FRONT of the slice passes
(`addReferencedTypes`, `addInterfaces`, `addObjects`, `addInputs`): two delivery orders of `data.ReferencedTypes`,
two different pins, `dir_hasRole_args` present or absent - although every file holds objects. -/
theorem map_pass_first_order_sensitive_witness :
    ∃ r r' : Run, r.map (·.1) = [.map, .map, .slice, .slice] ∧ Reordered r r'
      ∧ coveredB (slicePart r) (mapPart r) = true
      ∧ argFuncs [⟨"hasRole", "orders/schema.graphql"⟩] (pins (delivered r)) "schema.generated.go" = ["hasRole"]
      ∧ argFuncs [⟨"hasRole", "orders/schema.graphql"⟩] (pins (delivered r')) "schema.generated.go" = [] := by
  let o : Elem := ⟨"schema.generated.go", "orders/schema.graphql"⟩
  let u : Elem := ⟨"schema.generated.go", "users/schema.graphql"⟩
  refine ⟨[(.map, [o, u]), (.map, []), (.slice, [o, u, u]), (.slice, [])],
          [(.map, [u, o]), (.map, []), (.slice, [o, u, u]), (.slice, [])], rfl, ?_, by decide, by decide, by decide⟩
  exact .map (Perm.swap u o []) (.map (Perm.refl _) (.slice _ (.slice _ .nil)))

open GqlgenVerif.Gen.PerSchemaSteps in
/-- **uncovered_group_order_sensitive_witness** (open finding F18b): the passes in the regenerated order, but the two
schema files that share the output `types.generated.go` hold no object or input type (`orders/types.graphql`:
`directive @hasRole(role: String!)`, `enum OrderKind`; `users/types.graphql`: `enum Role`) - the build is created by
`addReferencedTypes`, a map pass, and the hypothesis `Covered` of the theorem above fails. -/
theorem uncovered_group_order_sensitive_witness :
    ∃ r r' : Run, r.map (·.1) = passes.map (·.kind) ∧ Reordered r r'
      ∧ coveredB (slicePart r) (mapPart r) = false
      ∧ argFuncs [⟨"hasRole", "orders/types.graphql"⟩] (pins (delivered r)) "types.generated.go" = ["hasRole"]
      ∧ argFuncs [⟨"hasRole", "orders/types.graphql"⟩] (pins (delivered r')) "types.generated.go" = [] := by
  let k : Elem := ⟨"types.generated.go", "orders/types.graphql"⟩
  let e : Elem := ⟨"types.generated.go", "users/types.graphql"⟩
  let q : Elem := ⟨"schema.generated.go", "users/schema.graphql"⟩
  refine ⟨[(.slice, [q]), (.slice, []), (.map, []), (.map, [k, e])],
          [(.slice, [q]), (.slice, []), (.map, []), (.map, [e, k])], by decide, ?_, by decide, by decide, by decide⟩
  exact .slice _ (.slice _ (.map (Perm.refl _) (.map (Perm.swap e k []) .nil)))

theorem coveredB_iff (S M : List Elem) : coveredB S M = true ↔ Covered S M := by
  simp only [coveredB, Covered, List.all_eq_true, Bool.or_eq_true, List.any_eq_true, beq_iff_eq, bne_iff_ne, ne_eq]
  constructor
  · intro h e he
    rcases h e he with ⟨s, hs, hf⟩ | hall
    · exact Or.inl ⟨s, hs, hf⟩
    · refine Or.inr (fun e' he' hf => ?_)
      rcases hall e' he' with h1 | h1
      · exact absurd hf h1
      · exact h1
  · intro h e he
    rcases h e he with ⟨s, hs, hf⟩ | hall
    · exact Or.inl ⟨s, hs, hf⟩
    · refine Or.inr (fun e' he' => ?_)
      by_cases hf : e'.file = e.file
      · exact Or.inr (hall e' he' hf)
      · exact Or.inl hf

/-! ## extra struct fields of a generated model -/

open GqlgenVerif.ExtraFields

/-- the comparator literal of `getExtraFields` is `<` on the key `(embedded?, name | type)` -/
theorem less_eq_xkey_lt (a b : XField) : less a b = decide (xkey a < xkey b) := by
  unfold less xkey
  cases ha : a.name.isEmpty <;> cases hb : b.name.isEmpty <;> simp [List.cons_lt_cons_iff]

/-- **extraFields_comparator_is_key_sort**: `sort.Slice(extraFields, <the literal>)` is the sort of the order model -/
theorem extraFields_comparator_is_key_sort (l : List XField) : SortCmp.sortWith less l = sortByKey xkey l := by
  unfold SortCmp.sortWith sortByKey
  congr 1
  funext a b
  rw [less_eq_xkey_lt]
  simp only [leKey]
  by_cases h : xkey a ≤ xkey b
  · simp [h, List.not_lt.mpr h]
  · simp [h, List.not_le.mp h]

theorem xkey_injective (named embedded : List XField)
    (hn : ∀ a ∈ named, a.name ≠ []) (he : ∀ a ∈ embedded, a.name = [])
    (hinj : ∀ a ∈ named, ∀ b ∈ named, a.name = b.name → a = b)
    (hinje : ∀ a ∈ embedded, ∀ b ∈ embedded, a.typ = b.typ → a = b) :
    ∀ a ∈ named ++ embedded, ∀ b ∈ named ++ embedded, xkey a = xkey b → a = b := by
  intro a ha b hb hk
  have kn : ∀ x ∈ named, xkey x = 0 :: x.name := fun x hx => by simp [xkey, hn x hx]
  have ke : ∀ x ∈ embedded, xkey x = 1 :: x.typ := fun x hx => by simp [xkey, he x hx]
  rcases List.mem_append.mp ha with ha | ha <;> rcases List.mem_append.mp hb with hb | hb
  · rw [kn a ha, kn b hb] at hk
    exact hinj a ha b hb (by simpa using hk)
  · rw [kn a ha, ke b hb] at hk
    simp at hk
  · rw [ke a ha, kn b hb] at hk
    simp at hk
  · rw [ke a ha, ke b hb] at hk
    exact hinje a ha b hb (by simpa using hk)

/-- **extraFields_perm_invariant**: named extra fields delivered by the map in any order (their names are the map's
keys: non-empty, pairwise distinct), embedded ones of pairwise distinct types: one field order in the struct. -/
theorem extraFields_perm_invariant (named named' embedded : List XField) (hp : named.Perm named')
    (hn : ∀ a ∈ named, a.name ≠ []) (he : ∀ a ∈ embedded, a.name = [])
    (hinj : ∀ a ∈ named, ∀ b ∈ named, a.name = b.name → a = b)
    (hinje : ∀ a ∈ embedded, ∀ b ∈ embedded, a.typ = b.typ → a = b) :
    extraFields named embedded = extraFields named' embedded := by
  unfold extraFields
  exact Props.C18.sort_perm_invariant xkey _ _ (hp.append_right embedded) (xkey_injective named embedded hn he hinj hinje)

/-- non-vacuity: two named fields and one embedded one, two delivery orders (hypotheses hold; the result is equal) -/
example : extraFields [⟨[98], [1]⟩, ⟨[97], [2]⟩] [⟨[], [3]⟩] = extraFields [⟨[97], [2]⟩, ⟨[98], [1]⟩] [⟨[], [3]⟩] :=
  extraFields_perm_invariant _ _ _ (Perm.swap _ _ []) (by simp) (by simp) (by decide) (by decide)

/-- **extraFields_unsorted_order_sensitive_witness**: without the final sort (an early return when there is nothing
embedded) two delivery orders of a two-entry `extraFields` map give two struct layouts -/
theorem extraFields_unsorted_order_sensitive_witness :
    ∃ named named' : List XField, named.Perm named' ∧ extraFieldsUnsorted named [] ≠ extraFieldsUnsorted named' [] :=
  ⟨[⟨[98], [1]⟩, ⟨[97], [2]⟩], [⟨[97], [2]⟩, ⟨[98], [1]⟩], Perm.swap _ _ [], by decide⟩

end GqlgenVerif.Props.C18Layout
