import GqlgenVerif.Model.Order
import GqlgenVerif.Model.Naming
import GqlgenVerif.Gen.MapRanges
/-!
# C18 — generation does not depend on map iteration order (the provable half of C18)

PARTIAL by design. Proved here, for EVERY permutation of every map's iteration order: each shape in which the
generator consumes a Go map (see `Model/Order.lean`) yields the same result, and no map-range site of the
generator packages is outside those shapes (`Gen/MapRanges.lean`, regenerated from /repo on every run).
NOT proved (sampled by `checks/c18.py` with repeated real generations in separate processes): independence
from the process, GOMAXPROCS and the start directory, and idempotence on an already generated tree — those are
I/O behaviour of go/packages, text/template and x/tools/imports.
-/
namespace GqlgenVerif.Props.C18
open GqlgenVerif GqlgenVerif.Order List

/-! ## collect-then-sort -/

theorem leKey_trans {α} (key : α → List Nat) (a b c : α) (h1 : leKey key a b = true) (h2 : leKey key b c = true) :
    leKey key a c = true := by
  simp only [leKey, decide_eq_true_eq] at *
  exact List.le_trans h1 h2

theorem leKey_total {α} (key : α → List Nat) (a b : α) : (leKey key a b || leKey key b a) = true := by
  simp only [leKey, Bool.or_eq_true, decide_eq_true_eq]
  exact List.le_total _ _

/-- **sort_perm_invariant**: whatever order the map delivered its elements in, sorting by a key that is
injective on them gives the same list. (`l ~ l'` = `l'` is a permutation of `l`.) -/
theorem sort_perm_invariant {α} (key : α → List Nat) (l l' : List α) (hp : l ~ l')
    (hinj : ∀ a ∈ l, ∀ b ∈ l, key a = key b → a = b) : sortByKey key l = sortByKey key l' := by
  unfold sortByKey
  have p1 : l.mergeSort (leKey key) ~ l := mergeSort_perm l _
  have p2 : l'.mergeSort (leKey key) ~ l' := mergeSort_perm l' _
  apply Perm.eq_of_pairwise (le := fun a b => leKey key a b = true)
  · intro a b ha hb hab hba
    have ha' : a ∈ l := p1.mem_iff.mp ha
    have hb' : b ∈ l := hp.mem_iff.mpr (p2.mem_iff.mp hb)
    apply hinj a ha' b hb'
    simp only [leKey, decide_eq_true_eq] at hab hba
    exact List.le_antisymm hab hba
  · exact pairwise_mergeSort (leKey_trans key) (leKey_total key) l
  · exact pairwise_mergeSort (leKey_trans key) (leKey_total key) l'
  · exact p1.trans (hp.trans p2.symm)

/-- the whole collect-then-sort pipeline (filter, transform, append, sort) -/
theorem collect_sort_perm_invariant {α β} (keep : α → Bool) (f : α → β) (key : β → List Nat) (l l' : List α)
    (hp : l ~ l') (hinj : ∀ a ∈ l, ∀ b ∈ l, key (f a) = key (f b) → f a = f b) :
    collectSort keep f key l = collectSort keep f key l' := by
  unfold collectSort
  apply sort_perm_invariant key _ _ ((hp.filter keep).map f)
  intro a ha b hb hk
  simp only [mem_map, mem_filter] at ha hb
  obtain ⟨x, ⟨hx, _⟩, rfl⟩ := ha
  obtain ⟨y, ⟨hy, _⟩, rfl⟩ := hb
  exact hinj x hx y hy hk

/-- non-vacuity: the hypotheses are satisfiable (two iteration orders of a three-element map) and the conclusion
is then the equality of the two sorted results -/
example : sortByKey (fun n : Nat => [n]) [3, 1, 2] = sortByKey (fun n : Nat => [n]) [2, 3, 1] :=
  sort_perm_invariant _ _ _ (by decide) (by intro a _ b _ h; simpa using h)

/-! ## keyed writes / set inserts -/

/-- **set_insert_perm_invariant**: `for _, x := range m { out[idx x] = val x }` with `idx` injective on the
elements (the loop's own key, or the element's Name) leaves the same map whatever the order. -/
theorem set_insert_perm_invariant {α K V} [DecidableEq K] (idx : α → K) (val : α → V) (out : GoMap K V)
    (l l' : List α) (hp : l ~ l') (hinj : ∀ a ∈ l, ∀ b ∈ l, idx a = idx b → a = b) :
    writeAll idx val out l = writeAll idx val out l' := by
  unfold writeAll
  apply Perm.foldl_eq' hp
  intro x hx y hy z
  funext k
  by_cases hxy : idx x = idx y
  · have := hinj x hx y hy hxy
    subst this
    rfl
  · show (if k = idx y then some (val y) else if k = idx x then some (val x) else z k)
        = (if k = idx x then some (val x) else if k = idx y then some (val y) else z k)
    by_cases h1 : k = idx y
    · by_cases h2 : k = idx x
      · exact absurd (h2.symm.trans h1) hxy
      · rw [if_pos h1, if_neg h2, if_pos h1]
    · rw [if_neg h1]
      by_cases h2 : k = idx x
      · rw [if_pos h2, if_pos h2]
      · rw [if_neg h2, if_neg h2, if_neg h1]

example : writeAll (fun p : Nat × Nat => p.1) (·.2) (fun _ => none) [(1, 10), (2, 20)] 2
        = writeAll (fun p : Nat × Nat => p.1) (·.2) (fun _ => none) [(2, 20), (1, 10)] 2 := by decide

/-- an existential search returns the same whatever the order -/
theorem search_perm_invariant {α} (p : α → Bool) (l l' : List α) (hp : l ~ l') : search p l = search p l' :=
  hp.any_eq

/-- a commutative accumulation returns the same whatever the order -/
theorem accumulate_perm_invariant {α} (g : α → Nat) (n0 : Nat) (l l' : List α) (hp : l ~ l') :
    accumulate g n0 l = accumulate g n0 l' := by
  unfold accumulate
  apply Perm.foldl_eq' hp
  intro x _ y _ z
  omega

/-! ## every map range in the generator is of one of those shapes -/

open GqlgenVerif.Gen.MapRanges in
/-- **all_sites_invariant**: no `range` over a map in the generator packages is classified order-sensitive by
the extractor's rules (`go/extract/mapranges.go`; `reviewed` sites are pinned by the hash of their source text
in `go/extract/mapranges_reviewed.json`). A new or edited loop the rules cannot classify makes this fail. -/
theorem all_sites_invariant : ∀ s ∈ sites, s.cls ≠ OrderClass.orderSensitive := by decide

open GqlgenVerif.Gen.MapRanges in
/-- non-vacuity: the extractor saw the generator (BuildData's loop over Schema.Types is there; its slices are sorted
after the loop but searched by name before that, so it is a reviewed site pinned by the hash of the loop and of the
source up to the sort calls) and the sorted-after rule applies somewhere (modelgen's extra fields) -/
example : sites.any (fun s => s.func == "BuildData" && s.expr == "b.Schema.Types" && s.cls == .reviewed) = true := by decide
open GqlgenVerif.Gen.MapRanges in
example : sites.any (fun s => s.func == "getExtraFields" && s.cls == .sortedAfter) = true := by decide

/-! ## the model-name registry is fed in sorted order -/

open GqlgenVerif.Naming in
/-- **modelName_registry_order**: `ToGoModelName` allocates names first-come-first-served from a process-global
registry, so WHICH type gets `Foo` and which `Foo0` depends on call order; modelgen feeds it from lists sorted by
name, so the identifiers of the model file do not depend on the iteration order of `Schema.Types`. -/
theorem modelName_registry_order (ts ts' : List TypeDecl) (hp : ts ~ ts')
    (hinj : ∀ a ∈ ts, ∀ b ∈ ts, a.name = b.name → a = b) : emittedModels ts = emittedModels ts' := by
  have hs : ∀ k, sortBy (·.name) (ts.filter (·.kind == k)) = sortBy (·.name) (ts'.filter (·.kind == k)) := by
    intro k
    apply sort_perm_invariant _ _ _ (hp.filter _)
    intro a ha b hb
    exact hinj a (mem_filter.mp ha).1 b (mem_filter.mp hb).1
  have h1 : ifacesOf ts = ifacesOf ts' := hs .iface
  have h2 : modelsOf ts = modelsOf ts' := hs .model
  have h3 : enumsOf ts = enumsOf ts' := hs .enum
  unfold emittedModels registryOf
  rw [h1, h2, h3]

end GqlgenVerif.Props.C18
