import GqlgenVerif.Gen.ListFacts
import GqlgenVerif.Gen.ArgCtxFacts
/-!
# C01 (list completion facts of the generated code)

`Gen/ListFacts.lean` is re-extracted on every run from a server **generated at check time** from /repo's
current templates (probe schema, base configuration). The execution model (`Impl.completeValue`, list
case) nulls a list as soon as a non-null element position holds null; in the generated code that is one
scan over the finished array, emitted by `codegen/type.gotpl` for every list whose element type is non-null
- whether the elements are marshalled inline (scalars) or on goroutines (objects, interfaces, unions,
enums), and in the latter case only after `wg.Wait()`. With gqlgen's default models a null can reach a
non-null *scalar* element only through a user's own marshaler or model (a slice of pointers, a function
pair returning `graphql.Null`), which the correspondence run's universal resolver does not produce; this
theorem is what ties that corner of the model to the templates.
-/
namespace GqlgenVerif.C01Gen
open GqlgenVerif.Gen.ListFacts

/-- every list marshaler whose element type is non-null scans the finished array and nulls the list -/
theorem nonnull_element_lists_are_scanned :
    listMarshalers.all (fun x => !x.2.1 || x.2.2.2) = true := by decide

/-- ... and only those: a nullable element stays `null` inside the list -/
theorem nullable_element_lists_are_not_scanned :
    listMarshalers.all (fun x => x.2.1 || !x.2.2.2) = true := by decide

/-- non-vacuity: the probe's generated code has both flavours (inline scalar elements, goroutine elements) of
    lists with non-null elements, and lists with nullable elements -/
theorem list_facts_nonempty :
    listMarshalers.any (fun x => x.2.1 && !x.2.2.1) = true ∧
    listMarshalers.any (fun x => x.2.1 && x.2.2.1) = true ∧
    listMarshalers.any (fun x => !x.2.1) = true := by decide

/-! ### error paths of argument coercion, in both code styles

`Gen/ArgCtxFacts.lean`: every generated `fieldContext_<Object>_<field>` that unmarshals arguments, from the
method-syntax package and the function-syntax package generated on this run. The model reports every failure of
a field at the field's own response path; for a failure while unmarshalling the field's arguments that rests
on `ctx = graphql.WithFieldContext(ctx, fc)` preceding the `field_..._args(ctx, ...)` call (the error is
reported through `ec.Error(ctx, err)`, which takes the path from ctx). -/
open GqlgenVerif.Gen.ArgCtxFacts in
theorem argument_errors_carry_the_field_path : argContexts.all (fun x => x.2.2) = true := by decide

open GqlgenVerif.Gen.ArgCtxFacts in
/-- non-vacuity: both generated packages (method syntax, function syntax) have such functions -/
theorem arg_facts_cover_both_styles :
    packages.length = 2 ∧ packages.all (fun p => argContexts.any (fun x => x.1 == p)) = true := by decide

end GqlgenVerif.C01Gen
