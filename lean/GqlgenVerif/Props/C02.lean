import GqlgenVerif.Model.Coerce
import GqlgenVerif.Model.CoerceSpec
import GqlgenVerif.Lemmas.Coerce
import GqlgenVerif.Lemmas.CoerceSpec
import GqlgenVerif.Props.C08
/-!
# C02 — resolvers receive arguments exactly as GraphQL input coercion defines (property theorems)

Models: `Model/Coerce.lean` (Impl: the chain gqlparser `VariableValues` → `arg2map` → generated `field_*_args` /
unmarshal functions / `unmarshalInput*` → `graphql.CoerceList` / `graphql.Unmarshal*`), `Model/CoerceSpec.lean`
(Spec: the specification's input coercion with the code's departures from it as explicit switches `Devs`).
Regenerated on every run: `Gen/ScalarArms.lean` (the type-switch tables of every scalar unmarshaler and of
`CoerceList`), `Gen/IntCasts.lean` (their numeric arms, exactness proved in `Props/C08`).
Quantification is over all values / types / schemas / configurations; nothing is bounded.
-/
namespace GqlgenVerif.Props.C02
open GqlgenVerif GqlgenVerif.Coerce GqlgenVerif.C08 GqlgenVerif.Gen.IntCasts

/-! ## the scalar tables are the ones the model gives a meaning to -/

/-- Which dynamic Go types every scalar unmarshaler (and `CoerceList`) accepts, and what it does with them,
    as read from /repo on this run. A new arm (say `case float64:` in `UnmarshalInt`), a removed one, or an
    arm whose body changed (tag "unknown") makes this a failed obligation. -/
theorem arms_expected : Gen.ScalarArms.arms = [
    ("UnmarshalInt", "pre", "none"),
    ("UnmarshalInt", "post", "none"),
    ("UnmarshalInt", "string", "parseInt64"),
    ("UnmarshalInt", "int", "numeric"),
    ("UnmarshalInt", "int64", "numeric"),
    ("UnmarshalInt", "json.Number", "parseInt64"),
    ("UnmarshalInt", "nil", "zero"),
    ("UnmarshalInt", "default", "typeError"),
    ("UnmarshalInt64", "pre", "none"),
    ("UnmarshalInt64", "post", "none"),
    ("UnmarshalInt64", "string", "parseInt64"),
    ("UnmarshalInt64", "int", "numeric"),
    ("UnmarshalInt64", "int64", "numeric"),
    ("UnmarshalInt64", "json.Number", "parseInt64"),
    ("UnmarshalInt64", "nil", "zero"),
    ("UnmarshalInt64", "default", "typeError"),
    ("UnmarshalInt32", "pre", "none"),
    ("UnmarshalInt32", "post", "none"),
    ("UnmarshalInt32", "string", "parseInt64_safeCastInt32"),
    ("UnmarshalInt32", "int", "numeric"),
    ("UnmarshalInt32", "int64", "numeric"),
    ("UnmarshalInt32", "json.Number", "parseInt64_safeCastInt32"),
    ("UnmarshalInt32", "nil", "zero"),
    ("UnmarshalInt32", "default", "typeError"),
    ("UnmarshalUint", "pre", "none"),
    ("UnmarshalUint", "post", "none"),
    ("UnmarshalUint", "string", "parseUint64_sign_uint"),
    ("UnmarshalUint", "int", "numeric"),
    ("UnmarshalUint", "int64", "numeric"),
    ("UnmarshalUint", "json.Number", "parseUint64_sign_uint"),
    ("UnmarshalUint", "nil", "zero"),
    ("UnmarshalUint", "default", "typeError"),
    ("UnmarshalUint64", "pre", "none"),
    ("UnmarshalUint64", "post", "none"),
    ("UnmarshalUint64", "string", "parseUint64_sign"),
    ("UnmarshalUint64", "int", "numeric"),
    ("UnmarshalUint64", "int64", "numeric"),
    ("UnmarshalUint64", "json.Number", "parseUint64_sign"),
    ("UnmarshalUint64", "nil", "zero"),
    ("UnmarshalUint64", "default", "typeError"),
    ("UnmarshalUint32", "pre", "none"),
    ("UnmarshalUint32", "post", "none"),
    ("UnmarshalUint32", "string", "parseUint64_sign_safeCastUint32"),
    ("UnmarshalUint32", "int", "numeric"),
    ("UnmarshalUint32", "int64", "numeric"),
    ("UnmarshalUint32", "json.Number", "parseUint64_sign_safeCastUint32"),
    ("UnmarshalUint32", "nil", "zero"),
    ("UnmarshalUint32", "default", "typeError"),
    ("UnmarshalID", "pre", "none"),
    ("UnmarshalID", "post", "none"),
    ("UnmarshalID", "string", "identity"),
    ("UnmarshalID", "json.Number", "stringOf"),
    ("UnmarshalID", "int", "formatInt"),
    ("UnmarshalID", "int64", "formatInt"),
    ("UnmarshalID", "float64", "formatFloat_f_6"),
    ("UnmarshalID", "bool", "formatBool"),
    ("UnmarshalID", "nil", "const_null"),
    ("UnmarshalID", "default", "typeError"),
    ("UnmarshalIntID", "pre", "none"),
    ("UnmarshalIntID", "post", "none"),
    ("UnmarshalIntID", "string", "parseInt64"),
    ("UnmarshalIntID", "int", "numeric"),
    ("UnmarshalIntID", "int64", "numeric"),
    ("UnmarshalIntID", "json.Number", "parseInt64"),
    ("UnmarshalIntID", "default", "typeError"),
    ("UnmarshalUintID", "pre", "none"),
    ("UnmarshalUintID", "post", "none"),
    ("UnmarshalUintID", "string", "parseUint64_uint"),
    ("UnmarshalUintID", "int", "numeric"),
    ("UnmarshalUintID", "int64", "numeric"),
    ("UnmarshalUintID", "int32", "numeric"),
    ("UnmarshalUintID", "uint32", "numeric"),
    ("UnmarshalUintID", "uint64", "numeric"),
    ("UnmarshalUintID", "json.Number", "parseUint64_uint"),
    ("UnmarshalUintID", "default", "typeError"),
    ("UnmarshalFloat", "pre", "none"),
    ("UnmarshalFloat", "post", "none"),
    ("UnmarshalFloat", "string", "parseFloat"),
    ("UnmarshalFloat", "int", "toFloat"),
    ("UnmarshalFloat", "int64", "toFloat"),
    ("UnmarshalFloat", "float64", "identity"),
    ("UnmarshalFloat", "json.Number", "parseFloat"),
    ("UnmarshalFloat", "nil", "zero"),
    ("UnmarshalFloat", "default", "typeError"),
    ("UnmarshalFloatContext", "delegate", "UnmarshalFloat"),
    ("UnmarshalString", "pre", "none"),
    ("UnmarshalString", "post", "none"),
    ("UnmarshalString", "string", "identity"),
    ("UnmarshalString", "int", "formatInt"),
    ("UnmarshalString", "int64", "formatInt"),
    ("UnmarshalString", "float64", "formatFloat_f_shortest"),
    ("UnmarshalString", "json.Number", "stringOf"),
    ("UnmarshalString", "bool", "formatBool"),
    ("UnmarshalString", "nil", "const_empty"),
    ("UnmarshalString", "default", "typeError"),
    ("UnmarshalBoolean", "pre", "none"),
    ("UnmarshalBoolean", "post", "none"),
    ("UnmarshalBoolean", "string", "equalFoldTrue"),
    ("UnmarshalBoolean", "int", "neq0"),
    ("UnmarshalBoolean", "bool", "identity"),
    ("UnmarshalBoolean", "nil", "const_false"),
    ("UnmarshalBoolean", "default", "typeError"),
    ("CoerceList", "pre", "nilEmpty"),
    ("CoerceList", "post", "result"),
    ("CoerceList", "[]any", "same"),
    ("CoerceList", "[]string", "first"),
    ("CoerceList", "[]json.Number", "first"),
    ("CoerceList", "[]bool", "first"),
    ("CoerceList", "[]map[string]any", "first"),
    ("CoerceList", "[]float64", "first"),
    ("CoerceList", "[]float32", "first"),
    ("CoerceList", "[]int", "first"),
    ("CoerceList", "[]int32", "first"),
    ("CoerceList", "[]int64", "first"),
    ("CoerceList", "default", "wrap")] := by rfl

/-- the per-function tables the model reads are projections of that table -/
def sel (fn : String) : List (String × String) :=
  (Gen.ScalarArms.arms.filter fun a => a.1 = fn).map fun a => a.2

theorem fn_tables_expected :
    Gen.ScalarArms.fn_UnmarshalInt = sel "UnmarshalInt" ∧
    Gen.ScalarArms.fn_UnmarshalInt64 = sel "UnmarshalInt64" ∧
    Gen.ScalarArms.fn_UnmarshalInt32 = sel "UnmarshalInt32" ∧
    Gen.ScalarArms.fn_UnmarshalUint = sel "UnmarshalUint" ∧
    Gen.ScalarArms.fn_UnmarshalUint64 = sel "UnmarshalUint64" ∧
    Gen.ScalarArms.fn_UnmarshalUint32 = sel "UnmarshalUint32" ∧
    Gen.ScalarArms.fn_UnmarshalID = sel "UnmarshalID" ∧
    Gen.ScalarArms.fn_UnmarshalIntID = sel "UnmarshalIntID" ∧
    Gen.ScalarArms.fn_UnmarshalUintID = sel "UnmarshalUintID" ∧
    Gen.ScalarArms.fn_UnmarshalFloat = sel "UnmarshalFloat" ∧
    Gen.ScalarArms.fn_UnmarshalFloatContext = sel "UnmarshalFloatContext" ∧
    Gen.ScalarArms.fn_UnmarshalString = sel "UnmarshalString" ∧
    Gen.ScalarArms.fn_UnmarshalBoolean = sel "UnmarshalBoolean" ∧
    Gen.ScalarArms.fn_CoerceList = sel "CoerceList" := by
  refine ⟨?_, ?_, ?_, ?_, ?_, ?_, ?_, ?_, ?_, ?_, ?_, ?_, ?_, ?_⟩ <;> rfl

/-! ## no numeric input is silently changed to a different number -/

/-- Go `int` / `int64` values are 64-bit -/
def WellTyped : Raw → Prop
  | .int n | .i64 n => Go.inInt64 n
  | _ => True

/-- the integer a dynamic value denotes, when it is numeric input: the Go integer itself, or the decimal text
    `[+-]?digits` of a `json.Number` / string. Booleans, floats, lists, maps denote no integer. -/
def Denotes : Raw → Int → Prop
  | .int n, r | .i64 n, r => r = n
  | .num t, r | .str t, r => Spec.decimalText true t = some r
  | _, _ => False

theorem nsc_int (v : Raw) (hv : WellTyped v) (hn : v.isNil = false) (p : Path) (g : GoV)
    (h : scalar .int v p = .ok g) : ∃ r, g = .int r ∧ Denotes v r ∧ Spec.inRange .int r = true := by
  cases v
  case typed k xs =>
    cases k <;> simp [scalar, armsOf, arm, armBody, Gen.ScalarArms.fn_UnmarshalInt, Raw.goType, armSem,
      SliceK.goType] at h
  all_goals
    simp [scalar, armsOf, arm, armBody, Gen.ScalarArms.fn_UnmarshalInt, Raw.goType, armSem, numericArm,
      Gen.IntCasts.run, scalarFn, Raw.isNil, textOf] at h hn ⊢
  case int n =>
    obtain ⟨r, hr, rfl⟩ := liftCast_ok h
    obtain ⟨h1, h2⟩ := exact_UnmarshalInt_int n hv r hr
    exact ⟨r, rfl, h1, inRange_int h2⟩
  case i64 n =>
    obtain ⟨r, hr, rfl⟩ := liftCast_ok h
    obtain ⟨h1, h2⟩ := exact_UnmarshalInt_int64 n hv r hr
    exact ⟨r, rfl, h1, inRange_int h2⟩
  case num t =>
    split at h
    · cases h
      rename_i r hr
      obtain ⟨h1, h2⟩ := parseInt64_ok hr
      exact ⟨r, rfl, h1, inRange_int h2⟩
    · cases h
  case str t =>
    split at h
    · cases h
      rename_i r hr
      obtain ⟨h1, h2⟩ := parseInt64_ok hr
      exact ⟨r, rfl, h1, inRange_int h2⟩
    · cases h

theorem nsc_int64 (v : Raw) (hv : WellTyped v) (hn : v.isNil = false) (p : Path) (g : GoV)
    (h : scalar .int64 v p = .ok g) : ∃ r, g = .int r ∧ Denotes v r ∧ Spec.inRange .int64 r = true := by
  cases v
  case typed k xs =>
    cases k <;> simp [scalar, armsOf, arm, armBody, Gen.ScalarArms.fn_UnmarshalInt64, Raw.goType, armSem,
      SliceK.goType] at h
  all_goals
    simp [scalar, armsOf, arm, armBody, Gen.ScalarArms.fn_UnmarshalInt64, Raw.goType, armSem, numericArm,
      Gen.IntCasts.run, scalarFn, Raw.isNil, textOf] at h hn ⊢
  case int n =>
    obtain ⟨r, hr, rfl⟩ := liftCast_ok h
    obtain ⟨h1, h2⟩ := exact_UnmarshalInt64_int n hv r hr
    exact ⟨r, rfl, h1, inRange_int64 h2⟩
  case i64 n =>
    obtain ⟨r, hr, rfl⟩ := liftCast_ok h
    obtain ⟨h1, h2⟩ := exact_UnmarshalInt64_int64 n hv r hr
    exact ⟨r, rfl, h1, inRange_int64 h2⟩
  case num t =>
    split at h
    · cases h
      rename_i r hr
      obtain ⟨h1, h2⟩ := parseInt64_ok hr
      exact ⟨r, rfl, h1, inRange_int64 h2⟩
    · cases h
  case str t =>
    split at h
    · cases h
      rename_i r hr
      obtain ⟨h1, h2⟩ := parseInt64_ok hr
      exact ⟨r, rfl, h1, inRange_int64 h2⟩
    · cases h

theorem nsc_intID (v : Raw) (hv : WellTyped v) (hn : v.isNil = false) (p : Path) (g : GoV)
    (h : scalar .intID v p = .ok g) : ∃ r, g = .int r ∧ Denotes v r ∧ Spec.inRange .intID r = true := by
  cases v
  case typed k xs =>
    cases k <;> simp [scalar, armsOf, arm, armBody, Gen.ScalarArms.fn_UnmarshalIntID, Raw.goType, armSem,
      SliceK.goType] at h
  all_goals
    simp [scalar, armsOf, arm, armBody, Gen.ScalarArms.fn_UnmarshalIntID, Raw.goType, armSem, numericArm,
      Gen.IntCasts.run, scalarFn, Raw.isNil, textOf] at h hn ⊢
  case int n =>
    obtain ⟨r, hr, rfl⟩ := liftCast_ok h
    obtain ⟨h1, h2⟩ := exact_UnmarshalIntID_int n hv r hr
    exact ⟨r, rfl, h1, inRange_intID h2⟩
  case i64 n =>
    obtain ⟨r, hr, rfl⟩ := liftCast_ok h
    obtain ⟨h1, h2⟩ := exact_UnmarshalIntID_int64 n hv r hr
    exact ⟨r, rfl, h1, inRange_intID h2⟩
  case num t =>
    split at h
    · cases h
      rename_i r hr
      obtain ⟨h1, h2⟩ := parseInt64_ok hr
      exact ⟨r, rfl, h1, inRange_intID h2⟩
    · cases h
  case str t =>
    split at h
    · cases h
      rename_i r hr
      obtain ⟨h1, h2⟩ := parseInt64_ok hr
      exact ⟨r, rfl, h1, inRange_intID h2⟩
    · cases h

theorem nsc_int32 (v : Raw) (hv : WellTyped v) (hn : v.isNil = false) (p : Path) (g : GoV)
    (h : scalar .int32 v p = .ok g) : ∃ r, g = .int r ∧ Denotes v r ∧ Spec.inRange .int32 r = true := by
  cases v
  case typed k xs =>
    cases k <;> simp [scalar, armsOf, arm, armBody, Gen.ScalarArms.fn_UnmarshalInt32, Raw.goType, armSem,
      SliceK.goType] at h
  all_goals
    simp [scalar, armsOf, arm, armBody, Gen.ScalarArms.fn_UnmarshalInt32, Raw.goType, armSem, numericArm,
      Gen.IntCasts.run, scalarFn, Raw.isNil, textOf] at h hn ⊢
  case int n =>
    obtain ⟨r, hr, rfl⟩ := liftCast_ok h
    obtain ⟨h1, h2⟩ := exact_UnmarshalInt32_int n hv r hr
    exact ⟨r, rfl, h1, inRange_int32 h2⟩
  case i64 n =>
    obtain ⟨r, hr, rfl⟩ := liftCast_ok h
    obtain ⟨h1, h2⟩ := exact_UnmarshalInt32_int64 n hv r hr
    exact ⟨r, rfl, h1, inRange_int32 h2⟩
  case num t =>
    split at h
    · rename_i r hr
      obtain ⟨h1, _⟩ := parseInt64_ok hr
      obtain ⟨r', hr', rfl⟩ := liftCast_ok h
      obtain ⟨e, h3⟩ := safeCastInt32_ok hr'
      subst e
      exact ⟨r', rfl, h1, inRange_int32 h3⟩
    · cases h
  case str t =>
    split at h
    · rename_i r hr
      obtain ⟨h1, _⟩ := parseInt64_ok hr
      obtain ⟨r', hr', rfl⟩ := liftCast_ok h
      obtain ⟨e, h3⟩ := safeCastInt32_ok hr'
      subst e
      exact ⟨r', rfl, h1, inRange_int32 h3⟩
    · cases h

theorem nsc_uint (v : Raw) (hv : WellTyped v) (hn : v.isNil = false) (p : Path) (g : GoV)
    (h : scalar .uint v p = .ok g) : ∃ r, g = .int r ∧ Denotes v r ∧ Spec.inRange .uint r = true := by
  cases v
  case typed k xs =>
    cases k <;> simp [scalar, armsOf, arm, armBody, Gen.ScalarArms.fn_UnmarshalUint, Raw.goType, armSem,
      SliceK.goType] at h
  all_goals
    simp [scalar, armsOf, arm, armBody, Gen.ScalarArms.fn_UnmarshalUint, Raw.goType, armSem, numericArm,
      Gen.IntCasts.run, scalarFn, Raw.isNil, textOf] at h hn ⊢
  case int n =>
    obtain ⟨r, hr, rfl⟩ := liftCast_ok h
    obtain ⟨h1, h2⟩ := exact_UnmarshalUint_int n hv r hr
    exact ⟨r, rfl, h1, inRange_uint h2⟩
  case i64 n =>
    obtain ⟨r, hr, rfl⟩ := liftCast_ok h
    obtain ⟨h1, h2⟩ := exact_UnmarshalUint_int64 n hv r hr
    exact ⟨r, rfl, h1, inRange_uint h2⟩
  case num t =>
    split at h
    · cases h
      rename_i r hr
      obtain ⟨h1, h2⟩ := parseUint64_ok hr
      exact ⟨Go.conv_uint r, rfl, by rw [conv_uint_id h2]; exact h1, by rw [conv_uint_id h2]; exact inRange_uint h2⟩
    · exact absurd h uintSignErr_ne_ok
  case str t =>
    split at h
    · cases h
      rename_i r hr
      obtain ⟨h1, h2⟩ := parseUint64_ok hr
      exact ⟨Go.conv_uint r, rfl, by rw [conv_uint_id h2]; exact h1, by rw [conv_uint_id h2]; exact inRange_uint h2⟩
    · exact absurd h uintSignErr_ne_ok

theorem nsc_uintID (v : Raw) (hv : WellTyped v) (hn : v.isNil = false) (p : Path) (g : GoV)
    (h : scalar .uintID v p = .ok g) : ∃ r, g = .int r ∧ Denotes v r ∧ Spec.inRange .uintID r = true := by
  cases v
  case typed k xs =>
    cases k <;> simp [scalar, armsOf, arm, armBody, Gen.ScalarArms.fn_UnmarshalUintID, Raw.goType, armSem,
      SliceK.goType] at h
  all_goals
    simp [scalar, armsOf, arm, armBody, Gen.ScalarArms.fn_UnmarshalUintID, Raw.goType, armSem, numericArm,
      Gen.IntCasts.run, scalarFn, Raw.isNil, textOf] at h hn ⊢
  case int n =>
    obtain ⟨r, hr, rfl⟩ := liftCast_ok h
    obtain ⟨h1, h2⟩ := exact_UnmarshalUintID_int n hv r hr
    exact ⟨r, rfl, h1, inRange_uintID h2⟩
  case i64 n =>
    obtain ⟨r, hr, rfl⟩ := liftCast_ok h
    obtain ⟨h1, h2⟩ := exact_UnmarshalUintID_int64 n hv r hr
    exact ⟨r, rfl, h1, inRange_uintID h2⟩
  case num t =>
    split at h
    · cases h
      rename_i r hr
      obtain ⟨h1, h2⟩ := parseUint64_ok hr
      exact ⟨Go.conv_uint r, rfl, by rw [conv_uint_id h2]; exact h1, by rw [conv_uint_id h2]; exact inRange_uintID h2⟩
    · cases h
  case str t =>
    split at h
    · cases h
      rename_i r hr
      obtain ⟨h1, h2⟩ := parseUint64_ok hr
      exact ⟨Go.conv_uint r, rfl, by rw [conv_uint_id h2]; exact h1, by rw [conv_uint_id h2]; exact inRange_uintID h2⟩
    · cases h

theorem nsc_uint64 (v : Raw) (hv : WellTyped v) (hn : v.isNil = false) (p : Path) (g : GoV)
    (h : scalar .uint64 v p = .ok g) : ∃ r, g = .int r ∧ Denotes v r ∧ Spec.inRange .uint64 r = true := by
  cases v
  case typed k xs =>
    cases k <;> simp [scalar, armsOf, arm, armBody, Gen.ScalarArms.fn_UnmarshalUint64, Raw.goType, armSem,
      SliceK.goType] at h
  all_goals
    simp [scalar, armsOf, arm, armBody, Gen.ScalarArms.fn_UnmarshalUint64, Raw.goType, armSem, numericArm,
      Gen.IntCasts.run, scalarFn, Raw.isNil, textOf] at h hn ⊢
  case int n =>
    obtain ⟨r, hr, rfl⟩ := liftCast_ok h
    obtain ⟨h1, h2⟩ := exact_UnmarshalUint64_int n hv r hr
    exact ⟨r, rfl, h1, inRange_uint64 h2⟩
  case i64 n =>
    obtain ⟨r, hr, rfl⟩ := liftCast_ok h
    obtain ⟨h1, h2⟩ := exact_UnmarshalUint64_int64 n hv r hr
    exact ⟨r, rfl, h1, inRange_uint64 h2⟩
  case num t =>
    split at h
    · cases h
      rename_i r hr
      obtain ⟨h1, h2⟩ := parseUint64_ok hr
      exact ⟨r, rfl, h1, inRange_uint64 h2⟩
    · exact absurd h uintSignErr_ne_ok
  case str t =>
    split at h
    · cases h
      rename_i r hr
      obtain ⟨h1, h2⟩ := parseUint64_ok hr
      exact ⟨r, rfl, h1, inRange_uint64 h2⟩
    · exact absurd h uintSignErr_ne_ok

theorem nsc_uint32 (v : Raw) (hv : WellTyped v) (hn : v.isNil = false) (p : Path) (g : GoV)
    (h : scalar .uint32 v p = .ok g) : ∃ r, g = .int r ∧ Denotes v r ∧ Spec.inRange .uint32 r = true := by
  cases v
  case typed k xs =>
    cases k <;> simp [scalar, armsOf, arm, armBody, Gen.ScalarArms.fn_UnmarshalUint32, Raw.goType, armSem,
      SliceK.goType] at h
  all_goals
    simp [scalar, armsOf, arm, armBody, Gen.ScalarArms.fn_UnmarshalUint32, Raw.goType, armSem, numericArm,
      Gen.IntCasts.run, scalarFn, Raw.isNil, textOf] at h hn ⊢
  case int n =>
    obtain ⟨r, hr, rfl⟩ := liftCast_ok h
    obtain ⟨h1, h2⟩ := exact_UnmarshalUint32_int n hv r hr
    exact ⟨r, rfl, h1, inRange_uint32 h2⟩
  case i64 n =>
    obtain ⟨r, hr, rfl⟩ := liftCast_ok h
    obtain ⟨h1, h2⟩ := exact_UnmarshalUint32_int64 n hv r hr
    exact ⟨r, rfl, h1, inRange_uint32 h2⟩
  case num t =>
    split at h
    · rename_i r hr
      obtain ⟨h1, h2⟩ := parseUint64_ok hr
      obtain ⟨r', hr', rfl⟩ := liftCast_ok h
      obtain ⟨e, h3⟩ := safeCastUint32_ok h2.1 hr'
      subst e
      exact ⟨r', rfl, h1, inRange_uint32 h3⟩
    · exact absurd h uintSignErr_ne_ok
  case str t =>
    split at h
    · rename_i r hr
      obtain ⟨h1, h2⟩ := parseUint64_ok hr
      obtain ⟨r', hr', rfl⟩ := liftCast_ok h
      obtain ⟨e, h3⟩ := safeCastUint32_ok h2.1 hr'
      subst e
      exact ⟨r', rfl, h1, inRange_uint32 h3⟩
    · exact absurd h uintSignErr_ne_ok

def intScalar : ScalarK → Bool
  | .int | .int32 | .int64 | .uint | .uint32 | .uint64 | .intID | .uintID => true
  | _ => false

/-- **No silent numeric change, every integer scalar (Int, Int32, Int64, Uint, Uint32, Uint64 and the ID forms
    IntID, UintID).** Whatever non-nil dynamic value reaches `graphql.Unmarshal<K>` — Go int / int64,
    `json.Number`, string, float64, bool, list, map — if it returns a value at all, the value is the integer the
    input denotes and lies in the range of the Go type. In particular a float64, a non-integer or out-of-range
    `json.Number` ("1.0", "1e3", "9223372036854775808"), a negative number for an unsigned type are errors. -/
theorem no_silent_numeric_change (k : ScalarK) (hk : intScalar k = true) (v : Raw) (hv : WellTyped v)
    (hn : v.isNil = false) (p : Path) (g : GoV) (h : scalar k v p = .ok g) :
    ∃ r, g = .int r ∧ Denotes v r ∧ Spec.inRange k r = true := by
  cases k <;> simp [intScalar] at hk
  · exact nsc_int v hv hn p g h
  · exact nsc_int32 v hv hn p g h
  · exact nsc_int64 v hv hn p g h
  · exact nsc_uint v hv hn p g h
  · exact nsc_uint32 v hv hn p g h
  · exact nsc_uint64 v hv hn p g h
  · exact nsc_intID v hv hn p g h
  · exact nsc_uintID v hv hn p g h

/-- non-vacuity: accepted and rejected inputs of each kind -/
example : scalar .uintID (.i64 (-1)) [] = .error (.err [] "newUintSignError") := by rfl
example : scalar .uintID (.i64 7) [] = .ok (.int 7) := by rfl
example : scalar .int (.num "1.0") ["v"] = .error (.err ["v"] "syntax") := by rfl
example : scalar .int (.num "1e3") ["v"] = .error (.err ["v"] "syntax") := by rfl
example : scalar .int (.f64 "1.5") ["v"] = .error (.err ["v"] "type") := by rfl
example : scalar .int32 (.num "2147483648") [] = .error (.err [] "newInt32OverflowError") := by rfl
example : scalar .int32 (.str "-2147483648") [] = .ok (.int (-2147483648)) := by rfl
example : scalar .uint64 (.num "18446744073709551615") [] = .ok (.int 18446744073709551615) := by rfl
example : scalar .uint64 (.num "18446744073709551616") [] = .error (.err [] "range") := by rfl
example : scalar .uint32 (.str "-1") [] = .error (.err [] "newUintSignError") := by rfl

/-- The ID scalar itself is not an integer scalar: a custom scalar bound to `graphql.ID` given a float64 (a
    float literal) is formatted with six decimals — known finding F02d (`Spec.Devs.idFloat6`); the harness
    replays `UnmarshalID(float64(0.1234567)) = "0.123457"` on the real function. -/
theorem id_float_six_decimals_witness : scalar .id (.f64 "0.1234567") [] = .ok (.fmt6 "0.1234567") := by rfl


/-! ## single value → list -/

/-- **Single value → list (generated code).** For every list type, element shape and non-null non-list value,
    the generated unmarshal function yields the one-item list of the item's own coercion, under index 0. -/
theorem single_to_list (s : Schema) (c : Cfg) (f : Nat) (et : Ty) (nn : Bool) (el : Sh) (v : Raw) (path : Path)
    (h : Single v = true) :
    unm s c (f + 1) (.list et nn) (.slice el) v path =
      (match unm s c (f + 1) et el v (path ++ ["0"]) with
       | .ok g => .ok (.slice [g])
       | .error e => .error e) := by
  have hn : v.isNil = false := by cases v <;> simp [Single] at h <;> rfl
  have h0 : toString 0 = "0" := by decide
  rw [unm_succ, unm_succ, unmSh_slice]
  simp only [hn, unmSlice, coerceList_single v h, mapIdxE, h0]
  simp only [Bool.false_and, Bool.false_eq_true, if_false]
  generalize unmSh s _ el et v (path ++ ["0"]) = r
  cases r <;> rfl

/-- **Single value → list through variables.** gqlparser's validator wraps a single variable value into a typed
    slice (`[]json.Number{…}`, `[]string{…}`, `[]map[string]any{…}`, …); `graphql.CoerceList` — whose arms are
    read from the source — undoes exactly that wrap, for every kind of value the wrap can see. -/
theorem single_to_list_through_variable_wrap (v : Raw) (h : Single v = true) :
    coerceList (.typed (sliceTypeOf v) [v]) = coerceList v := by
  rw [coerceList_single v h]
  cases v <;> simp [Single] at h <;>
    simp [coerceList, arm, armBody, Gen.ScalarArms.fn_CoerceList, Raw.goType, sliceTypeOf, SliceK.goType]


example : Single (.num "5") = true ∧ Single (.obj []) = true ∧ Single (.list []) = false := by decide
example : coerceList (.typed .numbers [.num "5"]) = [.num "5"] := by rfl
/-- only the first element of a typed slice survives `CoerceList` (no JSON input produces a longer one) -/
example : coerceList (.typed .strings [.str "a", .str "b"]) = [.str "a"] := by rfl

/-- the Spec's rule is the same one: a non-list, non-null input at a list type is the one-item list -/
theorem single_to_list_spec (s : Schema) (f : Nat) (et : Ty) (nn : Bool) (iv : Spec.IV) (path : Path)
    (hn : Spec.isNullIV iv = false) (hl : ∀ xs, iv ≠ .list xs) :
    Spec.coerce {} s (f + 1) (.list et nn) iv path =
      (match Spec.coerce {} s (f + 1) et iv (path ++ ["0"]) with
       | .ok c => .ok (.list [c])
       | .error e => .error e) := by
  simp only [Spec.coerce]
  conv => lhs; unfold Spec.coerceTy
  simp only [hn]
  cases iv <;> first | (exact absurd rfl (hl _)) | (simp [Spec.isNullIV] at hn; done) | rfl | simp

/-! ### single value → list: which dynamic types `CoerceList` treats specially (round 5)

`CoerceList` may look INSIDE its argument (`len(v)`, `v[0]`) only when the argument is a slice: for a slice `len(v)`
counts list items; for anything else (a `map[string]any` = ONE input object, a string, …) a length says nothing
about a list, and the value is one item. The three statements below are over the type-switch table regenerated
from `graphql/coercion.go`: a new `case map[string]any:` (or any other non-slice case), whatever its body, stops
them closing. -/

/-- a `case` type of the regenerated table that names a slice type (`[]…`) -/
def isSliceCase (t : String) : Bool := t.toList.take 2 = ['[', ']']

/-- **Only slices are special.** Every `case` of `graphql.CoerceList`'s type switch is a slice type; all other
    dynamic types go through `default`. -/
theorem coerceList_special_cases_are_slices :
    ∀ a ∈ Gen.ScalarArms.fn_CoerceList, a.1 = "pre" ∨ a.1 = "post" ∨ a.1 = "default" ∨ isSliceCase a.1 = true := by
  decide

/-- **A single value takes the wrapping arm**, whatever it is: a scalar of any Go type, an input object with any
    number of fields — also none —, … -/
theorem single_takes_wrap_arm (v : Raw) (h : Single v = true) :
    arm Gen.ScalarArms.fn_CoerceList v.goType = some "wrap" := by
  cases v <;> simp [Single] at h <;> rfl

/-- **The empty input object is one item.** `{}` (valid for every input type whose fields are all nullable or
    defaulted) given where a list is expected is the one-item list of the item's own coercion — so the item's
    field defaults are injected —, not the empty list; as a literal / schema default (`map[string]any{}`) and
    through the validator's wrap of a variable (`[]map[string]any{{}}`). -/
theorem empty_object_single_to_list (s : Schema) (c : Cfg) (f : Nat) (et : Ty) (nn : Bool) (el : Sh) (path : Path) :
    coerceList (.obj []) = [.obj []] ∧ coerceList (.typed .maps [.obj []]) = [.obj []] ∧
    unm s c (f + 1) (.list et nn) (.slice el) (.obj []) path =
      (match unm s c (f + 1) et el (.obj []) (path ++ ["0"]) with
       | .ok g => .ok (.slice [g])
       | .error e => .error e) :=
  ⟨coerceList_single _ rfl, (single_to_list_through_variable_wrap (.obj []) rfl).trans (coerceList_single _ rfl),
   single_to_list s c f et nn el (.obj []) path rfl⟩

/-! ## omitted vs explicit null vs value -/

/-- **Omitted vs explicit null vs value, struct-backed inputs with `nullable_input_omittable`.** -/
theorem omitted_vs_null_observable (s : Schema) (c : Cfg) (f : Nat) (zeroOf : Sh → GoV) (asMap : List (String × Raw))
    (path : Path) (fd : FieldDef) (hom : fieldOmittable c fd.ty = true) :
    (lookup asMap fd.name = none →
      structField s c zeroOf (unm s c (f + 1)) asMap path fd = .ok (fd.goName, .unset)) ∧
    (lookup asMap fd.name = some .nil →
      ∃ z, structField s c zeroOf (unm s c (f + 1)) asMap path fd = .ok (fd.goName, .set z) ∧ z.isNilGo = true) ∧
    (∀ v g, lookup asMap fd.name = some v → v.isNil = false →
      unm s c (f + 1) fd.ty (shapeField s c fd.ty) v (path ++ [fd.name]) = .ok g →
      structField s c zeroOf (unm s c (f + 1)) asMap path fd = .ok (fd.goName, .set g) ∧ g.isNilGo = false) := by
  have hnn := fieldOmittable_nullable hom
  refine ⟨?_, ?_, ?_⟩
  · intro h; simp [structField, h, hom]
  · intro h
    obtain ⟨z, hz, hzn⟩ := unm_null s c f fd.ty (shapeField s c fd.ty) (path ++ [fd.name]) hnn
      (shapeField_nilable s c fd.ty hnn)
    exact ⟨z, by simp [structField, h, hom, hz], hzn⟩
  · intro v g h hv hu
    exact ⟨by simp [structField, h, hom, hu],
      unm_value_not_nil s c f fd.ty _ v _ g hv (shapeField_nilable s c fd.ty hnn) hu⟩

/-- **Omitted vs explicit null vs value, map-backed inputs** (`it[k] = data` only for keys present). -/
theorem omitted_vs_null_observable_map (s : Schema) (c : Cfg) (f : Nat) (asMap : List (String × Raw))
    (path : Path) (fd : FieldDef) (hnn : fd.ty.nn = false) :
    (lookup asMap fd.name = none → mapField s c (unm s c (f + 1)) asMap path fd = .ok none) ∧
    (lookup asMap fd.name = some .nil →
      ∃ z, mapField s c (unm s c (f + 1)) asMap path fd = .ok (some (fd.name, z)) ∧ z.isNilGo = true) ∧
    (∀ v g, lookup asMap fd.name = some v → v.isNil = false →
      unm s c (f + 1) fd.ty (shapeRef s c fd.ty) v (path ++ [fd.name]) = .ok g →
      mapField s c (unm s c (f + 1)) asMap path fd = .ok (some (fd.name, g)) ∧ g.isNilGo = false) := by
  refine ⟨?_, ?_, ?_⟩
  · intro h; simp [mapField, h]
  · intro h
    obtain ⟨z, hz, hzn⟩ := unm_null s c f fd.ty (shapeRef s c fd.ty) (path ++ [fd.name]) hnn
      (shapeRef_nilable s c fd.ty hnn)
    exact ⟨z, by simp [mapField, h, hz], hzn⟩
  · intro v g h hv hu
    exact ⟨by simp [mapField, h, hu],
      unm_value_not_nil s c f fd.ty _ v _ g hv (shapeRef_nilable s c fd.ty hnn) hu⟩

/-- the three states are three different Go values -/
theorem three_states_distinct (z g : GoV) (hz : z.isNilGo = true) (hg : g.isNilGo = false) :
    GoV.unset ≠ GoV.set z ∧ GoV.unset ≠ GoV.set g ∧ GoV.set z ≠ GoV.set g := by
  refine ⟨by simp, by simp, ?_⟩
  intro h; injection h with h; subst h; simp [hz] at hg

/-! ## a coercion error blocks the resolver -/

/-- **An argument that cannot be coerced is an error at the argument's path and the resolver is not
    called** (`fieldContext_*` runs `field_*_args` first; `_T_f` returns `graphql.Null` on its error). The error's
    path starts with `fieldPath ++ [argument name]` for an argument of the field. -/
theorem coerce_error_blocks_resolver (s : Schema) (c : Cfg) (vars : List (String × Raw)) (defs : List ArgDef)
    (given : List (String × Lit)) (fp p : Path) (cls : String)
    (h : fieldArgs s c vars defs given fp = .error (.err p cls)) :
    fieldStep s c vars defs given fp = .error p cls ∧
    (∀ args, fieldStep s c vars defs given fp ≠ .call args) ∧
    ∃ d, d ∈ defs ∧ (fp ++ [d.name]) <+: p := by
  refine ⟨by simp [fieldStep, h], by simp [fieldStep, h], fieldArgs_err_prefix h⟩

/-- the resolver is called exactly when every argument was coerced, with those values -/
theorem resolver_called_iff (s : Schema) (c : Cfg) (vars : List (String × Raw)) (defs : List ArgDef)
    (given : List (String × Lit)) (fp : Path) (args : List GoV) :
    fieldStep s c vars defs given fp = .call args ↔ fieldArgs s c vars defs given fp = .ok args := by
  unfold fieldStep
  constructor
  · intro h
    split at h <;> simp_all
  · intro h; simp [h]

/-- a Go panic while building the arguments (gqlparser's `arg2map` on an out-of-range `Int` literal — F02b —, the
    type assertion of `unmarshalInput*` — F02c) is recovered: no resolver call, but the error is reported at the
    FIELD's own path, not at the argument's. -/
theorem panic_blocks_resolver_at_field_path (s : Schema) (c : Cfg) (vars : List (String × Raw))
    (defs : List ArgDef) (given : List (String × Lit)) (fp : Path) (w : String)
    (h : fieldArgs s c vars defs given fp = .error (.panic w)) :
    fieldStep s c vars defs given fp = .error fp ("panic: " ++ w) := by
  simp [fieldStep, h]

/-! ## a concrete schema: non-vacuity of the theorems above, and the witnesses of the known deviations -/

/-- `input In { n: Int!  o: Int  s: String = "dflt" }`, map-backed twin `M`, `scalar U64`, `scalar MyID` -/
def exSchema : Schema :=
  { types := [("Int", .scalar .int), ("String", .scalar .string), ("U64", .scalar .uint64), ("MyID", .scalar .id),
      ("In", .input false [⟨"n", "N", .named "Int" true, none, false⟩, ⟨"o", "O", .named "Int" false, none, false⟩,
                           ⟨"s", "S", .named "String" false, some (.str "dflt"), false⟩]),
      ("M", .input true [⟨"a", "", .named "Int" false, none, false⟩])] }

def exOm : Cfg := { omittable := true }
def argV (t : Ty) : List ArgDef := [⟨"v", t, none, false⟩]

/-- absent / null / value of the Omittable field `o` reach the resolver as `unset` / `set(nil)` / `set(&3)` -/
example : (fieldArgs exSchema exOm [] (argV (.named "In" true)) [("v", .obj [("n", .int 1)])] ["f"]).map (·.map render)
    = .ok ["{N:1,O:unset,S:set(&\"dflt\")}"] := by rfl
example : (fieldArgs exSchema exOm [] (argV (.named "In" true)) [("v", .obj [("n", .int 1), ("o", .null)])] ["f"]).map (·.map render)
    = .ok ["{N:1,O:set(nil),S:set(&\"dflt\")}"] := by rfl
example : (fieldArgs exSchema exOm [] (argV (.named "In" true)) [("v", .obj [("n", .int 1), ("o", .int 3)])] ["f"]).map (·.map render)
    = .ok ["{N:1,O:set(&3),S:set(&\"dflt\")}"] := by rfl
/-- map-backed: absent key / nil / value -/
example : (fieldArgs exSchema {} [] (argV (.named "M" false)) [("v", .obj [])] ["f"]).map (·.map render) = .ok ["map{}"] := by rfl
example : (fieldArgs exSchema {} [] (argV (.named "M" false)) [("v", .obj [("a", .null)])] ["f"]).map (·.map render) = .ok ["map{a:nil}"] := by rfl
example : (fieldArgs exSchema {} [] (argV (.named "M" false)) [("v", .obj [("a", .int 2)])] ["f"]).map (·.map render) = .ok ["map{a:&2}"] := by rfl
/-- an uncoercible nested value: error at f/v/n, no call -/
example : fieldStep exSchema {} [("x", .str "abc")] (argV (.named "In" true)) [("v", .obj [("n", .var "x")])] ["f"]
    = .error ["f", "v", "n"] "syntax" := by rfl
/-- null for a non-null position (through a defaulted nullable variable): error at the argument, not the Go zero value -/
example : fieldStep exSchema {} [("x", .nil)] (argV (.named "Int" true)) [("v", .var "x")] ["f"]
    = .error ["f", "v"] "null" := by rfl

/-- **F02a witness** — the specification omits a field whose variable has no value (so the default applies); the
    code passes an explicit null: `{n: 1, s: $x}` with `$x` absent. -/
theorem absent_variable_in_object_witness :
    fieldStep exSchema exOm [] (argV (.named "In" true)) [("v", .obj [("n", .int 1), ("s", .var "x")])] ["f"]
      = .call [.struct [("N", .int 1), ("O", .unset), ("S", .set .nil)]] ∧
    Spec.fieldStep {} exSchema exOm [] (argV (.named "In" true)) [("v", .obj [("n", .int 1), ("s", .var "x")])] ["f"]
      = .call [.struct [("N", .int 1), ("O", .unset), ("S", .set (.ptr (.str "dflt")))]] ∧
    Spec.fieldStep { absentVarNull := true } exSchema exOm [] (argV (.named "In" true))
        [("v", .obj [("n", .int 1), ("s", .var "x")])] ["f"]
      = .call [.struct [("N", .int 1), ("O", .unset), ("S", .set .nil)]] := by
  refine ⟨by rfl, by rfl, by rfl⟩

/-- **F02b witness** — `u64(v: 18446744073709551615)`: a valid Uint64, but gqlparser's `arg2map` panics on the
    literal; the error is at the field's path `f`, where the specification delivers the value. -/
theorem literal_over_int64_witness :
    fieldStep exSchema {} [] (argV (.named "U64" false)) [("v", .int 18446744073709551615)] ["f"]
      = .error ["f"] "panic: strconv.ParseInt: value out of range" ∧
    Spec.fieldStep {} exSchema {} [] (argV (.named "U64" false)) [("v", .int 18446744073709551615)] ["f"]
      = .call [.ptr (.int 18446744073709551615)] := by
  refine ⟨by rfl, by rfl⟩

/-- **F02c witness** — a list of map-backed inputs given as a list crashes `unmarshalInput*`'s type assertion
    (the Go parameter is a single map); the specification's value is the list of the coerced objects. -/
theorem list_of_map_inputs_witness :
    fieldStep exSchema {} [] (argV (.list (.named "M" true) false)) [("v", .list [.obj [("a", .int 1)]])] ["f"]
      = .error ["f"] "panic: interface conversion: not map[string]interface {}" ∧
    Spec.coerce {} exSchema 5 (.list (.named "M" true) false) (.list [.obj [("a", .int 1 "1")]]) ["f", "v"]
      = .ok (.list [.obj [("a", .int 1)]]) := by
  refine ⟨by rfl, by rfl⟩

/-- **F02d witness** — a custom scalar bound to `graphql.ID`, float literal: six decimals (`fmt6`), where the
    specification (an ID is a string or an integer) has a coercion error. -/
theorem id_float_witness :
    fieldStep exSchema {} [] (argV (.named "MyID" false)) [("v", .float "0.1234567")] ["f"]
      = .call [.ptr (.fmt6 "0.1234567")] ∧
    Spec.fieldStep {} exSchema {} [] (argV (.named "MyID" false)) [("v", .float "0.1234567")] ["f"]
      = .error ["f", "v"] "spec" := by
  refine ⟨by rfl, by rfl⟩

/-- **F02e witness** — `$x: [[Int]]` with `[null]`: gqlparser's validator panics, the specification accepts. -/
theorem nested_null_panic_witness :
    varValues exSchema [⟨"x", .list (.list (.named "Int" false) false) false, none⟩] [("x", .list [.nil])]
      = .error (.panic "reflect: call of reflect.Value.Type on zero Value") ∧
    Spec.coerceVars {} exSchema [⟨"x", .list (.list (.named "Int" false) false) false, none⟩] [("x", .list [.nil])]
      = .ok [("x", .list [.null])] := by
  refine ⟨by rfl, by rfl⟩

/-- **F02f witness** — `$x: Int` given the string "7": accepted as 7 (gqlparser `IsValidIntString`, `UnmarshalInt`'s
    string arm); the specification refuses strings for `Int`. The received number is the one the text denotes
    (`no_silent_numeric_change`). -/
theorem lenient_string_for_int_witness :
    varValues exSchema [⟨"x", .named "Int" false, none⟩] [("x", .str "7")] = .ok [("x", .str "7")] ∧
    fieldStep exSchema {} [("x", .str "7")] (argV (.named "Int" false)) [("v", .var "x")] ["f"] = .call [.ptr (.int 7)] ∧
    Spec.coerceVars {} exSchema [⟨"x", .named "Int" false, none⟩] [("x", .str "7")] = .error (some ["variable", "x"]) := by
  refine ⟨by rfl, by rfl, by rfl⟩


/-! ## the generated coercion is the specification's coercion

Full-strength statement (NOT proved; evaluated on every generated case by the check as `model-vs-spec`):

    ∀ s c vars defs given fp,  fieldStep s c (varValues …) defs given fp = Spec.fieldStep Devs.all s c (coerceVars …) defs given fp

i.e. also the converse direction (whatever the code accepts is the specification's value once the six enumerated
deviations are switched on) and the equality of error paths, through gqlparser's `VariableValues` / `arg2map` as
modelled. What is proved is `coerce_eq_spec` below — the direction "the specification accepts ⇒ the generated code
delivers exactly that value", for the generated code proper (`unm`: type.gotpl / input.gotpl / CoerceList / the
scalar unmarshalers) — together with the witnesses above showing that without the deviations the statement is false
on the unchanged tree. -/

/-- **coerce_eq_spec — valid inputs, all type shapes, all configurations.** For every schema (distinct field
    names, literal defaults, types whose Go shapes fit them), every configuration, every GraphQL type `t` with a
    fitting Go shape `sh` (scalars of every binding, enums, lists at any depth, struct-backed and map-backed input
    objects, recursive ones included, with pointers / `Omittable` / slices as the options choose), and every value
    `v` as the JSON decoder or the literal evaluation produces it: if the specification's input coercion (no
    deviation switched on) accepts what the client wrote (`ivOf v`), the generated unmarshal code returns exactly
    the Go embedding of the specification's coerced value — omitted fields as zero / `unset` / missing keys, defaults
    injected, single values wrapped into lists, `null` as the nil of the shape. -/
theorem coerce_eq_spec (s : Schema) (c : Cfg) (wf : SchemaWF s c) (f : Nat) (t : Ty) (sh : Sh) (v : Raw)
    (path : Path) (cv : Spec.CV) (hf : fits s sh t = true) (hc : canon v = true)
    (hn : v.isNil = true → t.nn = true ∨ sh.nilable = true)
    (h : Spec.coerce {} s f t (ivOf v) path = .ok cv) :
    unm s c f t sh v path = .ok (Spec.embed s c f t sh cv) :=
  agree_all wf f t sh v path cv hf hc hn h

/-- the same for an argument of a field, with the Go parameter type the model derives (`shapeRef`, compared with
    reflection over the generated package on every run) -/
theorem coerce_eq_spec_argument (s : Schema) (c : Cfg) (wf : SchemaWF s c) (d : ArgDef) (hty : tyOK s d.ty = true)
    (v : Raw) (hc : canon v = true) (fp : Path) (cv : Spec.CV)
    (h : Spec.coerce {} s fuelDefault d.ty (ivOf v) (fp ++ [d.name]) = .ok cv) :
    unm s c fuelDefault d.ty (shapeRef s c d.ty) v (fp ++ [d.name]) =
      .ok (Spec.embed s c fuelDefault d.ty (shapeRef s c d.ty) cv) := by
  refine coerce_eq_spec s c wf _ _ _ v _ cv (shapeRef_fits s c d.ty hty) hc ?_ h
  intro _
  cases hnn : d.ty.nn
  · exact Or.inr (shapeRef_nilable s c d.ty hnn)
  · exact Or.inl rfl

/-- non-vacuity: the example schema satisfies `SchemaWF` under every configuration … -/
theorem exSchema_wf (c : Cfg) : SchemaWF exSchema c := by
  have hget : ∀ n isMap fields, exSchema.get n = some (.input isMap fields) →
      (n = "In" ∧ isMap = false ∧ fields = [⟨"n", "N", .named "Int" true, none, false⟩, ⟨"o", "O", .named "Int" false, none, false⟩,
                           ⟨"s", "S", .named "String" false, some (.str "dflt"), false⟩]) ∨
      (n = "M" ∧ isMap = true ∧ fields = [⟨"a", "", .named "Int" false, none, false⟩]) := by
    intro n isMap fields h
    simp only [Schema.get, exSchema, lookup] at h
    split at h
    · cases h
    · split at h
      · cases h
      · split at h
        · cases h
        · split at h
          · cases h
          · split at h
            · rename_i hn; cases h; exact Or.inl ⟨hn.symm, rfl, rfl⟩
            · split at h
              · rename_i hn; cases h; exact Or.inr ⟨hn.symm, rfl, rfl⟩
              · cases h
  refine ⟨?_, ?_, ?_⟩
  · intro n isMap fields h
    rcases hget n isMap fields h with ⟨_, _, rfl⟩ | ⟨_, _, rfl⟩ <;> decide
  · intro n isMap fields fd h hfd
    rcases hget n isMap fields h with ⟨_, _, rfl⟩ | ⟨_, _, rfl⟩
    all_goals
      simp at hfd
      rcases hfd with rfl | rfl | rfl <;>
        exact ⟨shapeField_fits _ _ _ (by decide), shapeRef_fits _ _ _ (by decide)⟩
  · intro n isMap fields fd d h hfd hd
    rcases hget n isMap fields h with ⟨_, _, rfl⟩ | ⟨_, _, rfl⟩
    all_goals
      simp at hfd
      rcases hfd with rfl | rfl | rfl <;> simp at hd <;> subst hd <;> exact ⟨by rfl, by rfl⟩

/-- … and the theorem applies to a nested value with a single-value list, an omitted field with a default, and an
    explicit null (`{n: 5, o: null}` at `[In!]`, Omittable on) -/
example :
    unm exSchema exOm 3 (.list (.named "In" true) false) (shapeRef exSchema exOm (.list (.named "In" true) false))
      (.obj [("n", .num "5"), ("o", .nil)]) ["f", "v"] =
    .ok (.slice [.ptr (.struct [("N", .int 5), ("O", .set .nil), ("S", .set (.ptr (.str "dflt")))])]) := by rfl
example : canon (.obj [("n", .num "5"), ("o", .nil)]) = true ∧
    fits exSchema (shapeRef exSchema exOm (.list (.named "In" true) false)) (.list (.named "In" true) false) = true := by
  decide

/-- `input Item { n: Int = 7  tag: String }`, `input Box { items: [Item!] = {} }` -/
def exItems : Schema :=
  { types := [("Int", .scalar .int), ("String", .scalar .string),
      ("Item", .input false [⟨"n", "N", .named "Int" false, some (.int 7), false⟩, ⟨"tag", "Tag", .named "String" false, none, false⟩]),
      ("Box", .input false [⟨"items", "Items", .list (.named "Item" true) false, some (.obj []), false⟩])] }

/-- `items(v: {})`, `items(v: $x)` with `{"x": {}}`, `box(v: {items: {}})` and `box(v: {})` (the field default `{}`)
    all hand the resolver ONE item carrying the default `n = 7`; `[]` stays the empty list, `[{}]` is the same one
    item. -/
example : (fieldArgs exItems {} [] (argV (.list (.named "Item" true) false)) [("v", .obj [])] ["f"]).map (·.map render)
    = .ok ["[&{N:&7,Tag:nil}]"] := by rfl
example : (fieldArgs exItems {} [("x", .typed .maps [.obj []])] (argV (.list (.named "Item" true) false)) [("v", .var "x")] ["f"]).map (·.map render)
    = .ok ["[&{N:&7,Tag:nil}]"] := by rfl
example : (fieldArgs exItems {} [] (argV (.list (.named "Item" true) false)) [("v", .list [.obj []])] ["f"]).map (·.map render)
    = .ok ["[&{N:&7,Tag:nil}]"] := by rfl
example : (fieldArgs exItems {} [] (argV (.list (.named "Item" true) false)) [("v", .list [])] ["f"]).map (·.map render)
    = .ok ["[]"] := by rfl
example : (fieldArgs exItems {} [] (argV (.named "Box" false)) [("v", .obj [("items", .obj [])])] ["f"]).map (·.map render)
    = .ok ["&{Items:[&{N:&7,Tag:nil}]}"] := by rfl
example : (fieldArgs exItems {} [] (argV (.named "Box" false)) [("v", .obj [])] ["f"]).map (·.map render)
    = .ok ["&{Items:[&{N:&7,Tag:nil}]}"] := by rfl
/-- the specification says the same -/
example : Spec.fieldStep {} exItems {} [] (argV (.list (.named "Item" true) false)) [("v", .obj [])] ["f"]
    = .call [.slice [.ptr (.struct [("N", .ptr (.int 7)), ("Tag", .nil)])]] := by rfl

end GqlgenVerif.Props.C02
