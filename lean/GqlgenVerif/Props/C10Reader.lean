import GqlgenVerif.Lemmas.ReadSeeker
import GqlgenVerif.Gen.ReaderFacts
/-!
# C10 — "… each [file reaches every mapped path] through its own independently seekable reader"

What user code may DO with an uploaded file is the `io.ReadSeeker` contract: reads of every size, `Seek` with every
whence to before the start / inside / exactly at / BEHIND the end, reads repeated at the end, the readers of one
file used interleaved. None of that is malformed input, so none of it may end in gqlgen's own panic path (the
user's recover hook running although no user code panicked), and the bytes delivered must be the file's.

`G` is regenerated from graphql/handler/transport/reader.go on every run (go/extract/readerfacts.go): the
comparison of the end-of-data test of `Read`, the arms of `switch whence`, the position test and the store of
`Seek`, the initial position at the construction site. The theorems quantify over **all** file contents and
**all** scripts (any length, any buffer sizes, any whence / offset in int64 and beyond).
-/
namespace GqlgenVerif.C10Reader
open GqlgenVerif GqlgenVerif.ReadSeeker

/-- `bytesReader` as it is in the source today -/
abbrev G : Facts := Gen.ReaderFacts.facts

/-- one implementation step agrees with `bytes.Reader` on every position a reader can be at -/
theorem step_std (data : List Nat) (pos : Int) (o : Op) (h : 0 ≤ pos) :
    stepImpl Facts.std data pos o = stepSpec .mem data pos o := by
  cases o with
  | read n =>
    simp only [stepImpl, stepSpec, Facts.std, Cmp.holds]
    by_cases hle : (data.length : Int) ≤ pos
    · simp [hle]
    · have h1 : ¬ (pos < 0 ∨ (data.length : Int) < pos) := by omega
      simp [hle, h1]
  | seek w off =>
    simp only [stepImpl, stepSpec, Facts.std, Facts.refuses, Cmp.holds]
    by_cases h0 : w = 0
    · subst h0; simp [List.lookup, Base.val]
    · by_cases h1 : w = 1
      · subst h1
        by_cases hx : wrap64 (pos + off) < 0 <;> simp [List.lookup, Base.val, hx]
      · by_cases h2 : w = 2
        · subst h2
          by_cases hx : wrap64 ((data.length : Int) + off) < 0 <;> simp [List.lookup, Base.val, hx]
        · have e0 : (w == 0) = false := by simp [h0]
          have e1 : (w == 1) = false := by simp [h1]
          have e2 : (w == 2) = false := by simp [h2]
          simp [List.lookup, e0, e1, e2, h0, h1, h2]

/-- `reader_is_bytes_reader`: for every file content and every script, the in-memory reader answers every
operation exactly as `bytes.Reader` over the file's bytes does (same bytes, same EOF, same positions, same
refusals) - in particular it never takes the panic exit. -/
theorem reader_is_bytes_reader (data : List Nat) (ops : List Op) :
    run (stepImpl G data) G.initPos ops = run (stepSpec .mem data) 0 ops := by
  have hg : G = Facts.std := by decide
  rw [hg]
  exact run_eq_of_step_eq _ _ (fun p o hp => step_std data p o hp) (fun p o hp => spec_pos .mem data p o hp) ops 0
    (by simp)

/-- `reader_never_panics`: no script whatsoever (seeks behind the end, to int64 extremes, with unknown whence,
reads of any size repeated at the end) makes gqlgen's reader panic. -/
theorem reader_never_panics (data : List Nat) (ops : List Op) :
    Res.panic ∉ run (stepImpl G data) G.initPos ops := by
  rw [reader_is_bytes_reader]
  exact run_no_panic _ (fun p o => spec_no_panic .mem data p o) ops 0

/-- `readers_independent`: several readers (each path of each file has its own, `G.perPath`) used interleaved:
what reader `k` answers is what it answers to its own operations alone - no reader disturbs another, whatever the
others do (and all of them behave like `bytes.Reader`). `data k` is the content of the file reader `k` serves;
readers of one file share it. -/
theorem readers_independent (data : Nat → List Nat) (ops : List (Nat × Op)) (k : Nat) :
    G.perPath = true ∧
    proj k (runMulti (fun j => stepImpl G (data j)) (fun _ => G.initPos) ops)
      = run (stepSpec .mem (data k)) 0 (proj k ops) := by
  have hg : G = Facts.std := by decide
  refine ⟨by decide, ?_⟩
  rw [hg]
  have e := runMulti_eq_of_step_eq (fun j => stepImpl Facts.std (data j)) (fun j => stepSpec .mem (data j))
    (fun j p o hp => step_std (data j) p o hp) (fun j p o hp => spec_pos .mem (data j) p o hp) ops
    (fun _ => Facts.std.initPos) (by intro _; simp [Facts.std])
  rw [e]
  exact proj_runMulti _ (fun j p o => spec_no_panic .mem (data j) p o) k ops _

/-- sequential reads with buffers of any positive or zero size deliver the file's bytes from the position on -/
theorem spec_reads_deliver (k : Kind) (data : List Nat) :
    ∀ (ns : List Nat) (p : Nat),
      delivered (run (stepSpec k data) (p : Int) (ns.map Op.read)) = (data.drop p).take ns.sum := by
  intro ns
  induction ns with
  | nil => intro p; simp [run, delivered]
  | cons n ns ih =>
    intro p
    simp only [List.map_cons, run, stepSpec, List.sum_cons]
    by_cases hz : k = Kind.file ∧ n = 0
    · obtain ⟨hk, hn⟩ := hz
      subst hk
      subst hn
      simp [delivered, ih p]
    · simp only [hz, if_false]
      by_cases hle : (data.length : Int) ≤ (p : Int)
      · have hp : data.length ≤ p := by omega
        have hd : data.drop p = [] := List.drop_eq_nil_of_le hp
        simp [hle, delivered, ih p, hd]
      · have hp : p < data.length := by omega
        simp only [hle, if_false, Int.toNat_natCast]
        have hl : ((List.take n (List.drop p data)).length : Int) = ((min n (data.length - p) : Nat) : Int) := by
          simp [List.length_take, List.length_drop]
        have hcast : ((p : Int) + ((List.take n (List.drop p data)).length : Int)) = ((p + min n (data.length - p) : Nat) : Int) := by
          rw [hl]; simp
        rw [hcast]
        simp only [delivered]
        rw [ih (p + min n (data.length - p))]
        rw [List.take_add]
        congr 1
        by_cases hn : n ≤ data.length - p
        · rw [Nat.min_eq_left hn, List.drop_drop]
        · have hn' : data.length - p ≤ n := by omega
          rw [Nat.min_eq_right hn']
          have e1 : List.drop (p + (data.length - p)) data = [] := List.drop_eq_nil_of_le (by omega)
          have e2 : List.drop n (List.drop p data) = [] := List.drop_eq_nil_of_le (by simp [List.length_drop]; omega)
          rw [e1, e2]

/-- `reads_deliver_exact_bytes`: after positioning the reader anywhere (`Seek(p, io.SeekStart)`, also behind the
end), reading with buffers of any sizes delivers exactly the file's bytes from `p` on - all of them once the
buffers add up to the rest of the file, none when `p` is at or behind the end. -/
theorem reads_deliver_exact_bytes (data : List Nat) (p : Nat) (hp : (p : Int) ≤ 9223372036854775807) (ns : List Nat) :
    delivered (run (stepImpl G data) G.initPos (Op.seek 0 p :: ns.map Op.read)) = (data.drop p).take ns.sum := by
  rw [reader_is_bytes_reader]
  rw [run_cons_at _ _ _ _ _ _ (spec_seek_start .mem data 0 (p : Int) (by omega) hp)]
  simp only [delivered]
  exact spec_reads_deliver .mem data ns p

/-- the regenerated reader with another comparison in the end-of-data test -/
def withCmp (c : Cmp) : Facts := { Facts.std with eofCmp := c }

/-- `reader_correct_iff_ge`: the end-of-data test of `Read` makes the reader a `bytes.Reader` for all files and
scripts **iff** it is `r.i >= len` (each of the five other comparisons has a counterexample script). -/
theorem reader_correct_iff_ge (c : Cmp) :
    (∀ data ops, run (stepImpl (withCmp c) data) 0 ops = run (stepSpec .mem data) 0 ops) ↔ c = .ge := by
  constructor
  · intro h
    cases c with
    | ge => rfl
    | gt => exact absurd (h [7] [.read 1, .read 1]) (by decide)
    | eq => exact absurd (h [] [.seek 0 1, .read 1]) (by decide)
    | ne => exact absurd (h [7] [.read 1]) (by decide)
    | le => exact absurd (h [7] [.read 1]) (by decide)
    | lt => exact absurd (h [7] [.read 1]) (by decide)
  · intro hc data ops
    subst hc
    exact run_eq_of_step_eq _ _ (fun p o hp => step_std data p o hp) (fun p o hp => spec_pos .mem data p o hp) ops 0
      (by omega)

/-- one step of the reader with comparison `c`, when `c` covers every position behind the end -/
theorem step_withCmp_no_panic (c : Cmp) (hc : ∀ (p l : Int), l < p → c.holds p l = true)
    (data : List Nat) (pos : Int) (o : Op) (h : 0 ≤ pos) :
    (stepImpl (withCmp c) data pos o).1 ≠ .panic ∧ 0 ≤ (stepImpl (withCmp c) data pos o).2 := by
  cases o with
  | read n =>
    simp only [stepImpl, withCmp, Facts.std]
    split
    · exact ⟨by simp, h⟩
    · rename_i hh
      have hlt : ¬ ((data.length : Int) < pos) := fun hl => hh (hc pos data.length hl)
      have h1 : ¬ (pos < 0 ∨ (data.length : Int) < pos) := by omega
      simp only [h1, if_false, if_true]
      exact ⟨by simp, by omega⟩
  | seek w off =>
    simp only [stepImpl, withCmp, Facts.std, Facts.refuses, Cmp.holds]
    split
    · exact ⟨by simp, h⟩
    · split
      · exact ⟨by simp, h⟩
      · rename_i hh
        refine ⟨by simp, ?_⟩
        simp only [if_true]
        simp at hh
        omega

theorem run_withCmp_no_panic (c : Cmp) (hc : ∀ (p l : Int), l < p → c.holds p l = true) (data : List Nat) :
    ∀ (ops : List Op) (p : Int), 0 ≤ p → Res.panic ∉ run (stepImpl (withCmp c) data) p ops := by
  intro ops
  induction ops with
  | nil => intro p _; simp [run]
  | cons o os ih =>
    intro p hp
    have h := step_withCmp_no_panic c hc data p o hp
    simp only [run]
    cases hg : stepImpl (withCmp c) data p o with
    | mk r p' =>
      rw [hg] at h
      obtain ⟨h1, h2⟩ := h
      have := ih p' h2
      cases r <;> simp_all

/-- `reader_total_iff_guard_covers_behind_end`: the reader never panics, for all files and scripts, **iff** the
end-of-data test also holds at every position BEHIND the end (`>=`, `>`, `!=`); with `==`, `<=` or `<` a `Seek`
behind the end followed by a `Read` slices out of range. -/
theorem reader_total_iff_guard_covers_behind_end (c : Cmp) :
    (∀ data ops, Res.panic ∉ run (stepImpl (withCmp c) data) 0 ops) ↔ (c = .ge ∨ c = .gt ∨ c = .ne) := by
  constructor
  · intro h
    cases c with
    | ge => simp
    | gt => simp
    | ne => simp
    | eq => exact absurd (h [] [.seek 0 1, .read 1]) (by decide)
    | le => exact absurd (h [] [.seek 0 1, .read 1]) (by decide)
    | lt => exact absurd (h [] [.seek 0 1, .read 1]) (by decide)
  · intro hc data ops
    have hcov : ∀ (p l : Int), l < p → c.holds p l = true := by
      intro p l hl
      rcases hc with hc | hc | hc <;> subst hc <;> simp [Cmp.holds] <;> omega
    exact run_withCmp_no_panic c hcov data ops 0 (by omega)

/-- the seeded shape `r.i == len`: a 10-byte file, `Seek(16, io.SeekStart)`, `Read` of 4 bytes: panic instead of
`0, io.EOF` (what `bytes.Reader` and the temp-file reader answer). -/
theorem reader_eq_guard_witness :
    run (stepImpl (withCmp .eq) [1, 2, 3, 4, 5, 6, 7, 8, 9, 10]) 0 [.seek 0 16, .read 4] = [.at 16, .panic] ∧
    run (stepSpec .mem [1, 2, 3, 4, 5, 6, 7, 8, 9, 10]) 0 [.seek 0 16, .read 4] = [.at 16, .data [] true] ∧
    run (stepSpec .file [1, 2, 3, 4, 5, 6, 7, 8, 9, 10]) 0 [.seek 0 16, .read 4] = [.at 16, .data [] true] := by
  decide

/-- a `Seek` without the position test lets the next `Read` slice at a negative index -/
theorem reader_no_refusal_witness :
    run (stepImpl { Facts.std with refuse := none } [1, 2, 3]) 0 [.seek 1 (-1), .read 1] = [.at (-1), .panic] := by
  decide

/-- the temp-file reader's Spec differs from the in-memory one only for reads into an empty buffer -/
theorem file_spec_eq_mem_spec (data : List Nat) (pos : Int) (o : Op) (h : ∀ n, o = .read n → n ≠ 0) :
    stepSpec .file data pos o = stepSpec .mem data pos o := by
  cases o with
  | read n =>
    have := h n rfl
    simp [stepSpec, this]
  | seek w off => simp [stepSpec]

-- non-vacuity of the hypotheses
example : ((16 : Nat) : Int) ≤ 9223372036854775807 := by decide
example : ∀ n, Op.seek 0 5 = .read n → n ≠ 0 := by intro n h; cases h
example : ∀ (p l : Int), l < p → Cmp.gt.holds p l = true := by intro p l h; simp [Cmp.holds]; omega

end GqlgenVerif.C10Reader
