import GqlgenVerif.Lemmas.WsClose
import GqlgenVerif.Gen.WsCloseReasons
/-!
# C10 — "... the client receives a well-formed error (or a protocol close)": the close frames

`sites` is regenerated from graphql/handler/transport/websocket.go on every run (go/extract/wsclosereasons.go):
every close frame the websocket transport writes, with its status code and how its reason text is built
(literal, or a client / configuration string between two literals, with the cut applied to it).
The theorems quantify over **all** byte strings a client can put there (no length bound, any content).
A close frame carries at most 125 payload bytes, two of which are the status code; a larger one is
refused by gorilla/websocket and the connection is dropped without a protocol close.
-/
namespace GqlgenVerif.C10Close
open GqlgenVerif GqlgenVerif.WsClose

/-- the close sites websocket.go has today -/
abbrev sites : List CloseSite := Gen.WsCloseReasons.sites

/-- `close_frame_always_fits`: whatever bytes the client chose for the echoed string (operation id),
every close the transport answers with is a frame that can be written — the client gets the protocol
close with the site's code, never a dropped connection, and the cut never slices out of range. -/
theorem close_frame_always_fits : ∀ site ∈ sites, site.reason.src = .client → ∀ s : Bytes,
    ∃ r, wire site s = .close site.code r ∧ r.length + codeBytes ≤ controlMax := by
  intro site hm hsrc s
  have hok : site.fitsOk = true := (List.all_eq_true.mp (by decide : sites.all CloseSite.fitsOk = true)) site hm
  exact fits_of_fitsOk site hok hsrc s

/-- `protocol_close_well_formed`: for every valid-UTF-8 string (operation ids come out of encoding/json,
which substitutes U+FFFD for anything else) the close frame meets the Spec: the site's code, a reason
that is valid UTF-8, a prefix of the full text, and the whole text whenever that fits. -/
theorem protocol_close_well_formed : ∀ site ∈ sites, site.reason.src = .client → ∀ s : Bytes,
    validUtf8 s = true → specOk site s (wire site s) = true := by
  intro site hm hsrc s hs
  have hok : site.wellFormedOk = true :=
    (List.all_eq_true.mp (by decide : sites.all CloseSite.wellFormedOk = true)) site hm
  exact spec_of_wellFormedOk site hok hsrc s hs

/-- The cap is tight: a byte cut at `k` keeps every close writable **iff** `k + 2 ≤ 125`
(so `maxCloseReasonLength` cannot silently grow past 123). -/
theorem close_cap_tight (fn : String) (code : Nat) (pre suf : Bytes) (k : Nat) :
    (∀ s, wire ⟨fn, code, .echo pre suf .client (.bytes k k)⟩ s ≠ .dropped) ↔ k + codeBytes ≤ controlMax :=
  cap_tight fn code pre suf k

/-- The close for a subprotocol the server was configured with but does not implement echoes the
configured name uncut: the client gets it **iff** the whole text fits (a name of at most 88 bytes today,
see the `example` below). An observation about configuration, not about client input. -/
theorem config_close_fits_iff : ∀ site ∈ sites, site.reason.src = .config → ∀ s : Bytes,
    (∃ r, wire site s = .close site.code r) ↔ (site.reason.full s).length + codeBytes ≤ controlMax := by
  intro site hm hsrc s
  have hok : site.configOk = true :=
    (List.all_eq_true.mp (by decide : sites.all CloseSite.configOk = true)) site hm
  exact config_fits_iff site hok hsrc s

set_option maxRecDepth 20000 in
/-- a cap of 125 (the two status bytes forgotten): an id of 94 bytes loses the protocol close -/
theorem close_cap_125_witness :
    wire (subscriberSite (.runes 125 125)) (List.replicate 94 0x69) = .dropped := by decide

set_option maxRecDepth 20000 in
/-- the byte cut (the code before be75aec): a 3-byte character starting at reason byte 123 leaves a
close frame whose reason is not UTF-8 (clients fail the connection) -/
theorem close_bytes_cut_witness :
    ∃ r, wire (subscriberSite (.bytes 123 123)) (List.replicate 107 0x61 ++ [0xE2, 0x82, 0xAC]) = .close 4409 r
      ∧ validUtf8 r = false := by
  refine ⟨[83, 117, 98, 115, 99, 114, 105, 98, 101, 114, 32, 102, 111, 114, 32] ++ List.replicate 107 0x61 ++ [0xE2], by decide, ?_⟩
  rw [validUtf8_append_ascii _ _ (by decide)]
  exact validUtf8_bad (s := [0xE2]) (b := 0xE2) (r := []) (by decide)

/-- the hypotheses are satisfiable: there is a client site, and a configuration site -/
example : ∃ site ∈ sites, site.reason.src = .client ∧ site.code = 4409 := by decide
example : ∃ site ∈ sites, site.reason.src = .config ∧ site.configRoom = 88 := by decide
example : validUtf8 [0x61, 0xE2, 0x82, 0xAC] = true := by
  rw [validUtf8_cons_ascii _ (by decide)]
  exact (validUtf8_multi (s := [0xE2, 0x82, 0xAC]) (bs := [0xE2, 0x82, 0xAC]) (r := []) (by decide)).trans validUtf8_nil

end GqlgenVerif.C10Close
