import GqlgenVerif.Model.Pipeline
import GqlgenVerif.Model.PipelineSpec
import GqlgenVerif.Model.SuggRace
import GqlgenVerif.Gen.PipelineSteps
namespace GqlgenVerif.Props.C03
open GqlgenVerif.Pipeline

theorem gen_create_steps_are_modelled : Gen.PipelineSteps.createSteps = Steps.modelCreate := by decide

end GqlgenVerif.Props.C03
