import GqlgenVerif.Lemmas.Pipeline
import GqlgenVerif.Lemmas.PipelineCount
import GqlgenVerif.Lemmas.PipelineRace
import GqlgenVerif.Lemmas.PipelineCache
import GqlgenVerif.Gen.PipelineSteps
import GqlgenVerif.Model.PipelineTransport
import GqlgenVerif.Gen.TransportGates
/-!
# C03 — nothing executes unless the operation passed parsing, validation and every gate; hook order

Theorems over `Model/Pipeline.lean` (the request pipeline of `graphql/executor`), for **all** extension
lists, requests, query texts, cache implementations satisfying `Apq.Lawful` (eviction included), rule
lists and histories; over `Model/SuggRace.lean` for all thread counts and all schedules; and over the
skeleton of `executor.go` / `extensions.go` regenerated into `Gen/PipelineSteps.lean` on every run.

The state hypotheses `Inv` (the cache holds only validated documents) and `Complete` (the global rule
list contains a field-existence rule and the other rules) are not assumptions about the code: they hold
initially (`inv_empty`, `Complete.init`) and `run` re-establishes them (`run_satisfies_spec`), so they
hold after every history (`cache_holds_only_validated`).
-/
namespace GqlgenVerif.Props.C03
open GqlgenVerif GqlgenVerif.Pipeline GqlgenVerif.Apq

/-! ## 1. The regenerated skeleton is the modelled one -/

/-- `CreateOperationContext` tests the gates in the order the model does, and contains no other
statement that could return or touch the document. -/
theorem gen_create_steps_are_modelled :
    Gen.PipelineSteps.createSteps = Steps.modelCreate := by decide

/-- `parseQuery`: cache lookup → parse → "no operation" → (locked) rule swap → (read-locked) Validate →
error return → `Add`. -/
theorem gen_parseQuery_steps_are_modelled :
    Gen.PipelineSteps.parseQuerySteps = Steps.modelParseQuery := by decide

/-- the document is stored only behind the error return that follows `Validate` -/
theorem gen_add_only_after_validation :
    Steps.addAfterValidation Gen.PipelineSteps.parseQuerySteps = true := by decide

/-- `processExtensions` wraps exactly the four interceptor kinds, each as
`p.InterceptX(ctx, func(ctx) { return previous(ctx, next) })`, and collects the mutators front to back -/
theorem gen_interceptor_table_is_modelled :
    Gen.PipelineSteps.interceptorTable = Steps.modelInterceptorTable ∧
    Gen.PipelineSteps.mutatorsForward = true := by decide

/-! ## 2. `processExtensions` is nesting, first-registered outermost -/

/-- the back-to-front accumulator loop builds exactly the nested chain, for every handler type, every
interceptor behaviour and every extension list -/
theorem fold_is_nesting {H : Type} (sel : Ext → Option (H → H)) (exts : List Ext) :
    chain sel exts = nest sel exts :=
  chain_eq_nest sel exts

/-- the same, for the loop direction the source has today (regenerated) -/
theorem fold_is_nesting_gen {H : Type} (sel : Ext → Option (H → H)) (exts : List Ext) :
    chainDir Gen.PipelineSteps.foldBackwards sel exts = nest sel exts := by
  have : Gen.PipelineSteps.foldBackwards = true := by decide
  rw [this]
  simp only [chainDir, if_true]
  exact chain_eq_nest sel exts

/-- the direction matters: a front-to-back loop puts the first extension innermost -/
theorem forward_fold_is_not_nesting_witness :
    chainDir false (logSel .op []) [{ id := 0, op := true }, { id := 1, op := true }] [.exec] ≠
      nest (logSel .op []) [{ id := 0, op := true }, { id := 1, op := true }] [.exec] := by decide

example : nest (logSel .op []) [{ id := 0, op := true }, { id := 1, op := true }] [.exec] =
    [.enter .op 0 [], .enter .op 1 [], .exec, .exit .op 1 [], .exit .op 0 []] := by decide

/-! ## 3. A rejected request runs nothing -/

variable {σ : Type}

/-- **rejected_runs_nothing.** Whatever gate fails — a parameter mutator, parsing, "no operation",
validation, operation selection, variable coercion, a context mutator — in whatever state (any cache
content, any rule list): no operation / root-field / field interceptor, no `Exec`, no directive and no
resolver event is logged, and the request is answered with errors and no data. -/
theorem rejected_runs_nothing (W : World) (C : CacheImpl σ Doc Nat) (cfg : Cfg) (s : St σ) (r : Req)
    (h : (run W C cfg s r).1.gate ≠ none) :
    (∀ e ∈ (run W C cfg s r).1.log, e.isExecution = false) ∧
    (∀ x ∈ (run W C cfg s r).1.resps, Spec.errorsOnly x = true) ∧
    (run W C cfg s r).1.resps ≠ [] :=
  run_rejected W C cfg s r h

/-- non-vacuity: a syntax error is rejected (and `{ nope }`-like documents, mutator rejections … are
exercised by `Driver/C03.lean` on every run) -/
example : (run { parse := fun _ => none } noCache { exts := [{ id := 0, op := true, field := true }] }
    ⟨(), initRules⟩ { q := 0 }).1.gate = some .parse := by decide

/-! ## 4. The gates are exactly the property's gates; accepted requests follow the lifecycle -/

theorem inv_empty (W : World) (view : σ → Nat → Option Doc) (c : σ) (h : ∀ k, view c k = none) :
    Inv W view c := by
  intro k d hk; rw [h k] at hk; cases hk

theorem complete_init : Complete initRules := Complete.init

/-- the rule swap of `disableSuggestion` keeps a field-existence rule in the list (sequentially) -/
theorem swap_keeps_complete {l : Rules} (h : Complete l) : Complete (swapRules l) := h.swap

/-- **Impl ⊨ Spec.** From a state with `Inv` and `Complete`, for every lawful cache:
* the observation satisfies `Spec.ok` — a request failing *any* gate executes nothing and gets errors
  only; an accepted one logs every parameter mutator in registration order, every context mutator in
  registration order, the operation interceptors nested first-registered-outermost around `Exec`, then
  per call of the handler the response interceptors nested around the root fields in document order,
  each inside the nested root-field interceptors, each field inside the nested field interceptors
  around (directive, resolver);
* `CreateOperationContext` accepts **iff** every gate of the property passes (`Spec.accepts`), whether
  the document came from the cache or not;
* the state after the request again satisfies `Inv` and `Complete`. -/
theorem run_satisfies_spec (W : World) {C : CacheImpl σ Doc Nat} {view : σ → Nat → Option Doc}
    (law : Lawful C view) (cfg : Cfg) (s : St σ) (r : Req)
    (hinv : Inv W view s.cache) (hc : Complete s.rules) :
    Spec.ok W cfg.exts r (run W C cfg s r).1.log (run W C cfg s r).1.resps = true ∧
    ((run W C cfg s r).1.gate = none ↔ (Spec.accepts W cfg.exts r).isSome = true) ∧
    Inv W view (run W C cfg s r).2.cache ∧ Complete (run W C cfg s r).2.rules :=
  run_spec W law cfg s r hinv hc

/-- non-vacuity of the hypotheses: the state every executor starts in -/
example (W : World) : Inv W (mapView : MapState Doc Nat → Nat → Option Doc) mapEmpty ∧ Complete initRules :=
  ⟨inv_empty W _ _ (fun _ => rfl), Complete.init⟩

/-- **cache_holds_only_validated.** After every history of requests on an executor that started with
an empty lawful cache (suggestions on or off): every document the cache can return is the parse of its
key, has an operation and is valid under the complete rule set. -/
theorem cache_holds_only_validated (W : World) {C : CacheImpl σ Doc Nat} {view : σ → Nat → Option Doc}
    (law : Lawful C view) (cfg : Cfg) (c0 : σ) (hempty : ∀ k, view c0 k = none) (hist : List Req) :
    ∀ k d, view (runAll W C cfg ⟨c0, initRules⟩ hist).2.cache k = some d →
      W.parse k = some d ∧ d.valid = true ∧ d.ops.isEmpty = false :=
  (runAll_spec W law cfg hist ⟨c0, initRules⟩ (inv_empty W view c0 hempty) Complete.init).1

/-- the three caches of the code base are lawful (any LRU capacity, eviction included) -/
theorem query_caches_lawful :
    Lawful (noCache : CacheImpl Unit Doc Nat) noView ∧
    Lawful (mapCache : CacheImpl (MapState Doc Nat) Doc Nat) mapView ∧
    Lawful (lruCache : CacheImpl (Lru Doc Nat) Doc Nat) lruView :=
  ⟨CacheLaws.no_lawful, CacheLaws.map_lawful, CacheLaws.lru_lawful⟩

/-- **cached_eq_uncached.** After any history, the next request gets the same verdict, the same
answers and the same events (cache bookkeeping aside) as it would from an executor without a cache. -/
theorem cached_eq_uncached (W : World) {C : CacheImpl σ Doc Nat} {view : σ → Nat → Option Doc}
    (law : Lawful C view) (cfg : Cfg) (c0 : σ) (hempty : ∀ k, view c0 k = none) (hist : List Req) (r : Req) :
    let s := (runAll W C cfg ⟨c0, initRules⟩ hist).2
    (run W C cfg s r).1.gate = (run W noCache cfg ⟨(), s.rules⟩ r).1.gate ∧
    (run W C cfg s r).1.resps = (run W noCache cfg ⟨(), s.rules⟩ r).1.resps ∧
    (run W C cfg s r).1.log.filter (fun e => !e.isCache) =
      (run W noCache cfg ⟨(), s.rules⟩ r).1.log.filter (fun e => !e.isCache) := by
  intro s
  obtain ⟨hi, hc⟩ := runAll_spec W law cfg hist ⟨c0, initRules⟩ (inv_empty W view c0 hempty) Complete.init
  exact run_eq_uncached W law cfg s r hi hc

/-! ## 5. Each hook exactly once -/

/-- **each_hook_once (operation).** An accepted request whose operation interceptors all call `next`:
every registered operation interceptor is entered once and left once, and `Exec` is called once.
(Extension ids are the harness's names for the registered extensions, hence distinct.) -/
theorem each_operation_hook_once (W : World) {C : CacheImpl σ Doc Nat} {view : σ → Nat → Option Doc}
    (law : Lawful C view) (cfg : Cfg) (s : St σ) (r : Req)
    (hinv : Inv W view s.cache) (hc : Complete s.rules)
    (hacc : (run W C cfg s r).1.gate = none) (hblk : r.opBlock = [])
    (hnd : (cfg.exts.map (·.id)).Nodup) (x : Ext) (hx : x ∈ cfg.exts) (hop : x.op = true) :
    (run W C cfg s r).1.log.count (.enter .op x.id []) = 1 ∧
    (run W C cfg s r).1.log.count (.exit .op x.id []) = 1 ∧
    (run W C cfg s r).1.log.count .exec = 1 := by
  obtain ⟨hok, hiff, _, _⟩ := run_spec W law cfg s r hinv hc
  have hsome := hiff.1 hacc
  cases ha : Spec.accepts W cfg.exts r with
  | none => rw [ha] at hsome; cases hsome
  | some op =>
    simp only [Spec.ok, ha, Bool.and_eq_true, decide_eq_true_eq] at hok
    obtain ⟨hlog, _⟩ := hok
    have hcount : ∀ a : Ev, a.isCache = false →
        (run W C cfg s r).1.log.count a = (Spec.expected cfg.exts op r).1.count a := by
      intro a hnc
      rw [← hlog, List.count_filter (by simp [hnc])]
    have hpre : ∀ a : Ev, a.isOpLevel = true →
        ((pmList cfg.exts).map (fun x => Ev.pm x.id) ++ (cmList cfg.exts).map (fun x => Ev.cm x.id)).count a = 0 := by
      intro a ha
      rw [List.count_eq_zero]
      intro hm
      simp only [List.mem_append, List.mem_map] at hm
      rcases hm with ⟨y, _, rfl⟩ | ⟨y, _, rfl⟩ <;> simp [Ev.isOpLevel] at ha
    have hexp : ∀ a : Ev, a.isOpLevel = true →
        (Spec.expected cfg.exts op r).1.count a =
          (nest (logSel .op []) cfg.exts [.exec]).count a := by
      intro a ha
      unfold Spec.expected
      rw [hblk, nest_op_noblock]
      simp only
      cases r.execErr
      · simp only [Bool.false_eq_true, if_false, List.count_append, hpre a ha,
          count_zero_of_noOp (Spec.pollLoop_noOp cfg.exts op r r.polls 0) ha]
        simp
      · simp only [if_true, List.count_append, hpre a ha]
        simp
    have hk : x.has .op = true := hop
    refine ⟨?_, ?_, ?_⟩
    · rw [hcount _ rfl, hexp _ rfl, count_nest_log, count_enters, count_exits_other _ _ _ _ (by intro j; simp)]
      simp [hooks_eq_one hnd hx hk]
    · rw [hcount _ rfl, hexp _ rfl, count_nest_log, count_exits, count_enters_other _ _ _ _ (by intro j; simp)]
      simp [hooks_eq_one hnd hx hk]
    · rw [hcount _ rfl, hexp _ rfl, count_nest_log, count_enters_other _ _ _ _ (by intro j; simp),
        count_exits_other _ _ _ _ (by intro j; simp)]
      simp

/-- non-vacuity: an accepted request on two operation interceptors -/
example :
    let W : World := { parse := fun _ => some { id := 0, ops := [⟨"", false, [1]⟩], nField := 0, nOther := 0, sugg := false } }
    let cfg : Cfg := { exts := [{ id := 4, op := true }, { id := 2, op := true, field := true }] }
    (run W noCache cfg ⟨(), initRules⟩ { q := 0 }).1.gate = none ∧
    (run W noCache cfg ⟨(), initRules⟩ { q := 0 }).1.log.count (.enter .op 4 []) = 1 := by decide

/-- **lifecycle of the answers.** What an accepted request logs after `DispatchOperation` returned is
one segment per call of the response handler (`Spec.pollSegments`), each segment being the response
chain around the root fields (or around nothing, for the call that answers nil). -/
theorem answers_are_segments (exts : List Ext) (op : OpDef) (r : Req) :
    (Spec.pollLoop exts op r r.polls 0).1 = (Spec.pollSegments exts op r r.polls 0).flatten ∧
    (Spec.pollLoop exts op r r.polls 0).2.length = (Spec.pollSegments exts op r r.polls 0).length :=
  Spec.pollLoop_flatten exts op r r.polls 0

/-- **each_hook_once (response).** In every call of the response handler, every registered response
interceptor is entered once and left once. -/
theorem each_response_hook_once (exts : List Ext) (op : OpDef) (r : Req)
    (hnd : (exts.map (·.id)).Nodup) (x : Ext) (hx : x ∈ exts) (hr : x.resp = true)
    (seg : List Ev) (hseg : seg ∈ Spec.pollSegments exts op r r.polls 0) :
    seg.count (.enter .resp x.id []) = 1 ∧ seg.count (.exit .resp x.id []) = 1 := by
  have hk : x.has .resp = true := hr
  obtain ⟨h1, h2, h3, h4⟩ := count_respLog_enter exts op.roots x.id
  rcases Spec.mem_pollSegments hseg with rfl | rfl
  · exact ⟨by rw [h1, hooks_eq_one hnd hx hk], by rw [h3, hooks_eq_one hnd hx hk]⟩
  · exact ⟨by rw [h2, hooks_eq_one hnd hx hk], by rw [h4, hooks_eq_one hnd hx hk]⟩

/-- **each_hook_once (field).** In a response, for every resolved field (root fields `[a]`, their
children `[a, b]`): every registered field interceptor is entered exactly once, the directive chain and
the resolver run exactly once; for every root field every registered root-field interceptor is entered
exactly once; and no field interceptor or resolver runs at any other path. -/
theorem each_field_hook_once (exts : List Ext) (roots : List Nat) (hnd : (exts.map (·.id)).Nodup) (p : Path) :
    let body := Spec.respLog exts (Spec.rootsLog exts 0 roots)
    (p ∈ fieldPaths 0 roots →
      body.count (.res p) = 1 ∧
      ∀ x ∈ exts, x.field = true → body.count (.enter .field x.id p) = 1) ∧
    (p ∈ rootPaths 0 roots →
      ∀ x ∈ exts, x.root = true → body.count (.enter .root x.id p) = 1) ∧
    (p ∉ fieldPaths 0 roots →
      body.count (.res p) = 0 ∧ ∀ i, body.count (.enter .field i p) = 0) := by
  intro body
  refine ⟨?_, ?_, ?_⟩
  · intro hp
    have hc := count_path_eq_one (fieldPaths_nodup roots 0) hp
    refine ⟨?_, ?_⟩
    · simp only [body]
      rw [count_respLog_inner _ _ _ (by intro j; simp) (by intro j; simp), count_rootsLog_res, hc]
    · intro x hx hf
      have hk : x.has .field = true := hf
      simp only [body]
      rw [count_respLog_inner _ _ _ (by intro j; simp) (by intro j; simp), count_rootsLog_enter_field,
        hc, hooks_eq_one hnd hx hk]
  · intro hp x hx hf
    have hk : x.has .root = true := hf
    have hc := count_path_eq_one (rootPaths_nodup roots 0) hp
    simp only [body]
    rw [count_respLog_inner _ _ _ (by intro j; simp) (by intro j; simp), count_rootsLog_enter_root,
      hc, hooks_eq_one hnd hx hk]
  · intro hp
    have hc : (fieldPaths 0 roots).count p = 0 := List.count_eq_zero.2 hp
    refine ⟨?_, ?_⟩
    · simp only [body]
      rw [count_respLog_inner _ _ _ (by intro j; simp) (by intro j; simp), count_rootsLog_res, hc]
    · intro i
      simp only [body]
      rw [count_respLog_inner _ _ _ (by intro j; simp) (by intro j; simp), count_rootsLog_enter_field, hc]
      simp

example : [1, 0] ∈ fieldPaths 0 [0, 2] ∧ [1] ∈ rootPaths 0 [0, 2] ∧ [2] ∉ fieldPaths 0 [0, 2] := by decide

/-! ## 6. Concurrent requests and the global rule list -/

open Race in
/-- **Before the fix** (`validatorRulesMu` absent: the program of `Steps.swapAtomic = false`): two
concurrent first requests with `disableSuggestion`; thread 1 evaluates `range specifiedRules` of
`RemoveRule`, thread 0 runs `RemoveRule` and `ReplaceRule` completely, thread 1's stale write lands,
and thread 0's `Validate` reads a list with **neither** field-existence rule. Observed on the real code
(pre-fix tree) by `h_c03 -mode window`: `{ nope_unknown_field }` passed validation and was cached. -/
theorem suggestion_race_witness :
    ((exec (start false initRules 2) [1, 0, 0, 0, 0, 0, 1, 0]).threads[0]?).bind (·.seen) = some [.other] ∧
    hasFieldRule [.other] = false := by decide

/-- …and with such a list a document with an unknown field validates and is stored in the cache -/
theorem race_poisons_cache_witness :
    let bad : Doc := { id := 7, ops := [⟨"", false, [0]⟩], nField := 1, nOther := 0, sugg := false }
    bad.valid = false ∧ (validateAndStore (mapCache : CacheImpl (MapState Doc Nat) Doc Nat) [.other] mapEmpty 7 bad).1 = .doc bad := by
  decide

/-- the source has the rule swap inside the writer lock and `Validate` inside the reader lock
(regenerated on every run) -/
theorem gen_swap_is_atomic : Steps.swapAtomic Gen.PipelineSteps.parseQuerySteps = true := by decide

open Race in
/-- **With the lock regions the source has today**: for every number of concurrent requests, every
initial rule list and **every schedule**, every `Validate` runs with a field-existence rule in the
list. (Interleaving semantics; data-race freedom itself is observed with `-race`, not proved.) -/
theorem concurrent_validate_sees_field_rule (g : Rules) (n : Nat) (sched : List Nat) :
    ∀ t ∈ (exec (start (Steps.swapAtomic Gen.PipelineSteps.parseQuerySteps) g n) sched).threads,
      ∀ l, t.seen = some l → hasFieldRule l = true := by
  rw [gen_swap_is_atomic]
  exact locked_safe g n sched

open Race in
/-- the guard shape of the source, three-valued (regenerated on every run) -/
theorem gen_lock_shape_is_atomic :
    LockShape.ofCode (Steps.lockShapeCode Gen.PipelineSteps.parseQuerySteps) = .atomic := by decide

open Race in
/-- **Several executors in one process** (the rule list is global): `n` concurrent requests on executors
with `disableSuggestion` and `m` concurrent requests on executors *without* it (they never swap, they
only `Validate`), from any rule list that has a field-existence rule, under **every schedule**: every
`Validate` of every executor runs with a field-existence rule in the list. Stated over the guard shape
regenerated from the source. -/
theorem concurrent_validate_sees_field_rule_all_executors (g : Rules) (hg : hasFieldRule g = true)
    (n m : Nat) (sched : List Nat) :
    ∀ t ∈ (exec (startMixed (LockShape.ofCode (Steps.lockShapeCode Gen.PipelineSteps.parseQuerySteps)) g n m) sched).threads,
      ∀ l, t.seen = some l → hasFieldRule l = true := by
  rw [gen_lock_shape_is_atomic]
  exact mixed_safe g hg n m sched

/-- non-vacuity of the hypothesis: the list every process starts with -/
example : Race.hasFieldRule initRules = true := by decide

open Race in
/-- **Why one writer region around both calls is needed**: with `RemoveRule` and `ReplaceRule` each in a
writer region of its own (no data race, nothing for the race detector), a request on an executor
*without* `disableSuggestion` that validates between the two regions of another executor's first
request sees a list with neither field-existence rule. Replayed on the real code by
`h_c03 -mode window` (configuration "executor A … executor B"). -/
theorem split_lock_window_witness :
    ((exec (startMixed .split initRules 1 1) [0, 1]).threads[1]?).bind (·.seen) = some [.other] ∧
    hasFieldRule [.other] = false ∧
    ((exec (startMixed .atomic initRules 1 1) [0, 1]).threads[1]?).bind (·.seen) = some [.other, .ws] := by decide

open Race in
/-- non-vacuity: three threads, all of which reach `Validate` -/
example : ((exec (start true initRules 3) [2, 0, 0, 1, 2, 1]).threads.map (·.seen)) =
    [some [.other, .ws], some [.other, .ws], some [.other, .ws]] := by decide

/-! ## 7. Every transport keeps the gate closed

`run` (sections 2–5) assumes that a transport hands a rejected request to `DispatchError` and an
accepted one to `DispatchOperation`. That assumption is discharged here over the statements that
follow `CreateOperationContext` in **each** transport of `graphql/handler/transport`, regenerated on
every run (`Gen/TransportGates.lean`). -/

open Transport in
/-- the functions of `graphql/handler/transport` that call `CreateOperationContext` are exactly the
transports the tie drives requests through (a new transport must be added to the harness) -/
theorem gen_transports_are_the_harnessed_ones :
    Gen.TransportGates.gates.map (fun g => (g.file, g.func)) = harnessed := by decide

open Transport in
/-- in every transport, for a protocol-kind rejection, a user-kind rejection and an accepted request:
a rejected request reaches `DispatchError` once and never `DispatchOperation`, an accepted one reaches
`DispatchOperation` once (decided on the regenerated statements; `.other` statements count as both) -/
theorem gen_transport_gates_closed :
    Gen.TransportGates.gates.all (fun g => closed g.prog) = true := by decide

open Transport in
/-- a transport whose gate is closed behaves like the `run` of `Model/Pipeline.lean`, whatever error
kinds the extensions registered -/
theorem closed_runT_eq_run {prog : List TStmt} (h : closed prog = true) (extProtocol : Nat → Bool)
    (W : World) (C : CacheImpl σ Doc Nat) (cfg : Cfg) (s : St σ) (r : Req) :
    runT prog extProtocol W C cfg s r = run W C cfg s r := by
  simp only [closed, Bool.and_eq_true, beq_iff_eq] at h
  obtain ⟨⟨hp, hu⟩, ha⟩ := h
  unfold runT run
  cases hc : create W C cfg s r with
  | mk cr rest =>
    cases rest with
    | mk s' l =>
      cases cr with
      | rejected g n sg =>
        have hk : (acts (.rejected (kindOf extProtocol g)) prog).1 = [.dispatchError] := by
          cases kindOf extProtocol g <;> assumption
        simp [hk, actsOut, actOut]
      | ok op =>
        simp only [ha, actsOut, actOut]
        cases hd : dispatch cfg.exts r with
        | mk lo st =>
          cases st <;> simp

open Transport in
/-- **Every transport ⊨ Spec.** For every transport of the regenerated list, every assignment of error
kinds to extensions, every lawful cache, every state reachable by a history, every request: a request
failing any gate executes nothing and is answered with errors only; an accepted one runs the hooks in
lifecycle order, first-registered outermost, each exactly as often as `Spec.expected` says; the
executor accepts iff every gate passes. -/
theorem transports_satisfy_spec (g : TGate) (hg : g ∈ Gen.TransportGates.gates) (extProtocol : Nat → Bool)
    (W : World) {C : CacheImpl σ Doc Nat} {view : σ → Nat → Option Doc}
    (law : Lawful C view) (cfg : Cfg) (s : St σ) (r : Req)
    (hinv : Inv W view s.cache) (hc : Complete s.rules) :
    Spec.ok W cfg.exts r (runT g.prog extProtocol W C cfg s r).1.log (runT g.prog extProtocol W C cfg s r).1.resps = true ∧
    ((runT g.prog extProtocol W C cfg s r).1.gate = none ↔ (Spec.accepts W cfg.exts r).isSome = true) := by
  have hcl : closed g.prog = true := List.all_eq_true.mp gen_transport_gates_closed g hg
  rw [closed_runT_eq_run hcl]
  exact ⟨(run_satisfies_spec W law cfg s r hinv hc).1, (run_satisfies_spec W law cfg s r hinv hc).2.1⟩

/-- non-vacuity: the regenerated list is not empty and contains the websocket transport -/
example : ∃ g ∈ Gen.TransportGates.gates, g.file = "websocket.go" := by decide

open Transport in
/-- **Why `closed` is needed** (the shape a websocket `subscribe` would have if only the protocol-kind
arm ended the operation): a query that a context mutator rejects with a user-kind error gets its error
answer *and* is executed — interceptors, directive and resolver run and a data answer follows; the Spec
rejects that observation, while the same program is fine for a protocol-kind rejection. -/
theorem open_gate_executes_rejected_witness :
    let prog : List TStmt :=
      [.onRejected [.dispatchError, .onKind [.send "sendError", .send "complete", .ret] [.send "sendResponse"]] [],
       .dispatchOperation, .send "sendResponse"]
    let W : World := { parse := fun _ => some { id := 0, ops := [⟨"", false, [0]⟩], nField := 0, nOther := 0, sugg := false } }
    let cfg : Cfg := { exts := [{ id := 1, pm := false, cm := true, op := true, resp := false, root := false, field := true }] }
    let r : Req := { q := 0, cmReject := [1], polls := 2 }
    let o (userKind : Bool) := (runT prog (fun _ => !userKind) W noCache cfg ⟨(), initRules⟩ r).1
    closed prog = false ∧
    (o true).gate = some (.cm 1) ∧ (o true).log.any (·.isExecution) = true ∧
    Spec.ok W cfg.exts r (o true).log (o true).resps = false ∧
    Spec.ok W cfg.exts r (o false).log (o false).resps = true := by
  decide

end GqlgenVerif.Props.C03
