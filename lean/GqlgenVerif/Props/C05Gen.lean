import GqlgenVerif.Gen.JoinFacts
/-!
# C05 (facts of the generated code the join / hand-off models rest on)

Re-extracted on every run from a server generated with `worker_limit: 2`. They instantiate the two
parameters of `Model/Join.lean`: `ackFail = true` (every failed-Acquire branch calls `wg.Done()` and
writes `graphql.Null`, every element func defers `sm.Release; wg.Done`) and `ctxAware = true` (every
send to / receive from `ec.deferredResults` sits in a `select` with a `Done()` case).
-/
namespace GqlgenVerif.C05Gen
open GqlgenVerif.Gen.JoinFacts

theorem every_failed_acquire_is_accounted_for :
    listJoins.all (fun r => r.2.1 && r.2.2.1 && r.2.2.2) = true := by decide

theorem handoff_is_context_aware :
    sendsBare = 0 ∧ receivesBare = 0 ∧ sendsGuarded ≥ 1 ∧ receivesGuarded ≥ 1 := by decide

theorem facts_nonempty : listJoins.length > 3 := by decide

end GqlgenVerif.C05Gen
