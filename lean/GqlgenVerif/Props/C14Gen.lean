import GqlgenVerif.Lemmas.ComplexitySwitch
import GqlgenVerif.Props.C14
/-!
# C14 — the generated `Complexity()` switch hands every schema field to the function configured for it

The walker theorems of `Props/C14.lean` quantify over an abstract `Custom`. In a generated server that
function is `executableSchema.Complexity`: a `switch typeName + "." + field` emitted by
`codegen/generated!.gotpl` / `codegen/root_.gotpl` from `(*Object).UniqueFields`
(`codegen/complexity.go`), which groups the fields of an object by the Go field they are bound to
(several schema fields may share one Go field and therefore one `ComplexityRoot` entry).
`uniqueFields` below is the definition **regenerated** from that source on every run
(`Gen/UniqueFields.lean`, `go/extract/uniquefields.go`); `armOf`/`arms`/`dispatch`/`switchCustom`
(`Model/ComplexitySwitch.lean`) model the template and are tied to the really generated code by the
`gencx`/`gencalc`/`gengate` streams of the check.

All theorems quantify over every list of objects, every binding of fields to Go names (any number of
fields per Go name), every `ComplexityRoot`, every type name / field name asked for.
-/
namespace GqlgenVerif.Props.C14Gen
open GqlgenVerif GqlgenVerif.Complexity GqlgenVerif.FieldMap GqlgenVerif.Gen.UniqueFields
open GqlgenVerif.ComplexitySwitch GqlgenVerif.Lemmas.ComplexitySwitch

/-! ## the grouping (over the regenerated definition) -/

/-- every group of `UniqueFields` is exactly the fields bound to that Go name, in schema order, and is
    not empty -/
theorem uniqueFields_groups (fs : List GField) (k : String) (v : List GField) (h : (k, v) ∈ uniqueFields fs) :
    v = fs.filter (fun f => decide (f.goName = k)) ∧ v ≠ [] :=
  (inv_uniqueFields fs).1 k v h

/-- no field is lost: every field is a member of the group of its Go name (not only the last one bound
    to that name) -/
theorem uniqueFields_covers (fs : List GField) (f : GField) (h : f ∈ fs) :
    ∃ v, (f.goName, v) ∈ uniqueFields fs ∧ f ∈ v := by
  obtain ⟨v, hv⟩ := (inv_uniqueFields fs).2 f h
  refine ⟨v, hv, ?_⟩
  rw [(uniqueFields_groups fs _ _ hv).1]
  simp [List.mem_filter, h]

/-- `o.UniqueFields()[k]` for every key, present or not -/
theorem uniqueFields_get (fs : List GField) (k : String) :
    (uniqueFields fs).get k = fs.filter (fun f => decide (f.goName = k)) := by
  rcases get_cases (uniqueFields fs) k with h | ⟨h1, h2⟩
  · exact (uniqueFields_groups fs _ _ h).1
  · rw [h1]
    symm
    rw [List.filter_eq_nil_iff]
    intro f hf hk
    simp at hk
    obtain ⟨v, hv, _⟩ := uniqueFields_covers fs f hf
    rw [hk] at hv
    exact h2 v hv

example : uniqueFields [⟨"total", "Total", false⟩, ⟨"sum", "Total", false⟩, ⟨"cheap", "Cheap", false⟩]
    = [("Cheap", [⟨"cheap", "Cheap", false⟩]), ("Total", [⟨"total", "Total", false⟩, ⟨"sum", "Total", false⟩])] := by
  decide

/-! ## the switch -/

/-- the body of a clause calls the `ComplexityRoot` entry named by the key of its group -/
theorem arm_entry (obj : String) (fs : List GField) (g : String × List GField) (h : g ∈ uniqueFields fs) :
    (armOf obj g).entry = (obj, g.1) := by
  obtain ⟨hv, hne⟩ := uniqueFields_groups fs g.1 g.2 h
  unfold armOf
  cases hl : g.2.getLast? with
  | none => rfl
  | some l =>
    have hm : l ∈ g.2 := List.mem_of_getLast? hl
    rw [hv, List.mem_filter] at hm
    simp at hm
    simp [hm.2]

/-- sound: whatever entry the switch dispatches `typeName.field` to is the Go field that schema field is
    bound to -/
theorem switch_sound (objs : List GObject) (t f : String) (e : String × String)
    (h : dispatch objs t f = some e) : Spec.Bound objs t f e := by
  unfold dispatch at h
  rw [Option.map_eq_some_iff] at h
  obtain ⟨a, ha, hae⟩ := h
  have hmem := List.mem_of_find?_eq_some ha
  have hlab := List.find?_some ha
  simp only [decide_eq_true_eq] at hlab
  unfold arms at hmem
  rw [List.mem_flatMap] at hmem
  obtain ⟨o, ho, hao⟩ := hmem
  unfold armsOf at hao
  by_cases hr : o.reserved = true
  · simp [hr] at hao
  · simp only [hr, Bool.false_eq_true, ↓reduceIte, List.mem_map] at hao
    obtain ⟨g, hg, rfl⟩ := hao
    have hent := arm_entry o.name o.fields g hg
    obtain ⟨hv, _⟩ := uniqueFields_groups o.fields g.1 g.2 hg
    simp only [armOf, List.mem_map, List.mem_filter] at hlab
    obtain ⟨fd, ⟨hfd, hres⟩, heq⟩ := hlab
    rw [hv, List.mem_filter] at hfd
    simp only [decide_eq_true_eq] at hfd
    simp only [Prod.mk.injEq] at heq
    refine ⟨o, ho, heq.1, by simpa using hr, fd, hfd.1, heq.2, by simpa using hres, ?_⟩
    rw [← hae, hent, heq.1, hfd.2]

/-- complete: every (non-reserved) field of every (non-reserved) object has a `case`; none falls through
    to `return 0, false` (the default cost) -/
theorem switch_complete (objs : List GObject) (t f : String) (e : String × String)
    (h : Spec.Bound objs t f e) : (dispatch objs t f).isSome = true := by
  obtain ⟨o, ho, hn, hr, fd, hfd, hfn, hfr, _⟩ := h
  obtain ⟨v, hv, hfv⟩ := uniqueFields_covers o.fields fd hfd
  unfold dispatch
  rw [Option.isSome_map, List.find?_isSome]
  refine ⟨armOf o.name (fd.goName, v), ?_, ?_⟩
  · unfold arms
    rw [List.mem_flatMap]
    refine ⟨o, ho, ?_⟩
    unfold armsOf
    simp only [hr, Bool.false_eq_true, ↓reduceIte, List.mem_map]
    exact ⟨_, hv, rfl⟩
  · rw [decide_eq_true_eq]
    simp only [armOf, List.mem_map, List.mem_filter]
    exact ⟨fd, ⟨hfv, by simp [hfr]⟩, by rw [hn, hfn]⟩

theorem bound_of_entryOf (objs : List GObject) (t f : String) (e : String × String)
    (h : Spec.entryOf objs t f = some e) : Spec.Bound objs t f e := by
  unfold Spec.entryOf at h
  split at h
  · cases h
  · rename_i o ho
    split at h
    · cases h
    · rename_i hr
      split at h
      · cases h
      · rename_i fd hfd
        split at h
        · cases h
        · rename_i hfr
          have h1 := List.find?_some ho
          have h2 := List.find?_some hfd
          simp only [decide_eq_true_eq] at h1 h2
          simp only [Option.some.injEq] at h
          exact ⟨o, List.mem_of_find?_eq_some ho, h1, by simpa using hr, fd, List.mem_of_find?_eq_some hfd, h2,
            by simpa using hfr, h.symm⟩

theorem entryOf_of_bound (objs : List GObject) (hw : WellNamed objs) (t f : String) (e : String × String)
    (h : Spec.Bound objs t f e) : Spec.entryOf objs t f = some e := by
  obtain ⟨o, ho, hn, hr, fd, hfd, hfn, hfr, he⟩ := h
  have h1 := find_unique (fun o : GObject => o.name) objs hw.1 o ho
  have h2 := find_unique (fun g : GField => g.name) o.fields (hw.2 o ho) fd hfd
  simp only [hn] at h1
  simp only [hfn] at h2
  unfold Spec.entryOf
  simp [h1, h2, hr, hfr, he]

/-- in a valid schema the switch **is** the binding: `typeName.field` is dispatched to the entry of the Go
    field that schema field is bound to, and to nothing when there is no such field -/
theorem switch_eq_binding (objs : List GObject) (hw : WellNamed objs) (t f : String) :
    dispatch objs t f = Spec.entryOf objs t f := by
  cases hd : dispatch objs t f with
  | some e => exact (entryOf_of_bound objs hw t f e (switch_sound objs t f e hd)).symm
  | none =>
    cases hs : Spec.entryOf objs t f with
    | none => rfl
    | some e =>
      have := switch_complete objs t f e (bound_of_entryOf objs t f e hs)
      rw [hd] at this
      cases this

/-- `executableSchema.Complexity` of a generated server is the documented cost function: each schema field
    costs what the function configured for its Go field says — also when several schema fields share it -/
theorem generated_custom_eq_binding (objs : List GObject) (hw : WellNamed objs) (root : ComplexityRoot) :
    switchCustom objs root = Spec.boundCustom objs root := by
  funext t f child args
  simp only [switchCustom, Spec.boundCustom, switch_eq_binding objs hw t f]

/-- two schema fields bound to one Go field cost the same: the shared function's value -/
theorem shared_entry_same_cost (objs : List GObject) (hw : WellNamed objs) (root : ComplexityRoot)
    (t f g : String) (e : String × String) (hf : Spec.Bound objs t f e) (hg : Spec.Bound objs t g e)
    (child : Int) (args : Args) :
    switchCustom objs root t f child args = switchCustom objs root t g child args := by
  rw [generated_custom_eq_binding objs hw root]
  simp only [Spec.boundCustom, entryOf_of_bound objs hw t f e hf, entryOf_of_bound objs hw t g e hg]

def demoObjs : List GObject :=
  [⟨"Query", false, [⟨"report", "Report", false⟩, ⟨"__schema", "introspectSchema", true⟩], ["Root"]⟩,
   ⟨"Report", false, [⟨"total", "Total", false⟩, ⟨"sum", "Total", false⟩, ⟨"cheap", "Cheap", false⟩], []⟩]

example : WellNamed demoObjs := by
  unfold WellNamed demoObjs
  constructor
  · decide
  · intro o ho
    simp only [List.mem_cons, List.not_mem_nil, or_false] at ho
    rcases ho with rfl | rfl <;> decide

example : Spec.Bound demoObjs "Report" "total" ("Report", "Total") ∧ Spec.Bound demoObjs "Report" "sum" ("Report", "Total") := by
  constructor
  · exact ⟨_, List.mem_cons_of_mem _ (List.mem_cons_self ..), rfl, rfl, ⟨"total", "Total", false⟩, List.mem_cons_self .., rfl, rfl, rfl⟩
  · exact ⟨_, List.mem_cons_of_mem _ (List.mem_cons_self ..), rfl, rfl, ⟨"sum", "Total", false⟩,
      List.mem_cons_of_mem _ (List.mem_cons_self ..), rfl, rfl, rfl⟩

example : dispatch demoObjs "Report" "total" = some ("Report", "Total") ∧ dispatch demoObjs "Report" "sum" = some ("Report", "Total")
    ∧ dispatch demoObjs "Query" "__schema" = none ∧ dispatch demoObjs "Report" "nope" = none := by decide

/-! ## the walker over a generated server -/

/-- `complexity.Calculate` against a generated server computes the documented definition with the documented
    binding of cost functions to schema fields -/
theorem generated_complexity_eq_definition (S : Schema) (objs : List GObject) (hw : WellNamed objs) (root : ComplexityRoot)
    (hroot : ∀ o k fn c a, root o k = some fn → Go.inInt64 (fn c a)) (vars : Vars) (op : List Sel) :
    calculate S (switchCustom objs root) vars op = Spec.complexity S (ComplexitySwitch.Spec.boundCustom objs root) vars op := by
  have hin : (switchCustom objs root).InRange := by
    intro t f c a v h
    unfold switchCustom at h
    split at h
    · cases h
    · rename_i e _
      split at h
      · cases h
      · rename_i fn hfn
        simp only [Option.some.injEq] at h
        rw [← h]
        exact hroot _ _ fn c a hfn
  rw [C14.complexity_eq_definition S _ hin vars op, generated_custom_eq_binding objs hw root]

example : ∀ o k fn c a, (fun _ _ => some fun (_ : Int) (_ : Args) => (1000 : Int) : ComplexityRoot) o k = some fn → Go.inInt64 (fn c a) := by
  intro o k fn c a h
  simp only [Option.some.injEq] at h
  rw [← h]
  show Go.inInt64 1000
  unfold Go.inInt64 Go.minInt64 Go.maxInt64; omega

end GqlgenVerif.Props.C14Gen
