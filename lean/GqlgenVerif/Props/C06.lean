import GqlgenVerif.Lemmas.ExecPerm
import GqlgenVerif.Gen.GoBoundaries
/-!
# C06 — results are independent of resolver scheduling; mutation roots run serially

What is proved, for all shapes, oracles and paths:

* `fields_order_independent` — the fields of an object are independent tasks: completing them in **any**
  order (any permutation of the completion order, at every level, since the statement is about an
  arbitrary field list and the sub-results are themselves such completions) yields the same key/value
  pairs, the same failure status, and a permutation of the same errors and user-code invocations.
  The generated code writes `out.Values[i]` by index, so the data is then byte-identical.
* `shared_state_frame` — the only shared mutable state a field task reads is the response error list, and
  only through `HasFieldError(own path)`: its value and the effects it adds are the same from any two
  error-list states that hold nothing under its own path — whatever other tasks appended meanwhile.
* `mutation_roots_not_concurrent` — over facts re-extracted from the server generated on this run: the
  `_Mutation` object function hands no field to `out.Concurrently` (while `_Query` does), so root
  mutation fields run one after another on the calling goroutine, each including its sub-selection.

**Partial, and stated plainly**: schedules are modelled at task granularity (a task = the completion of
one field, at every nesting level). Finer interleavings — two tasks' error appends interleaved — are
covered by `shared_state_frame` only as an argument (every `HasFieldError` answer a task receives is
the same), not by a theorem over a small-step semantics. "No data race" is not a theorem (the Go
memory model is not modelled); it is observed with the race detector in the thorough tier.
-/
namespace GqlgenVerif.C06
open GqlgenVerif Spec GqlgenVerif.Gen.GoBoundaries

/-- **Any completion order gives the same result.** -/
theorem fields_order_independent (o : Oracle) (ty : String) (p : Path) {l l' : List (FInfo × Shape)}
    (h : l.Perm l') :
    SameUpToOrder (Spec.completeFields o ty l p) (Spec.completeFields o ty l' p) :=
  fields_perm o ty p h

/-- The generated mechanism, run over the fields in either order from an empty error list, agrees with
the Spec in both orders (so its data is order independent and its errors are a permutation). -/
theorem fields_order_independent_impl (o : Oracle) (ty : String) (p : Path)
    {l l' : List (FInfo × Shape)} (h : l.Perm l') (hw : fieldsWF l) (hw' : fieldsWF l') :
    (Impl.completeFields o ty l p {}).2.2.errs.Perm (Impl.completeFields o ty l' p {}).2.2.errs ∧
    ((Impl.completeFields o ty l p {}).2.1 > 0 ↔ (Impl.completeFields o ty l' p {}).2.1 > 0) := by
  have a := fields_rel o ty l p {} hw (by intro f _ x hx; simp at hx)
  have b := fields_rel o ty l' p {} hw' (by intro f _ x hx; simp at hx)
  have c := fields_perm o ty p h
  refine ⟨?_, ?_⟩
  · rw [a.st_eq, b.st_eq]; simpa using c.errs
  · rw [a.inval, b.inval]; exact c.none_iff

/-- **Frame property of the shared error list.** -/
theorem shared_state_frame (o : Oracle) (fi : FInfo) (sh : Shape) (p : Path) (st st' : St)
    (hwf : sh.WF) (hc : Clean st p) (hc' : Clean st' p) :
    (Impl.completeField o fi sh p st).1 = (Impl.completeField o fi sh p st').1 ∧
    ∃ δ : St, (Impl.completeField o fi sh p st).2 = st.append δ ∧
      (Impl.completeField o fi sh p st').2 = st'.append δ ∧ Under p δ := by
  have a := field_rel o fi sh p st hwf hc
  have b := field_rel o fi sh p st' hwf hc'
  exact ⟨by rw [a.out_eq, b.out_eq], _, a.st_eq, b.st_eq, a.under⟩

/-- errors appended by *other* tasks (none of them under `p`) leave the state clean for `p` -/
theorem foreign_errors_keep_clean (st e : St) (p : Path) (hc : Clean st p)
    (he : ∀ x ∈ e.errs, ¬ p <+: x.path) : Clean (st.append e) p := by
  intro x hx
  simp only [St.append_errs, List.mem_append] at hx
  rcases hx with hx | hx
  · exact hc x hx
  · exact he x hx

/-- **Root mutation fields are not dispatched concurrently** (regenerated fact), while query fields are. -/
theorem mutation_roots_not_concurrent :
    objectConcurrency.lookup "_Mutation" = some "false" ∧
    objectConcurrency.lookup "_Query" = some "true" := by decide

/-! non-vacuity -/
example : [(({ alias := "a", name := "x" } : FInfo), Shape.leaf false), ({ alias := "b", name := "y" }, Shape.leaf true)].Perm
    [(({ alias := "b", name := "y" } : FInfo), Shape.leaf true), ({ alias := "a", name := "x" }, Shape.leaf false)] :=
  List.Perm.swap _ _ _

end GqlgenVerif.C06
